/-
C15 — Coefficient-list setters follow the documented length and reduction rules.

Model: `Model/Setters.lean` (`poly::set(It,It,bool)`, `set(value_type,bool)`, `set_mpz(It,It)` and the
forwarding overloads / constructors / `operator=` / `poly_p` forwarders).  A polynomial with `m` moduli of
degree `n` is the list of its `n*m` words, modulus-major: word `(cm,i)` is `r[cm*n+i]`.

Every theorem is for all limb widths `w`, all `n`, all `m ≥ 1`, all moduli lists `P` (at least `m` entries),
all value lists and all previous contents `old` of the object.  `ModuliOK` (each modulus is positive and fits
a limb) is what the regenerated tables satisfy (`tables_moduli_ok`).
-/
import NflVerif.Proofs.Setters
import NflVerif.Generated.Params16
import NflVerif.Generated.Params32
import NflVerif.Generated.Params64

namespace Nfl.C15
open Nfl.Setters

/-- the first `m` moduli exist, are positive and fit a `w`-bit limb -/
def ModuliOK (w m : Nat) (P : List Nat) : Prop :=
  m ≤ P.length ∧ ∀ cm, cm < m → 0 < P.getD cm 0 ∧ P.getD cm 0 < 2 ^ w

/-! ### the stored value -/

theorem storeWord_reduce {w p : Nat} (v : Nat) (hp : 0 < p) (hw : p < 2 ^ w) :
    storeWord w true p v = v % p := by
  have : v % p < p := Nat.mod_lt _ hp
  simp [storeWord, Nat.mod_eq_of_lt (show v % p < 2 ^ w by omega)]

theorem storeWord_verbatim {w : Nat} (p v : Nat) (hv : v < 2 ^ w) : storeWord w false p v = v := by
  simp [storeWord, Nat.mod_eq_of_lt hv]

theorem storeMpz_eq {w p : Nat} (z : Int) (hp : 0 < p) (hw : p < 2 ^ w) :
    storeMpz w p z = (z % (p : Int)).toNat := by
  have h0 : 0 ≤ z % (p : Int) := Int.emod_nonneg _ (by omega)
  have h1 : z % (p : Int) < (p : Int) := Int.emod_lt_of_pos _ (by omega)
  unfold storeMpz
  exact Nat.mod_eq_of_lt (by omega)

/-- **setMpz_nonneg** — a big integer of any sign and magnitude is stored as its non-negative residue:
the stored word is in `[0,p)` and congruent to `z` modulo `p`. -/
theorem setMpz_nonneg (w p : Nat) (z : Int) (hp : 0 < p) (hw : p < 2 ^ w) :
    storeMpz w p z < p ∧ ((storeMpz w p z : Nat) : Int) % (p : Int) = z % (p : Int) ∧
      (p : Int) ∣ z - (storeMpz w p z : Int) := by
  have h0 : 0 ≤ z % (p : Int) := Int.emod_nonneg _ (by omega)
  have h1 : z % (p : Int) < (p : Int) := Int.emod_lt_of_pos _ (by omega)
  have e2 : ((storeMpz w p z : Nat) : Int) = z % (p : Int) := by rw [storeMpz_eq z hp hw]; omega
  refine ⟨by rw [storeMpz_eq z hp hw]; omega, ?_, ?_⟩
  · rw [e2, Int.emod_emod_of_dvd _ (Int.dvd_refl _)]
  · exact Int.dvd_self_sub_of_emod_eq e2.symm

/-! ### short lists: `k ≤ degree` -/

/-- general form (any `reduce`): value `i` goes to coefficient `i` of **every** modulus, the rest is zero -/
theorem set_short_gen (w n m : Nat) (P vals : List Nat) (reduce : Bool) (old : List Nat)
    (hm : 1 ≤ m) (hP : m ≤ P.length) (hold : old.length = n * m) (hk : vals.length ≤ n) :
    ∃ r, setList w n m P vals reduce old = .ok r ∧ r.length = n * m ∧
      ∀ cm i, cm < m → i < n →
        r[cm * n + i]? = some (if i < vals.length then storeWord w reduce (P.getD cm 0) (vals.getD i 0) else 0) := by
  obtain ⟨r, h1, h2, h3⟩ := setGen_short n m P (storeWord w reduce) vals old hm hP hold hk
  refine ⟨r, h1, h2, ?_⟩
  intro cm i hcm hi
  rw [h3 cm i hcm hi]
  by_cases h : i < vals.length <;> simp [h, List.getD]

/-- **set_short** — `k ≤ degree`, reduction on: word `(cm,i)` is `vals[i] mod p_cm` for `i < k`, `0` for `i ≥ k`. -/
theorem set_short (w n m : Nat) (P vals : List Nat) (old : List Nat)
    (hm : 1 ≤ m) (hP : ModuliOK w m P) (hold : old.length = n * m) (hk : vals.length ≤ n) :
    ∃ r, setList w n m P vals true old = .ok r ∧ r.length = n * m ∧
      ∀ cm i, cm < m → i < n →
        r[cm * n + i]? = some (if i < vals.length then vals.getD i 0 % P.getD cm 0 else 0) := by
  obtain ⟨r, h1, h2, h3⟩ := set_short_gen w n m P vals true old hm hP.1 hold hk
  refine ⟨r, h1, h2, ?_⟩
  intro cm i hcm hi
  rw [h3 cm i hcm hi, storeWord_reduce _ (hP.2 cm hcm).1 (hP.2 cm hcm).2]

/-! ### full lists: `k = degree × moduli` -/

theorem set_full_gen (w n m : Nat) (P vals : List Nat) (reduce : Bool) (old : List Nat)
    (hP : m ≤ P.length) (hold : old.length = n * m) (hk : vals.length = n * m) :
    ∃ r, setList w n m P vals reduce old = .ok r ∧ r.length = n * m ∧
      ∀ cm i, cm < m → i < n →
        r[cm * n + i]? = some (storeWord w reduce (P.getD cm 0) (vals.getD (cm * n + i) 0)) := by
  obtain ⟨r, h1, h2, h3⟩ := setGen_full n m P (storeWord w reduce) vals old hP hold hk
  refine ⟨r, h1, h2, ?_⟩
  intro cm i hcm hi
  rw [h3 cm i hcm hi]
  have hlt : cm * n + i < vals.length := by
    rw [hk]
    calc cm * n + i < cm * n + n := by omega
      _ = n * (cm + 1) := by rw [Nat.mul_add, Nat.mul_comm]; simp
      _ ≤ n * m := Nat.mul_le_mul_left n hcm
  simp [hlt, List.getD]

/-- **set_full** — `k = degree × moduli`, reduction on: word `(cm,i)` is `vals[cm·n+i] mod p_cm` (slice per modulus). -/
theorem set_full (w n m : Nat) (P vals : List Nat) (old : List Nat)
    (hP : ModuliOK w m P) (hold : old.length = n * m) (hk : vals.length = n * m) :
    ∃ r, setList w n m P vals true old = .ok r ∧ r.length = n * m ∧
      ∀ cm i, cm < m → i < n → r[cm * n + i]? = some (vals.getD (cm * n + i) 0 % P.getD cm 0) := by
  obtain ⟨r, h1, h2, h3⟩ := set_full_gen w n m P vals true old hP.1 hold hk
  refine ⟨r, h1, h2, ?_⟩
  intro cm i hcm hi
  rw [h3 cm i hcm hi, storeWord_reduce _ (hP.2 cm hcm).1 (hP.2 cm hcm).2]

/-! ### every other length throws and leaves the object as it was -/

/-- **set_throws** — `degree < k ≠ degree × moduli`: `std::runtime_error`, raised before any store. -/
theorem set_throws (w n m : Nat) (P vals : List Nat) (reduce : Bool) (old : List Nat)
    (hP : m ≤ P.length) (h1 : n < vals.length) (h2 : vals.length ≠ n * m) :
    setList w n m P vals reduce old = .error .badSize ∧
      objAfter old (setList w n m P vals reduce old) = old := by
  have h := setGen_throws n m P (storeWord w reduce) vals old hP h1 h2
  exact ⟨h, by simp [setList, h, objAfter]⟩

/-- the three length classes are exhaustive: a call that returns normally had `k ≤ n` or `k = n·m` -/
theorem set_ok_iff (w n m : Nat) (P vals : List Nat) (reduce : Bool) (old : List Nat) (hP : m ≤ P.length) :
    (∃ r, setList w n m P vals reduce old = .ok r) ↔ (vals.length ≤ n ∨ vals.length = n * m) := by
  constructor
  · rintro ⟨r, h⟩; exact (setGen_ok_length n m P _ vals old r h).2
  · intro h
    by_cases h1 : n < vals.length
    · have h2 : vals.length = n * m := by omega
      have h0 : ¬ (P.length < m) := by omega
      exact ⟨_, by simp [setList, setGen, h0, h2]; rfl⟩
    · have h0 : ¬ (P.length < m) := by omega
      have h3 : (decide (vals.length > n) && (vals.length != n * m)) = false := by simp; omega
      exact ⟨_, by simp only [setList, setGen, h0, h3, if_false]; rfl⟩

/-! ### single modulus: both length rules coincide -/

/-- **set_single_modulus** — with one modulus `degree × moduli = degree`: every `k ≤ n` (including `k = n`, where
the code takes the "full" branch) gives `vals[i] mod p` zero-padded, every `k > n` throws. -/
theorem set_single_modulus (w n : Nat) (P vals : List Nat) (old : List Nat)
    (hP : ModuliOK w 1 P) (hold : old.length = n) :
    (vals.length ≤ n →
      ∃ r, setList w n 1 P vals true old = .ok r ∧ r.length = n ∧
        ∀ i, i < n → r[i]? = some (if i < vals.length then vals.getD i 0 % P.getD 0 0 else 0)) ∧
    (n < vals.length → setList w n 1 P vals true old = .error .badSize ∧
        objAfter old (setList w n 1 P vals true old) = old) := by
  constructor
  · intro hk
    obtain ⟨r, h1, h2, h3⟩ := set_short w n 1 P vals old (by omega) hP (by simpa using hold) hk
    exact ⟨r, h1, by simpa using h2, fun i hi => by simpa using h3 0 i (by omega) hi⟩
  · intro hk
    exact set_throws w n 1 P vals true old hP.1 hk (by omega)

/-- for one modulus and `k = n` the slice rule and the prefix rule name the same words -/
theorem set_single_modulus_rules_agree (w n : Nat) (P vals : List Nat) (old : List Nat)
    (hP : ModuliOK w 1 P) (hold : old.length = n) (hk : vals.length = n) :
    ∃ r, setList w n 1 P vals true old = .ok r ∧
      (∀ i, i < n → r[i]? = some (vals.getD i 0 % P.getD 0 0)) ∧
      (∀ i, i < n → r[0 * n + i]? = some (vals.getD (0 * n + i) 0 % P.getD 0 0)) := by
  obtain ⟨r, h1, _, h3⟩ := set_full w n 1 P vals old hP (by simpa using hold) (by simpa using hk)
  exact ⟨r, h1, fun i hi => by simpa using h3 0 i (by omega) hi, fun i hi => h3 0 i (by omega) hi⟩

/-! ### reduction disabled -/

/-- **set_noreduce_verbatim** — with `reduce_coeffs = false` native words are stored verbatim
(even words `≥ p`), under both length rules. -/
theorem set_noreduce_verbatim (w n m : Nat) (P vals : List Nat) (old : List Nat)
    (hm : 1 ≤ m) (hP : m ≤ P.length) (hold : old.length = n * m) (hv : ∀ v ∈ vals, v < 2 ^ w) :
    (vals.length ≤ n →
      ∃ r, setList w n m P vals false old = .ok r ∧ r.length = n * m ∧
        ∀ cm i, cm < m → i < n → r[cm * n + i]? = some (if i < vals.length then vals.getD i 0 else 0)) ∧
    (vals.length = n * m →
      ∃ r, setList w n m P vals false old = .ok r ∧ r.length = n * m ∧
        ∀ cm i, cm < m → i < n → r[cm * n + i]? = some (vals.getD (cm * n + i) 0)) := by
  have hget : ∀ j, vals.getD j 0 < 2 ^ w := by
    intro j
    by_cases h : j < vals.length
    · have : vals.getD j 0 = vals[j] := by simp [List.getD, h]
      rw [this]; exact hv _ (List.getElem_mem h)
    · have hn : vals[j]? = none := by simp; omega
      have : vals.getD j 0 = 0 := by simp [List.getD, hn]
      rw [this]; exact Nat.two_pow_pos w
  constructor
  · intro hk
    obtain ⟨r, h1, h2, h3⟩ := set_short_gen w n m P vals false old hm hP hold hk
    refine ⟨r, h1, h2, fun cm i hcm hi => ?_⟩
    rw [h3 cm i hcm hi, storeWord_verbatim _ _ (hget i)]
  · intro hk
    obtain ⟨r, h1, h2, h3⟩ := set_full_gen w n m P vals false old hP hold hk
    refine ⟨r, h1, h2, fun cm i hcm hi => ?_⟩
    rw [h3 cm i hcm hi, storeWord_verbatim _ _ (hget _)]

/-! ### scalars -/

/-- **set_scalar** — a non-zero scalar `v` gives the constant polynomial: coefficient 0 of modulus `cm`
is `v mod p_cm`, everything else is 0. -/
theorem set_scalar (w n m : Nat) (P : List Nat) (v : Nat) (old : List Nat)
    (hn : 1 ≤ n) (hm : 1 ≤ m) (hP : ModuliOK w m P) (hold : old.length = n * m) (hv : v ≠ 0) :
    ∃ r, setScalar w n m P v true old = .ok r ∧ r.length = n * m ∧
      ∀ cm i, cm < m → i < n → r[cm * n + i]? = some (if i = 0 then v % P.getD cm 0 else 0) := by
  obtain ⟨r, h1, h2, h3⟩ := set_short w n m P [v] old hm hP hold (by simpa using hn)
  refine ⟨r, by simp [setScalar, hv, h1], h2, fun cm i hcm hi => ?_⟩
  rw [h3 cm i hcm hi]
  rcases Nat.eq_zero_or_pos i with h | h
  · subst h; simp
  · have : ¬ (i < 1) := by omega
    have h' : i ≠ 0 := by omega
    simp [h']

/-- the same with reduction disabled: the word `v` itself in every modulus -/
theorem set_scalar_noreduce (w n m : Nat) (P : List Nat) (v : Nat) (old : List Nat)
    (hn : 1 ≤ n) (hm : 1 ≤ m) (hP : m ≤ P.length) (hold : old.length = n * m) (hv : v ≠ 0) (hw : v < 2 ^ w) :
    ∃ r, setScalar w n m P v false old = .ok r ∧ r.length = n * m ∧
      ∀ cm i, cm < m → i < n → r[cm * n + i]? = some (if i = 0 then v else 0) := by
  obtain ⟨r, h1, h2, h3⟩ := (set_noreduce_verbatim w n m P [v] old hm hP hold (by simpa using hw)).1 (by simpa using hn)
  refine ⟨r, by simp [setScalar, hv, h1], h2, fun cm i hcm hi => ?_⟩
  rw [h3 cm i hcm hi]
  rcases Nat.eq_zero_or_pos i with h | h
  · subst h; simp
  · have h' : i ≠ 0 := by omega
    simp [h']

/-- **set_zero** — the scalar 0 gives the zero polynomial (whatever `reduce_coeffs`, whatever the moduli). -/
theorem set_zero (w n m : Nat) (P : List Nat) (reduce : Bool) (old : List Nat) (hold : old.length = n * m) :
    setScalar w n m P 0 reduce old = .ok (List.replicate (n * m) 0) := by
  simp [setScalar, overwrite_all _ _ (show old.length = (List.replicate (n * m) 0).length by simp [hold])]

/-! ### big integers -/

/-- **setMpz_short** — `k ≤ degree` big integers: word `(cm,i)` is the residue of `vals[i]` in `[0, p_cm)`. -/
theorem setMpz_short (w n m : Nat) (P : List Nat) (vals : List Int) (old : List Nat)
    (hm : 1 ≤ m) (hP : ModuliOK w m P) (hold : old.length = n * m) (hk : vals.length ≤ n) :
    ∃ r, setMpz w n m P vals old = .ok r ∧ r.length = n * m ∧
      ∀ cm i, cm < m → i < n →
        r[cm * n + i]? = some (if i < vals.length then (vals.getD i 0 % (P.getD cm 0 : Int)).toNat else 0) := by
  obtain ⟨r, h1, h2, h3⟩ := setGen_short n m P (storeMpz w) vals old hm hP.1 hold hk
  refine ⟨r, h1, h2, fun cm i hcm hi => ?_⟩
  rw [h3 cm i hcm hi]
  have hs : ∀ z : Int, storeMpz w (P.getD cm 0) z = (z % (P.getD cm 0 : Int)).toNat :=
    fun z => storeMpz_eq z (hP.2 cm hcm).1 (hP.2 cm hcm).2
  simp only [List.getD] at hs ⊢
  by_cases h : i < vals.length <;> simp [h, hs]

/-- **setMpz_full** — `k = degree × moduli` big integers: slice per modulus, non-negative residues. -/
theorem setMpz_full (w n m : Nat) (P : List Nat) (vals : List Int) (old : List Nat)
    (hP : ModuliOK w m P) (hold : old.length = n * m) (hk : vals.length = n * m) :
    ∃ r, setMpz w n m P vals old = .ok r ∧ r.length = n * m ∧
      ∀ cm i, cm < m → i < n →
        r[cm * n + i]? = some ((vals.getD (cm * n + i) 0 % (P.getD cm 0 : Int)).toNat) := by
  obtain ⟨r, h1, h2, h3⟩ := setGen_full n m P (storeMpz w) vals old hP.1 hold hk
  refine ⟨r, h1, h2, fun cm i hcm hi => ?_⟩
  rw [h3 cm i hcm hi]
  have hlt : cm * n + i < vals.length := by
    rw [hk]
    calc cm * n + i < cm * n + n := by omega
      _ = n * (cm + 1) := by rw [Nat.mul_add, Nat.mul_comm]; simp
      _ ≤ n * m := Nat.mul_le_mul_left n hcm
  have hs : ∀ z : Int, storeMpz w (P.getD cm 0) z = (z % (P.getD cm 0 : Int)).toNat :=
    fun z => storeMpz_eq z (hP.2 cm hcm).1 (hP.2 cm hcm).2
  simp only [List.getD] at hs ⊢
  simp [hlt, hs]

/-- **setMpz_throws** — the same length rule as for native words. -/
theorem setMpz_throws (w n m : Nat) (P : List Nat) (vals : List Int) (old : List Nat)
    (hP : m ≤ P.length) (h1 : n < vals.length) (h2 : vals.length ≠ n * m) :
    setMpz w n m P vals old = .error .badSize ∧ objAfter old (setMpz w n m P vals old) = old := by
  have h := setGen_throws n m P (storeMpz w) vals old hP h1 h2
  exact ⟨h, by simp [setMpz, h, objAfter]⟩

/-- a single `mpz_t` / `mpz_class` gives the constant polynomial with the non-negative residues -/
theorem setMpz_single (w n m : Nat) (P : List Nat) (z : Int) (old : List Nat)
    (hn : 1 ≤ n) (hm : 1 ≤ m) (hP : ModuliOK w m P) (hold : old.length = n * m) :
    ∃ r, setMpz1 w n m P z old = .ok r ∧ r.length = n * m ∧
      ∀ cm i, cm < m → i < n →
        r[cm * n + i]? = some (if i = 0 then (z % (P.getD cm 0 : Int)).toNat else 0) := by
  obtain ⟨r, h1, h2, h3⟩ := setMpz_short w n m P [z] old hm hP hold (by simpa using hn)
  refine ⟨r, h1, h2, fun cm i hcm hi => ?_⟩
  rw [h3 cm i hcm hi]
  rcases Nat.eq_zero_or_pos i with h | h
  · subst h; simp
  · have h' : i ≠ 0 := by omega
    simp [h']

/-! ### canonical range -/

/-- **set_canonical** — whenever a reducing setter returns normally every word is canonical: `< p_cm`. -/
theorem set_canonical (w n m : Nat) (P vals : List Nat) (old r : List Nat)
    (hm : 1 ≤ m) (hP : ModuliOK w m P) (hold : old.length = n * m)
    (h : setList w n m P vals true old = .ok r) :
    r.length = n * m ∧ ∀ cm i, cm < m → i < n → ∃ x, r[cm * n + i]? = some x ∧ x < P.getD cm 0 := by
  have hpos : ∀ cm, cm < m → 0 < P.getD cm 0 := fun cm hcm => (hP.2 cm hcm).1
  rcases (setGen_ok_length n m P _ vals old r h).2 with hk | hk
  · obtain ⟨r', h1, h2, h3⟩ := set_short w n m P vals old hm hP hold hk
    have : r' = r := by rw [h1] at h; cases h; rfl
    subst this
    refine ⟨h2, fun cm i hcm hi => ⟨_, h3 cm i hcm hi, ?_⟩⟩
    split
    · exact Nat.mod_lt _ (hpos cm hcm)
    · exact hpos cm hcm
  · obtain ⟨r', h1, h2, h3⟩ := set_full w n m P vals old hP hold hk
    have : r' = r := by rw [h1] at h; cases h; rfl
    subst this
    exact ⟨h2, fun cm i hcm hi => ⟨_, h3 cm i hcm hi, Nat.mod_lt _ (hpos cm hcm)⟩⟩

/-- the same for big integers -/
theorem setMpz_canonical (w n m : Nat) (P : List Nat) (vals : List Int) (old r : List Nat)
    (hm : 1 ≤ m) (hP : ModuliOK w m P) (hold : old.length = n * m)
    (h : setMpz w n m P vals old = .ok r) :
    r.length = n * m ∧ ∀ cm i, cm < m → i < n → ∃ x, r[cm * n + i]? = some x ∧ x < P.getD cm 0 := by
  have hpos : ∀ cm, cm < m → 0 < P.getD cm 0 := fun cm hcm => (hP.2 cm hcm).1
  have hlt : ∀ cm, cm < m → ∀ z : Int, (z % (P.getD cm 0 : Int)).toNat < P.getD cm 0 := by
    intro cm hcm z
    have h0 : 0 ≤ z % (P.getD cm 0 : Int) := Int.emod_nonneg _ (by have := hpos cm hcm; omega)
    have h1 : z % (P.getD cm 0 : Int) < (P.getD cm 0 : Int) :=
      Int.emod_lt_of_pos _ (by have := hpos cm hcm; omega)
    omega
  rcases (setGen_ok_length n m P _ vals old r h).2 with hk | hk
  · obtain ⟨r', h1, h2, h3⟩ := setMpz_short w n m P vals old hm hP hold hk
    have : r' = r := by rw [h1] at h; cases h; rfl
    subst this
    refine ⟨h2, fun cm i hcm hi => ⟨_, h3 cm i hcm hi, ?_⟩⟩
    split
    · exact hlt cm hcm _
    · exact hpos cm hcm
  · obtain ⟨r', h1, h2, h3⟩ := setMpz_full w n m P vals old hP hold hk
    have : r' = r := by rw [h1] at h; cases h; rfl
    subst this
    exact ⟨h2, fun cm i hcm hi => ⟨_, h3 cm i hcm hi, hlt cm hcm _⟩⟩

/-! ### the regenerated tables satisfy `ModuliOK` for every admissible number of moduli -/

theorem moduliOK_of_all (w m : Nat) (P : List Nat) (hm : m ≤ P.length)
    (h : P.all (fun p => decide (0 < p) && decide (p < 2 ^ w)) = true) : ModuliOK w m P := by
  refine ⟨hm, fun cm hcm => ?_⟩
  have hlt : cm < P.length := by omega
  have : P.getD cm 0 = P[cm] := by simp [List.getD, hlt]
  rw [this]
  have := List.all_eq_true.1 h P[cm] (List.getElem_mem hlt)
  simpa using this

set_option maxRecDepth 100000 in
theorem tables_moduli_ok :
    (∀ m, m ≤ Gen.P16.length → ModuliOK 16 m Gen.P16) ∧
    (∀ m, m ≤ Gen.P32.length → ModuliOK 32 m Gen.P32) ∧
    (∀ m, m ≤ Gen.P64.length → ModuliOK 64 m Gen.P64) :=
  ⟨fun m hm => moduliOK_of_all 16 m _ hm (by decide +kernel),
   fun m hm => moduliOK_of_all 32 m _ hm (by decide +kernel),
   fun m hm => moduliOK_of_all 64 m _ hm (by decide +kernel)⟩

/-! ### non-vacuity: concrete instances with the first two 16-bit moduli (15361, 13313), degree 4 -/

example : ModuliOK 16 2 [15361, 13313] := ⟨by decide, by decide⟩
-- short list, values 1, p0, p0+1
example : setList 16 4 2 [15361, 13313] [1, 15361, 15362] true [7, 7, 7, 7, 7, 7, 7, 7]
    = .ok [1, 0, 1, 0, 1, 2048, 2049, 0] := by rfl
-- full list
example : setList 16 4 2 [15361, 13313] [1, 2, 3, 15362, 5, 6, 7, 13314] true [7, 7, 7, 7, 7, 7, 7, 7]
    = .ok [1, 2, 3, 1, 5, 6, 7, 1] := by rfl
-- 5, 6, 7 and 9 values throw; the sentinel survives
example : setList 16 4 2 [15361, 13313] [1, 2, 3, 4, 5] true [7, 7, 7, 7, 7, 7, 7, 7] = .error .badSize := by rfl
example : objAfter [7, 7, 7, 7, 7, 7, 7, 7]
    (setList 16 4 2 [15361, 13313] [1, 2, 3, 4, 5, 6, 7, 8, 9] true [7, 7, 7, 7, 7, 7, 7, 7]) = [7, 7, 7, 7, 7, 7, 7, 7] := by decide
-- verbatim
example : setList 16 4 2 [15361, 13313] [65535, 15361] false [7, 7, 7, 7, 7, 7, 7, 7]
    = .ok [65535, 15361, 0, 0, 65535, 15361, 0, 0] := by rfl
-- single modulus, k = n
example : setList 16 4 1 [15361, 13313] [15360, 15361, 15362, 65535] true [7, 7, 7, 7] = .ok [15360, 0, 1, 4091] := by rfl
-- scalars
example : setScalar 16 4 2 [15361, 13313] 15000 true [7, 7, 7, 7, 7, 7, 7, 7] = .ok [15000, 0, 0, 0, 1687, 0, 0, 0] := by rfl
example : setScalar 16 4 2 [15361, 13313] 0 false [7, 7, 7, 7, 7, 7, 7, 7] = .ok [0, 0, 0, 0, 0, 0, 0, 0] := by rfl
-- negative and large integers
example : setMpz 16 4 2 [15361, 13313] [-1, -15361, 2 ^ 200] [7, 7, 7, 7, 7, 7, 7, 7]
    = .ok [15360, 0, 15009, 0, 13312, 11265, 7015, 0] := by rfl

end Nfl.C15
