/-
C04 on code obtained from the source text, part 2: `mpz2poly`, the round trips and `set_mpz`.

  (1) `mpz2poly_uW_eq`: the GENERATED `mpz2poly_uW` (`Generated/CrtAst.lean`, from clang's AST of `GMP::mpz2poly`) is the hand model
      `Crt.mpz2poly` for ALL moduli lists `ps`, integer vectors `zs` and initial contents `rop` of `m·n` words, provided `m·n < 2^64`
      (the index `cm*degree+i` is size_t arithmetic) and — 16/32 bit only — `0 < p ≤ 2^w` for every modulus (the `unsigned long` remainder is
      converted to `value_type`).  64 bit: no hypothesis on the moduli.
  (2) C04's round trips for the GENERATED pair, constructor included:
      `mpz2poly_poly2mpz_uW`:  mpz2poly_uW (poly2mpz_uW (gmp_ctor_uW …) a) = a          on canonical polynomials `a`,
      `poly2mpz_mpz2poly_uW`:  poly2mpz_uW (gmp_ctor_uW …) (mpz2poly_uW zs) = zs.map (· mod Q)   for ALL integer vectors.
  (3) the GENERATED `set_mpz` (`Generated/SetMpzAst.lean`) is C04's model `Crt.setMpz` (throw condition included), hence C04's `set_mpz_eq`
      for the generated initializer-list / single-integer forms.
-/
import NflVerif.Proofs.CrtAstEq2
import NflVerif.Proofs.SetMpzModels
import NflVerif.Properties.C04Ast
import NflVerif.Properties.C15MpzAst

namespace Nfl.C04Ast
open Nfl Nfl.Crt Nfl.Gen Nfl.CrtAstEq

variable {inv : Nat → Nat → Nat} {w : Nat} {ps : List Nat}

/-! ### (1) `mpz2poly` -/

theorem mpz2poly_u64_eq (ps : List Nat) (zs : List Int) (rop : List Nat) (hrop : rop.length = ps.length * zs.length)
    (hidx : ps.length * zs.length < 2 ^ 64) : mpz2poly_u64 ps.length zs.length ps rop zs = Crt.mpz2poly ps zs := by
  rw [mpz2poly_u64_nf]
  exact mpz2polyNF_eq id id ps zs rop (fun _ _ _ => rfl) hrop hidx

theorem mpz2poly_u32_eq (ps : List Nat) (zs : List Int) (rop : List Nat) (hrop : rop.length = ps.length * zs.length)
    (hidx : ps.length * zs.length < 2 ^ 64) (hp : ∀ p ∈ ps, 0 < p ∧ p ≤ 2 ^ 32) :
    mpz2poly_u32 ps.length zs.length ps rop zs = Crt.mpz2poly ps zs := by
  rw [mpz2poly_u32_nf]
  exact mpz2polyNF_eq _ _ ps zs rop (fun p h z => conv_ok 32 (by decide) p (hp p h).1 (hp p h).2 z) hrop hidx

theorem mpz2poly_u16_eq (ps : List Nat) (zs : List Int) (rop : List Nat) (hrop : rop.length = ps.length * zs.length)
    (hidx : ps.length * zs.length < 2 ^ 64) (hp : ∀ p ∈ ps, 0 < p ∧ p ≤ 2 ^ 16) :
    mpz2poly_u16 ps.length zs.length ps rop zs = Crt.mpz2poly ps zs := by
  rw [mpz2poly_u16_nf]
  exact mpz2polyNF_eq _ _ ps zs rop (fun p h z => conv_ok 16 (by decide) p (hp p h).1 (hp p h).2 z) hrop hidx

/-- `m·n < 2^64` is needed: with 2^63 moduli slots of degree 2 the index `cm*degree + i` wraps (shown on the index expression itself) -/
theorem idx_wrap_example : CSem.addU 64 (CSem.mulU 64 (2 ^ 63) 2) 1 ≠ 2 ^ 63 * 2 + 1 := by decide
/-- `p ≤ 2^w` is needed (16 bit): the remainder modulo 70001 does not fit `uint16_t` and is truncated by the store -/
theorem trunc_example : mpz2poly_u16 1 1 [70001] [0] [70000] ≠ Crt.mpz2poly [70001] [70000] := by decide
/-- `p ≠ 0` is needed (16 bit): GMP raises a division by zero; `GmpSem.fdiv_ui z 0 = z.toNat` is truncated, the model keeps it -/
theorem zero_modulus_example : mpz2poly_u16 1 1 [0] [0] [70000] ≠ Crt.mpz2poly [0] [70000] := by decide
/-- `rop` must have its `m·n` words -/
theorem short_rop_example : mpz2poly_u64 1 2 [7] [0] [8, 9] ≠ Crt.mpz2poly [7] [8, 9] := by decide

/-! ### (2) the round trips of the generated pair -/

theorem poly2mpz_length (gc : GmpConsts) (n : Nat) (a : List Nat) : (Crt.poly2mpz gc n a).length = n := by
  simp [Crt.poly2mpz]

/-- **mpz2poly ∘ poly2mpz = id** on canonical polynomials, for the generated constructor + `poly2mpz` + `mpz2poly` (64 bit).
`rop` / `rop2`: any initial contents of the integer array (n entries) and of the destination polynomial (m·n words). -/
theorem mpz2poly_poly2mpz_u64 (hinv : InvContract inv) (h : ModOK w ps) (hf : CtorFits w ps) (n : Nat) (rop : List Int) (rop2 a : List Nat)
    (ha : PolyCanon ps n a) (hrop : rop.length = n) (hrop2 : rop2.length = ps.length * n) (hidx : ps.length * n < 2 ^ 64) :
    mpz2poly_u64 ps.length n ps rop2 (poly2mpz_u64 ps.length n (gmp_ctor_u64 inv w ps.length ps) rop a) = a := by
  rw [ctor_u64_eq inv w ps hf]
  have h1 := poly2mpz_u64_eq (gmpInitWith inv w ps) n rop a gmp_L_length hrop hidx
  simp only [gmp_ps] at h1
  rw [h1]
  have hl := poly2mpz_length (gmpInitWith inv w ps) n a
  have h2 := mpz2poly_u64_eq ps (Crt.poly2mpz (gmpInitWith inv w ps) n a) rop2 (by rw [hl]; exact hrop2) (by rw [hl]; exact hidx)
  rw [hl] at h2
  rw [h2]
  exact C04.mpz2poly_poly2mpz hinv h n a ha

theorem mpz2poly_poly2mpz_u16 (hinv : InvContract inv) (h : ModOK 16 ps) (hf : CtorFits 16 ps) (n : Nat) (rop : List Int) (rop2 a : List Nat)
    (ha : PolyCanon ps n a) (hdata : ∀ x ∈ a, x < 2 ^ 16) (hrop : rop.length = n) (hrop2 : rop2.length = ps.length * n)
    (hidx : ps.length * n < 2 ^ 64) :
    mpz2poly_u16 ps.length n ps rop2 (poly2mpz_u16 ps.length n (gmp_ctor_u16 inv 16 ps.length ps) rop a) = a := by
  have hP : ∀ p ∈ ps, p < 2 ^ 64 := fun p hp => Nat.lt_of_le_of_lt (h.small p hp) (by decide)
  rw [ctor_u16_eq inv 16 ps hf hP]
  have h1 := poly2mpz_u16_eq (gmpInitWith inv 16 ps) n rop a hdata gmp_L_length hrop hidx
  simp only [gmp_ps] at h1
  rw [h1]
  have hl := poly2mpz_length (gmpInitWith inv 16 ps) n a
  have h2 := mpz2poly_u16_eq ps (Crt.poly2mpz (gmpInitWith inv 16 ps) n a) rop2 (by rw [hl]; exact hrop2) (by rw [hl]; exact hidx)
    (fun p hp => ⟨h.pos p hp, h.small p hp⟩)
  rw [hl] at h2
  rw [h2]
  exact C04.mpz2poly_poly2mpz hinv h n a ha

theorem mpz2poly_poly2mpz_u32 (hinv : InvContract inv) (h : ModOK 32 ps) (hf : CtorFits 32 ps) (n : Nat) (rop : List Int) (rop2 a : List Nat)
    (ha : PolyCanon ps n a) (hdata : ∀ x ∈ a, x < 2 ^ 32) (hrop : rop.length = n) (hrop2 : rop2.length = ps.length * n)
    (hidx : ps.length * n < 2 ^ 64) :
    mpz2poly_u32 ps.length n ps rop2 (poly2mpz_u32 ps.length n (gmp_ctor_u32 inv 32 ps.length ps) rop a) = a := by
  have hP : ∀ p ∈ ps, p < 2 ^ 64 := fun p hp => Nat.lt_of_le_of_lt (h.small p hp) (by decide)
  rw [ctor_u32_eq inv 32 ps hf hP]
  have h1 := poly2mpz_u32_eq (gmpInitWith inv 32 ps) n rop a hdata gmp_L_length hrop hidx
  simp only [gmp_ps] at h1
  rw [h1]
  have hl := poly2mpz_length (gmpInitWith inv 32 ps) n a
  have h2 := mpz2poly_u32_eq ps (Crt.poly2mpz (gmpInitWith inv 32 ps) n a) rop2 (by rw [hl]; exact hrop2) (by rw [hl]; exact hidx)
    (fun p hp => ⟨h.pos p hp, h.small p hp⟩)
  rw [hl] at h2
  rw [h2]
  exact C04.mpz2poly_poly2mpz hinv h n a ha

/-- **poly2mpz ∘ mpz2poly = (· mod Q)** on ARBITRARY integer vectors (any sign, any size), for the generated code (64 bit) -/
theorem poly2mpz_mpz2poly_u64 (hinv : InvContract inv) (h : ModOK w ps) (hf : CtorFits w ps) (zs : List Int) (rop : List Int) (rop2 : List Nat)
    (hrop : rop.length = zs.length) (hrop2 : rop2.length = ps.length * zs.length) (hidx : ps.length * zs.length < 2 ^ 64) :
    poly2mpz_u64 ps.length zs.length (gmp_ctor_u64 inv w ps.length ps) rop (mpz2poly_u64 ps.length zs.length ps rop2 zs)
      = zs.map (· % (ps.prod : Int)) := by
  rw [ctor_u64_eq inv w ps hf, mpz2poly_u64_eq ps zs rop2 hrop2 hidx]
  have h1 := poly2mpz_u64_eq (gmpInitWith inv w ps) zs.length rop (Crt.mpz2poly ps zs) gmp_L_length hrop hidx
  simp only [gmp_ps] at h1
  rw [h1]
  exact C04.poly2mpz_mpz2poly hinv h zs

/-- every word `mpz2poly` stores is below its modulus, hence a value of the limb type -/
theorem mpz2poly_lt_pow (h : ModOK w ps) (zs : List Int) : ∀ x ∈ Crt.mpz2poly ps zs, x ≤ 2 ^ w - 1 := by
  intro x hx
  unfold Crt.mpz2poly at hx
  obtain ⟨p, hp, hx⟩ := List.mem_flatMap.1 hx
  obtain ⟨z, _, rfl⟩ := List.mem_map.1 hx
  have := fdivUi_lt z p (h.pos p hp)
  have := h.small p hp
  omega

theorem poly2mpz_mpz2poly_u16 (hinv : InvContract inv) (h : ModOK 16 ps) (hf : CtorFits 16 ps) (zs : List Int) (rop : List Int) (rop2 : List Nat)
    (hrop : rop.length = zs.length) (hrop2 : rop2.length = ps.length * zs.length) (hidx : ps.length * zs.length < 2 ^ 64) :
    poly2mpz_u16 ps.length zs.length (gmp_ctor_u16 inv 16 ps.length ps) rop (mpz2poly_u16 ps.length zs.length ps rop2 zs)
      = zs.map (· % (ps.prod : Int)) := by
  have hP : ∀ p ∈ ps, p < 2 ^ 64 := fun p hp => Nat.lt_of_le_of_lt (h.small p hp) (by decide)
  rw [ctor_u16_eq inv 16 ps hf hP, mpz2poly_u16_eq ps zs rop2 hrop2 hidx (fun p hp => ⟨h.pos p hp, h.small p hp⟩)]
  have hd : ∀ x ∈ Crt.mpz2poly ps zs, x < 2 ^ 16 := fun x hx => by have := mpz2poly_lt_pow h zs x hx; omega
  have h1 := poly2mpz_u16_eq (gmpInitWith inv 16 ps) zs.length rop (Crt.mpz2poly ps zs) hd gmp_L_length hrop hidx
  simp only [gmp_ps] at h1
  rw [h1]
  exact C04.poly2mpz_mpz2poly hinv h zs

theorem poly2mpz_mpz2poly_u32 (hinv : InvContract inv) (h : ModOK 32 ps) (hf : CtorFits 32 ps) (zs : List Int) (rop : List Int) (rop2 : List Nat)
    (hrop : rop.length = zs.length) (hrop2 : rop2.length = ps.length * zs.length) (hidx : ps.length * zs.length < 2 ^ 64) :
    poly2mpz_u32 ps.length zs.length (gmp_ctor_u32 inv 32 ps.length ps) rop (mpz2poly_u32 ps.length zs.length ps rop2 zs)
      = zs.map (· % (ps.prod : Int)) := by
  have hP : ∀ p ∈ ps, p < 2 ^ 64 := fun p hp => Nat.lt_of_le_of_lt (h.small p hp) (by decide)
  rw [ctor_u32_eq inv 32 ps hf hP, mpz2poly_u32_eq ps zs rop2 hrop2 hidx (fun p hp => ⟨h.pos p hp, h.small p hp⟩)]
  have hd : ∀ x ∈ Crt.mpz2poly ps zs, x < 2 ^ 32 := fun x hx => by have := mpz2poly_lt_pow h zs x hx; omega
  have h1 := poly2mpz_u32_eq (gmpInitWith inv 32 ps) zs.length rop (Crt.mpz2poly ps zs) hd gmp_L_length hrop hidx
  simp only [gmp_ps] at h1
  rw [h1]
  exact C04.poly2mpz_mpz2poly hinv h zs

/-! ### (3) `set_mpz` -/

/-- the generated `set_mpz(std::initializer_list<mpz_class>)` (and with it `set_mpz<It>` on a whole sequence) is C04's model `Crt.setMpz`,
throw condition included; moduli `0 < p < 2^64` (C15's `ModuliOK 64`), object of exactly `n·m` words -/
theorem set_mpz_il_u64_eq_crt (n : Nat) (ps data : List Nat) (vals : List Int) (hn : n < 2 ^ 64) (hmn : n * ps.length < 2 ^ 64)
    (hp : ∀ p ∈ ps, 0 < p ∧ p < 2 ^ 64) (hd : data.length = n * ps.length) (hl : vals.length < 2 ^ 64) :
    set_mpz_il_u64 ps.length n ps data vals = Crt.setMpz ps n vals := by
  have hM : C15.ModuliOK 64 ps.length ps := ⟨Nat.le_refl _, fun cm hcm => by
    rw [List.getD_eq_getElem _ _ hcm]; exact hp _ (List.getElem_mem hcm)⟩
  rw [C15MpzAst.set_mpz_il_u64_eq n ps.length ps data vals ⟨by decide, hn, hmn, hM, by omega⟩ hl]
  exact SetMpzModels.setters_eq_crt 64 n ps vals data hd (fun p h => ⟨(hp p h).1, Nat.le_of_lt (hp p h).2⟩)

theorem set_mpz_il_u16_eq_crt (n : Nat) (ps data : List Nat) (vals : List Int) (hn : n < 2 ^ 64) (hmn : n * ps.length < 2 ^ 64)
    (hp : ∀ p ∈ ps, 0 < p ∧ p < 2 ^ 16) (hd : data.length = n * ps.length) (hl : vals.length < 2 ^ 64) :
    set_mpz_il_u16 ps.length n ps data vals = Crt.setMpz ps n vals := by
  have hM : C15.ModuliOK 16 ps.length ps := ⟨Nat.le_refl _, fun cm hcm => by
    rw [List.getD_eq_getElem _ _ hcm]; exact hp _ (List.getElem_mem hcm)⟩
  rw [C15MpzAst.set_mpz_il_u16_eq n ps.length ps data vals ⟨by decide, hn, hmn, hM, by omega⟩ hl]
  exact SetMpzModels.setters_eq_crt 16 n ps vals data hd (fun p h => ⟨(hp p h).1, Nat.le_of_lt (hp p h).2⟩)

/-- C04's `set_mpz_eq` for the generated code: at most `n` values ⇒ the object holds the generated-`mpz2poly` image (= `Crt.mpz2poly`) of the
zero-padded vector; covers the generated `set_mpz(mpz_class)` / `set_mpz(mpz_t)` / constructors, which forward to it -/
theorem set_mpz_il_u64_short_is_mpz2poly (n : Nat) (ps data : List Nat) (vals : List Int) (hn : n < 2 ^ 64) (hmn : n * ps.length < 2 ^ 64)
    (hp : ∀ p ∈ ps, 0 < p ∧ p < 2 ^ 64) (hd : data.length = n * ps.length) (hs : vals.length ≤ n) :
    set_mpz_il_u64 ps.length n ps data vals = some (Crt.mpz2poly ps (vals ++ List.replicate (n - vals.length) 0)) := by
  rw [set_mpz_il_u64_eq_crt n ps data vals hn hmn hp hd (by omega)]
  exact C04.set_mpz_eq n vals hs

/-- the generated single-integer setter and the generated `mpz2poly` store the same words -/
theorem set_mpz_class_u64_is_mpz2poly (n : Nat) (ps data rop : List Nat) (z : Int) (h1 : 1 ≤ n) (hn : n < 2 ^ 64) (hmn : n * ps.length < 2 ^ 64)
    (hp : ∀ p ∈ ps, 0 < p ∧ p < 2 ^ 64) (hd : data.length = n * ps.length) (hrop : rop.length = ps.length * n) :
    set_mpz_class_u64 ps.length n ps data z = some (mpz2poly_u64 ps.length n ps rop (z :: List.replicate (n - 1) 0)) := by
  have hl : (z :: List.replicate (n - 1) 0).length = n := by simp; omega
  have h2 := mpz2poly_u64_eq ps (z :: List.replicate (n - 1) 0) rop (by rw [hl]; exact hrop) (by rw [hl, Nat.mul_comm]; exact hmn)
  rw [hl] at h2
  rw [h2]
  unfold set_mpz_class_u64 CSemIter.mpzClassOf
  rw [set_mpz_il_u64_short_is_mpz2poly n ps data [z] hn hmn hp hd (by simpa using h1)]
  rfl

/-! ### non-vacuity -/

example : mpz2poly_u64 3 2 [7, 11, 13] [0, 0, 0, 0, 0, 0] [-1, 1000] = [6, 6, 10, 10, 12, 12] := by decide
example : mpz2poly_u16 2 2 [15361, 13313] [1, 2, 3, 4]
    (poly2mpz_u16 2 2 (gmp_ctor_u16 invMod 16 2 [15361, 13313]) [0, 0] [15360, 1, 13312, 2]) = [15360, 1, 13312, 2] := by decide

end Nfl.C04Ast
