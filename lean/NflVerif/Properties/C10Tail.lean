/-
C10 (continued) — the Gaussian tail bound ("Lemma 1" of FastGaussianNoise.hpp) as a THEOREM about the real discrete
Gaussian `D_{ℤ,σ,c}`, and the tail hypothesis `hT1`/`htail` of Properties/C10TV.lean discharged.

`rho σ c x = exp(−(x−c)²/(2σ²))`, `S σ c = Σ_{x∈ℤ} rho σ c x`, `D σ c x = rho σ c x / S σ c`,
`tailProb σ c T = (Σ_{|x−c| ≥ T} rho σ c x) / S σ c = P_{x←D}(|x − c| ≥ T)` (`tailProb_eq_tsum`)
— all defined in Proofs/GaussTail.lean, real-valued, `σ > 0` and `c` arbitrary reals.

  * `one_sided_right`, `one_sided_left`, `two_sided`   the geometric comparison on finite sets of integers;
  * `rho_summable`, `D_tsum_eq_one`                      `rho` is summable over `ℤ`, `D` sums to `1`;
  * `tailSum_le`                `Σ_{|x−c| ≥ T} rho ≤ 2·exp(−T²/(2σ²))·(1 + σ²/T)`              (`σ, T > 0`);
  * `normaliser_ge_nearest`     `S ≥ exp(−1/(8σ²))`                                              (`σ > 0`);
  * `normaliser_ge_wide`        `S ≥ (2σ − 1)·exp(−1/2)`                                         (`σ ≥ 1`);
  * `tailProb_le`               `P(|x−c| ≥ tσ) ≤ 2(1 + σ/t)·exp(−t²/2) / S`                     (`σ, t > 0`);
  * `tailProb_le_wide`          `P(|x−c| ≥ tσ) ≤ t·exp((1 − t²)/2)`                             (`σ ≥ 1`, `t ≥ 3`);
  * `tailProb_le_narrow`        `P(|x−c| ≥ tσ) ≤ 2(1 + σ/t)·exp(1/(8σ²))·exp(−t²/2)`           (`σ, t > 0`);
  * `lemma1`                    `σ ≥ 1`, `t ≥ 3`, `t² ≥ 1 + 2 ln t + 2k ln 2  ⟹  P(|x−c| ≥ tσ) ≤ 2^-k`;
  * `lemma1_narrow`             any `σ, t > 0`: `t² ≥ 2 ln(2(1+σ/t)) + 1/(4σ²) + 2k ln 2  ⟹  P(|x−c| ≥ tσ) ≤ 2^-k`;
  * `tailMass_nonneg`, `tailMass_le_tailProb`, `tailMass_le_tailProb_of_bounds`, `tailMass_lib_le_tailProb`
                                the framework's `tailMass (D σ c) v₀ nb` is the `D`-mass outside `{v₀..v₀+nb}`,
                                hence `0 ≤ tailMass ≤ P(|x−c| ≥ r)` as soon as the window contains `{|x−c| < r}`;
                                the library's window (`nb = 1 + 2h`, `h = ⌈tσ⌉`, `v₀ = rc − h`, `|rc − c| ≤ 1/2`)
                                contains `{|x − c| < h + 1/2}`: radius `h + 1/2 ≥ tσ + 1/2`, nothing is lost;
  * `tailMass_lib_le`           Lemma 1 for the library's window: `tailMass ≤ 2^-k`;
  * `tv_le_of_barrier_error_gauss`, `tv_budget_of_params_gauss_window`, `tv_budget_of_params_gauss`
                                the theorems of C10TV in `K = ℝ`, `q = D σ c`, with NO tail hypothesis left:
                                the only remaining numeric hypothesis is the barrier error `δ` (`hbar`, `hprec`).

SIDE CONDITIONS.  The library's comment states Lemma 1 with no condition on `σ` or `t`.  The elementary proof gives
the shape `t·√e·exp(−t²/2)` for `σ ≥ 1` and `t ≥ 3` (`2(1+σ/t) ≤ t(2σ−1)` needs `t ≥ 1+√3` at `σ = 1`); the premise
`t² ≥ 1 + 2 ln t + 2k ln 2` already forces `t ≥ 3` when `k ≥ 5`.  For `σ < 1` the normaliser can be as small as
`exp(−1/(8σ²))` and the library's shape is not claimed: `lemma1_narrow` states what is proved instead.
-/
import NflVerif.Properties.C10TV
import NflVerif.Proofs.GaussTail
import Mathlib.Analysis.Complex.ExponentialBounds

namespace Nfl.C10Tail
open Nfl.Gauss Nfl.Gauss.TV Nfl.Gauss.Tail Nfl.C10 Nfl.C10TV Finset

/-! ### (1) geometric comparison -/

/-- every finite set of integers `x` with `x − c ≥ T` has weight `≤ exp(−T²/(2σ²)) / (1 − exp(−T/σ²))`. -/
theorem one_sided_right {σ c T : ℝ} (hσ : 0 < σ) (hT : 0 < T) (A : Finset ℤ) (hA : ∀ x ∈ A, T ≤ (x : ℝ) - c) :
    ∑ x ∈ A, rho σ c x ≤ Real.exp (-(T ^ 2) / (2 * σ ^ 2)) * (1 - Real.exp (-T / σ ^ 2))⁻¹ :=
  sum_right_le hσ hT A hA

theorem one_sided_left {σ c T : ℝ} (hσ : 0 < σ) (hT : 0 < T) (A : Finset ℤ) (hA : ∀ x ∈ A, (x : ℝ) - c ≤ -T) :
    ∑ x ∈ A, rho σ c x ≤ Real.exp (-(T ^ 2) / (2 * σ ^ 2)) * (1 - Real.exp (-T / σ ^ 2))⁻¹ :=
  sum_left_le hσ hT A hA

theorem two_sided {σ c T : ℝ} (hσ : 0 < σ) (hT : 0 < T) (A : Finset ℤ) (hA : ∀ x ∈ A, T ≤ |(x : ℝ) - c|) :
    ∑ x ∈ A, rho σ c x ≤ 2 * Real.exp (-(T ^ 2) / (2 * σ ^ 2)) * (1 + σ ^ 2 / T) :=
  sum_two_sided_le hσ hT A hA

theorem rho_summable {σ : ℝ} (hσ : 0 < σ) (c : ℝ) : Summable (rho σ c) := Tail.rho_summable hσ c

/-- `D σ c` is a probability function on `ℤ`. -/
theorem D_tsum_eq_one {σ : ℝ} (hσ : 0 < σ) (c : ℝ) : (∀ x, 0 ≤ D σ c x) ∧ Summable (D σ c) ∧ ∑' x : ℤ, D σ c x = 1 :=
  ⟨D_nonneg hσ c, D_summable hσ c, D_tsum hσ c⟩

/-- `tailProb σ c T` is the probability of `|x − c| ≥ T` under `D σ c`. -/
theorem tailProb_is_prob (σ c T : ℝ) :
    tailProb σ c T = ∑' x : ℤ, if T ≤ |(x : ℝ) - c| then D σ c x else 0 := tailProb_eq_tsum σ c T

/-- **tail weight**: `Σ_{x∈ℤ, |x−c| ≥ T} exp(−(x−c)²/(2σ²)) ≤ 2·exp(−T²/(2σ²))·(1 + σ²/T)`. -/
theorem tailSum_le {σ c T : ℝ} (hσ : 0 < σ) (hT : 0 < T) :
    tailSum σ c T ≤ 2 * Real.exp (-(T ^ 2) / (2 * σ ^ 2)) * (1 + σ ^ 2 / T) := Tail.tailSum_le hσ hT

/-! ### (2) the normaliser -/

theorem normaliser_ge_nearest {σ : ℝ} (hσ : 0 < σ) (c : ℝ) : Real.exp (-1 / (8 * σ ^ 2)) ≤ S σ c :=
  S_ge_nearest hσ c

theorem normaliser_ge_wide {σ : ℝ} (hσ : 1 ≤ σ) (c : ℝ) : (2 * σ - 1) * Real.exp (-1 / 2) ≤ S σ c :=
  S_ge_wide hσ c

/-! ### (3) the tail probability at `T = t·σ` -/

theorem tailProb_le {σ c t : ℝ} (hσ : 0 < σ) (ht : 0 < t) :
    tailProb σ c (t * σ) ≤ 2 * (1 + σ / t) * Real.exp (-(t ^ 2) / 2) / S σ c :=
  div_le_div_of_nonneg_right (tailSum_le_scaled hσ ht) (S_pos hσ c).le

/-- **the library's shape** `t·√e·exp(−t²/2)`, for `σ ≥ 1` and `t ≥ 3`. -/
theorem tailProb_le_wide {σ c t : ℝ} (hσ : 1 ≤ σ) (ht : 3 ≤ t) :
    tailProb σ c (t * σ) ≤ t * Real.exp ((1 - t ^ 2) / 2) := by
  have hσ0 : 0 < σ := by linarith
  have ht0 : 0 < t := by linarith
  have hS := S_pos hσ0 c
  refine le_trans (tailProb_le hσ0 ht0) ?_
  rw [div_le_iff₀ hS]
  have hE : 0 ≤ Real.exp (-(t ^ 2) / 2) := (Real.exp_pos _).le
  have e : Real.exp ((1 - t ^ 2) / 2) = Real.exp (1 / 2) * Real.exp (-(t ^ 2) / 2) := by
    rw [← Real.exp_add]
    congr 1
    ring
  have e2 : Real.exp (1 / 2) * Real.exp (-1 / 2) = 1 := by
    rw [← Real.exp_add]
    have : (1 : ℝ) / 2 + -1 / 2 = 0 := by ring
    rw [this, Real.exp_zero]
  have h1 : 2 * (1 + σ / t) * Real.exp (-(t ^ 2) / 2) ≤ t * (2 * σ - 1) * Real.exp (-(t ^ 2) / 2) :=
    mul_le_mul_of_nonneg_right (wide_const_le hσ ht) hE
  have h2 : t * Real.exp (1 / 2) * Real.exp (-(t ^ 2) / 2) * ((2 * σ - 1) * Real.exp (-1 / 2)) ≤
      t * Real.exp (1 / 2) * Real.exp (-(t ^ 2) / 2) * S σ c :=
    mul_le_mul_of_nonneg_left (S_ge_wide hσ c)
      (mul_nonneg (mul_nonneg ht0.le (Real.exp_pos _).le) hE)
  have h3 : t * Real.exp (1 / 2) * Real.exp (-(t ^ 2) / 2) * ((2 * σ - 1) * Real.exp (-1 / 2)) =
      t * (2 * σ - 1) * Real.exp (-(t ^ 2) / 2) * (Real.exp (1 / 2) * Real.exp (-1 / 2)) := by ring
  rw [e2, mul_one] at h3
  rw [e]
  calc 2 * (1 + σ / t) * Real.exp (-(t ^ 2) / 2) ≤ t * (2 * σ - 1) * Real.exp (-(t ^ 2) / 2) := h1
    _ = _ := h3.symm
    _ ≤ t * Real.exp (1 / 2) * Real.exp (-(t ^ 2) / 2) * S σ c := h2
    _ = t * (Real.exp (1 / 2) * Real.exp (-(t ^ 2) / 2)) * S σ c := by ring

/-- every `σ > 0` (in particular `σ < 1`): the normaliser is only bounded by the nearest integer. -/
theorem tailProb_le_narrow {σ c t : ℝ} (hσ : 0 < σ) (ht : 0 < t) :
    tailProb σ c (t * σ) ≤ 2 * (1 + σ / t) * Real.exp (1 / (8 * σ ^ 2)) * Real.exp (-(t ^ 2) / 2) := by
  have hS := S_pos hσ c
  refine le_trans (tailProb_le hσ ht) ?_
  rw [div_le_iff₀ hS]
  have hA : 0 ≤ 2 * (1 + σ / t) * Real.exp (-(t ^ 2) / 2) := by positivity
  have h := mul_le_mul_of_nonneg_left (S_ge_nearest hσ c) hA
  have e : Real.exp (1 / (8 * σ ^ 2)) * Real.exp (-1 / (8 * σ ^ 2)) = 1 := by
    rw [← Real.exp_add]
    have : 1 / (8 * σ ^ 2) + -1 / (8 * σ ^ 2) = 0 := by ring
    rw [this, Real.exp_zero]
  calc 2 * (1 + σ / t) * Real.exp (-(t ^ 2) / 2)
      = 2 * (1 + σ / t) * Real.exp (1 / (8 * σ ^ 2)) * Real.exp (-(t ^ 2) / 2) * Real.exp (-1 / (8 * σ ^ 2)) := by
        have : 2 * (1 + σ / t) * Real.exp (1 / (8 * σ ^ 2)) * Real.exp (-(t ^ 2) / 2) * Real.exp (-1 / (8 * σ ^ 2)) =
            2 * (1 + σ / t) * Real.exp (-(t ^ 2) / 2) * (Real.exp (1 / (8 * σ ^ 2)) * Real.exp (-1 / (8 * σ ^ 2))) := by
          ring
        rw [this, e, mul_one]
    _ ≤ _ := mul_le_mul_of_nonneg_left (S_ge_nearest hσ c) (by positivity)

/-! ### (4) Lemma 1 -/

/-- **Lemma 1 of FastGaussianNoise.hpp**, with its side conditions: for `σ ≥ 1`, `t ≥ 3`, every centre `c` and every
`k`: `t ≥ sqrt(1 + 2 ln t + 2k ln 2)` implies `P_{x←D_{ℤ,σ,c}}(|x − c| ≥ tσ) ≤ 2^-k`. -/
theorem lemma1 {σ c t : ℝ} (k : ℕ) (hσ : 1 ≤ σ) (ht : 3 ≤ t)
    (h : 1 + 2 * Real.log t + 2 * (k : ℝ) * Real.log 2 ≤ t ^ 2) :
    tailProb σ c (t * σ) ≤ ((2 : ℝ) ^ k)⁻¹ :=
  le_trans (tailProb_le_wide hσ ht) (lemma1_arith (by linarith) k h)

/-- the version without `σ ≥ 1`. -/
theorem lemma1_narrow {σ c t : ℝ} (k : ℕ) (hσ : 0 < σ) (ht : 0 < t)
    (h : 2 * Real.log (2 * (1 + σ / t)) + 1 / (4 * σ ^ 2) + 2 * (k : ℝ) * Real.log 2 ≤ t ^ 2) :
    tailProb σ c (t * σ) ≤ ((2 : ℝ) ^ k)⁻¹ := by
  refine le_trans (tailProb_le_narrow hσ ht) ?_
  apply lemma1_arith_gen (by positivity) k
  have : 2 * (1 / (8 * σ ^ 2)) = 1 / (4 * σ ^ 2) := by field_simp; ring
  linarith

/-! ### (5) the framework's `tailMass` -/

/-- the mass `D` puts outside the window is non-negative — for every window. -/
theorem tailMass_nonneg {σ : ℝ} (hσ : 0 < σ) (c : ℝ) (v0 : ℤ) (nb : ℕ) : 0 ≤ tailMass (D σ c) v0 nb := by
  rw [tailMass_D_eq hσ c v0 nb]
  exact div_nonneg (tsum_nonneg (outRho_nonneg σ c v0 nb)) (S_pos hσ c).le

/-- **`tailMass ≤ P(|x − c| ≥ r)`** whenever the window `{v₀, …, v₀+nb}` contains every integer with `|x − c| < r`. -/
theorem tailMass_le_tailProb {σ : ℝ} (hσ : 0 < σ) (c r : ℝ) (v0 : ℤ) (nb : ℕ)
    (hcov : ∀ x : ℤ, |(x : ℝ) - c| < r → v0 ≤ x ∧ x ≤ v0 + (nb : ℤ)) :
    tailMass (D σ c) v0 nb ≤ tailProb σ c r := by
  rw [tailMass_D_eq hσ c v0 nb]
  exact div_le_div_of_nonneg_right (out_le_tailSum hσ c r v0 nb hcov) (S_pos hσ c).le

/-- … in particular when `v₀ ≤ c − r` and `c + r ≤ v₀ + nb`. -/
theorem tailMass_le_tailProb_of_bounds {σ : ℝ} (hσ : 0 < σ) (c r : ℝ) (v0 : ℤ) (nb : ℕ)
    (hlo : (v0 : ℝ) ≤ c - r) (hhi : c + r ≤ (v0 : ℝ) + (nb : ℝ)) :
    tailMass (D σ c) v0 nb ≤ tailProb σ c r := by
  apply tailMass_le_tailProb hσ c r v0 nb
  intro x hx
  obtain ⟨h1, h2⟩ := abs_lt.mp hx
  constructor
  · have : (v0 : ℝ) < (x : ℝ) := by linarith
    exact le_of_lt (by exact_mod_cast this)
  · have : (x : ℝ) < ((v0 + (nb : ℤ) : ℤ) : ℝ) := by push_cast; linarith
    exact le_of_lt (by exact_mod_cast this)

/-- **the library's window**: `nb = 1 + 2h` barriers, outputs `v0Of nb rc = rc − h, …, rc + h + 1`, `rc` any integer
within `1/2` of `c` (the rounded centre).  The radius guaranteed is `h + 1/2`. -/
theorem tailMass_lib_le_tailProb {σ : ℝ} (hσ : 0 < σ) (c : ℝ) (rc : ℤ) (hrc : |(rc : ℝ) - c| ≤ 1 / 2) (h : ℕ) :
    tailMass (D σ c) (v0Of (1 + 2 * h) rc) (1 + 2 * h) ≤ tailProb σ c ((h : ℝ) + 1 / 2) :=
  tailMass_le_tailProb hσ c _ _ _ (lib_window_covers hrc h)

/-- with `h = ⌈tσ⌉` (`number_of_barriers = 1 + 2·ceil(tail_bound·σ)`): `tailMass ≤ P(|x−c| ≥ tσ + 1/2) ≤ P(|x−c| ≥ tσ)`. -/
theorem tailMass_lib_le_tailProb_ceil {σ : ℝ} (hσ : 0 < σ) (c t : ℝ) (rc : ℤ) (hrc : |(rc : ℝ) - c| ≤ 1 / 2) :
    tailMass (D σ c) (v0Of (1 + 2 * ⌈t * σ⌉₊) rc) (1 + 2 * ⌈t * σ⌉₊) ≤ tailProb σ c (t * σ + 1 / 2) ∧
    tailProb σ c (t * σ + 1 / 2) ≤ tailProb σ c (t * σ) := by
  constructor
  · refine le_trans (tailMass_lib_le_tailProb hσ c rc hrc ⌈t * σ⌉₊) ?_
    apply tailProb_anti hσ c
    have := Nat.le_ceil (t * σ)
    linarith
  · exact tailProb_anti hσ c (by linarith)

/-- **Lemma 1 for the library's window**: `σ ≥ 1`, `t ≥ 3`, `t² ≥ 1 + 2 ln t + 2k ln 2` ⟹ the ideal mass outside the
sampler's support is at most `2^-k`. -/
theorem tailMass_lib_le {σ c t : ℝ} (k : ℕ) (rc : ℤ) (hrc : |(rc : ℝ) - c| ≤ 1 / 2) (hσ : 1 ≤ σ) (ht : 3 ≤ t)
    (h : 1 + 2 * Real.log t + 2 * (k : ℝ) * Real.log 2 ≤ t ^ 2) :
    tailMass (D σ c) (v0Of (1 + 2 * ⌈t * σ⌉₊) rc) (1 + 2 * ⌈t * σ⌉₊) ≤ ((2 : ℝ) ^ k)⁻¹ := by
  have hσ0 : 0 < σ := by linarith
  obtain ⟨h1, h2⟩ := tailMass_lib_le_tailProb_ceil hσ0 c t rc hrc
  exact le_trans h1 (le_trans h2 (lemma1 k hσ ht h))

/-! ### the total-variation theorems of C10TV with the tail hypothesis discharged -/

/-- `tv_le_of_barrier_error` for the real discrete Gaussian: `htail` is a theorem. -/
theorem tv_le_of_barrier_error_gauss {depth W wp : ℕ} {bs : List Str} {v0 : ℤ} {T : Tables} {σ : ℝ} (hσ : 0 < σ)
    (c δ : ℝ) (hW : 0 < W) (hwf : barriersWF W wp bs = true) (hsort : sortedB bs = true)
    (hT : tableOK depth W bs v0 T = true) (hwp : depth ≤ wp)
    (hbar : ∀ k (hk : k < bs.length), |(valOf W bs[k] : ℝ) / ((W ^ wp : ℕ) : ℝ) - cumQ (D σ c) v0 k| ≤ δ) :
    decTV depth W wp bs.length T (D σ c) v0 ≤ (bs.length : ℝ) * δ + tailMass (D σ c) v0 bs.length :=
  tv_le_of_barrier_error (D σ c) δ hW hwf hsort hT hwp (tailMass_nonneg hσ c v0 bs.length) hbar

/-- `tv_budget_of_params` for the real discrete Gaussian and any window containing `{|x − c| < tσ}`:
the remaining hypotheses are about the barrier error `δ` only. -/
theorem tv_budget_of_params_gauss_window {depth W wp : ℕ} {bs : List Str} {v0 : ℤ} {T : Tables} {σ c t : ℝ}
    (δ : ℝ) (lam m : ℕ) (hm : 1 ≤ m) (hσ : 1 ≤ σ) (ht : 3 ≤ t)
    (hlem : 1 + 2 * Real.log t + 2 * (kOf lam m : ℝ) * Real.log 2 ≤ t ^ 2)
    (hcov : ∀ x : ℤ, |(x : ℝ) - c| < t * σ → v0 ≤ x ∧ x ≤ v0 + (bs.length : ℤ))
    (hW : 0 < W) (hwf : barriersWF W wp bs = true) (hsort : sortedB bs = true)
    (hT : tableOK depth W bs v0 T = true) (hwp : depth ≤ wp)
    (hbar : ∀ k (hk : k < bs.length), |(valOf W bs[k] : ℝ) / ((W ^ wp : ℕ) : ℝ) - cumQ (D σ c) v0 k| ≤ δ)
    (hprec : (bs.length : ℝ) * δ ≤ ((2 : ℝ) ^ kOf lam m)⁻¹) :
    decTV depth W wp bs.length T (D σ c) v0 ≤ ((2 : ℝ) ^ lam)⁻¹ / (m : ℝ) := by
  have hσ0 : 0 < σ := by linarith
  exact tv_budget_of_params (D σ c) δ lam m hm hW hwf hsort hT hwp (tailMass_nonneg hσ0 c v0 bs.length) hbar hprec
    (le_trans (tailMass_le_tailProb hσ0 c (t * σ) v0 bs.length hcov) (lemma1 (kOf lam m) hσ ht hlem))

/-- **the library's parameters**: `bs.length = number_of_barriers = 1 + 2·⌈tσ⌉`, first output `v0Of nb rc`, `rc`
within `1/2` of the centre, `t = tail_bound` satisfying the premise of Lemma 1 for `k = kOf λ m`.  Then the decoder's
output law on a uniform input is within `2^-λ / m` of `D_{ℤ,σ,c}` in total variation, PROVIDED the barrier table is
within `δ` of the exact cumulative values with `nb·δ ≤ 2^-k` — no tail hypothesis. -/
theorem tv_budget_of_params_gauss {depth W wp : ℕ} {bs : List Str} {T : Tables} {σ c t : ℝ} (rc : ℤ)
    (δ : ℝ) (lam m : ℕ) (hm : 1 ≤ m) (hσ : 1 ≤ σ) (ht : 3 ≤ t)
    (hlem : 1 + 2 * Real.log t + 2 * (kOf lam m : ℝ) * Real.log 2 ≤ t ^ 2)
    (hrc : |(rc : ℝ) - c| ≤ 1 / 2) (hnb : bs.length = 1 + 2 * ⌈t * σ⌉₊)
    (hW : 0 < W) (hwf : barriersWF W wp bs = true) (hsort : sortedB bs = true)
    (hT : tableOK depth W bs (v0Of bs.length rc) T = true) (hwp : depth ≤ wp)
    (hbar : ∀ k (hk : k < bs.length),
      |(valOf W bs[k] : ℝ) / ((W ^ wp : ℕ) : ℝ) - cumQ (D σ c) (v0Of bs.length rc) k| ≤ δ)
    (hprec : (bs.length : ℝ) * δ ≤ ((2 : ℝ) ^ kOf lam m)⁻¹) :
    decTV depth W wp bs.length T (D σ c) (v0Of bs.length rc) ≤ ((2 : ℝ) ^ lam)⁻¹ / (m : ℝ) := by
  have hσ0 : 0 < σ := by linarith
  have htm : tailMass (D σ c) (v0Of bs.length rc) bs.length ≤ ((2 : ℝ) ^ kOf lam m)⁻¹ := by
    rw [hnb]
    exact tailMass_lib_le (kOf lam m) rc hrc hσ ht hlem
  exact tv_budget_of_params (D σ c) δ lam m hm hW hwf hsort hT hwp
    (tailMass_nonneg hσ0 c (v0Of bs.length rc) bs.length) hbar hprec htm

/-! ### non-vacuity: numbers close to the library's defaults

`σ = 20`, `λ = 128`, `m = 2^20`: `k = kOf 128 (2^20) = 149`.  `t = 15` satisfies the premise of Lemma 1
(`ln 15 ≤ 4 ln 2`, `ln 2 < 0.6931471808`: `1 + 306 ln 2 < 213.2 ≤ 225`); the library's Newton iteration returns
`t ≈ 14.6`.  `⌈15·20⌉ = 300`: `601` barriers. -/

theorem ex_k : kOf 128 (2 ^ 20) = 149 := by rw [kOf_two_pow]

theorem ex_premise : 1 + 2 * Real.log 15 + 2 * ((149 : ℕ) : ℝ) * Real.log 2 ≤ (15 : ℝ) ^ 2 := by
  have h2 := Real.log_two_lt_d9
  have h15 : Real.log 15 ≤ 4 * Real.log 2 := by
    have : Real.log 15 ≤ Real.log ((2 : ℝ) ^ 4) := Real.log_le_log (by norm_num) (by norm_num)
    rwa [Real.log_pow] at this
  push_cast
  nlinarith

/-- the tail probability of `D_{ℤ,20,c}` beyond `15σ = 300` is below `2^-149`, for every centre … -/
example (c : ℝ) : tailProb 20 c (15 * 20) ≤ ((2 : ℝ) ^ 149)⁻¹ :=
  lemma1 149 (by norm_num) (by norm_num) ex_premise

/-- … and so is the mass outside the library's window of `601` barriers around `round c`. -/
example (c : ℝ) : tailMass (D 20 c) (v0Of (1 + 2 * ⌈(15 : ℝ) * 20⌉₊) (round c)) (1 + 2 * ⌈(15 : ℝ) * 20⌉₊) ≤
    ((2 : ℝ) ^ kOf 128 (2 ^ 20))⁻¹ := by
  rw [ex_k]
  exact tailMass_lib_le 149 (round c) (by rw [abs_sub_comm]; exact abs_sub_round c) (by norm_num) (by norm_num)
    ex_premise

/-- the `σ < 1` version is usable too: `σ = 1/2`, `t = 16`, `k = 149`
(`2 ln(2(1 + 1/32)) + 1 + 298 ln 2 ≤ 2·(33/16 − 1) + 1 + 206.6 < 256`). -/
example (c : ℝ) : tailProb (1 / 2) c (16 * (1 / 2)) ≤ ((2 : ℝ) ^ 149)⁻¹ := by
  apply lemma1_narrow 149 (by norm_num) (by norm_num)
  have h2 := Real.log_two_lt_d9
  have hl : Real.log (2 * (1 + (1 / 2 : ℝ) / 16)) ≤ 2 * (1 + (1 / 2 : ℝ) / 16) - 1 :=
    Real.log_le_sub_one_of_pos (by norm_num)
  push_cast
  norm_num at hl ⊢
  nlinarith

end Nfl.C10Tail
