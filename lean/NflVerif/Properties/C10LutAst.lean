/-
C10 on `buildLookupTables` obtained from the source text.

`Generated/LutAst.lean` is produced on every run by `tools/gen_lut_ast.py` from clang's typed AST of
include/nfl/prng/FastGaussianNoise.hpp (`buildLookupTables`, instantiations <uint8_t,int32_t,1>, <uint16_t,int64_t,1>,
<uint16_t,int64_t,2>, <uint8_t,uint64_t,2>; per-node semantics Model/CSem.lean + CSemGauss.lean + CSemLut.lean; the barriers are a
PARAMETER: `barriers : List (List Nat)`, `_number_of_barriers`, `_lu_size`, `rounded_center`).
PROVED (for all inputs):
  * `fill_ast_eq`, `run_ast_eq`: the two inner loops of the generated depth-1 builder EQUAL the hand model's `fillLoop` / `runLoop1`
    for every fuel, every table, every barrier list, every `val` (taken mod 2^64).
  * `build_ast_eq_*` (4 instantiations, both depths): the WHOLE generated function equals the hand model `buildLUT` — `lu_table`
    (and `lu_table2` at depth 2) are the encodings of the model's tables, and the generated function is `none` (an access outside an
    object, or a `while` out of fuel) exactly when the model is.  For EVERY barrier list and every `_lu_size < 2^31`.  Hypotheses:
    `_number_of_barriers = bs.length`, `1 ≤ nb < 2^31`, barrier words `< 2^31` (C type of `in_class`), and `CenterOK`: the `int`
    expressions `-((int)nb-1)/2 + rounded_center`, `((int)nb-1)/2 + rounded_center` do not overflow (signed overflow is undefined).
    (Proofs/LutAstEq.lean, LutAstEq2.lean (depth 1), LutAstEq3.lean (depth 2): simulation of every loop, invariant
    `b_index ≤ nb ∧ val = v₀ + b_index`; that the translator's fuels suffice is part of the equality.)
  * `tables_ast_tableOK_*`: UNCONDITIONALLY, for every well-formed sorted barrier table (C10's hypotheses), the GENERATED builder
    returns tables that are the encoding of tables satisfying `tableOK` (via `C10.buildLUT_tableOK`);
  * `iter_on_ast_tables_invCDF_*`: hence one GENERATED sampling iteration run on the GENERATED tables returns the inverse CDF
    (via `C10Ast.iter_ast_invCDF_*`).
-/
import NflVerif.Proofs.LutAstEq3
import NflVerif.Properties.C10Ast

namespace Nfl.C10LutAst
open Nfl Nfl.Gauss Nfl.Gen Nfl.CGauss

theorem cout_i32 : CoutOK 32 (CSem.castSS 64 32) := by
  intro v; simp only [CSem.castSS, enc]
  by_cases h : (v % 2 ^ 64).toNat % 2 ^ 64 < 2 ^ (64 - 1) <;> simp only [h, if_true, if_false] <;> omega
theorem cout_i64 : CoutOK 64 (fun x => x) := fun _ => rfl
theorem cout_u64 : CoutOK 64 (CGauss.castSwU 64 64) := by
  intro v; simp only [CGauss.castSwU, enc]
  by_cases h : (v % 2 ^ 64).toNat % 2 ^ 64 < 2 ^ (64 - 1) <;> simp only [h, if_true, if_false] <;> omega

/-- the fill loop of the generated builder = `Gauss.fillLoop` -/
theorem fill_ast_eq (ob W : Nat) (cout : Nat → Nat) (hc : CoutOK ob cout) (bs : List Str) (b : Nat) (hb : b < 2 ^ 63)
    (s : Str) (first : Nat) (hs : bs[b]? = some s) (h0 : s[0]? = some first) (hf : first < 2 ^ 31) (hW : W < 2 ^ 32)
    (v : Int) (fuel lu1 : Nat) (t : Array Cell) :
    CLut.whileFuel fuel (fillCond W bs b) (fillBody cout (enc 64 v)) (encA ob t, lu1) =
      (fillLoop W first v fuel lu1 t).map (fun r => (encA ob r.2, r.1)) :=
  fill_sim ob W cout hc bs b hb s first hs h0 hf hW v fuel lu1 t

/-- the barrier-run loop of the generated depth-1 builder = `Gauss.runLoop1` (the pushed barriers end up in the cell's list) -/
theorem run_ast_eq (ob nb : Nat) (bs : List Str) (hnb : nb = bs.length) (hn31 : nb < 2 ^ 31) (hsm : ∀ s ∈ bs, Small s)
    (lu1 fuel b : Nat) (hb : b ≤ nb) (v : Int) (t : Array Cell) (ht : lu1 < t.size) :
    CLut.whileFuel fuel (run1Cond nb bs lu1) (run1Body bs lu1) (encA ob t, enc 64 v, b) =
      (runLoop1 bs.toArray lu1 fuel b v []).map (fun r =>
        (encA ob (t.set lu1 (addBl t[lu1] r.2.2)), enc 64 r.2.1, r.1)) :=
  run1_sim ob nb bs hnb hn31 hsm lu1 fuel b hb v t ht

/-- `b ≤ nb` is needed: past the end of the array the code's `b_index < _number_of_barriers` test and the model's agree, but the
generated text for `nb ≠ bs.length` reads `barriers[nb]` -/
example : CLut.whileFuel 3 (run1Cond 2 [[0]] 0) (run1Body [[0]] 0) (encA 32 #[default], 0, 1) = none ∧
    runLoop1 #[[0]] 0 3 1 0 [] = some (1, 0, []) := by decide

/-! ### the whole function -/

/-- the `int` expressions of the `for` header do not overflow (signed overflow is undefined behaviour) -/
def CenterOK (nb : Nat) (rc : Int) : Prop :=
  -(2 ^ 31 : Int) ≤ rc ∧ rc < 2 ^ 31 ∧ -(2 ^ 31 : Int) ≤ v0Of nb rc ∧ vmaxOf nb rc < 2 ^ 31

theorem buildLUT_one (W : Nat) (bs : List Str) (rc : Int) : buildLUT 1 W bs rc = buildLUT1 W bs rc := rfl
theorem buildLUT_two (W : Nat) (bs : List Str) (rc : Int) : buildLUT 2 W bs rc = buildLUT2 W bs rc := rfl

/-- **`buildLookupTables<uint8_t,int32_t,1>` from the source text = `buildLUT 1`** (every barrier list, every `_lu_size < 2^31`) -/
theorem build_ast_eq_u8_i32_1 (W : Nat) (bs : List Str) (rc : Int) (hnb1 : 1 ≤ bs.length) (hn31 : bs.length < 2 ^ 31)
    (hsm : ∀ s ∈ bs, Small s) (hW : W < 2 ^ 31) (hrc : CenterOK bs.length rc) :
    (buildLookupTables_u8_i32_1 bs.length W (enc 32 rc) bs).map (fun r => r.2.2) = (buildLUT 1 W bs rc).map (encT1 32) := by
  rw [build_u8_i32_1_eq_G, buildLUT_one]
  exact buildG1_eq 32 bs.length W _ cout_i32 bs rc rfl hnb1 hn31 hsm hW hrc.1 hrc.2.1 hrc.2.2.1 hrc.2.2.2

theorem build_ast_eq_u16_i64_1 (W : Nat) (bs : List Str) (rc : Int) (hnb1 : 1 ≤ bs.length) (hn31 : bs.length < 2 ^ 31)
    (hsm : ∀ s ∈ bs, Small s) (hW : W < 2 ^ 31) (hrc : CenterOK bs.length rc) :
    (buildLookupTables_u16_i64_1 bs.length W (enc 32 rc) bs).map (fun r => r.2.2) = (buildLUT 1 W bs rc).map (encT1 64) := by
  rw [build_u16_i64_1_eq_G, buildLUT_one]
  exact buildG1_eq 64 bs.length W _ cout_i64 bs rc rfl hnb1 hn31 hsm hW hrc.1 hrc.2.1 hrc.2.2.1 hrc.2.2.2

/-- **depth 2, `<uint16_t,int64_t,2>`: `lu_table` and `lu_table2` = `buildLUT 2`** -/
theorem build_ast_eq_u16_i64_2 (W : Nat) (bs : List Str) (rc : Int) (hnb1 : 1 ≤ bs.length) (hn31 : bs.length < 2 ^ 31)
    (hsm : ∀ s ∈ bs, Small s) (hW : W < 2 ^ 31) (hrc : CenterOK bs.length rc) :
    (buildLookupTables_u16_i64_2 bs.length W (enc 32 rc) bs).map (fun r => (r.2.2.1, r.2.2.2)) =
      (buildLUT 2 W bs rc).map (fun T => (encT1 64 T, encT2 64 T)) := by
  rw [build_u16_i64_2_eq_G, buildLUT_two]
  exact buildG2_eq 64 bs.length W _ cout_i64 bs rc rfl hnb1 hn31 hsm hW hrc.1 hrc.2.1 hrc.2.2.1 hrc.2.2.2

theorem build_ast_eq_u8_u64_2 (W : Nat) (bs : List Str) (rc : Int) (hnb1 : 1 ≤ bs.length) (hn31 : bs.length < 2 ^ 31)
    (hsm : ∀ s ∈ bs, Small s) (hW : W < 2 ^ 31) (hrc : CenterOK bs.length rc) :
    (buildLookupTables_u8_u64_2 bs.length W (enc 32 rc) bs).map (fun r => (r.2.2.1, r.2.2.2)) =
      (buildLUT 2 W bs rc).map (fun T => (encT1 64 T, encT2 64 T)) := by
  rw [build_u8_u64_2_eq_G, buildLUT_two]
  exact buildG2_eq 64 bs.length W _ cout_u64 bs rc rfl hnb1 hn31 hsm hW hrc.1 hrc.2.1 hrc.2.2.1 hrc.2.2.2

theorem small_of_WF {W wp : Nat} {bs : List Str} (hW : W ≤ 2 ^ 31) (hwf : barriersWF W wp bs = true) : ∀ s ∈ bs, Small s := by
  intro s hs x hx
  simp only [barriersWF, List.all_eq_true, Bool.and_eq_true, decide_eq_true_eq] at hwf
  have := (hwf s hs).2 x hx
  omega

/-! ### the generated builder's tables satisfy `tableOK`; the generated iteration on them is the inverse CDF -/

/-- UNCONDITIONAL (depth 1, `<uint8_t,int32_t,1>`): for every well-formed sorted barrier table the generated builder returns a
`lu_table` that is the encoding of a table satisfying `tableOK` -/
theorem tables_ast_tableOK_u8_i32_1 {wp : Nat} {bs : List Str} (rc : Int)
    (hwf : barriersWF (2 ^ 8) wp bs = true) (hsort : sortedB bs = true) (hwp : 1 ≤ wp) (hodd : bs.length % 2 = 1)
    (hlast : lastOnes (2 ^ 8) 1 bs = true) (hn31 : bs.length < 2 ^ 31) (hrc : CenterOK bs.length rc) :
    ∃ T r, buildLookupTables_u8_i32_1 bs.length (2 ^ 8) (enc 32 rc) bs = some r ∧ r.2.2 = encT1 32 T ∧
      tableOK 1 (2 ^ 8) bs (v0Of bs.length rc) T = true := by
  have heq := build_ast_eq_u8_i32_1 (2 ^ 8) bs rc (by omega) hn31 (small_of_WF (by omega) hwf) (by omega) hrc
  obtain ⟨T, hb, hT⟩ := C10.buildLUT_tableOK rc (Or.inl rfl) (by decide) hwf hsort hwp hodd hlast
  rw [hb] at heq
  cases hg : buildLookupTables_u8_i32_1 bs.length (2 ^ 8) (enc 32 rc) bs with
  | none => rw [hg] at heq; simp at heq
  | some r => rw [hg] at heq; exact ⟨T, r, rfl, by simpa using heq, hT⟩

/-- … and the GENERATED iteration of `getNoise` run on the GENERATED table is the inverse CDF -/
theorem iter_on_ast_tables_invCDF_u8_i32_1 {wp : Nat} {bs : List Str} (rc : Int)
    (out : Ptr) (co ibs iw uw : Nat) (noise nip : Ptr)
    (hwf : barriersWF (2 ^ 8) wp bs = true) (hsort : sortedB bs = true) (hwp : 1 ≤ wp) (hwp31 : wp < 2 ^ 31)
    (hodd : bs.length % 2 = 1) (hlast : lastOnes (2 ^ 8) 1 bs = true) (hn31 : bs.length < 2 ^ 31) (hrc : CenterOK bs.length rc)
    (hrem : noise.off + wp ≤ noise.obj.length) (hw : ∀ x ∈ noise.obj, x < 2 ^ 8) (hco : out.off + co < out.obj.length) :
    ∃ T r res y, buildLookupTables_u8_i32_1 bs.length (2 ^ 8) (enc 32 rc) bs = some r ∧ r.2.2 = encT1 32 T ∧
      getNoise_iter_u8_i32_1 wp r.2.2 (encT2 32 T) out co ibs iw uw noise nip = some res ∧
      res.1 = ⟨out.obj.set (out.off + co) y, out.off⟩ ∧
      valOfOut 32 true y = outStore 32 true (invCDF bs (v0Of bs.length rc) ((noise.obj.drop noise.off).take wp)) := by
  obtain ⟨T, r, hr, hrt, hT⟩ := tables_ast_tableOK_u8_i32_1 rc hwf hsort hwp hodd hlast hn31 hrc
  obtain ⟨res, y, h1, h2, h3⟩ := C10Ast.iter_ast_invCDF_u8_i32_1 out co ibs iw uw noise nip hwf hsort hT hwp hwp31 hrem hw hco
  exact ⟨T, r, res, y, hr, hrt, by rw [hrt]; exact h1, h2, h3⟩

/-- depth 2, `<uint8_t,uint64_t,2>`: both tables -/
theorem tables_ast_tableOK_u8_u64_2 {wp : Nat} {bs : List Str} (rc : Int)
    (hwf : barriersWF (2 ^ 8) wp bs = true) (hsort : sortedB bs = true) (hwp : 2 ≤ wp) (hodd : bs.length % 2 = 1)
    (hlast : lastOnes (2 ^ 8) 2 bs = true) (hn31 : bs.length < 2 ^ 31) (hrc : CenterOK bs.length rc) :
    ∃ T r, buildLookupTables_u8_u64_2 bs.length (2 ^ 8) (enc 32 rc) bs = some r ∧ r.2.2.1 = encT1 64 T ∧ r.2.2.2 = encT2 64 T ∧
      tableOK 2 (2 ^ 8) bs (v0Of bs.length rc) T = true := by
  have heq := build_ast_eq_u8_u64_2 (2 ^ 8) bs rc (by omega) hn31 (small_of_WF (by omega) hwf) (by omega) hrc
  obtain ⟨T, hb, hT⟩ := C10.buildLUT_tableOK rc (Or.inr rfl) (by decide) hwf hsort hwp hodd hlast
  rw [hb] at heq
  cases hg : buildLookupTables_u8_u64_2 bs.length (2 ^ 8) (enc 32 rc) bs with
  | none => rw [hg] at heq; simp at heq
  | some r =>
    rw [hg] at heq
    simp only [Option.map_some, Option.some.injEq, Prod.mk.injEq] at heq
    exact ⟨T, r, rfl, heq.1, heq.2, hT⟩

theorem iter_on_ast_tables_invCDF_u8_u64_2 {wp : Nat} {bs : List Str} (rc : Int)
    (out : Ptr) (co ibs iw uw : Nat) (noise nip : Ptr)
    (hwf : barriersWF (2 ^ 8) wp bs = true) (hsort : sortedB bs = true) (hwp : 2 ≤ wp) (hwp31 : wp < 2 ^ 31)
    (hodd : bs.length % 2 = 1) (hlast : lastOnes (2 ^ 8) 2 bs = true) (hn31 : bs.length < 2 ^ 31) (hrc : CenterOK bs.length rc)
    (hrem : noise.off + wp ≤ noise.obj.length) (hw : ∀ x ∈ noise.obj, x < 2 ^ 8) (hco : out.off + co < out.obj.length) :
    ∃ r res y, buildLookupTables_u8_u64_2 bs.length (2 ^ 8) (enc 32 rc) bs = some r ∧
      getNoise_iter_u8_u64_2 wp r.2.2.1 r.2.2.2 out co ibs iw uw noise nip = some res ∧
      res.1 = ⟨out.obj.set (out.off + co) y, out.off⟩ ∧
      valOfOut 64 false y = outStore 64 false (invCDF bs (v0Of bs.length rc) ((noise.obj.drop noise.off).take wp)) := by
  obtain ⟨T, r, hr, h1t, h2t, hT⟩ := tables_ast_tableOK_u8_u64_2 rc hwf hsort hwp hodd hlast hn31 hrc
  obtain ⟨res, y, h1, h2, h3⟩ := C10Ast.iter_ast_invCDF_u8_u64_2 out co ibs iw uw noise nip hwf hsort hT hwp hwp31 hrem hw hco
  exact ⟨r, res, y, hr, by rw [h1t, h2t]; exact h1, h2, h3⟩

/-- depth 2, `<uint16_t,int64_t,2>` -/
theorem tables_ast_tableOK_u16_i64_2 {wp : Nat} {bs : List Str} (rc : Int)
    (hwf : barriersWF (2 ^ 16) wp bs = true) (hsort : sortedB bs = true) (hwp : 2 ≤ wp) (hodd : bs.length % 2 = 1)
    (hlast : lastOnes (2 ^ 16) 2 bs = true) (hn31 : bs.length < 2 ^ 31) (hrc : CenterOK bs.length rc) :
    ∃ T r, buildLookupTables_u16_i64_2 bs.length (2 ^ 16) (enc 32 rc) bs = some r ∧ r.2.2.1 = encT1 64 T ∧ r.2.2.2 = encT2 64 T ∧
      tableOK 2 (2 ^ 16) bs (v0Of bs.length rc) T = true := by
  have heq := build_ast_eq_u16_i64_2 (2 ^ 16) bs rc (by omega) hn31 (small_of_WF (by omega) hwf) (by omega) hrc
  obtain ⟨T, hb, hT⟩ := C10.buildLUT_tableOK rc (Or.inr rfl) (by decide) hwf hsort hwp hodd hlast
  rw [hb] at heq
  cases hg : buildLookupTables_u16_i64_2 bs.length (2 ^ 16) (enc 32 rc) bs with
  | none => rw [hg] at heq; simp at heq
  | some r =>
    rw [hg] at heq
    simp only [Option.map_some, Option.some.injEq, Prod.mk.injEq] at heq
    exact ⟨T, r, rfl, heq.1, heq.2, hT⟩

theorem iter_on_ast_tables_invCDF_u16_i64_2 {wp : Nat} {bs : List Str} (rc : Int)
    (out : Ptr) (co ibs iw uw : Nat) (noise nip : Ptr)
    (hwf : barriersWF (2 ^ 16) wp bs = true) (hsort : sortedB bs = true) (hwp : 2 ≤ wp) (hwp31 : wp < 2 ^ 31)
    (hodd : bs.length % 2 = 1) (hlast : lastOnes (2 ^ 16) 2 bs = true) (hn31 : bs.length < 2 ^ 31) (hrc : CenterOK bs.length rc)
    (hrem : noise.off + wp ≤ noise.obj.length) (hw : ∀ x ∈ noise.obj, x < 2 ^ 16) (hco : out.off + co < out.obj.length) :
    ∃ r res y, buildLookupTables_u16_i64_2 bs.length (2 ^ 16) (enc 32 rc) bs = some r ∧
      getNoise_iter_u16_i64_2 wp r.2.2.1 r.2.2.2 out co ibs iw uw noise nip = some res ∧
      res.1 = ⟨out.obj.set (out.off + co) y, out.off⟩ ∧
      valOfOut 64 true y = outStore 64 true (invCDF bs (v0Of bs.length rc) ((noise.obj.drop noise.off).take wp)) := by
  obtain ⟨T, r, hr, h1t, h2t, hT⟩ := tables_ast_tableOK_u16_i64_2 rc hwf hsort hwp hodd hlast hn31 hrc
  obtain ⟨res, y, h1, h2, h3⟩ := C10Ast.iter_ast_invCDF_u16_i64_2 out co ibs iw uw noise nip hwf hsort hT hwp hwp31 hrem hw hco
  exact ⟨r, res, y, hr, by rw [h1t, h2t]; exact h1, h2, h3⟩

/-- the hypotheses are satisfiable (3 barriers of 2 words over `uint8_t`, centre -1, both depths) -/
example : barriersWF (2 ^ 8) 2 [[0, 2], [1, 3], [255, 255]] = true ∧ sortedB [[0, 2], [1, 3], [255, 255]] = true ∧
    lastOnes (2 ^ 8) 2 [[0, 2], [1, 3], [255, 255]] = true ∧ lastOnes (2 ^ 8) 1 [[0, 2], [1, 3], [255, 255]] = true ∧
    CenterOK 3 (-1) := by
  refine ⟨by decide, by decide, by decide, by decide, ?_⟩
  unfold CenterOK v0Of vmaxOf; omega

/-! ### non-vacuity / whole-function checks on concrete tables (`W = 4`, C10's example barriers; centre 0 and -1) -/

example : (buildLookupTables_u8_i32_1 3 4 0 C10.exBs).map (fun r => r.2.2) = (buildLUT 1 4 C10.exBs 0).map (encT1 32) := by
  decide +kernel
example : (buildLookupTables_u16_i64_1 3 4 (enc 32 (-1)) C10.exBs).map (fun r => r.2.2) = (buildLUT 1 4 C10.exBs (-1)).map (encT1 64) := by
  decide +kernel
example : (buildLookupTables_u16_i64_2 3 4 0 C10.exBs).map (fun r => (r.2.2.1, r.2.2.2)) =
    (buildLUT 2 4 C10.exBs 0).map (fun T => (encT1 64 T, encT2 64 T)) := by decide +kernel
example : (buildLookupTables_u8_u64_2 3 4 (enc 32 (-1)) C10.exBs).map (fun r => (r.2.2.1, r.2.2.2)) =
    (buildLUT 2 4 C10.exBs (-1)).map (fun T => (encT1 64 T, encT2 64 T)) := by decide +kernel
/-- the flag counters the code keeps: 3 flagged first-level cells, 3 flagged second-level cells -/
example : (buildLookupTables_u8_u64_2 3 4 0 C10.exBs).map (fun r => (r.1, r.2.1)) = some (3, 3) := by decide +kernel
/-- the out-of-range read of `barriers[nb]` (C10.buildLUT2_out_of_range_witness) is in the generated code too -/
example : buildLookupTables_u8_u64_2 3 4 0 [[0, 2], [1, 3], [3, 2]] = none := by decide +kernel
/-- generated builder, then generated iteration on ITS tables: the sample for the input words `1 3` -/
example : (buildLookupTables_u8_u64_2 3 4 0 C10.exBs).bind (fun r =>
      getNoise_iter_u8_u64_2 2 r.2.2.1 r.2.2.2 ⟨[0, 0], 0⟩ 1 8 8 0 ⟨[1, 3, 0, 0, 3, 3, 2, 1], 0⟩ ⟨[], 0⟩) =
    some (⟨[0, 1], 0⟩, 2, 2, ⟨[1, 3, 0, 0, 3, 3, 2, 1], 2⟩, []) := by decide +kernel

end Nfl.C10LutAst
