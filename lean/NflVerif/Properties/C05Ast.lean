/-
C05 on code obtained from the source text.

`Generated/SimdAst.lean` is produced on every run by `tools/gen_simd_ast.py` from clang's typed AST of
`include/nfl/opt/arch/sse.hpp` and `avx2.hpp` (two configurations of one translation unit): the free helpers
`mulhi_epu32`, `mulhi_epu16`, `avx2_mulhi_epu32`, the `operator()` of `addmod`, `submod`, `mulmod_shoup`,
`muladd_shoup` `<uint16_t|uint32_t, simd::sse|simd::avx2>` with their static helpers (`finish`, `shuffle_lh`,
`shift8`), and constructor + `operator()` of `ntt_loop_body<simd::sse|simd::avx2, poly, uint16_t|uint32_t>`.
Every intrinsic call of the source is one application of the intrinsic model of `Model/Simd.lean` that the
intrinsic's NAME designates; changes of lane view are explicit (`SimdView.relane`).

This file states
  (1) `gen_*_eq`: each generated kernel EQUALS the hand-written kernel model of `Model/Simd.lean`, for ALL
      register contents, ALL register lengths and ALL `p` (no hypothesis at all: the two sides are the same
      composition of list functions once the `set1` constants are shown congruent modulo the lane width,
      `Proofs/SimdAstEq.lean`);
  (2) `*_ast`: C05's per-kernel lane theorems (each lane of the vector kernel = the scalar functor model on that
      lane, under C05's range hypotheses) transported to the generated kernels, the butterflies, and the
      transform loops built from the generated butterflies;
  (3) `*_src`: for `addmod` / `submod`, both sides from the source — the vector kernel translated from sse.hpp /
      avx2.hpp equals, lane by lane, the scalar functor translated from ops.hpp (`Generated/OpsAst.lean`, C03).
What (1) does NOT cover (hand-modelled only, tied to the code by `harness/simd.cpp`): the transform loops
`ntt_loop_sse_unrolled::run` / `ntt_loop_avx2_unrolled::run` around the butterflies (`chunkLoop`, `sseBlock`,
`avx2Block`, `nttLoopVec`), `simd::*::load/store` addressing and alignment, and `expr::operator bool`.
-/
import NflVerif.Proofs.SimdAstEq
import NflVerif.Properties.C05
import NflVerif.Properties.C03Ast

namespace Nfl.C05Ast
open Nfl Nfl.Gen Nfl.Simd Nfl.GenSimd Nfl.SimdAstEq Nfl.C03 Nfl.C05

/-! ## (1) generated = hand-written kernel model, for all register contents -/

/-- (i) the eight `addmod` / `submod` kernels -/
theorem gen_addsub_eq (p : Nat) (x y : Reg) :
    sse_addmod_u16 p x y = sseAddmod16 p x y ∧ sse_addmod_u32 p x y = sseAddmod32 p x y ∧
    avx2_addmod_u16 p x y = avx2Addmod16 p x y ∧ avx2_addmod_u32 p x y = avx2Addmod32 p x y ∧
    sse_submod_u16 p x y = sseSubmod16 p x y ∧ sse_submod_u32 p x y = sseSubmod32 p x y ∧
    avx2_submod_u16 p x y = avx2Submod16 p x y ∧ avx2_submod_u32 p x y = avx2Submod32 p x y :=
  ⟨sse_addmod_u16_eq p x y, sse_addmod_u32_eq p x y, avx2_addmod_u16_eq p x y, avx2_addmod_u32_eq p x y,
   sse_submod_u16_eq p x y, sse_submod_u32_eq p x y, avx2_submod_u16_eq p x y, avx2_submod_u32_eq p x y⟩

/-- (ii) the high-product helpers -/
theorem gen_mulhi_eq (a b : Reg) :
    sse_mulhi_epu32 a b = sseMulhiEpu32 a b ∧ avx2_mulhi_epu32 a b = avx2MulhiEpu32 a b ∧
    sse_mulhi_epu16 a b = mulhiEpu16 a b :=
  ⟨sse_mulhi_epu32_eq a b, avx2_mulhi_epu32_eq a b, sse_mulhi_epu16_eq a b⟩

/-- (iii) `mulmod_shoup`: 32-bit (SSE; the AVX2 class inherits it — read from the AST), 16-bit SSE and AVX2 -/
theorem gen_mulmod_shoup_eq (p : Nat) (x y y' : Reg) :
    sse_mulmod_shoup_u32 p x y y' = sseMulmodShoup32 p x y y' ∧ avx2_mulmod_shoup_u32 p x y y' = sseMulmodShoup32 p x y y' ∧
    sse_mulmod_shoup_u16 p x y y' = sseMulmodShoup16 p x y y' ∧ avx2_mulmod_shoup_u16 p x y y' = avx2MulmodShoup16 p x y y' :=
  ⟨sse_mulmod_shoup_u32_eq p x y y', avx2_mulmod_shoup_u32_eq p x y y', sse_mulmod_shoup_u16_eq p x y y',
   avx2_mulmod_shoup_u16_eq p x y y'⟩

/-- (iv) `muladd_shoup<uint16_t, sse|avx2>` (`muladd_shoup<uint32_t, sse|avx2>` is the serial functor: inheritance) -/
theorem gen_muladd_shoup_eq (p : Nat) (rop x y y' : Reg) :
    sse_muladd_shoup_u16 p rop x y y' = sseMuladdShoup16 p rop x y y' ∧
    avx2_muladd_shoup_u16 p rop x y y' = avx2MuladdShoup16 p rop x y y' :=
  ⟨sse_muladd_shoup_u16_eq p rop x y y', avx2_muladd_shoup_u16_eq p rop x y y'⟩

/-- (v) the four butterflies: constructor constants and `operator()` from the loaded to the stored registers -/
theorem gen_bfly_eq (p : Nat) (u0 u1 wi wt : Reg) :
    sse_bfly_u16 p u0 u1 wi wt = sseBfly16 p u0 u1 wi wt ∧ sse_bfly_u32 p u0 u1 wi wt = sseBfly32 p u0 u1 wi wt ∧
    avx2_bfly_u16 p u0 u1 wi wt = avx2Bfly16 p u0 u1 wi wt ∧ avx2_bfly_u32 p u0 u1 wi wt = avx2Bfly32 p u0 u1 wi wt :=
  ⟨sse_bfly_u16_eq p u0 u1 wi wt, sse_bfly_u32_eq p u0 u1 wi wt, avx2_bfly_u16_eq p u0 u1 wi wt, avx2_bfly_u32_eq p u0 u1 wi wt⟩

/-- the loop bodies selected by limb width, from the generated butterflies -/
def genSseBody (w p : Nat) : Body := if w = 16 then sse_bfly_u16 p else sse_bfly_u32 p
def genAvx2Body (w p : Nat) : Body := if w = 16 then avx2_bfly_u16 p else avx2_bfly_u32 p

theorem genSseBody_eq (w p : Nat) : genSseBody w p = sseBody w p := by
  unfold genSseBody sseBody
  split
  · funext u0 u1 wi wt; exact sse_bfly_u16_eq p u0 u1 wi wt
  · funext u0 u1 wi wt; exact sse_bfly_u32_eq p u0 u1 wi wt

theorem genAvx2Body_eq (w p : Nat) : genAvx2Body w p = avx2Body w p := by
  unfold genAvx2Body avx2Body
  split
  · funext u0 u1 wi wt; exact avx2_bfly_u16_eq p u0 u1 wi wt
  · funext u0 u1 wi wt; exact avx2_bfly_u32_eq p u0 u1 wi wt

/-! ## (2) C05's lane theorems for the generated kernels -/

/-- `addmod<uintW, sse|avx2>` translated from the source is `addmod<uintW, serial>` in every lane: any `p < 2^w`,
ALL lane values. -/
theorem addmod_lanes_ast {p : Nat} (X Y : Reg) :
    (p < 2 ^ 16 → X.length = 8 → Y.length = 8 → sse_addmod_u16 p X Y = List.zipWith (addmod 16 p) X Y) ∧
    (p < 2 ^ 32 → X.length = 4 → Y.length = 4 → sse_addmod_u32 p X Y = List.zipWith (addmod 32 p) X Y) ∧
    (p < 2 ^ 16 → X.length = 16 → Y.length = 16 → avx2_addmod_u16 p X Y = List.zipWith (addmod 16 p) X Y) ∧
    (p < 2 ^ 32 → X.length = 8 → Y.length = 8 → avx2_addmod_u32 p X Y = List.zipWith (addmod 32 p) X Y) :=
  ⟨fun hp hX hY => (sse_addmod_u16_eq p X Y).trans (sseAddmod16_lanes hp X Y hX hY),
   fun hp hX hY => (sse_addmod_u32_eq p X Y).trans (sseAddmod32_lanes hp X Y hX hY),
   fun hp hX hY => (avx2_addmod_u16_eq p X Y).trans (avx2Addmod16_lanes hp X Y hX hY),
   fun hp hX hY => (avx2_addmod_u32_eq p X Y).trans (avx2Addmod32_lanes hp X Y hX hY)⟩

theorem submod_lanes_ast {p : Nat} (X Y : Reg) :
    (p < 2 ^ 16 → X.length = 8 → Y.length = 8 → sse_submod_u16 p X Y = List.zipWith (submod 16 p) X Y) ∧
    (p < 2 ^ 32 → X.length = 4 → Y.length = 4 → sse_submod_u32 p X Y = List.zipWith (submod 32 p) X Y) ∧
    (p < 2 ^ 16 → X.length = 16 → Y.length = 16 → avx2_submod_u16 p X Y = List.zipWith (submod 16 p) X Y) ∧
    (p < 2 ^ 32 → X.length = 8 → Y.length = 8 → avx2_submod_u32 p X Y = List.zipWith (submod 32 p) X Y) :=
  ⟨fun hp hX hY => (sse_submod_u16_eq p X Y).trans (sseSubmod16_lanes hp X Y hX hY),
   fun hp hX hY => (sse_submod_u32_eq p X Y).trans (sseSubmod32_lanes hp X Y hX hY),
   fun hp hX hY => (avx2_submod_u16_eq p X Y).trans (avx2Submod16_lanes hp X Y hX hY),
   fun hp hX hY => (avx2_submod_u32_eq p X Y).trans (avx2Submod32_lanes hp X Y hX hY)⟩

/-- `mulhi_epu32` / `avx2_mulhi_epu32` from the source: the high word of the 32×32 product in every lane -/
theorem mulhi_epu32_lanes_ast (A B : Reg) (bA : ∀ a ∈ A, a < 2 ^ 32) (bB : ∀ b ∈ B, b < 2 ^ 32) :
    (A.length = 4 → B.length = 4 → sse_mulhi_epu32 A B = List.zipWith (fun a b => a * b / 2 ^ 32) A B) ∧
    (A.length = 8 → B.length = 8 → avx2_mulhi_epu32 A B = List.zipWith (fun a b => a * b / 2 ^ 32) A B) :=
  ⟨fun hA hB => (sse_mulhi_epu32_eq A B).trans (mulhi_epu32_lanes A B hA hB bA bB),
   fun hA hB => (avx2_mulhi_epu32_eq A B).trans (avx2_mulhi_epu32_lanes A B hA hB bA bB)⟩

/-- `mulmod_shoup<uint32_t, sse>` (= `…, avx2>`) from the source = the serial functor in every lane, under C05's
lane hypothesis `Shoup32Hyp` -/
theorem mulmod_shoup32_lanes_ast {p : Nat} (hp : p < 2 ^ 32) (X Y Y' : Reg)
    (hX : X.length = 4) (hY : Y.length = 4) (hY' : Y'.length = 4)
    (bX : ∀ v ∈ X, v < 2 ^ 32) (bY : ∀ v ∈ Y, v < 2 ^ 32) (bY' : ∀ v ∈ Y', v < 2 ^ 32)
    (h : All3 (Shoup32Hyp p) X Y Y') :
    sse_mulmod_shoup_u32 p X Y Y' = mulShoupList 32 p X Y Y' ∧ avx2_mulmod_shoup_u32 p X Y Y' = mulShoupList 32 p X Y Y' := by
  have := mulmod_shoup32_lanes hp X Y Y' hX hY hY' bX bY bY' h
  exact ⟨(sse_mulmod_shoup_u32_eq p X Y Y').trans this, (avx2_mulmod_shoup_u32_eq p X Y Y').trans this⟩

theorem mulmod_shoup16_lanes_ast {p : Nat} (hp : p ≤ 2 ^ 16) (X Y Y' : Reg)
    (hX : X.length = 8) (hY : Y.length = 8) (hY' : Y'.length = 8)
    (bX : ∀ v ∈ X, v < 2 ^ 16) (bY' : ∀ v ∈ Y', v < 2 ^ 16) (h : All3 (Shoup16Hyp p) X Y Y') :
    sse_mulmod_shoup_u16 p X Y Y' = mulShoupList 16 p X Y Y' ∧ avx2_mulmod_shoup_u16 p X Y Y' = mulShoupList 16 p X Y Y' := by
  have := mulmod_shoup16_lanes hp X Y Y' hX hY hY' bX bY' h
  exact ⟨(sse_mulmod_shoup_u16_eq p X Y Y').trans this.1, (avx2_mulmod_shoup_u16_eq p X Y Y').trans this.2⟩

/-- **every table row**: companion computed by `compute_shoup`, any words `X`, canonical `Y` -/
theorem mulmod_shoup32_rows_ast {r : Row} (hr : r ∈ table32.rows) (X Y : Reg) (hX : X.length = 4) (hY : Y.length = 4)
    (bX : ∀ x ∈ X, x < 2 ^ 32) (bY : ∀ y ∈ Y, y < r.p) :
    sse_mulmod_shoup_u32 r.p X Y (Y.map (computeShoup 32 r.p)) = mulShoupList 32 r.p X Y (Y.map (computeShoup 32 r.p)) ∧
    avx2_mulmod_shoup_u32 r.p X Y (Y.map (computeShoup 32 r.p)) = mulShoupList 32 r.p X Y (Y.map (computeShoup 32 r.p)) := by
  have := mulmod_shoup32_rows hr X Y hX hY bX bY
  exact ⟨(sse_mulmod_shoup_u32_eq _ _ _ _).trans this, (avx2_mulmod_shoup_u32_eq _ _ _ _).trans this⟩

theorem mulmod_shoup16_rows_ast {r : Row} (hr : r ∈ table16.rows) (X Y : Reg) (hX : X.length = 8) (hY : Y.length = 8)
    (bX : ∀ x ∈ X, x < 2 ^ 16) (bY : ∀ y ∈ Y, y < r.p) :
    sse_mulmod_shoup_u16 r.p X Y (Y.map (computeShoup 16 r.p)) = mulShoupList 16 r.p X Y (Y.map (computeShoup 16 r.p)) ∧
    avx2_mulmod_shoup_u16 r.p X Y (Y.map (computeShoup 16 r.p)) = mulShoupList 16 r.p X Y (Y.map (computeShoup 16 r.p)) := by
  have := mulmod_shoup16_rows hr X Y hX hY bX bY
  exact ⟨(sse_mulmod_shoup_u16_eq _ _ _ _).trans this.1, (avx2_mulmod_shoup_u16_eq _ _ _ _).trans this.2⟩

theorem muladd_shoup16_lanes_ast {p : Nat} (hp : p ≤ 2 ^ 16) (R X Y Y' : Reg)
    (hR : R.length = 8) (hX : X.length = 8) (hY : Y.length = 8) (hY' : Y'.length = 8)
    (bX : ∀ v ∈ X, v < 2 ^ 16) (bY' : ∀ v ∈ Y', v < 2 ^ 16) (h : All4 (Muladd16Hyp p) R X Y Y') :
    sse_muladd_shoup_u16 p R X Y Y' = muladdShoupList 16 p R X Y Y' ∧
    avx2_muladd_shoup_u16 p R X Y Y' = muladdShoupList 16 p R X Y Y' := by
  have := muladd_shoup16_lanes hp R X Y Y' hR hX hY hY' bX bY' h
  exact ⟨(sse_muladd_shoup_u16_eq p R X Y Y').trans this.1, (avx2_muladd_shoup_u16_eq p R X Y Y').trans this.2⟩

theorem muladd_shoup16_rows_ast {r : Row} (hr : r ∈ table16.rows) (R X Y : Reg)
    (hR : R.length = 8) (hX : X.length = 8) (hY : Y.length = 8)
    (bR : ∀ v ∈ R, v < r.p) (bX : ∀ x ∈ X, x < 2 ^ 16) (bY : ∀ y ∈ Y, y < r.p) :
    sse_muladd_shoup_u16 r.p R X Y (Y.map (computeShoup 16 r.p)) = muladdShoupList 16 r.p R X Y (Y.map (computeShoup 16 r.p)) ∧
    avx2_muladd_shoup_u16 r.p R X Y (Y.map (computeShoup 16 r.p)) = muladdShoupList 16 r.p R X Y (Y.map (computeShoup 16 r.p)) := by
  have := muladd_shoup16_rows hr R X Y hR hX hY bR bX bY
  exact ⟨(sse_muladd_shoup_u16_eq _ _ _ _ _).trans this.1, (avx2_muladd_shoup_u16_eq _ _ _ _ _).trans this.2⟩

/-- the butterflies translated from the source store, in every lane, what `ntt_loop_body<serial>` stores -/
theorem butterfly_lanes_ast {w : Nat} (hw : w = 16 ∨ w = 32) {p : Nat} (hp : 2 * p ≤ 2 ^ w) (U0 U1 WI WT : Reg)
    (bi : ∀ v ∈ WI, v < 2 ^ w) :
    (U0.length = sseLanes w → U1.length = sseLanes w → WI.length = sseLanes w → WT.length = sseLanes w →
      genSseBody w p U0 U1 WI WT = (List.zipWith (bflyLo w p) U0 U1, hiList w p U0 U1 WT WI)) ∧
    (U0.length = avx2Lanes w → U1.length = avx2Lanes w → WI.length = avx2Lanes w → WT.length = avx2Lanes w →
      genAvx2Body w p U0 U1 WI WT = (List.zipWith (bflyLo w p) U0 U1, hiList w p U0 U1 WT WI)) := by
  rw [genSseBody_eq, genAvx2Body_eq]
  exact butterfly_lanes hw hp U0 U1 WI WT bi

/-- the transform loops (hand-modelled loop structure) around the GENERATED butterflies return the serial build's
words: `core::ntt` of the SSE and AVX2 builds, degree `2^k ≥ 8`. -/
theorem ntt_backend_ast {w : Nat} (hw : w = 16 ∨ w = 32) {p : Nat} (hp : 2 * p ≤ 2 ^ w) (k : Nat) (hk : 3 ≤ k)
    (wt wt' x : List Nat) (hx : x.length = 2 ^ k) (h1 : 2 ^ k ≤ wt.length + 4) (h2 : 2 ^ k ≤ wt'.length + 4)
    (bi : ∀ v ∈ wt', v < 2 ^ w) :
    nttWordVec w p k (nttLoopVec w p (sseBlock (genSseBody w p) (sseLanes w))) wt wt' x = some (nttWord w p k wt wt' x) ∧
    nttWordVec w p k (nttLoopVec w p (avx2Block (genAvx2Body w p) (genSseBody w p) (avx2Lanes w) (sseLanes w))) wt wt' x
      = some (nttWord w p k wt wt' x) := by
  rw [genSseBody_eq, genAvx2Body_eq]
  exact ntt_backend hw hp k hk wt wt' x hx h1 h2 bi

/-! ## (3) both sides from the source: vector kernel (sse.hpp / avx2.hpp) = scalar functor (ops.hpp), lane by lane -/

theorem zipWith_congr_mem {f g : Nat → Nat → Nat} : ∀ (X Y : List Nat), (∀ x ∈ X, ∀ y ∈ Y, f x y = g x y) →
    List.zipWith f X Y = List.zipWith g X Y
  | [], _, _ => by simp
  | _ :: _, [], _ => by simp
  | x :: X, y :: Y, h => by
    simp only [List.zipWith_cons_cons]
    rw [h x (List.mem_cons_self ..) y (List.mem_cons_self ..),
      zipWith_congr_mem X Y (fun a ha b hb => h a (List.mem_cons_of_mem _ ha) b (List.mem_cons_of_mem _ hb))]

theorem addmod_src {p : Nat} (X Y : Reg) :
    (p < 2 ^ 16 → (∀ v ∈ X, v < 2 ^ 16) → (∀ v ∈ Y, v < 2 ^ 16) →
      (X.length = 8 → Y.length = 8 → sse_addmod_u16 p X Y = List.zipWith (Gen.addmod_u16 p) X Y) ∧
      (X.length = 16 → Y.length = 16 → avx2_addmod_u16 p X Y = List.zipWith (Gen.addmod_u16 p) X Y)) ∧
    (p < 2 ^ 32 → (∀ v ∈ X, v < 2 ^ 32) → (∀ v ∈ Y, v < 2 ^ 32) →
      (X.length = 4 → Y.length = 4 → sse_addmod_u32 p X Y = List.zipWith (Gen.addmod_u32 p) X Y) ∧
      (X.length = 8 → Y.length = 8 → avx2_addmod_u32 p X Y = List.zipWith (Gen.addmod_u32 p) X Y)) := by
  refine ⟨fun hp bX bY => ?_, fun hp bX bY => ?_⟩
  · have e := zipWith_congr_mem X Y (fun x hx y hy => OpsAstEq.addmod_u16_eq p x y hp (bX x hx) (bY y hy))
    exact ⟨fun hX hY => ((addmod_lanes_ast X Y).1 hp hX hY).trans e.symm,
      fun hX hY => ((addmod_lanes_ast X Y).2.2.1 hp hX hY).trans e.symm⟩
  · have e := zipWith_congr_mem X Y (fun x hx y hy => OpsAstEq.addmod_u32_eq p x y hp (bX x hx) (bY y hy))
    exact ⟨fun hX hY => ((addmod_lanes_ast X Y).2.1 hp hX hY).trans e.symm,
      fun hX hY => ((addmod_lanes_ast X Y).2.2.2 hp hX hY).trans e.symm⟩

theorem submod_src {p : Nat} (X Y : Reg) :
    (p < 2 ^ 16 → (∀ v ∈ X, v < 2 ^ 16) → (∀ v ∈ Y, v < 2 ^ 16) →
      (X.length = 8 → Y.length = 8 → sse_submod_u16 p X Y = List.zipWith (Gen.submod_u16 p) X Y) ∧
      (X.length = 16 → Y.length = 16 → avx2_submod_u16 p X Y = List.zipWith (Gen.submod_u16 p) X Y)) ∧
    (p < 2 ^ 32 → (∀ v ∈ X, v < 2 ^ 32) → (∀ v ∈ Y, v < 2 ^ 32) →
      (X.length = 4 → Y.length = 4 → sse_submod_u32 p X Y = List.zipWith (Gen.submod_u32 p) X Y) ∧
      (X.length = 8 → Y.length = 8 → avx2_submod_u32 p X Y = List.zipWith (Gen.submod_u32 p) X Y)) := by
  refine ⟨fun hp bX bY => ?_, fun hp bX bY => ?_⟩
  · have e := zipWith_congr_mem X Y (fun x hx y hy => OpsAstEq.submod_u16_eq p x y hp (bX x hx) (bY y hy))
    exact ⟨fun hX hY => ((submod_lanes_ast X Y).1 hp hX hY).trans e.symm,
      fun hX hY => ((submod_lanes_ast X Y).2.2.1 hp hX hY).trans e.symm⟩
  · have e := zipWith_congr_mem X Y (fun x hx y hy => OpsAstEq.submod_u32_eq p x y hp (bX x hx) (bY y hy))
    exact ⟨fun hX hY => ((submod_lanes_ast X Y).2.1 hp hX hY).trans e.symm,
      fun hX hY => ((submod_lanes_ast X Y).2.2.2 hp hX hY).trans e.symm⟩

/-! ## non-vacuity: the generated kernels on concrete registers (1073479681, 15361: first moduli of the tables) -/

-- `x + y = p`, `p − 1`, `p + 1` and wrap-around past `2^32` in the four lanes
example : sse_addmod_u32 1073479681 [1073479680, 1073479679, 1073479680, 4294967295] [1, 1, 2, 2] = [0, 1073479680, 1, 1] := by
  decide
example : sse_submod_u16 15361 [0, 1, 15360, 5, 7, 7, 0, 15360] [1, 0, 15360, 7, 5, 7, 15360, 0]
    = [15360, 1, 0, 15359, 2, 0, 1, 15360] := by decide
-- the high products, with the lanes distinguishable (a swapped blend mask would return the LOW words)
example : sse_mulhi_epu32 [4294967295, 65536, 3, 2147483648] [4294967295, 65536, 5, 6] = [4294967294, 1, 0, 3] := by decide
example : sse_mulmod_shoup_u32 1073479681 [4294967295, 2, 1073479680, 0] [1073479680, 3, 1073479680, 5]
    ([1073479680, 3, 1073479680, 5].map (computeShoup 32 1073479681))
    = [4294967295 * 1073479680 % 1073479681, 6, 1, 0] := by decide
example : avx2_mulmod_shoup_u16 15361 [65535, 2, 15360, 0, 1, 7, 9, 15360] [15360, 3, 15360, 5, 1, 7, 9, 2]
    ([15360, 3, 15360, 5, 1, 7, 9, 2].map (computeShoup 16 15361))
    = [65535 * 15360 % 15361, 6, 1, 0, 1, 49, 81, 15359] := by decide
-- a butterfly: the hypotheses of `butterfly_lanes_ast` hold and the result is the serial butterfly's
example : sse_bfly_u16 15361 [1, 2, 3, 4, 30000, 6, 7, 15360] [9, 8, 7, 6, 30000, 4, 3, 15360] [1, 2, 3, 4, 5, 6, 7, 8]
      [11, 12, 13, 14, 15, 16, 17, 18]
    = (List.zipWith (bflyLo 16 15361) [1, 2, 3, 4, 30000, 6, 7, 15360] [9, 8, 7, 6, 30000, 4, 3, 15360],
       hiList 16 15361 [1, 2, 3, 4, 30000, 6, 7, 15360] [9, 8, 7, 6, 30000, 4, 3, 15360] [11, 12, 13, 14, 15, 16, 17, 18]
         [1, 2, 3, 4, 5, 6, 7, 8]) := by decide

end Nfl.C05Ast
