/-
C04 on code obtained from the source text.

`Generated/CrtAst.lean` is produced on every run by `tools/gen_crt_ast.py` from clang's typed AST of `include/nfl/gmp.hpp`
(+ `poly.hpp`, `meta.hpp`), for T = uint16_t, uint32_t, uint64_t:
  `gmp_ctor_uW`   `poly<T,Degree,NbModuli>::GMP::GMP()`                    (every GMP call by name through `Model/GmpSem.lean`)
  `poly2mpz_uW`   `GMP::poly2mpz(std::array<mpz_t,Degree>&, poly const&)`  (the whole loop nest, index arithmetic of `op(cm,i)` included)
  `mpz2poly_uW`   `GMP::mpz2poly(poly&, std::array<mpz_t,Degree> const&)`  (translated; equality with the model: Properties/C04Ast2.lean)
  `static_log2`   `static_log2<N>::value` from the instantiated chains of `meta.hpp`
with `nmoduli`, `degree`, `kModulusRepresentationBitsize` as parameters.  This file states
  (1) `ctor_uW_eq`: for ALL `inv`, `w`, `ps` with `CtorFits w ps` (`1 ≤ ps.length < 2^64` and the shift
      `bits(Q) + w + ⌊log2 m⌋ + 1 < 2^64`, i.e. no `size_t` expression of the constructor wraps; 16/32 bit: also `p < 2^64` for the
      conversion of `get_modulus(cm)` to `unsigned long`) the generated constructor has exactly the fields of the hand model
      `Crt.gmpInitWith inv w ps` (Q, μ, bits(Q), bits(μ), s, L).  Nothing about primality or coprimality is needed.
  (2) `poly2mpz_uW_eq`: for ALL constants `gc`, all words (`< 2^w`, 16/32 bit) and any initial content of `rop`, the generated
      loop nest on `toGen gc` is the model's `Crt.poly2mpz gc`, provided `nmoduli * degree < 2^64` (the index `cm*degree+i`
      does not wrap); `poly2mpz_uW_coeff`: its `i`-th entry is `Crt.poly2mpzCoeff` of the residues of coefficient `i`.
  (3) C04's statements (range, congruences, uniqueness, `x = Σ…  mod Q`) transported to the generated code.
Continued in `Properties/C04Ast2.lean`: `mpz2poly_uW = Crt.mpz2poly` for all inputs, the round trips of the generated pair, and the
generated `poly::set_mpz<It>(It,It)` + forwarding overloads (`Generated/SetMpzAst.lean`) = `Crt.setMpz`.
NOT covered by this tie (tied by the differential stream): the by-value `poly2mpz(poly const&)` wrapper, `poly::operator=(mpz…)`.
-/
import NflVerif.Proofs.CrtAstEq
import NflVerif.Properties.C04

namespace Nfl.C04Ast
open Nfl Nfl.Crt Nfl.Gen Nfl.CrtAstEq

variable {inv : Nat → Nat → Nat} {w : Nat} {ps : List Nat}

/-! ### (0) `static_log2` -/

/-- `nfl::static_log2<N>::value`, translated from the instantiated template chains, is `⌊log2 N⌋` on `1 ≤ N < 2^64` -/
theorem static_log2_is_log2 (N : Nat) (h1 : 1 ≤ N) (h2 : N < 2 ^ 64) : static_log2 N = Nat.log2 N :=
  static_log2_eq N h1 h2

/-! ### (1) the constructor -/

theorem ctor_u64_eq (inv : Nat → Nat → Nat) (w : Nat) (ps : List Nat) (hf : CtorFits w ps) :
    gmp_ctor_u64 inv w ps.length ps = toGen (gmpInitWith inv w ps) := by
  rw [gmp_ctor_u64_nf]; exact ctorNF_eq id inv w ps (fun _ _ => rfl) hf

theorem ctor_u32_eq (inv : Nat → Nat → Nat) (w : Nat) (ps : List Nat) (hf : CtorFits w ps) (hP : ∀ p ∈ ps, p < 2 ^ 64) :
    gmp_ctor_u32 inv w ps.length ps = toGen (gmpInitWith inv w ps) := by
  rw [gmp_ctor_u32_nf]; exact ctorNF_eq _ inv w ps (fun p hp => Nat.mod_eq_of_lt (hP p hp)) hf

theorem ctor_u16_eq (inv : Nat → Nat → Nat) (w : Nat) (ps : List Nat) (hf : CtorFits w ps) (hP : ∀ p ∈ ps, p < 2 ^ 64) :
    gmp_ctor_u16 inv w ps.length ps = toGen (gmpInitWith inv w ps) := by
  rw [gmp_ctor_u16_nf]; exact ctorNF_eq _ inv w ps (fun p hp => Nat.mod_eq_of_lt (hP p hp)) hf

/-- field by field (64 bit; the other widths follow in the same way from `ctor_u32_eq` / `ctor_u16_eq`) -/
theorem ctor_u64_fields (inv : Nat → Nat → Nat) (w : Nat) (ps : List Nat) (hf : CtorFits w ps) :
    let g := gmp_ctor_u64 inv w ps.length ps
    let c := gmpInitWith inv w ps
    g.moduli_product = (c.Q : Int) ∧ g.modulus_shoup = (c.mu : Int) ∧ g.bits_in_moduli_product = c.bitsQ ∧
      g.bits_in_modulus_shoup = c.bitsMu ∧ g.shift_modulus_shoup = c.s ∧ g.lifting_integers = c.L.map Int.ofNat := by
  simp only [ctor_u64_eq inv w ps hf, toGen, and_self]

/-- the table moduli fit: for the three limb types and every number of moduli the library admits, no `size_t` expression of
the constructor wraps (`bits(Q) ≤ m·w`, `m ≤ 1000`) — stated for any `ps` with entries `≤ 2^w`, `w ≤ 64`, `1 ≤ m ≤ 2^32` -/
theorem ctorFits_of_small (hw : w ≤ 64) (h1 : 1 ≤ ps.length) (hm : ps.length ≤ 2 ^ 32) (hsmall : ∀ p ∈ ps, p ≤ 2 ^ w) :
    CtorFits w ps := by
  have hprod : ∀ l : List Nat, (∀ p ∈ l, p ≤ 2 ^ w) → l.prod ≤ 2 ^ (w * l.length) := by
    intro l
    induction l with
    | nil => intro _; simp
    | cons p t ih =>
      intro h
      have hp := h p (by simp)
      have ht := ih (fun q hq => h q (by simp [hq]))
      rw [List.prod_cons, List.length_cons, Nat.mul_succ, Nat.add_comm, Nat.pow_add]
      exact Nat.mul_le_mul hp ht
  have hQ := hprod ps hsmall
  have hbits : bitsNat (prodL ps) ≤ w * ps.length + 1 := by
    rw [prodL_eq]; unfold bitsNat
    split
    · omega
    · rename_i hne
      have : Nat.log2 ps.prod < w * ps.length + 1 := by
        rw [Nat.log2_lt hne]
        exact Nat.lt_of_le_of_lt hQ (Nat.pow_lt_pow_right (by decide) (by omega))
      omega
  have hlog : Nat.log2 ps.length < 33 := by
    rw [Nat.log2_lt (by omega)]
    exact Nat.lt_of_le_of_lt hm (by decide)
  have hwm : w * ps.length ≤ 64 * 2 ^ 32 := Nat.mul_le_mul hw hm
  refine ⟨h1, ?_, ?_⟩
  · exact Nat.lt_of_le_of_lt hm (by decide)
  · have : (64 * 2 ^ 32 + 1 + 64 + 33 + 1 : Nat) < 2 ^ 64 := by decide
    omega

/-! ### (2) `poly2mpz` -/

theorem getD_lt_of_all {data : List Nat} {b : Nat} (hb : 0 < b) (h : ∀ x ∈ data, x < b) (k : Nat) : data.getD k 0 < b := by
  by_cases hk : k < data.length
  · rw [List.getD_eq_getElem _ _ hk]; exact h _ (List.getElem_mem hk)
  · rw [List.getD_eq_default _ _ (by omega)]; exact hb

theorem poly2mpz_u64_eq (gc : GmpConsts) (n : Nat) (rop : List Int) (data : List Nat)
    (hL : gc.L.length = gc.ps.length) (hrop : rop.length = n) (hidx : gc.ps.length * n < 2 ^ 64) :
    poly2mpz_u64 gc.ps.length n (toGen gc) rop data = Crt.poly2mpz gc n data := by
  rw [poly2mpz_u64_nf]
  exact poly2mpzNF_eq _ _ gc n rop data (fun k => by simp [CSem.neU, show CSem.castSU 64 0 = 0 by decide]) (fun _ => rfl) hL hrop hidx

theorem poly2mpz_u32_eq (gc : GmpConsts) (n : Nat) (rop : List Int) (data : List Nat) (hdata : ∀ x ∈ data, x < 2 ^ 32)
    (hL : gc.L.length = gc.ps.length) (hrop : rop.length = n) (hidx : gc.ps.length * n < 2 ^ 64) :
    poly2mpz_u32 gc.ps.length n (toGen gc) rop data = Crt.poly2mpz gc n data := by
  rw [poly2mpz_u32_nf]
  refine poly2mpzNF_eq _ _ gc n rop data (fun k => by simp [CSem.neU, show CSem.castSU 32 0 = 0 by decide]) (fun k => ?_) hL hrop hidx
  have := getD_lt_of_all (by decide) hdata k
  exact Nat.mod_eq_of_lt (by omega)

theorem poly2mpz_u16_eq (gc : GmpConsts) (n : Nat) (rop : List Int) (data : List Nat) (hdata : ∀ x ∈ data, x < 2 ^ 16)
    (hL : gc.L.length = gc.ps.length) (hrop : rop.length = n) (hidx : gc.ps.length * n < 2 ^ 64) :
    poly2mpz_u16 gc.ps.length n (toGen gc) rop data = Crt.poly2mpz gc n data := by
  rw [poly2mpz_u16_nf]
  refine poly2mpzNF_eq _ _ gc n rop data (fun k => ?_) (fun k => ?_) hL hrop hidx
  · have := getD_lt_of_all (by decide) hdata k
    simp only [CSem.neS32, CSem.castUS]
    congr 1
    rw [Nat.mod_eq_of_lt (by omega : data.getD k 0 % 2 ^ 32 < 2 ^ 32), Nat.mod_eq_of_lt (by omega : data.getD k 0 < 2 ^ 32)]
  · have := getD_lt_of_all (by decide) hdata k
    exact Nat.mod_eq_of_lt (by omega)

/-- the per-coefficient form: entry `i` of the generated loop nest is the model's `poly2mpzCoeff` of the residues of coefficient `i` -/
theorem poly2mpz_u64_coeff (gc : GmpConsts) (n : Nat) (rop : List Int) (data : List Nat)
    (hL : gc.L.length = gc.ps.length) (hrop : rop.length = n) (hidx : gc.ps.length * n < 2 ^ 64) (i : Nat) (hi : i < n) :
    (poly2mpz_u64 gc.ps.length n (toGen gc) rop data).getD i 0 = poly2mpzCoeff gc (residuesAt n gc.ps.length data i) := by
  rw [poly2mpz_u64_eq gc n rop data hL hrop hidx]
  unfold Crt.poly2mpz
  rw [List.getD_eq_getElem _ _ (by simpa using hi)]
  simp

/-! ### (3) C04 on the generated code: constructor + lift, end to end -/

/-- what C04 says about one lifted coefficient -/
def LiftSpec (ps : List Nat) (rs : List Nat) (x : Int) : Prop :=
  0 ≤ x ∧ x < (ps.prod : Int) ∧ (∀ j, j < ps.length → x % (ps.getD j 0 : Int) = (rs.getD j 0 : Int)) ∧
    ∀ y : Int, 0 ≤ y → y < (ps.prod : Int) → (∀ j, j < ps.length → y % (ps.getD j 0 : Int) = (rs.getD j 0 : Int)) → y = x

theorem liftSpec_model (hinv : InvContract inv) (h : ModOK w ps) (rs : List Nat) (hr : Canon ps rs) :
    LiftSpec ps rs (poly2mpzCoeff (gmpInitWith inv w ps) rs) :=
  ⟨(C04.lift_range hinv h rs hr).1, (C04.lift_range hinv h rs hr).2, C04.lift_congr hinv h rs hr,
    fun y h0 hQ hres => C04.lift_unique hinv h rs hr y h0 hQ hres⟩

/-- **C04 for the translated code (64 bit)**: run the generated constructor on any admissible moduli (pairwise coprime, non-zero,
`≤ 2^w`; the `size_t` expressions do not wrap), then the generated `poly2mpz` loop nest on any canonical polynomial (`n·m` words,
`m·n < 2^64`) and any initial `rop` of `n` integers: entry `i` is the unique integer of `[0,Q)` congruent to the residues of coefficient `i`. -/
theorem lift_spec_u64 (hinv : InvContract inv) (h : ModOK w ps) (hf : CtorFits w ps) (n : Nat) (rop : List Int) (a : List Nat)
    (ha : PolyCanon ps n a) (hrop : rop.length = n) (hidx : ps.length * n < 2 ^ 64) (i : Nat) (hi : i < n) :
    LiftSpec ps (residuesAt n ps.length a i)
      ((poly2mpz_u64 ps.length n (gmp_ctor_u64 inv w ps.length ps) rop a).getD i 0) := by
  rw [ctor_u64_eq inv w ps hf]
  have := poly2mpz_u64_coeff (gmpInitWith inv w ps) n rop a gmp_L_length hrop hidx i hi
  simp only [gmp_ps] at this
  rw [this]
  exact liftSpec_model hinv h _ (ha.residues i hi)

theorem lift_spec_u32 (hinv : InvContract inv) (h : ModOK w ps) (hf : CtorFits w ps) (hP : ∀ p ∈ ps, p < 2 ^ 64) (n : Nat)
    (rop : List Int) (a : List Nat) (ha : PolyCanon ps n a) (hdata : ∀ x ∈ a, x < 2 ^ 32) (hrop : rop.length = n)
    (hidx : ps.length * n < 2 ^ 64) (i : Nat) (hi : i < n) :
    LiftSpec ps (residuesAt n ps.length a i)
      ((poly2mpz_u32 ps.length n (gmp_ctor_u32 inv w ps.length ps) rop a).getD i 0) := by
  rw [ctor_u32_eq inv w ps hf hP]
  have := poly2mpz_u32_eq (gmpInitWith inv w ps) n rop a hdata gmp_L_length hrop hidx
  simp only [gmp_ps] at this
  rw [this]; unfold Crt.poly2mpz
  rw [List.getD_eq_getElem _ _ (by simpa using hi)]
  simp only [List.getElem_map, List.getElem_range, gmp_ps]
  exact liftSpec_model hinv h _ (ha.residues i hi)

theorem lift_spec_u16 (hinv : InvContract inv) (h : ModOK w ps) (hf : CtorFits w ps) (hP : ∀ p ∈ ps, p < 2 ^ 64) (n : Nat)
    (rop : List Int) (a : List Nat) (ha : PolyCanon ps n a) (hdata : ∀ x ∈ a, x < 2 ^ 16) (hrop : rop.length = n)
    (hidx : ps.length * n < 2 ^ 64) (i : Nat) (hi : i < n) :
    LiftSpec ps (residuesAt n ps.length a i)
      ((poly2mpz_u16 ps.length n (gmp_ctor_u16 inv w ps.length ps) rop a).getD i 0) := by
  rw [ctor_u16_eq inv w ps hf hP]
  have := poly2mpz_u16_eq (gmpInitWith inv w ps) n rop a hdata gmp_L_length hrop hidx
  simp only [gmp_ps] at this
  rw [this]; unfold Crt.poly2mpz
  rw [List.getD_eq_getElem _ _ (by simpa using hi)]
  simp only [List.getElem_map, List.getElem_range, gmp_ps]
  exact liftSpec_model hinv h _ (ha.residues i hi)

/-- the whole array: the generated code computes `x ↦ x mod Q` of the CRT sum, coefficient-wise (C04.poly2mpz_coeffwise) -/
theorem poly2mpz_u64_coeffwise (hinv : InvContract inv) (h : ModOK w ps) (hf : CtorFits w ps) (n : Nat) (rop : List Int) (a : List Nat)
    (ha : PolyCanon ps n a) (hrop : rop.length = n) (hidx : ps.length * n < 2 ^ 64) :
    poly2mpz_u64 ps.length n (gmp_ctor_u64 inv w ps.length ps) rop a = (poly2mpzNat (gmpInitWith inv w ps) n a).map Int.ofNat := by
  rw [ctor_u64_eq inv w ps hf]
  have := poly2mpz_u64_eq (gmpInitWith inv w ps) n rop a gmp_L_length hrop hidx
  simp only [gmp_ps] at this
  rw [this]
  exact (C04.poly2mpz_coeffwise hinv h n a ha).1

/-! ### non-vacuity and concrete evaluations of the generated code -/

example : CtorFits 16 [15361, 13313] := ctorFits_of_small (by decide) (by decide) (by decide) (by decide)
example : (gmp_ctor_u16 invMod kModulusRepresentationBitsize_u16 2 [15361, 13313]).moduli_product = 204500993 := by decide
example : (gmp_ctor_u16 invMod 16 2 [15361, 13313]).shift_modulus_shoup = 28 + 16 + 1 + 1 := by decide
example : (gmp_ctor_u16 invMod 16 2 [15361, 13313]).lifting_integers = (gmpInit 16 [15361, 13313]).L.map Int.ofNat := by decide
example : (gmp_ctor_u64 invMod kModulusRepresentationBitsize_u64 3 [7, 11, 13]).modulus_shoup = ((gmpInit 64 [7, 11, 13]).mu : Int) := by decide
example : (gmp_ctor_u64 invMod 64 3 [7, 11, 13]).lifting_integers = [715, 364, 924] := by decide
/-- all residues `p−1`: the generated loop nest returns `Q−1` in every coefficient, whatever `rop` held -/
example : poly2mpz_u16 2 2 (gmp_ctor_u16 invMod 16 2 [15361, 13313]) [-5, 77] [15360, 15360, 13312, 13312] = [204500992, 204500992] := by
  decide
/-- `mpz2poly` as generated agrees with the model on a concrete input (negative and large integers; in general: C04Ast2.mpz2poly_uW_eq) -/
example : mpz2poly_u64 3 2 [7, 11, 13] [0, 0, 0, 0, 0, 0] [-1, 1000] = Crt.mpz2poly [7, 11, 13] [-1, 1000] := by decide
example : mpz2poly_u16 2 2 [15361, 13313] [9, 9, 9, 9] [-1, 204500993] = Crt.mpz2poly [15361, 13313] [-1, 204500993] := by decide

end Nfl.C04Ast
