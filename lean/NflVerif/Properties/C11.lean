/-
C11 — Gaussian sampler is memory-safe and never reuses randomness, for all parameters.       *** PARTIAL ***

PROVED here, of the model `Nfl.Gauss.getNoise` of the `getNoise` loop (see Model/Gauss.lean), for ALL request lengths
`rlen` (0 included), ALL buffer lengths `bufLen ≥ wp` (this is what the line
`if (innoise_words < _word_precision) innoise_words = _word_precision;` guarantees; the harness reads `bufLen` off the
request the scripted `fastrandombytes` receives, and the driver rejects a run with `bufLen < wp`), ALL tables of the
right shape (`shapeOK`: sizes, a row under every flagged first-level cell, listed barriers of `≤ wp` words — implied by
`tableOK`, and evaluated on the real tables), both depths, generic index width `W`, ALL contents of the random buffers:
  * `reads_in_bounds`       the run never reads outside its buffer (the model returns `some …`; `none` is its over-read
                            signal) and every inspected index `pos + i`, `i < seen`, is `< bufLen`;
  * `over_read_witness`     the converse: with `bufLen < wp` (the code before the fix) there are tables and a buffer
                            content for which the run reads past the buffer;
  * `writes_exact`          the outputs written are exactly `rand_outdata[0 … rlen-1]`: one per iteration, `rlen` in all
                            (unconditional);
  * `terminates`            the loop ends after exactly `rlen` iterations;
  * `consumption_disjoint`  iterations consume consecutive, pairwise disjoint pieces of one fill, each piece inside the
                            buffer, each refill is the *next* request (never an earlier one), and the words inspected are
                            among the words consumed: no random word influences two outputs.

  * `lifecycle_releases_all` of the allocation model Model/GaussLife.lean (per-thread MPFR caches, released by the constructor):
                            every lifecycle over any threads, with any number of samplers and any destruction order,
                            ends with nothing allocated (+ `release_in_destructor_witness`, the converse).

NOT PROVED (observed on every run instead, which is why the claim is partial): the accesses of the real C++ — heap
reads/writes of `getNoise`, allocation and release of the barriers and of the nested tables in the constructor and the
destructor.  These are exercised under AddressSanitizer + UBSan + LeakSanitizer with scripted streams (random, all-zero,
all-ones, equal to a barrier on a long prefix), request lengths 0…64 and 4096 (0…4096 in the thorough tier), and the
outputs / request counts / request sizes are compared with this model line by line.
-/
import NflVerif.Proofs.GaussLoop
import NflVerif.Proofs.GaussLife

namespace Nfl.C11
open Nfl.Gauss

/-- **reads stay inside the buffer**. -/
theorem reads_in_bounds {depth W wp : Nat} {T : Tables} {bufLen : Nat} {fills : Nat → Str} (rlen : Nat)
    (hT : shapeOK depth W wp T = true) (hwp : depth ≤ wp) (hbuf : wp ≤ bufLen) (hf : FillsOK W bufLen fills) :
    ∃ evs, getNoise depth wp T bufLen fills rlen = some evs ∧
      ∀ e ∈ evs, ∀ i, i < e.seen → e.pos + i < bufLen := by
  obtain ⟨evs, he, hc⟩ := loop_chain hT hwp hf rlen 0 0 ((fills 0).take bufLen) (by simp) (by omega)
  refine ⟨evs, he, ?_⟩
  intro e hev i hi
  have := chain_bounds hc e hev
  omega

/-- a depth-1 table for `W = 2`, `wp = 3`: cell 1 is flagged and lists the barrier `1 1 1` -/
def witT : Tables := ⟨#[{ val := 0 }, { val := 0, flag := true, bl := [[1, 1, 1]] }], #[]⟩

/-- **converse witness** (the defect fixed by `max(…, _word_precision)`): a buffer shorter than one full comparison is
over-read — here `bufLen = 1 < wp = 3`, the only buffer word selects a flagged cell, `cmp` walks past the buffer. -/
theorem over_read_witness :
    shapeOK 1 2 3 witT = true ∧ FillsOK 2 1 (fun _ => [1]) ∧ (1 : Nat) < 3 ∧
      getNoise 1 3 witT 1 (fun _ => [1]) 1 = none := by
  refine ⟨by decide, ⟨fun _ => by simp, fun _ x hx => by simp at hx; omega⟩, by omega, by decide⟩

/-- **writes are exactly indices `0 … rlen-1`** — one output per iteration, whatever the tables and the buffers. -/
theorem writes_exact {depth wp : Nat} {T : Tables} {bufLen : Nat} {fills : Nat → Str} {rlen : Nat} {evs : List Ev}
    (h : getNoise depth wp T bufLen fills rlen = some evs) : evs.length = rlen :=
  loop_length rlen 0 0 _ h

/-- **termination**: exactly `rlen` iterations (the model is a structurally recursive total function; with in-bounds
buffers it returns a trace of `rlen` iterations). -/
theorem terminates {depth W wp : Nat} {T : Tables} {bufLen : Nat} {fills : Nat → Str} (rlen : Nat)
    (hT : shapeOK depth W wp T = true) (hwp : depth ≤ wp) (hbuf : wp ≤ bufLen) (hf : FillsOK W bufLen fills) :
    ∃ evs, getNoise depth wp T bufLen fills rlen = some evs ∧ evs.length = rlen := by
  obtain ⟨evs, he, _⟩ := reads_in_bounds rlen hT hwp hbuf hf
  exact ⟨evs, he, writes_exact he⟩

/-- **no random word influences two outputs**. -/
theorem consumption_disjoint {depth W wp : Nat} {T : Tables} {bufLen : Nat} {fills : Nat → Str} (rlen : Nat)
    (hT : shapeOK depth W wp T = true) (hwp : depth ≤ wp) (hbuf : wp ≤ bufLen) (hf : FillsOK W bufLen fills) :
    ∃ evs, getNoise depth wp T bufLen fills rlen = some evs ∧
      -- consecutive: each iteration starts where the previous stopped, or at 0 of the next request after a refill
      Chain wp bufLen 0 0 evs ∧
      -- pairwise disjoint: different requests, or the earlier piece ends before the later one starts
      evs.Pairwise (fun a b => a.req < b.req ∨ (a.req = b.req ∧ a.pos + a.used ≤ b.pos)) ∧
      -- inspected ⊆ consumed ⊆ buffer
      ∀ e ∈ evs, e.seen ≤ e.used ∧ 1 ≤ e.used ∧ e.pos + e.used ≤ bufLen := by
  obtain ⟨evs, he, hc⟩ := loop_chain hT hwp hf rlen 0 0 ((fills 0).take bufLen) (by simp) (by omega)
  refine ⟨evs, he, hc, chain_disjoint hc, ?_⟩
  intro e hev
  have := chain_bounds hc e hev
  exact ⟨this.1, this.2.1, this.2.2.1⟩

/-! ### non-vacuity: the hypotheses hold on a concrete instance and the run has refills -/

/-- depth-2 tables built by the builder model for `W = 4`, barriers `0 2 1`, `1 3 0`, `3 3 3` -/
def exBs : List Str := [[0, 2, 1], [1, 3, 0], [3, 3, 3]]

example : (buildLUT 2 4 exBs 0).map (shapeOK 2 4 3) = some true := by decide

example : ((buildLUT 2 4 exBs 0).bind fun T => getNoise 2 3 T 7 (fun r => [r % 4, 3, 3, 3, 0, 2, 1]) 5).map
    (fun evs => evs.map fun e => (e.req, e.pos, e.used, e.out)) =
    some [(0, 0, 2, 0), (0, 2, 3, 1), (1, 0, 3, 1), (1, 3, 2, 1), (2, 0, 1, 1)] := by decide

/-! ### "release all memory", over threads

Model/GaussLife.lean: the blocks a sampler obtains and releases when constructor, `getNoise` and destructor run on
arbitrary threads, several samplers are alive at once and threads end in between.  MPFR's caches are per thread (stated
contract); the code releases them at the end of `precomputeBarrierValues`, i.e. inside the constructor, on the thread
that filled them.  The harness observes the real allocator (every block obtained inside constructor / getNoise /
destructor on any thread, `glc` lines) and the driver compares its residue with this model's. -/
open Nfl.Gauss.Life in
/-- **every lifecycle releases everything**: whatever the events (any number of samplers, any interleaving, any order
of destruction), whatever thread each of them runs on, whenever threads end, and however many blocks MPFR caches per
construction — once every sampler has been destroyed nothing is allocated any more: nothing lost with an ended thread,
nothing cached on a live one, nothing owned. -/
theorem lifecycle_releases_all {fill ownB : Nat} {evs : List Evt} {s : St} (nthr nobj : Nat)
    (h : run .inCtor fill ownB St.init evs = some s) (hd : allDead nobj s = true) :
    residual nthr nobj s = 0 := by
  obtain ⟨hl, hc⟩ := run_inv evs inv_init h
  unfold residual
  rw [hl, sumTo_zero nthr (fun i _ => hc i), sumTo_zero nobj (allDead_iff.1 hd)]

open Nfl.Gauss.Life in
/-- … and in between, all that is allocated is what the live samplers own (no thread holds cached blocks). -/
theorem lifecycle_no_cached_blocks {fill ownB : Nat} {evs : List Evt} {s : St}
    (h : run .inCtor fill ownB St.init evs = some s) : s.lost = 0 ∧ ∀ t, s.cache t = 0 :=
  run_inv evs inv_init h

open Nfl.Gauss.Life in
/-- **converse witness**: were the cache released by the destructor instead, a sampler constructed on a thread that
ends and destroyed on another thread would lose the constructor's cached blocks (23 here) — although a lifecycle that
stays on one thread releases everything under that policy too. -/
theorem release_in_destructor_witness :
    (run .inDtor 23 3 St.init [⟨0, 0, 1⟩, ⟨1, 0, 0⟩, ⟨3, 0, 1⟩, ⟨2, 0, 0⟩]).map (residual 2 1) = some 23 ∧
    (run .inDtor 23 3 St.init [⟨0, 0, 1⟩, ⟨1, 0, 1⟩, ⟨2, 0, 1⟩, ⟨3, 0, 1⟩]).map (residual 2 1) = some 0 := by decide

open Nfl.Gauss.Life in
/-- non-vacuity: two samplers, constructed on a worker that ends and on a fresh thread, sampled on main, destroyed in
LIFO order on two other threads: the run is accepted, every sampler is dead at the end, the residue is 0. -/
example : (run .inCtor 23 3 St.init [⟨0, 0, 1⟩, ⟨0, 1, 9⟩, ⟨3, 0, 1⟩, ⟨1, 0, 0⟩, ⟨1, 1, 0⟩, ⟨2, 1, 2⟩, ⟨2, 0, 9⟩]).map
    (fun s => (allDead 2 s, residual 10 2 s)) = some (true, 0) := by decide

end Nfl.C11
