/-
C01 / C02 on the PUBLIC ENTRY POINTS obtained from the source text.

`Generated/EntryAst.lean` (tools/gen_entry_ast.py, re-generated on every run) is the translation of the bodies of
`poly::core::ntt_pow_phi(poly&)` and `poly::core::invntt_pow_invphi(poly&)` (core.hpp): the statement
`op = nfl::shoup(op * phis, shoupphis)` as a call of the GENERATED expression-template evaluator (`Generated/ExprAst.lean`), the loop
over the moduli as a `forSt` calling the GENERATED `core::ntt` / `core::inv_ntt` (`Generated/NttLoopAst.lean`) on the slice
`&op(cm, 0)` with row `cm` of the tables (`T cm : InitRow`, the representation of `Generated/InitAst.lean`).  This file states
  (1) `ntt_pow_phi_uW_eq`, `invntt_pow_invphi_uW_eq` (W = 32, 64): the generated entry points EQUAL the hand model's `nttPowPhi` /
      `invnttPowInvphi` (`Model/Ntt.lean`) applied slice by slice (`EntryAstEq.fwdAll` / `invAll`), for every list of moduli, every
      degree `2^k` (`k ≤ 32`, inverse `k ≤ 15`: the ranges of `C02LoopAst.ntt_eq` / `inv_ntt_eq`), ARBITRARY tables of the declared
      extents whose cells are words of `T` (`EntryAstEq.TabOK`), all polynomials of `nmoduli · 2^k` words of `T`;
  (2) `entry_fwd_tables`, `entry_inv_tables`, `product_entry`: with the tables produced by the GENERATED `initialize_row_uW`
      (`C06Ast.genInit`) the generated entry points are C02's `fwd` / `inv` per modulus, and
      `invntt_pow_invphi (mulmod pointwise (ntt_pow_phi a) (ntt_pow_phi b))` is the negacyclic product per modulus.
Hypotheses of (1), each needed: `c.deg = 2^k`; `Sizes c` (`nmoduli`, `degree`, their product below 2^64: the `size_t` loop counters and
`cm * degree`; `P[cm], Pn[cm]` values of `T`); `2·P[cm] < 2^W` (the butterflies compute `2p` in `T`); `TabOK`; for the inverse the
uninitialised local array of every `inv_ntt` call (any words, at least `degree` cells) and `hmid`: the cells `inv_ntt` leaves in `op`
are values of `T` (true of the C type; for ARBITRARY tables the hand model gives no bound, so it is a hypothesis — discharged in (2)).
Proofs: `Proofs/EntryAstEq.lean`.
-/
import NflVerif.Proofs.EntryAstEq
import NflVerif.Proofs.EntryTables
import NflVerif.Properties.C06Ast
import NflVerif.Properties.Compose

namespace Nfl.C01Ast
open Nfl Nfl.Gen Nfl.CSemEntry Nfl.Crt Nfl.EntryAstEq Nfl.Ex Nfl.ExprAst

/-- **`core::ntt_pow_phi`, `uint32_t`, from the source = the hand model slice by slice** -/
theorem ntt_pow_phi_u32_eq (c : Ctx) (k : Nat) (T : Nat → InitRow) (hl : c.l = .w32) (hk : k ≤ 32) (hdeg : c.deg = 2 ^ k) (S : Sizes c)
    (h2p : ∀ cm, cm < c.nmod → 2 * c.p cm < 2 ^ 32) (hT : ∀ cm, cm < c.nmod → TabOK 32 (2 ^ k) (T cm))
    (a : List Nat) (ha : a.length = c.nmod * 2 ^ k) (haw : ∀ v ∈ a, v < 2 ^ 32) :
    Gen.ntt_pow_phi_u32 (2 ^ k) c.nmod c.p (pnOf c) T a = fwdAll 32 k c.p c.nmod T a :=
  EntryAstEq.ntt_pow_phi_u32_eq c k T hl hk hdeg S h2p hT a ha haw

/-- **`core::ntt_pow_phi`, `uint64_t`** -/
theorem ntt_pow_phi_u64_eq (c : Ctx) (k : Nat) (T : Nat → InitRow) (hl : c.l = .w64) (hk : k ≤ 32) (hdeg : c.deg = 2 ^ k) (S : Sizes c)
    (h2p : ∀ cm, cm < c.nmod → 2 * c.p cm < 2 ^ 64) (hT : ∀ cm, cm < c.nmod → TabOK 64 (2 ^ k) (T cm))
    (a : List Nat) (ha : a.length = c.nmod * 2 ^ k) (haw : ∀ v ∈ a, v < 2 ^ 64) :
    Gen.ntt_pow_phi_u64 (2 ^ k) c.nmod c.p (pnOf c) T a = fwdAll 64 k c.p c.nmod T a :=
  EntryAstEq.ntt_pow_phi_u64_eq c k T hl hk hdeg S h2p hT a ha haw

/-- **`core::invntt_pow_invphi`, `uint32_t`** -/
theorem invntt_pow_invphi_u32_eq (c : Ctx) (k : Nat) (T : Nat → InitRow) (hl : c.l = .w32) (hk : k ≤ 15) (hdeg : c.deg = 2 ^ k)
    (S : Sizes c) (h2p : ∀ cm, cm < c.nmod → 2 * c.p cm < 2 ^ 32) (hT : ∀ cm, cm < c.nmod → TabOK 32 (2 ^ k) (T cm))
    (yinit : Nat → List Nat) (hy : ∀ cm, cm < c.nmod → 2 ^ k ≤ (yinit cm).length ∧ ∀ v ∈ yinit cm, v < 2 ^ 32)
    (a : List Nat) (ha : a.length = c.nmod * 2 ^ k) (haw : ∀ v ∈ a, v < 2 ^ 32)
    (hmid : ∀ cm, cm < c.nmod → ∀ v ∈ invNttWord 32 (c.p cm) k (T cm).invomegas (suffix (T cm).invomegas (T cm).shoupinvomegas)
      (slice (2 ^ k) a cm), v < 2 ^ 32) :
    Gen.invntt_pow_invphi_u32 (2 ^ k) c.nmod c.p (pnOf c) T yinit a = invAll 32 k c.p c.nmod T a :=
  EntryAstEq.invntt_pow_invphi_u32_eq c k T hl hk hdeg S h2p hT yinit hy a ha haw hmid

/-- **`core::invntt_pow_invphi`, `uint64_t`** -/
theorem invntt_pow_invphi_u64_eq (c : Ctx) (k : Nat) (T : Nat → InitRow) (hl : c.l = .w64) (hk : k ≤ 15) (hdeg : c.deg = 2 ^ k)
    (S : Sizes c) (h2p : ∀ cm, cm < c.nmod → 2 * c.p cm < 2 ^ 64) (hT : ∀ cm, cm < c.nmod → TabOK 64 (2 ^ k) (T cm))
    (yinit : Nat → List Nat) (hy : ∀ cm, cm < c.nmod → 2 ^ k ≤ (yinit cm).length ∧ ∀ v ∈ yinit cm, v < 2 ^ 64)
    (a : List Nat) (ha : a.length = c.nmod * 2 ^ k) (haw : ∀ v ∈ a, v < 2 ^ 64)
    (hmid : ∀ cm, cm < c.nmod → ∀ v ∈ invNttWord 64 (c.p cm) k (T cm).invomegas (suffix (T cm).invomegas (T cm).shoupinvomegas)
      (slice (2 ^ k) a cm), v < 2 ^ 64) :
    Gen.invntt_pow_invphi_u64 (2 ^ k) c.nmod c.p (pnOf c) T yinit a = invAll 64 k c.p c.nmod T a :=
  EntryAstEq.invntt_pow_invphi_u64_eq c k T hl hk hdeg S h2p hT yinit hy a ha haw hmid


/-! ### (2) with the tables of the generated `core::initialize` -/

/-- the tables of all moduli produced by the GENERATED builder from arbitrary initial contents `s cm` -/
def genT (l : C03.Limb) (c : Ctx) (k : Nat) (s : Nat → InitRow) : Nat → InitRow :=
  fun cm => C06Ast.genInit l (2 ^ k) (2 ^ l.lk) (c.row cm) (s cm)

/-- with the tables of the GENERATED `core::initialize` (`uint32_t`): the generated `ntt_pow_phi` is C02's `fwd`, modulus by modulus -/
theorem entry_fwd_tables_u32 (c : Ctx) (hl : c.l = .w32) (hrows : c.TableRows) (k : Nat) (hk : k ≤ C03.Limb.w32.lk) (hdeg : c.deg = 2 ^ k)
    (S : Sizes c) (s : Nat → InitRow) (hs : ∀ cm, (s cm).wf (2 ^ k)) (hT : ∀ cm, cm < c.nmod → TabOK 32 (2 ^ k) (genT .w32 c k s cm))
    (a : List Nat) (ha : CanonAll c (2 ^ k) a) :
    Gen.ntt_pow_phi_u32 (2 ^ k) c.nmod c.p (pnOf c) (genT .w32 c k s) a =
      (List.range c.nmod).flatMap fun cm => C02.fwd .w32 (c.row cm) k (slice (2 ^ k) a cm) := by
  have hlt : c.l.toC03 = .w32 := by rw [hl]; rfl
  rw [ntt_pow_phi_u32_eq c k _ hl (by have := C02LoopAst.lk_le .w32; omega) hdeg S
    (fun cm hcm => C02Ast.two_p_lt .w32 (row_mem' .w32 c hlt hrows hk s hs hcm)) hT a ha.1 (canonAll_words .w32 c hlt hrows hk s hs ha)]
  exact fwdAll_tables .w32 c hlt hrows hk s hs a

/-- … and the generated `invntt_pow_invphi` is C02's `inv`, modulus by modulus (`hmid` discharged) -/
theorem entry_inv_tables_u32 (c : Ctx) (hl : c.l = .w32) (hrows : c.TableRows) (k : Nat) (hk : k ≤ C03.Limb.w32.lk) (hk15 : k ≤ 15)
    (hdeg : c.deg = 2 ^ k) (S : Sizes c) (s : Nat → InitRow) (hs : ∀ cm, (s cm).wf (2 ^ k))
    (hT : ∀ cm, cm < c.nmod → TabOK 32 (2 ^ k) (genT .w32 c k s cm))
    (yinit : Nat → List Nat) (hy : ∀ cm, cm < c.nmod → 2 ^ k ≤ (yinit cm).length ∧ ∀ v ∈ yinit cm, v < 2 ^ 32)
    (y : List Nat) (hc : CanonAll c (2 ^ k) y) :
    Gen.invntt_pow_invphi_u32 (2 ^ k) c.nmod c.p (pnOf c) (genT .w32 c k s) yinit y =
      (List.range c.nmod).flatMap fun cm => C02.inv .w32 (c.row cm) k (slice (2 ^ k) y cm) := by
  have hlt : c.l.toC03 = .w32 := by rw [hl]; rfl
  rw [invntt_pow_invphi_u32_eq c k _ hl hk15 hdeg S
    (fun cm hcm => C02Ast.two_p_lt .w32 (row_mem' .w32 c hlt hrows hk s hs hcm)) hT yinit hy y hc.1 (canonAll_words .w32 c hlt hrows hk s hs hc)
    (fun cm hcm => mid_words .w32 (row_mem' .w32 c hlt hrows hk s hs hcm) hk (s cm) (hs cm) _
      (slice_length (2 ^ k) c.nmod y (by rw [hc.1, Nat.mul_comm]) cm hcm) (hc.2 cm hcm))]
  exact invAll_tables .w32 c hlt hrows hk s hs y

/-- **C01 end to end on the generated entry points** (`uint32_t`): tables from the generated `initialize`, `ntt_pow_phi` of both operands,
pointwise `mulmod`, `invntt_pow_invphi` = the negacyclic product `Spec.negacyclicNat` (= the ring product: `C01.product_is_ring_product`)
for every modulus -/
theorem product_entry_u32 (c : Ctx) (hl : c.l = .w32) (hrows : c.TableRows) (k : Nat) (hk : k ≤ C03.Limb.w32.lk) (hk15 : k ≤ 15)
    (hdeg : c.deg = 2 ^ k) (S : Sizes c) (s : Nat → InitRow) (hs : ∀ cm, (s cm).wf (2 ^ k))
    (hT : ∀ cm, cm < c.nmod → TabOK 32 (2 ^ k) (genT .w32 c k s cm))
    (yinit : Nat → List Nat) (hy : ∀ cm, cm < c.nmod → 2 ^ k ≤ (yinit cm).length ∧ ∀ v ∈ yinit cm, v < 2 ^ 32)
    (a b : List Nat) (ha : CanonAll c (2 ^ k) a) (hb : CanonAll c (2 ^ k) b) :
    Gen.invntt_pow_invphi_u32 (2 ^ k) c.nmod c.p (pnOf c) (genT .w32 c k s) yinit
      (mulAll 32 c (2 ^ k) (Gen.ntt_pow_phi_u32 (2 ^ k) c.nmod c.p (pnOf c) (genT .w32 c k s) a)
        (Gen.ntt_pow_phi_u32 (2 ^ k) c.nmod c.p (pnOf c) (genT .w32 c k s) b)) =
      (List.range c.nmod).flatMap fun cm => Spec.negacyclicNat (c.p cm) (slice (2 ^ k) a cm) (slice (2 ^ k) b cm) := by
  have hlt : c.l.toC03 = .w32 := by rw [hl]; rfl
  rw [entry_fwd_tables_u32 c hl hrows k hk hdeg S s hs hT a ha, entry_fwd_tables_u32 c hl hrows k hk hdeg S s hs hT b hb,
    entry_inv_tables_u32 c hl hrows k hk hk15 hdeg S s hs hT yinit hy _
      (show CanonAll c (2 ^ k) (mulAll 32 c (2 ^ k) _ _) from
        mulAll_canonAll .w32 c hlt hrows hk s hs (fwd_canonAll .w32 c hlt hrows hk s hs ha) (fwd_canonAll .w32 c hlt hrows hk s hs hb))]
  exact product_all .w32 c hlt hrows hk s hs ha hb

/-- with the tables of the GENERATED `core::initialize` (`uint64_t`): the generated `ntt_pow_phi` is C02's `fwd`, modulus by modulus -/
theorem entry_fwd_tables_u64 (c : Ctx) (hl : c.l = .w64) (hrows : c.TableRows) (k : Nat) (hk : k ≤ C03.Limb.w64.lk) (hdeg : c.deg = 2 ^ k)
    (S : Sizes c) (s : Nat → InitRow) (hs : ∀ cm, (s cm).wf (2 ^ k)) (hT : ∀ cm, cm < c.nmod → TabOK 64 (2 ^ k) (genT .w64 c k s cm))
    (a : List Nat) (ha : CanonAll c (2 ^ k) a) :
    Gen.ntt_pow_phi_u64 (2 ^ k) c.nmod c.p (pnOf c) (genT .w64 c k s) a =
      (List.range c.nmod).flatMap fun cm => C02.fwd .w64 (c.row cm) k (slice (2 ^ k) a cm) := by
  have hlt : c.l.toC03 = .w64 := by rw [hl]; rfl
  rw [ntt_pow_phi_u64_eq c k _ hl (by have := C02LoopAst.lk_le .w64; omega) hdeg S
    (fun cm hcm => C02Ast.two_p_lt .w64 (row_mem' .w64 c hlt hrows hk s hs hcm)) hT a ha.1 (canonAll_words .w64 c hlt hrows hk s hs ha)]
  exact fwdAll_tables .w64 c hlt hrows hk s hs a

/-- … and the generated `invntt_pow_invphi` is C02's `inv`, modulus by modulus (`hmid` discharged) -/
theorem entry_inv_tables_u64 (c : Ctx) (hl : c.l = .w64) (hrows : c.TableRows) (k : Nat) (hk : k ≤ C03.Limb.w64.lk) (hk15 : k ≤ 15)
    (hdeg : c.deg = 2 ^ k) (S : Sizes c) (s : Nat → InitRow) (hs : ∀ cm, (s cm).wf (2 ^ k))
    (hT : ∀ cm, cm < c.nmod → TabOK 64 (2 ^ k) (genT .w64 c k s cm))
    (yinit : Nat → List Nat) (hy : ∀ cm, cm < c.nmod → 2 ^ k ≤ (yinit cm).length ∧ ∀ v ∈ yinit cm, v < 2 ^ 64)
    (y : List Nat) (hc : CanonAll c (2 ^ k) y) :
    Gen.invntt_pow_invphi_u64 (2 ^ k) c.nmod c.p (pnOf c) (genT .w64 c k s) yinit y =
      (List.range c.nmod).flatMap fun cm => C02.inv .w64 (c.row cm) k (slice (2 ^ k) y cm) := by
  have hlt : c.l.toC03 = .w64 := by rw [hl]; rfl
  rw [invntt_pow_invphi_u64_eq c k _ hl hk15 hdeg S
    (fun cm hcm => C02Ast.two_p_lt .w64 (row_mem' .w64 c hlt hrows hk s hs hcm)) hT yinit hy y hc.1 (canonAll_words .w64 c hlt hrows hk s hs hc)
    (fun cm hcm => mid_words .w64 (row_mem' .w64 c hlt hrows hk s hs hcm) hk (s cm) (hs cm) _
      (slice_length (2 ^ k) c.nmod y (by rw [hc.1, Nat.mul_comm]) cm hcm) (hc.2 cm hcm))]
  exact invAll_tables .w64 c hlt hrows hk s hs y

/-- **C01 end to end on the generated entry points** (`uint64_t`): tables from the generated `initialize`, `ntt_pow_phi` of both operands,
pointwise `mulmod`, `invntt_pow_invphi` = the negacyclic product `Spec.negacyclicNat` (= the ring product: `C01.product_is_ring_product`)
for every modulus -/
theorem product_entry_u64 (c : Ctx) (hl : c.l = .w64) (hrows : c.TableRows) (k : Nat) (hk : k ≤ C03.Limb.w64.lk) (hk15 : k ≤ 15)
    (hdeg : c.deg = 2 ^ k) (S : Sizes c) (s : Nat → InitRow) (hs : ∀ cm, (s cm).wf (2 ^ k))
    (hT : ∀ cm, cm < c.nmod → TabOK 64 (2 ^ k) (genT .w64 c k s cm))
    (yinit : Nat → List Nat) (hy : ∀ cm, cm < c.nmod → 2 ^ k ≤ (yinit cm).length ∧ ∀ v ∈ yinit cm, v < 2 ^ 64)
    (a b : List Nat) (ha : CanonAll c (2 ^ k) a) (hb : CanonAll c (2 ^ k) b) :
    Gen.invntt_pow_invphi_u64 (2 ^ k) c.nmod c.p (pnOf c) (genT .w64 c k s) yinit
      (mulAll 64 c (2 ^ k) (Gen.ntt_pow_phi_u64 (2 ^ k) c.nmod c.p (pnOf c) (genT .w64 c k s) a)
        (Gen.ntt_pow_phi_u64 (2 ^ k) c.nmod c.p (pnOf c) (genT .w64 c k s) b)) =
      (List.range c.nmod).flatMap fun cm => Spec.negacyclicNat (c.p cm) (slice (2 ^ k) a cm) (slice (2 ^ k) b cm) := by
  have hlt : c.l.toC03 = .w64 := by rw [hl]; rfl
  rw [entry_fwd_tables_u64 c hl hrows k hk hdeg S s hs hT a ha, entry_fwd_tables_u64 c hl hrows k hk hdeg S s hs hT b hb,
    entry_inv_tables_u64 c hl hrows k hk hk15 hdeg S s hs hT yinit hy _
      (show CanonAll c (2 ^ k) (mulAll 64 c (2 ^ k) _ _) from
        mulAll_canonAll .w64 c hlt hrows hk s hs (fwd_canonAll .w64 c hlt hrows hk s hs ha) (fwd_canonAll .w64 c hlt hrows hk s hs hb))]
  exact product_all .w64 c hlt hrows hk s hs ha hb

/-! ### non-vacuity: the generated entry points run by the kernel — two 30-bit moduli, degree 4, tables of the generated builder -/

def exRow (cm : Nat) : Row := Nfl.Gen.table32.rows.getD cm ⟨0, 0, 0, 0⟩
def exS : InitRow := ⟨List.replicate 4 7, List.replicate 4 7, List.replicate 4 7, List.replicate 4 7, List.replicate 8 7, 99, List.replicate 8 7, 99, 99⟩
def exT (cm : Nat) : InitRow := C06Ast.genInit .w32 4 (2 ^ C03.Limb.w32.lk) (exRow cm) exS
def exA : List Nat := [1, 2, 3, 4, 5, 6, 7, 8]

example : Gen.ntt_pow_phi_u32 4 2 (fun cm => (exRow cm).p) (fun cm => (exRow cm).pn) exT exA =
    fwdAll 32 2 (fun cm => (exRow cm).p) 2 exT exA := by decide +kernel
example : Gen.invntt_pow_invphi_u32 4 2 (fun cm => (exRow cm).p) (fun cm => (exRow cm).pn) exT (fun _ => [9, 9, 9, 9, 9])
    (Gen.ntt_pow_phi_u32 4 2 (fun cm => (exRow cm).p) (fun cm => (exRow cm).pn) exT exA) = exA := by decide +kernel

end Nfl.C01Ast
