/-
C05 — Serial, SSE and AVX2 builds compute bit-identical results.

Property theorems only (helper lemmas: `Proofs/SimdLanes.lean`; intrinsic-level model: `Model/Simd.lean`;
scalar models: `Model/Ops.lean`, `Model/Ntt.lean`).

What differs between the three builds (`-DNTT_SSE`, `-DNTT_AVX2`, neither):
  * `addmod`, `submod` for 16/32-bit limbs                    — §1
  * `mulmod_shoup` for 16/32-bit limbs, `muladd_shoup` for 16 — §2, §3   (helpers `mulhi_epu32`, `avx2_mulhi_epu32`)
  * the transform loop `ntt_loop` for 16/32-bit limbs          — §4, §5
  * the lane type in which `==` / `!=` are evaluated and stored (all limb widths) — §6
Everything else is literally the serial code (`struct X<T,sse> : X<T,serial>`, `struct X<T,avx2> : X<T,sse>`):
64-bit limbs for every functor and the loop, and `mulmod`, `muladd`, `compute_shoup` for every limb width.
For these there is nothing to prove; the correspondence streams still compare all three builds.

Every theorem is for ALL lane values (each lane a word of the lane width) unless a hypothesis says otherwise;
the hypotheses of the Shoup kernels are exactly what the kernels need (see `Shoup32Hyp`, `Shoup16Hyp`,
`Muladd16Hyp`) and are shown to hold in the regime in which the library uses them (every table row).
-/
import NflVerif.Proofs.SimdLanes
import NflVerif.Properties.C03

namespace Nfl.C05
open Nfl Nfl.Gen Nfl.Simd Nfl.C03

/-! ## §1 addition and subtraction -/

/-- `addmod<uintW,sse|avx2>` is `addmod<uintW,serial>` in every lane — any modulus `p < 2^w`, ALL lane
values (no range condition: the signed-compare trick is an exact unsigned comparison), any lane count. -/
theorem addmod_lanes {w : Nat} (hw : w = 16 ∨ w = 32) {p : Nat} (hp : p < 2 ^ w) (L : Nat) (X Y : Reg)
    (hX : X.length = L) (hY : Y.length = L) :
    vecAddmod w L p X Y = List.zipWith (addmod w p) X Y :=
  vecAddmod_lanes (by rcases hw with h | h <;> simp [h]) hp L X Y hX hY

theorem submod_lanes {w : Nat} (hw : w = 16 ∨ w = 32) {p : Nat} (hp : p < 2 ^ w) (L : Nat) (X Y : Reg)
    (hX : X.length = L) (hY : Y.length = L) :
    vecSubmod w L p X Y = List.zipWith (submod w p) X Y :=
  vecSubmod_lanes (by rcases hw with h | h <;> simp [h]) hp L X Y hX hY

/-- the eight kernels by name -/
theorem sseAddmod32_lanes {p : Nat} (hp : p < 2 ^ 32) (X Y : Reg) (hX : X.length = 4) (hY : Y.length = 4) :
    sseAddmod32 p X Y = List.zipWith (addmod 32 p) X Y := addmod_lanes (Or.inr rfl) hp 4 X Y hX hY
theorem sseAddmod16_lanes {p : Nat} (hp : p < 2 ^ 16) (X Y : Reg) (hX : X.length = 8) (hY : Y.length = 8) :
    sseAddmod16 p X Y = List.zipWith (addmod 16 p) X Y := addmod_lanes (Or.inl rfl) hp 8 X Y hX hY
theorem avx2Addmod32_lanes {p : Nat} (hp : p < 2 ^ 32) (X Y : Reg) (hX : X.length = 8) (hY : Y.length = 8) :
    avx2Addmod32 p X Y = List.zipWith (addmod 32 p) X Y := addmod_lanes (Or.inr rfl) hp 8 X Y hX hY
theorem avx2Addmod16_lanes {p : Nat} (hp : p < 2 ^ 16) (X Y : Reg) (hX : X.length = 16) (hY : Y.length = 16) :
    avx2Addmod16 p X Y = List.zipWith (addmod 16 p) X Y := addmod_lanes (Or.inl rfl) hp 16 X Y hX hY
theorem sseSubmod32_lanes {p : Nat} (hp : p < 2 ^ 32) (X Y : Reg) (hX : X.length = 4) (hY : Y.length = 4) :
    sseSubmod32 p X Y = List.zipWith (submod 32 p) X Y := submod_lanes (Or.inr rfl) hp 4 X Y hX hY
theorem sseSubmod16_lanes {p : Nat} (hp : p < 2 ^ 16) (X Y : Reg) (hX : X.length = 8) (hY : Y.length = 8) :
    sseSubmod16 p X Y = List.zipWith (submod 16 p) X Y := submod_lanes (Or.inl rfl) hp 8 X Y hX hY
theorem avx2Submod32_lanes {p : Nat} (hp : p < 2 ^ 32) (X Y : Reg) (hX : X.length = 8) (hY : Y.length = 8) :
    avx2Submod32 p X Y = List.zipWith (submod 32 p) X Y := submod_lanes (Or.inr rfl) hp 8 X Y hX hY
theorem avx2Submod16_lanes {p : Nat} (hp : p < 2 ^ 16) (X Y : Reg) (hX : X.length = 16) (hY : Y.length = 16) :
    avx2Submod16 p X Y = List.zipWith (submod 16 p) X Y := submod_lanes (Or.inl rfl) hp 16 X Y hX hY

/-! ## §2 high product helpers and `mulmod_shoup` -/

/-- `mulhi_epu32` (two `mul_epu32`, `srli 32`, `shuffle 0xB1`, `blend 0b1010`) returns the high word of the
32×32 product in each of the four lanes; `avx2_mulhi_epu32` in each of the eight lanes. -/
theorem mulhi_epu32_lanes (A B : Reg) (hA : A.length = 4) (hB : B.length = 4)
    (bA : ∀ a ∈ A, a < 2 ^ 32) (bB : ∀ b ∈ B, b < 2 ^ 32) :
    sseMulhiEpu32 A B = List.zipWith (fun a b => a * b / 2 ^ 32) A B := sseMulhiEpu32_lanes A B hA hB bA bB

theorem avx2_mulhi_epu32_lanes (A B : Reg) (hA : A.length = 8) (hB : B.length = 8)
    (bA : ∀ a ∈ A, a < 2 ^ 32) (bB : ∀ b ∈ B, b < 2 ^ 32) :
    avx2MulhiEpu32 A B = List.zipWith (fun a b => a * b / 2 ^ 32) A B := avx2MulhiEpu32_lanes A B hA hB bA bB

/-- `mulmod_shoup<uint32_t,sse>` (the AVX2 build uses the same kernel) = `mulmod_shoup<uint32_t,serial>` in
every lane, for all 32-bit lane values for which the 64-bit difference `x·y − q·p` fits 32 bits. -/
theorem mulmod_shoup32_lanes {p : Nat} (hp : p < 2 ^ 32) (X Y Y' : Reg)
    (hX : X.length = 4) (hY : Y.length = 4) (hY' : Y'.length = 4)
    (bX : ∀ v ∈ X, v < 2 ^ 32) (bY : ∀ v ∈ Y, v < 2 ^ 32) (bY' : ∀ v ∈ Y', v < 2 ^ 32)
    (h : All3 (Shoup32Hyp p) X Y Y') :
    sseMulmodShoup32 p X Y Y' = mulShoupList 32 p X Y Y' :=
  sseMulmodShoup32_lanes hp X Y Y' hX hY hY' bX bY bY' h

/-- `mulmod_shoup<uint16_t,sse>` and `mulmod_shoup<uint16_t,avx2>` = serial in every lane, for all 16-bit lane
values for which the value after the conditional subtraction fits 16 bits (`packus` saturates, the scalar code
truncates). -/
theorem mulmod_shoup16_lanes {p : Nat} (hp : p ≤ 2 ^ 16) (X Y Y' : Reg)
    (hX : X.length = 8) (hY : Y.length = 8) (hY' : Y'.length = 8)
    (bX : ∀ v ∈ X, v < 2 ^ 16) (bY' : ∀ v ∈ Y', v < 2 ^ 16) (h : All3 (Shoup16Hyp p) X Y Y') :
    sseMulmodShoup16 p X Y Y' = mulShoupList 16 p X Y Y' ∧ avx2MulmodShoup16 p X Y Y' = mulShoupList 16 p X Y Y' :=
  ⟨sseMulmodShoup16_lanes hp X Y Y' hX hY hY' bX bY' h, avx2MulmodShoup16_lanes hp X Y Y' hX hY hY' bX bY' h⟩

theorem all3_regime {P : Nat → Nat → Nat → Prop} {f : Nat → Nat} {p M : Nat}
    (hP : ∀ x y, x < M → y < p → P x y (f y)) :
    ∀ (X Y : List Nat), (∀ x ∈ X, x < M) → (∀ y ∈ Y, y < p) → All3 P X Y (Y.map f)
  | [], _, _, _ => by simp [All3]
  | _ :: _, [], _, _ => by simp [All3]
  | x :: X, y :: Y, hX, hY => by
    simp only [List.map_cons, All3]
    exact ⟨hP x y (hX x (List.mem_cons_self ..)) (hY y (List.mem_cons_self ..)),
      all3_regime hP X Y (fun v hv => hX v (List.mem_cons_of_mem _ hv)) (fun v hv => hY v (List.mem_cons_of_mem _ hv))⟩

theorem mem_map_lt {f : Nat → Nat} {B : Nat} (hf : ∀ y, f y < B) (Y : List Nat) : ∀ v ∈ Y.map f, v < B := by
  intro v hv
  obtain ⟨y, _, rfl⟩ := List.mem_map.1 hv
  exact hf y

theorem computeShoup_lt (w p y : Nat) : computeShoup w p y < 2 ^ w := by
  unfold computeShoup; exact Nat.mod_lt _ (Nat.two_pow_pos w)

/-- **every table row, 32-bit limbs**: with the companion computed by `compute_shoup`, any words `X` (so also
the lazily reduced values) and canonical `Y`, the SSE/AVX2 kernel returns the serial functor's words. -/
theorem mulmod_shoup32_rows {r : Row} (hr : r ∈ table32.rows) (X Y : Reg) (hX : X.length = 4) (hY : Y.length = 4)
    (bX : ∀ x ∈ X, x < 2 ^ 32) (bY : ∀ y ∈ Y, y < r.p) :
    sseMulmodShoup32 r.p X Y (Y.map (computeShoup 32 r.p)) = mulShoupList 32 r.p X Y (Y.map (computeShoup 32 r.p)) := by
  have h4 := four_p_le Limb.w32 hr
  have hp0 := p_pos Limb.w32 hr
  simp only [Limb.w] at h4
  refine mulmod_shoup32_lanes (by omega) X Y _ hX hY (by simpa using hY) bX
    (fun y hy => by have := bY y hy; omega) (mem_map_lt (computeShoup_lt 32 r.p) Y) ?_
  refine all3_regime (fun x y hx hy => ?_) X Y bX bY
  rw [computeShoup_spec hp0 (by omega) y, Nat.mod_eq_of_lt hy]
  exact shoup32Hyp_of_regime hp0 (by omega) hx hy

/-- **every table row, 16-bit limbs** -/
theorem mulmod_shoup16_rows {r : Row} (hr : r ∈ table16.rows) (X Y : Reg) (hX : X.length = 8) (hY : Y.length = 8)
    (bX : ∀ x ∈ X, x < 2 ^ 16) (bY : ∀ y ∈ Y, y < r.p) :
    sseMulmodShoup16 r.p X Y (Y.map (computeShoup 16 r.p)) = mulShoupList 16 r.p X Y (Y.map (computeShoup 16 r.p)) ∧
    avx2MulmodShoup16 r.p X Y (Y.map (computeShoup 16 r.p)) = mulShoupList 16 r.p X Y (Y.map (computeShoup 16 r.p)) := by
  have h4 := four_p_le Limb.w16 hr
  have hp0 := p_pos Limb.w16 hr
  simp only [Limb.w] at h4
  refine mulmod_shoup16_lanes (by omega) X Y _ hX hY (by simpa using hY) bX
    (mem_map_lt (computeShoup_lt 16 r.p) Y) ?_
  refine all3_regime (fun x y hx hy => ?_) X Y bX bY
  rw [computeShoup_spec hp0 (by omega) y, Nat.mod_eq_of_lt hy]
  exact shoup16Hyp_of_regime hp0 (by omega) hx hy

/-! ## §3 `muladd_shoup` (16-bit limbs; the 32- and 64-bit functors are the serial code) -/

/-- both vector kernels = serial in every lane when `rop + (x·y − q·p)` fits 16 bits.  (The SSE kernel
adds `0x80000000` where the AVX2 kernel subtracts it: the same modulo `2^32`.) -/
theorem muladd_shoup16_lanes {p : Nat} (hp : p ≤ 2 ^ 16) (R X Y Y' : Reg)
    (hR : R.length = 8) (hX : X.length = 8) (hY : Y.length = 8) (hY' : Y'.length = 8)
    (bX : ∀ v ∈ X, v < 2 ^ 16) (bY' : ∀ v ∈ Y', v < 2 ^ 16) (h : All4 (Muladd16Hyp p) R X Y Y') :
    sseMuladdShoup16 p R X Y Y' = muladdShoupList 16 p R X Y Y' ∧
    avx2MuladdShoup16 p R X Y Y' = muladdShoupList 16 p R X Y Y' :=
  ⟨sseMuladdShoup16_lanes hp R X Y Y' hR hX hY hY' bX bY' h, avx2MuladdShoup16_lanes hp R X Y Y' hR hX hY hY' bX bY' h⟩

theorem all4_regime {P : Nat → Nat → Nat → Nat → Prop} {f : Nat → Nat} {p M : Nat}
    (hP : ∀ r x y, r < p → x < M → y < p → P r x y (f y)) :
    ∀ (R X Y : List Nat), (∀ r ∈ R, r < p) → (∀ x ∈ X, x < M) → (∀ y ∈ Y, y < p) → All4 P R X Y (Y.map f)
  | [], _, _, _, _, _ => by simp [All4]
  | _ :: _, [], _, _, _, _ => by simp [All4]
  | _ :: _, _ :: _, [], _, _, _ => by simp [All4]
  | r :: R, x :: X, y :: Y, hR, hX, hY => by
    simp only [List.map_cons, All4]
    exact ⟨hP r x y (hR r (List.mem_cons_self ..)) (hX x (List.mem_cons_self ..)) (hY y (List.mem_cons_self ..)),
      all4_regime hP R X Y (fun v hv => hR v (List.mem_cons_of_mem _ hv)) (fun v hv => hX v (List.mem_cons_of_mem _ hv))
        (fun v hv => hY v (List.mem_cons_of_mem _ hv))⟩

/-- **every table row, 16-bit limbs** -/
theorem muladd_shoup16_rows {r : Row} (hr : r ∈ table16.rows) (R X Y : Reg)
    (hR : R.length = 8) (hX : X.length = 8) (hY : Y.length = 8)
    (bR : ∀ v ∈ R, v < r.p) (bX : ∀ x ∈ X, x < 2 ^ 16) (bY : ∀ y ∈ Y, y < r.p) :
    sseMuladdShoup16 r.p R X Y (Y.map (computeShoup 16 r.p)) = muladdShoupList 16 r.p R X Y (Y.map (computeShoup 16 r.p)) ∧
    avx2MuladdShoup16 r.p R X Y (Y.map (computeShoup 16 r.p)) = muladdShoupList 16 r.p R X Y (Y.map (computeShoup 16 r.p)) := by
  have h4 := four_p_le Limb.w16 hr
  have hp0 := p_pos Limb.w16 hr
  simp only [Limb.w] at h4
  refine muladd_shoup16_lanes (by omega) R X Y _ hR hX hY (by simpa using hY) bX
    (mem_map_lt (computeShoup_lt 16 r.p) Y) ?_
  refine all4_regime (fun ro x y hro hx hy => ?_) R X Y bR bX bY
  rw [computeShoup_spec hp0 (by omega) y, Nat.mod_eq_of_lt hy]
  exact muladd16Hyp_of_regime hp0 h4 hro hx hy

/-! ## §4 vector butterflies -/

/-- `ntt_loop_body<sse|avx2, poly, uint16_t|uint32_t>::operator()` stores, in every lane, what
`ntt_loop_body<serial>` stores: `x0 ← bflyLo`, `x1 ← bflyHi` — ALL data words, all table words, `2p ≤ 2^w`. -/
theorem butterfly_lanes {w : Nat} (hw : w = 16 ∨ w = 32) {p : Nat} (hp : 2 * p ≤ 2 ^ w) (U0 U1 WI WT : Reg)
    (bi : ∀ v ∈ WI, v < 2 ^ w) :
    (U0.length = sseLanes w → U1.length = sseLanes w → WI.length = sseLanes w → WT.length = sseLanes w →
      sseBody w p U0 U1 WI WT = (List.zipWith (bflyLo w p) U0 U1, hiList w p U0 U1 WT WI)) ∧
    (U0.length = avx2Lanes w → U1.length = avx2Lanes w → WI.length = avx2Lanes w → WT.length = avx2Lanes w →
      avx2Body w p U0 U1 WI WT = (List.zipWith (bflyLo w p) U0 U1, hiList w p U0 U1 WT WI)) :=
  ⟨fun h0 h1 h2 h3 => sseBody_ok hw hp U0 U1 WI WT h0 h1 h2 h3 bi,
   fun h0 h1 h2 h3 => avx2Body_ok hw hp U0 U1 WI WT h0 h1 h2 h3 bi⟩

/-! ## §5 transform loops and `core::ntt` -/

/-- `ntt_loop<sse>::run` and `ntt_loop<avx2>::run` (vector bodies, the AVX2→SSE fallback on blocks of 16
16-bit words, serial body in the last layer) return the serial loop's data words and table pointers:
`j` layers from `M` blocks of `N = 2^(j+2)` ARBITRARY words. -/
theorem ntt_loop_backend {w : Nat} (hw : w = 16 ∨ w = 32) {p : Nat} (hp : 2 * p ≤ 2 ^ w)
    (j N M : Nat) (wt wt' x : List Nat) (hN : N = 2 ^ (j + 2)) (hx : x.length = M * N)
    (h1 : N ≤ wt.length + 4) (h2 : N ≤ wt'.length + 4) (bi : ∀ v ∈ wt', v < 2 ^ w) :
    nttLoopSse w p j N M wt wt' x = nttLoop w p j N M wt wt' x ∧
    nttLoopAvx2 w p j N M wt wt' x = nttLoop w p j N M wt wt' x :=
  ⟨nttLoopSse_eq hw hp j N M wt wt' x hN hx h1 h2 bi, nttLoopAvx2_eq hw hp j N M wt wt' x hN hx h1 h2 bi⟩

/-- **transforms equal**: for degree `2^k ≥ 8` (smaller degrees are rejected by the compiler in the vector
builds) the SSE and AVX2 builds of `core::ntt` compile (`some`) and return the serial build's words, for
every input of `2^k` words and every pair of tables with at least `2^k − 4` entries. -/
theorem ntt_backend {w : Nat} (hw : w = 16 ∨ w = 32) {p : Nat} (hp : 2 * p ≤ 2 ^ w) (k : Nat) (hk : 3 ≤ k)
    (wt wt' x : List Nat) (hx : x.length = 2 ^ k) (h1 : 2 ^ k ≤ wt.length + 4) (h2 : 2 ^ k ≤ wt'.length + 4)
    (bi : ∀ v ∈ wt', v < 2 ^ w) :
    nttWordSse w p k wt wt' x = some (nttWord w p k wt wt' x) ∧
    nttWordAvx2 w p k wt wt' x = some (nttWord w p k wt wt' x) :=
  ⟨nttWordSse_eq hw hp k hk wt wt' x hx h1 h2 bi, nttWordAvx2_eq hw hp k hk wt wt' x hx h1 h2 bi⟩

/-- on every table row the modulus condition holds -/
theorem ntt_backend_rows (l : Limb) (hl : l.w = 16 ∨ l.w = 32) {r : Row} (hr : r ∈ l.table.rows) (k : Nat) (hk : 3 ≤ k)
    (wt wt' x : List Nat) (hx : x.length = 2 ^ k) (h1 : 2 ^ k ≤ wt.length + 4) (h2 : 2 ^ k ≤ wt'.length + 4)
    (bi : ∀ v ∈ wt', v < 2 ^ l.w) :
    nttWordSse l.w r.p k wt wt' x = some (nttWord l.w r.p k wt wt' x) ∧
    nttWordAvx2 l.w r.p k wt wt' x = some (nttWord l.w r.p k wt wt' x) := by
  have h4 := four_p_le l hr
  exact ntt_backend hl (by omega) k hk wt wt' x hx h1 h2 bi

/-! ## §6 `==` and `!=` -/

/-- `bool(a == b)` / `bool(a != b)`: the vector builds compare and store 64-bit lanes (GCC vector extension on
`__m128i` / `__m256i`), `expr::operator bool` requires ALL stored elements non-zero for `==` and ANY for the
other expressions: the answer is the serial build's, for every limb width, both register sizes, every pair of
element lists of `n` registers. -/
theorem compare_backend {w : Nat} (hw : w = 16 ∨ w = 32 ∨ w = 64) (isEq : Bool) (n : Nat) (X Y : List Nat)
    (bX : ∀ v ∈ X, v < 2 ^ w) (bY : ∀ v ∈ Y, v < 2 ^ w) :
    (X.length = n * sseLanes w → Y.length = n * sseLanes w →
      exprBoolVec isEq w (sseLanes w) n X Y = exprBoolScalar isEq X Y) ∧
    (X.length = n * avx2Lanes w → Y.length = n * avx2Lanes w →
      exprBoolVec isEq w (avx2Lanes w) n X Y = exprBoolScalar isEq X Y) := by
  constructor
  · intro hX hY
    exact exprBoolVec_eq_scalar hw isEq (c := 2) (by rcases hw with rfl | rfl | rfl <;> rfl)
      (by rcases hw with rfl | rfl | rfl <;> rfl) n X Y hX hY bX bY
  · intro hX hY
    exact exprBoolVec_eq_scalar hw isEq (c := 4) (by rcases hw with rfl | rfl | rfl <;> rfl)
      (by rcases hw with rfl | rfl | rfl <;> rfl) n X Y hX hY bX bY

/-- and that answer is the mathematical one -/
theorem compare_meaning (isEq : Bool) (X Y : List Nat) (h : X.length = Y.length) :
    exprBoolScalar isEq X Y = if X = Y then isEq else !isEq := exprBoolScalar_eq isEq X Y h

/-! ## non-vacuity: the hypotheses are met, and the kernels compute what is claimed, on concrete registers -/

-- (1073479681 and 15361 are the first moduli of the 32- and 16-bit tables)
example : 1073479681 ∈ P32 ∧ 15361 ∈ P16 := by decide

-- `x + y = p`, `p − 1`, `p + 1` and wrap-around past `2^32` in the four lanes
example : sseAddmod32 1073479681 [1073479680, 1073479679, 1073479680, 4294967295] [1, 1, 2, 2] = [0, 1073479680, 1, 1] := by
  decide
example : List.zipWith (addmod 32 1073479681) [1073479680, 1073479679, 1073479680, 4294967295] [1, 1, 2, 2]
    = [0, 1073479680, 1, 1] := by decide
example : sseSubmod16 15361 [0, 1, 15360, 5, 7, 7, 0, 15360] [1, 0, 15360, 7, 5, 7, 15360, 0]
    = [15360, 1, 0, 15359, 2, 0, 1, 15360] := by decide

-- the Shoup kernels in their regime (`y' = ⌊y·2^w/p⌋`), with a lazy `x ≥ p` in one lane
example : Shoup32Hyp 1073479681 4294967295 1073479680 (1073479680 * 2 ^ 32 / 1073479681) := by
  unfold Shoup32Hyp; decide
example : Shoup16Hyp 15361 65535 15360 (15360 * 2 ^ 16 / 15361) := by unfold Shoup16Hyp; decide
example : Muladd16Hyp 15361 15360 65535 15360 (15360 * 2 ^ 16 / 15361) := by unfold Muladd16Hyp; decide
example : sseMulmodShoup32 1073479681 [4294967295, 2, 1073479680, 0] [1073479680, 3, 1073479680, 5]
    ([1073479680, 3, 1073479680, 5].map (computeShoup 32 1073479681))
    = [4294967295 * 1073479680 % 1073479681, 6, 1, 0] := by decide
example : avx2MulmodShoup16 15361 [65535, 2, 15360, 0, 1, 7, 9, 15360] [15360, 3, 15360, 5, 1, 7, 9, 2]
    ([15360, 3, 15360, 5, 1, 7, 9, 2].map (computeShoup 16 15361))
    = [65535 * 15360 % 15361, 6, 1, 0, 1, 49, 81, 15359] := by decide

-- a degree-8 transform: the SSE and AVX2 builds exist (`some`) and give the serial words
example : nttWordSse 16 15361 3 [1, 2, 3, 4, 5, 6, 7, 8] [9, 10, 11, 12, 13, 14, 15, 16] [1, 0, 0, 0, 0, 0, 0, 15360]
    = some (nttWord 16 15361 3 [1, 2, 3, 4, 5, 6, 7, 8] [9, 10, 11, 12, 13, 14, 15, 16] [1, 0, 0, 0, 0, 0, 0, 15360]) :=
  (ntt_backend (Or.inl rfl) (by decide) 3 (by decide) _ _ _ rfl (by decide) (by decide) (by decide)).1

-- degree 4 is rejected by the vector builds
example : nttWordSse 16 15361 2 [1, 2, 3, 4] [5, 6, 7, 8] [1, 2, 3, 4] = none := rfl

-- `==` with one differing ODD 32-bit element: the 64-bit lane differs, both stored halves are zero
example : exprBoolVec true 32 4 1 [1, 2, 3, 4] [1, 2, 3, 5] = false ∧ exprBoolScalar true [1, 2, 3, 4] [1, 2, 3, 5] = false ∧
    exprBoolVec false 32 4 1 [1, 2, 3, 4] [1, 2, 3, 5] = true ∧ exprBoolVec true 32 4 1 [1, 2, 3, 4] [1, 2, 3, 4] = true := by
  decide

end Nfl.C05
