/-
C03 on code obtained from the source text.

`Generated/OpsAst.lean` is produced on every run by `tools/gen_ops_ast.py` from clang's typed AST of
`nfl::ops::{addmod,submod,compute_shoup,mulmod,mulmod_shoup,muladd,muladd_shoup}<T, simd::serial>::operator()`
(T = uint16_t, uint32_t, uint64_t).  This file states
  (1) `gen*_eq`: each generated definition EQUALS the hand-written model of `Model/Ops.lean` on all arguments in
      the range of their C types (no `x < p`; only `0 < p` for `compute_shoup`, whose loop does not terminate
      for `p = 0`) — 21 equalities, grouped by limb width;
  (2) `*_ast`: the C03 property theorems transported to the generated definitions, for every row of the
      regenerated tables.
Proofs of (1) are in `Proofs/OpsAstEq.lean`.
-/
import NflVerif.Proofs.OpsAstEq
import NflVerif.Properties.C03

namespace Nfl.C03Ast
open Nfl Nfl.Gen Nfl.C03 Nfl.OpsAstEq

/-! ### the generated functors, indexed by limb width -/

def genAddmod : Limb → Nat → Nat → Nat → Nat
  | .w16 => addmod_u16 | .w32 => addmod_u32 | .w64 => addmod_u64
def genSubmod : Limb → Nat → Nat → Nat → Nat
  | .w16 => submod_u16 | .w32 => submod_u32 | .w64 => submod_u64
def genComputeShoup : Limb → Nat → Nat → Nat
  | .w16 => compute_shoup_u16 | .w32 => compute_shoup_u32 | .w64 => compute_shoup_u64
/-- only the 64-bit specialisation reads `Pn[cm]` -/
def genMulmod : Limb → Nat → Nat → Nat → Nat → Nat
  | .w16 => fun p _ => mulmod_u16 p | .w32 => fun p _ => mulmod_u32 p | .w64 => mulmod_u64
def genMulmodShoup : Limb → Nat → Nat → Nat → Nat → Nat
  | .w16 => mulmod_shoup_u16 | .w32 => mulmod_shoup_u32 | .w64 => mulmod_shoup_u64
def genMuladd : Limb → Nat → Nat → Nat → Nat → Nat → Nat
  | .w16 => fun p _ => muladd_u16 p | .w32 => fun p _ => muladd_u32 p | .w64 => muladd_u64
def genMuladdShoup : Limb → Nat → Nat → Nat → Nat → Nat → Nat
  | .w16 => muladd_shoup_u16 | .w32 => muladd_shoup_u32 | .w64 => muladd_shoup_u64

/-! ### (1) generated = hand-written model, for all values of the C types -/

theorem mulmod_w16 (p pn x y : Nat) : mulmod 16 p pn x y = mulmodDiv 16 p x y := by simp [mulmod]
theorem mulmod_w32 (p pn x y : Nat) : mulmod 32 p pn x y = mulmodDiv 32 p x y := by simp [mulmod]
theorem mulmod_w64 (p pn x y : Nat) : mulmod 64 p pn x y = mulmod64 p pn x y := by simp [mulmod]
theorem muladd_w16 (p pn z x y : Nat) : muladd 16 p pn z x y = muladdDiv 16 p z x y := by simp [muladd]
theorem muladd_w32 (p pn z x y : Nat) : muladd 32 p pn z x y = muladdDiv 32 p z x y := by simp [muladd]
theorem muladd_w64 (p pn z x y : Nat) : muladd 64 p pn z x y = muladd64 p pn z x y := by simp [muladd]

theorem genAddmod_eq (l : Limb) {p x y : Nat} (hp : p < 2 ^ l.w) (hx : x < 2 ^ l.w) (hy : y < 2 ^ l.w) :
    genAddmod l p x y = addmod l.w p x y := by
  cases l
  · show addmod_u16 p x y = addmod 16 p x y
    exact addmod_u16_eq p x y hp hx hy
  · show addmod_u32 p x y = addmod 32 p x y
    exact addmod_u32_eq p x y hp hx hy
  · show addmod_u64 p x y = addmod 64 p x y
    exact addmod_u64_eq p x y hp hx hy

theorem genSubmod_eq (l : Limb) {p x y : Nat} (hp : p < 2 ^ l.w) (hx : x < 2 ^ l.w) (hy : y < 2 ^ l.w) :
    genSubmod l p x y = submod l.w p x y := by
  cases l
  · show submod_u16 p x y = submod 16 p x y
    exact submod_u16_eq p x y hp hx hy
  · show submod_u32 p x y = submod 32 p x y
    exact submod_u32_eq p x y hp hx hy
  · show submod_u64 p x y = submod 64 p x y
    exact submod_u64_eq p x y hp hx hy

/-- `0 < p`: for `p = 0` the C++ loop `while (x >= p) x -= p;` never terminates, the fuel-bounded translation
is meaningless there. -/
theorem genComputeShoup_eq (l : Limb) {p x : Nat} (hp0 : 0 < p) (hp : p < 2 ^ l.w) (hx : x < 2 ^ l.w) :
    genComputeShoup l p x = computeShoup l.w p x := by
  cases l
  · show compute_shoup_u16 p x = computeShoup 16 p x
    exact compute_shoup_u16_eq p x hp0 hp hx
  · show compute_shoup_u32 p x = computeShoup 32 p x
    exact compute_shoup_u32_eq p x hp0 hp hx
  · show compute_shoup_u64 p x = computeShoup 64 p x
    exact compute_shoup_u64_eq p x hp0 hp hx

theorem genMulmod_eq (l : Limb) {p pn x y : Nat} (hp : p < 2 ^ l.w) (hpn : pn < 2 ^ l.w) (hx : x < 2 ^ l.w)
    (hy : y < 2 ^ l.w) : genMulmod l p pn x y = mulmod l.w p pn x y := by
  cases l
  · show mulmod_u16 p x y = mulmod 16 p pn x y
    rw [mulmod_w16]; exact mulmod_u16_eq p x y hp hx hy
  · show mulmod_u32 p x y = mulmod 32 p pn x y
    rw [mulmod_w32]; exact mulmod_u32_eq p x y hp hx hy
  · show mulmod_u64 p pn x y = mulmod 64 p pn x y
    rw [mulmod_w64]; exact mulmod_u64_eq p pn x y hp hpn hx hy

theorem genMulmodShoup_eq (l : Limb) {p x y yp : Nat} (hp : p < 2 ^ l.w) (hx : x < 2 ^ l.w) (hy : y < 2 ^ l.w)
    (hyp : yp < 2 ^ l.w) : genMulmodShoup l p x y yp = mulmodShoup l.w p x y yp := by
  cases l
  · show mulmod_shoup_u16 p x y yp = mulmodShoup 16 p x y yp
    exact mulmod_shoup_u16_eq p x y yp hp hx hy hyp
  · show mulmod_shoup_u32 p x y yp = mulmodShoup 32 p x y yp
    exact mulmod_shoup_u32_eq p x y yp hp hx hy hyp
  · show mulmod_shoup_u64 p x y yp = mulmodShoup 64 p x y yp
    exact mulmod_shoup_u64_eq p x y yp hp hx hy hyp

theorem genMuladd_eq (l : Limb) {p pn z x y : Nat} (hp : p < 2 ^ l.w) (hpn : pn < 2 ^ l.w) (hz : z < 2 ^ l.w)
    (hx : x < 2 ^ l.w) (hy : y < 2 ^ l.w) : genMuladd l p pn z x y = muladd l.w p pn z x y := by
  cases l
  · show muladd_u16 p z x y = muladd 16 p pn z x y
    rw [muladd_w16]; exact muladd_u16_eq p z x y hp hz hx hy
  · show muladd_u32 p z x y = muladd 32 p pn z x y
    rw [muladd_w32]; exact muladd_u32_eq p z x y hp hz hx hy
  · show muladd_u64 p pn z x y = muladd 64 p pn z x y
    rw [muladd_w64]; exact muladd_u64_eq p pn z x y hp hpn hz hx hy

theorem genMuladdShoup_eq (l : Limb) {p z x y yp : Nat} (hp : p < 2 ^ l.w) (hz : z < 2 ^ l.w) (hx : x < 2 ^ l.w)
    (hy : y < 2 ^ l.w) (hyp : yp < 2 ^ l.w) : genMuladdShoup l p z x y yp = muladdShoup l.w p z x y yp := by
  cases l
  · show muladd_shoup_u16 p z x y yp = muladdShoup 16 p z x y yp
    exact muladd_shoup_u16_eq p z x y yp hp hz hx hy hyp
  · show muladd_shoup_u32 p z x y yp = muladdShoup 32 p z x y yp
    exact muladd_shoup_u32_eq p z x y yp hp hz hx hy hyp
  · show muladd_shoup_u64 p z x y yp = muladdShoup 64 p z x y yp
    exact muladd_shoup_u64_eq p z x y yp hp hz hx hy hyp

/-! ### (2) the C03 theorems about the generated definitions, every table row -/

theorem p_lt (l : Limb) {r : Row} (hr : r ∈ l.table.rows) : r.p < 2 ^ l.w := by
  have := four_p_le l hr; have := C03.p_pos l hr; omega

/-- `Pn[cm]` is only read by the 64-bit functors: for 16/32 bit the generic wrappers ignore it -/
theorem genMulmod_pn (l : Limb) (hl : l.w ≠ 64) (p pn pn' x y : Nat) : genMulmod l p pn x y = genMulmod l p pn' x y := by
  cases l
  · rfl
  · rfl
  · exact absurd rfl hl
theorem genMuladd_pn (l : Limb) (hl : l.w ≠ 64) (p pn pn' z x y : Nat) :
    genMuladd l p pn z x y = genMuladd l p pn' z x y := by
  cases l
  · rfl
  · rfl
  · exact absurd rfl hl

theorem computeShoup_lt (w p y : Nat) : computeShoup w p y < 2 ^ w := Nat.mod_lt _ (Nat.two_pow_pos _)

/-- **addition** (generated `addmod`): `(x+y) mod p` in `[0,p)`, every row, all `x y < p`. -/
theorem add_exact_ast (l : Limb) {r : Row} (hr : r ∈ l.table.rows) {x y : Nat} (hx : x < r.p) (hy : y < r.p) :
    genAddmod l r.p x y = (x + y) % r.p ∧ genAddmod l r.p x y < r.p := by
  have hp := p_lt l hr
  rw [genAddmod_eq l hp (by omega) (by omega)]
  exact add_exact l hr hx hy

/-- **subtraction** (generated `submod`, which calls the generated `addmod`). -/
theorem sub_exact_ast (l : Limb) {r : Row} (hr : r ∈ l.table.rows) {x y : Nat} (hx : x < r.p) (hy : y < r.p) :
    ((genSubmod l r.p x y : Nat) : Int) = ((x : Int) - y) % r.p ∧ genSubmod l r.p x y < r.p := by
  have hp := p_lt l hr
  rw [genSubmod_eq l hp (by omega) (by omega)]
  exact sub_exact l hr hx hy

/-- **multiplication** (generated `mulmod`: division for 16/32 bit, Barrett with `Pn[cm]` for 64 bit). -/
theorem mul_exact_ast (l : Limb) {r : Row} (hr : r ∈ l.table.rows) {x y : Nat} (hx : x < r.p) (hy : y < r.p) :
    genMulmod l r.p r.pn x y = x * y % r.p := by
  have hp := p_lt l hr
  have key := mul_exact l hr hx hy
  cases l
  · rw [genMulmod_pn .w16 (by decide) r.p r.pn 0, genMulmod_eq .w16 hp (Nat.two_pow_pos _) (by omega) (by omega)]
    show mulmod 16 r.p 0 x y = _
    rw [mulmod_w16]; rw [show Limb.w16.w = 16 from rfl, mulmod_w16] at key; exact key
  · rw [genMulmod_pn .w32 (by decide) r.p r.pn 0, genMulmod_eq .w32 hp (Nat.two_pow_pos _) (by omega) (by omega)]
    show mulmod 32 r.p 0 x y = _
    rw [mulmod_w32]; rw [show Limb.w32.w = 32 from rfl, mulmod_w32] at key; exact key
  · have hpn : r.pn < 2 ^ Limb.w64.w := by
      have := C06.pn64_lt r hr
      show r.pn < 2 ^ 64
      omega
    rw [genMulmod_eq .w64 hp hpn (by omega) (by omega)]; exact key

/-- **precomputed quotient** (generated `compute_shoup`) of any word `y` of the limb type. -/
theorem shoup_quotient_ast (l : Limb) {r : Row} (hr : r ∈ l.table.rows) {y : Nat} (hy : y < 2 ^ l.w) :
    genComputeShoup l r.p y = (y % r.p) * 2 ^ l.w / r.p := by
  rw [genComputeShoup_eq l (C03.p_pos l hr) (p_lt l hr) hy]
  exact shoup_quotient l hr y

/-- **multiplication with precomputed quotient** (generated `mulmod_shoup` fed by the generated `compute_shoup`),
exact for `y < p` and every word `x`. -/
theorem mulshoup_exact_ast (l : Limb) {r : Row} (hr : r ∈ l.table.rows) {x y : Nat} (hx : x < 2 ^ l.w) (hy : y < r.p) :
    genMulmodShoup l r.p x y (genComputeShoup l r.p y) = x * y % r.p := by
  have hp := p_lt l hr
  rw [genComputeShoup_eq l (C03.p_pos l hr) hp (by omega),
    genMulmodShoup_eq l hp hx (by omega) (computeShoup_lt _ _ _)]
  exact mulshoup_exact l hr hx hy

/-- **division-based fused multiply-add** (generated `muladd`). -/
theorem muladd_exact_ast (l : Limb) {r : Row} (hr : r ∈ l.table.rows) {z x y : Nat}
    (hz : z < r.p) (hx : x < r.p) (hy : y < r.p) :
    genMuladd l r.p r.pn z x y = (x * y + z) % r.p := by
  have hp := p_lt l hr
  have key := muladd_exact l hr hz hx hy
  cases l
  · rw [genMuladd_pn .w16 (by decide) r.p r.pn 0,
      genMuladd_eq .w16 hp (Nat.two_pow_pos _) (by omega) (by omega) (by omega)]
    show muladd 16 r.p 0 z x y = _
    rw [muladd_w16]; rw [show Limb.w16.w = 16 from rfl, muladd_w16] at key; exact key
  · rw [genMuladd_pn .w32 (by decide) r.p r.pn 0,
      genMuladd_eq .w32 hp (Nat.two_pow_pos _) (by omega) (by omega) (by omega)]
    show muladd 32 r.p 0 z x y = _
    rw [muladd_w32]; rw [show Limb.w32.w = 32 from rfl, muladd_w32] at key; exact key
  · have hpn : r.pn < 2 ^ Limb.w64.w := by
      have := C06.pn64_lt r hr
      show r.pn < 2 ^ 64
      omega
    rw [genMuladd_eq .w64 hp hpn (by omega) (by omega) (by omega)]; exact key

/-- **lazily reduced multiply-add with precomputed quotient** (generated `muladd_shoup`). -/
theorem muladdshoup_lazy_ast (l : Limb) {r : Row} (hr : r ∈ l.table.rows) {z x y : Nat}
    (hz : z < r.p) (hx : x < 2 ^ l.w) (hy : y < r.p) :
    genMuladdShoup l r.p z x y (genComputeShoup l r.p y) % r.p = (x * y + z) % r.p ∧
    genMuladdShoup l r.p z x y (genComputeShoup l r.p y) < 2 * r.p := by
  have hp := p_lt l hr
  rw [genComputeShoup_eq l (C03.p_pos l hr) hp (by omega),
    genMuladdShoup_eq l hp (by omega) hx (by omega) (computeShoup_lt _ _ _)]
  exact muladdshoup_lazy l hr hz hx hy

/-! ### the generated definitions run: concrete non-trivial inputs, one per width and functor family -/

-- 16 bit, p = 15361 (first row): wrap of the sum, negative `int` difference, 32-bit `int` overflow in x*y - q*p
example : addmod_u16 15361 15360 1 = 0 := by decide
example : submod_u16 15361 3 5 = 15359 := by decide
example : compute_shoup_u16 15361 40000 = 39583 := by decide
example : mulmod_u16 15361 15360 15360 = 1 := by decide
example : mulmod_shoup_u16 15361 65535 15360 (compute_shoup_u16 15361 15360) = 65535 * 15360 % 15361 := by decide
example : muladd_u16 15361 15360 15360 15360 = 0 := by decide
example : muladd_shoup_u16 15361 15360 65535 15360 (compute_shoup_u16 15361 15360) % 15361 = (65535 * 15360 + 15360) % 15361 := by decide
-- 32 bit, p = 1073479681
example : addmod_u32 1073479681 1073479680 1073479680 = 1073479679 := by decide
example : compute_shoup_u32 1073479681 4294967295 = 4195308 := by decide
example : mulmod_u32 1073479681 1073479680 1073479679 = 2 := by decide
example : mulmod_shoup_u32 1073479681 4294967295 1073479680 (compute_shoup_u32 1073479681 1073479680)
    = 4294967295 * 1073479680 % 1073479681 := by decide
-- 64 bit, p = 4611686018326724609, Pn = 1610612736... (first row of the 64-bit table)
example : addmod_u64 4611686018326724609 4611686018326724608 2 = 1 := by decide
example : mulmod_u64 (table64.P.headD 0) (table64.Pn.headD 0) (table64.P.headD 0 - 1) (table64.P.headD 0 - 2) = 2 := by decide
example : muladd_u64 (table64.P.headD 0) (table64.Pn.headD 0) 5 (table64.P.headD 0 - 1) (table64.P.headD 0 - 2) = 7 := by decide
example : (⟨15361, 17458, 4989, 15331⟩ : Row) ∈ Limb.w16.table.rows := by decide

end Nfl.C03Ast
