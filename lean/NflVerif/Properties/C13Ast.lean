/-
C13 / C18 on code obtained from the source text.

`Generated/PrngAst.lean` is produced on every run by `tools/gen_prng_ast.py` from clang's typed AST of
lib/prng/fastrandombytes.cpp, the function cut at its external calls into STEP FUNCTIONS
  `frb_entry`                  `unsigned long long n = 0;` … up to the constructor of the `lock_guard`     (call site `lock_0`)
  (v)   `frb_after_lock_0`, `frb_after_randombytes_0`   `if (!init) { randombytes(key, 32); init = 1; }`
  (vi)  `frb_join_0`           the `my_nonce` copy loop, the decode loop `n ^= ((unsigned long long) nonce[i]) << 8*i`, `n++`, the
                               encode loop `nonce[i] = (n >> 8*i) & 0xff` (constant bounds: unrolled, every loop test re-checked by the
                               kernel in `frb_unroll_ok`), up to the end of the guarded block                (call site `unlock_0`)
  (vii) `frb_after_unlock_0`   the arguments of `nfl_crypto_stream_salsa20_amd64_xmm6(r, rlen, my_nonce, key)`
and, as DATA, `frb_accesses`: every occurrence of `init`, `key`, `nonce`, `state_mutex` in the text with read/write and whether it
lies inside the block of the `std::lock_guard` (after its declaration).  This file states
  (1) `nonce_step_eq`, `request_ast_eq`, `run_ast_eq`: the generated code, run by `Gen.frbExec` (Proofs/PrngAstEq.lean), EQUALS the hand
      model `FastRandom.request` / `runState` / `outputs` for every state whose nonce is 8 bytes, every key, key source and length;
  (2) the key statements of C13 for the generated code (request `n` uses nonce `LE64 n` and the key of the first seeding);
  (3) for C18 (`Model/Prng18.lean` assumes it): every read/write of `init` and `nonce` and every write of `key` lies inside the
      lock_guard block; the only access outside is the Salsa20 call, which reads `key` (and the local copy `my_nonce`); the accesses
      in the text are, in order, exactly the shared-variable events of one request of the interleaving model.
NOT covered: the assembly routine (`gen` is a parameter), `randombytes` itself (C19Ast), `std::mutex` (lock / unlock are taken
as the acquire / release the interleaving model assumes), the atomicity granularity of the interleaving model.
-/
import NflVerif.Proofs.PrngAstEq
import NflVerif.Properties.C13
import NflVerif.Model.Prng18

namespace Nfl.C13Ast
open Nfl Nfl.Gen Nfl.FastRandom Nfl.C13aux Nfl.CSemX Nfl.Salsa20

/-! ### (1) generated = hand model -/

/-- an 8-byte array -/
def Bytes8 (l : List Nat) : Prop := l.length = 8 ∧ ∀ b ∈ l, b < 256

/-- (vi) **the nonce step**: for every 8-byte nonce, the generated copy / decode / `n++` / encode code hands the OLD nonce to
`my_nonce` and stores the model's `bump` (whatever the other variables hold; `my_nonce` is an array of 8 cells) -/
theorem nonce_step_eq (nonce : List Nat) (junk : FrbSt) (h : Bytes8 nonce) (hm : junk.my_nonce.length = 8) :
    Gen.nonce_step nonce junk = (nonce, bump nonce) := by
  obtain ⟨j1, j2, _⟩ := join_0_spec { junk with nonce := nonce, n := 0 } h.1 h.2 hm rfl
  simp only [Gen.nonce_step, j1, j2]

/-- (v)+(vi)+(vii) **one request**: the generated code is the hand model -/
theorem request_ast_eq (gen : List Nat → List Nat → Nat → List Nat) (os : Nat → List Nat) (s : State) (len : Nat)
    (junk : FrbSt) (h : Bytes8 s.nonce) (hm : junk.my_nonce.length = 8) :
    Gen.request gen os s len junk = some (FastRandom.request gen os s len) :=
  request_eq gen os s len junk h.1 h.2 hm

/-- (vii) the stream is requested for the caller's `(r, rlen)` under the COPIED nonce and the static key … -/
theorem stream_call_arguments (st : FrbSt) :
    frb_after_unlock_0 st = (st, .call .salsa20_0 [.ptr .r st.r, .int st.rlen, .ptr .my_nonce 0, .ptr .key 0]) :=
  after_unlock_spec st
/-- … it is the only stream call and comes after the guarded block: the sites in source order -/
theorem sites_callees : [FrbSite.lock_0, .randombytes_0, .unlock_0, .salsa20_0].map frb_callee =
    [.lock, .randombytes, .unlock, .salsa20] := by decide
/-- the seeding call is `randombytes(key, 32)` -/
theorem seeding_call_arguments (st : FrbSt) (h : st.init = 0) :
    (frb_after_lock_0 st).2 = .call .randombytes_0 [.ptr .key 0, .int 32] := by rw [after_lock_unseeded st h]

theorem bytes8_bump (nonce : List Nat) : Bytes8 (bump nonce) := by
  unfold bump; rw [encode_eq]; exact ⟨encodeLE_length 8 _, encodeLE_lt 8 _⟩

theorem bytes8_next (os : Nat → List Nat) (s : State) : Bytes8 (next os s).nonce := by
  rw [next_nonce]; exact bytes8_bump _

/-- a history of requests served by the generated code -/
def run (gen : List Nat → List Nat → Nat → List Nat) (os : Nat → List Nat) (junk : FrbSt) :
    State → List Nat → Option (State × List (List Nat))
  | s, [] => some (s, [])
  | s, len :: rest =>
    match Gen.request gen os s len junk with
    | none => none
    | some r => (run gen os junk r.1 rest).map fun q => (q.1, r.2 :: q.2)

/-- **any history**: final state and all outputs of the generated code are the hand model's -/
theorem run_ast_eq (gen : List Nat → List Nat → Nat → List Nat) (os : Nat → List Nat) (junk : FrbSt)
    (hm : junk.my_nonce.length = 8) : ∀ (lens : List Nat) (s : State), Bytes8 s.nonce →
    run gen os junk s lens = some (runState os s lens, outputs gen os s lens) := by
  intro lens
  induction lens with
  | nil => intro s _; rfl
  | cons len rest ih =>
    intro s h
    simp only [run, request_ast_eq gen os s len junk h hm, FastRandom.request]
    rw [ih (next os s) (bytes8_next os s)]
    simp [runState, outputs]

theorem bytes8_start : Bytes8 start.nonce := by
  refine ⟨rfl, ?_⟩
  intro b hb
  simp [start] at hb
  omega

/-! ### (2) the key statements of C13, for the generated code -/

/-- **request n uses nonce LE64(n)**: in any history served by the generated code from process start, the `i`-th request
is generated from the key delivered by the FIRST call of `randombytes` and the nonce `LE64 (i mod 2^64)` -/
theorem request_output_ast (gen : List Nat → List Nat → Nat → List Nat) (os : Nat → List Nat) (junk : FrbSt)
    (hm : junk.my_nonce.length = 8) (lens : List Nat) (i : Nat) (hi : i < lens.length) :
    ∃ st outs, run gen os junk start lens = some (st, outs) ∧
      outs[i]? = some (gen (os 0) (encodeLE 8 (i % 2 ^ 64)) lens[i]) :=
  ⟨_, _, run_ast_eq gen os junk hm lens start bytes8_start, C13.request_output_gen gen os lens i hi⟩

/-- **nonce_after / key_once**: after the history the stored nonce is `LE64 (#requests mod 2^64)`, `randombytes` has been called
exactly once (if at all) and the key is what that call delivered -/
theorem final_state_ast (gen : List Nat → List Nat → Nat → List Nat) (os : Nat → List Nat) (junk : FrbSt)
    (hm : junk.my_nonce.length = 8) (lens : List Nat) :
    ∃ st outs, run gen os junk start lens = some (st, outs) ∧ st.nonce = encodeLE 8 (lens.length % 2 ^ 64) ∧
      st.seeds = min lens.length 1 ∧ (lens ≠ [] → st.init = true ∧ st.key = os 0) :=
  ⟨_, _, run_ast_eq gen os junk hm lens start bytes8_start, C13.nonce_after os lens, (C13.key_once os lens).1,
    (C13.key_once os lens).2⟩

/-! ### (3) the guarded block (assumed by `Model/Prng18.lean`) -/

/-- every read and write of `init` and `nonce` lies inside the lock_guard block -/
theorem init_nonce_guarded : ∀ a ∈ frb_accesses, a.var = .init ∨ a.var = .nonce → a.guarded = true := by decide
/-- every write of `key` lies inside it (the seeding call is the only one) -/
theorem key_writes_guarded : ∀ a ∈ frb_accesses, a.var = .key → a.write = true →
    a.guarded = true ∧ a.how = .passedTo .randombytes := by decide
/-- the only access outside the guarded block is the Salsa20 call, which only READS `key` (`const unsigned char *`) -/
theorem unguarded_is_stream_key_read : ∀ a ∈ frb_accesses, a.guarded = false →
    a.var = .key ∧ a.write = false ∧ a.how = .passedTo .salsa20 := by decide
/-- … and the Salsa20 call does lie outside -/
theorem stream_call_unguarded : ∃ a ∈ frb_accesses, a.how = .passedTo .salsa20 ∧ a.guarded = false := by decide
/-- the mutex handed to the lock_guard is `state_mutex`, and nothing else touches it -/
theorem mutex_only_locked : ∀ a ∈ frb_accesses, a.var = .state_mutex → a.how = .lockGuard := by decide

/-- the shared variables of the interleaving model -/
def toVar : FrbVar → Option Prng18.Var
  | .init => some .init
  | .key => some .key
  | .nonce => some .nonce
  | .state_mutex => none

/-- the occurrences of the shared variables in the C++ text, in source order, are exactly the shared-variable events
(variable, write?, mutex held?) that ONE request of the interleaving model `Prng18.step` performs, in its program order
(first request of a process: it seeds; key delivered in one piece; repository order flag-after-key) -/
theorem accesses_match_step_model :
    (Prng18.run ⟨1, false⟩ (fun _ => 0) (Prng18.init (fun _ => 1) 0) (List.replicate 10 0)).map
        (fun s => s.trace.map fun e => (e.var, e.isWrite, e.inside)) =
      some (frb_accesses.filterMap fun a => (toVar a.var).map fun v => (v, a.write, a.guarded)) := by decide +kernel

/-! ### non-vacuity -/

def junk0 : FrbSt := { init := 7, key := [], nonce := [], r := 0, rlen := 0, n := 99, i := 5, my_nonce := List.replicate 8 255 }

example : Gen.nonce_step [255, 255, 0, 0, 0, 0, 0, 0] junk0 = ([255, 255, 0, 0, 0, 0, 0, 0], [0, 0, 1, 0, 0, 0, 0, 0]) := by
  decide +kernel
/-- wrap-around of the 64-bit counter in the generated code -/
example : Gen.nonce_step (List.replicate 8 255) junk0 = (List.replicate 8 255, List.replicate 8 0) := by decide +kernel
/-- three requests through the generated code (a toy generator that shows which key and nonce it was given) -/
example : run (fun k n len => k.take 1 ++ n.take 2 ++ [len]) (fun k => List.replicate 32 (k + 9)) junk0 start [5, 0, 1000] =
    some ({ init := true, key := List.replicate 32 9, nonce := [3, 0, 0, 0, 0, 0, 0, 0], seeds := 1 },
          [[9, 0, 0, 5], [9, 1, 0, 0], [9, 2, 0, 1000]]) := by decide +kernel
example : Bytes8 [255, 255, 0, 0, 0, 0, 0, 0] := ⟨rfl, by decide⟩
/-- the hypothesis on `my_nonce` is needed: a "local array" of fewer than 8 cells cannot hold the copy -/
example : Gen.nonce_step [1, 2, 3, 4, 5, 6, 7, 8] { junk0 with my_nonce := [] } ≠ ([1, 2, 3, 4, 5, 6, 7, 8], bump [1, 2, 3, 4, 5, 6, 7, 8]) := by
  decide +kernel

end Nfl.C13Ast
