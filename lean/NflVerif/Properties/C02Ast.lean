/-
C02 (and the transform part of C01) on code obtained from the source text.

`Generated/NttAst.lean` is produced on every run by `tools/gen_ntt_ast.py` from clang's typed AST of the SCALAR transform
kernels, each straight-line block read as a pure function from the memory cells it reads to the cells it writes
(T = uint16_t, uint32_t, uint64_t):
  `ntt_body_uW`   `ops::ntt_loop_body<simd::serial, poly, T>::operator()`      (algos.hpp; `_p` = what the constructor stores = `p`)
  `ntt_deg2_uW`   the block `if (degree == 2) {…}` of `poly::core::ntt`           (core.hpp, NTT_STRICTMOD defined)
  `ntt_last2_uW`  the body of the "last two layers" loop of `poly::core::ntt`
  `ntt_final_uW`  the body of the NTT_STRICTMOD final-reduction loop of `poly::core::ntt`
This file states
  (1) `gen*_eq`: each generated block EQUALS the corresponding definition of the hand-written model `Model/Ntt.lean`
      (`bflyLo`/`bflyHi`/`layerBlock`, `nttWord … 1`, `fused4`, `strictRed`) on all arguments in the range of their C types.
      Extra hypothesis, 32/64 bit only: `2 * p < 2^w` (the C++ computes `2*p` in `T`, the model uses the exact product);
      the `example`s at the end show that the equality FAILS without it.  (Every modulus of the tables has `4p ≤ 2^w`.)
      The sign tests `(signed_value_type) v < 0` need no hypothesis.
  (2) `*_ast`: the per-block facts of C02 (lazy range `[0,2p)` preserved, values in `ZMod p`, final reduction `< p`)
      transported to the generated blocks, for every row of the regenerated tables.
NOT covered by this tie (still hand-modelled, tied by the differential stream): the loop structure — which indices each
block is applied to (`ntt_loop::run`, `mapBlocks`, `nttLoop`), the advance of the table pointers, the bit reversal.
Proofs of the per-width equalities: `Proofs/NttAstEq.lean`.
-/
import NflVerif.Proofs.NttAstEq
import NflVerif.Properties.C02

namespace Nfl.C02Ast
open Nfl Nfl.Gen Nfl.C03 Nfl.NttRefine Nfl.NttAstEq

/-! ### the generated blocks, indexed by limb width -/

def genBody : Limb → Nat → Nat → Nat → Nat → Nat → Nat × Nat
  | .w16 => ntt_body_u16 | .w32 => ntt_body_u32 | .w64 => ntt_body_u64
def genDeg2 : Limb → Nat → Nat → Nat → Nat × Nat
  | .w16 => ntt_deg2_u16 | .w32 => ntt_deg2_u32 | .w64 => ntt_deg2_u64
def genLast2 : Limb → Nat → Nat → Nat → Nat → Nat → Nat → Nat → Nat × Nat × Nat × Nat
  | .w16 => ntt_last2_u16 | .w32 => ntt_last2_u32 | .w64 => ntt_last2_u64
def genFinal : Limb → Nat → Nat → Nat
  | .w16 => ntt_final_u16 | .w32 => ntt_final_u32 | .w64 => ntt_final_u64

/-- the cells written by a block, in memory order -/
def list2 (g : Nat × Nat) : List Nat := [g.1, g.2]
def list4 (g : Nat × Nat × Nat × Nat) : List Nat := [g.1, g.2.1, g.2.2.1, g.2.2.2]

/-! ### (1) generated = hand-written model, for all values of the C types -/

/-- the butterfly `ntt_loop_body<serial>::operator()` is the model's pair (`bflyLo`, `bflyHi`).
`h2p` (32/64 bit only): `2*p` must not wrap in `T`. -/
theorem genBody_eq (l : Limb) {p u0 u1 wt wi : Nat} (hp : p < 2 ^ l.w) (h2p : l.w ≠ 16 → 2 * p < 2 ^ l.w)
    (h0 : u0 < 2 ^ l.w) (h1 : u1 < 2 ^ l.w) (hwt : wt < 2 ^ l.w) (hwi : wi < 2 ^ l.w) :
    genBody l p u0 u1 wt wi = (bflyLo l.w p u0 u1, bflyHi l.w p u0 u1 wt wi) := by
  cases l
  · exact ntt_body_u16_eq p u0 u1 wt wi hp h0 h1 hwt hwi
  · have := h2p (by decide)
    exact ntt_body_u32_eq p u0 u1 wt wi (by simp only [Limb.w] at this; omega) h0 h1 hwt hwi
  · have := h2p (by decide)
    exact ntt_body_u64_eq p u0 u1 wt wi (by simp only [Limb.w] at this; omega) h0 h1 hwt hwi

/-- … i.e. one application of the model's `layerBlock` to a block of two words with one table entry -/
theorem genBody_eq_layerBlock (l : Limb) {p u0 u1 wt wi : Nat} (hp : p < 2 ^ l.w) (h2p : l.w ≠ 16 → 2 * p < 2 ^ l.w)
    (h0 : u0 < 2 ^ l.w) (h1 : u1 < 2 ^ l.w) (hwt : wt < 2 ^ l.w) (hwi : wi < 2 ^ l.w) :
    list2 (genBody l p u0 u1 wt wi) = layerBlock l.w p [wt] [wi] [u0, u1] := by
  rw [genBody_eq l hp h2p h0 h1 hwt hwi]
  simp [list2, layerBlock, hiList]

/-- the degree-2 block is the model's `nttWord … 1` (whatever the tables) -/
theorem genDeg2_eq (l : Limb) {p u0 u1 : Nat} (hp : p < 2 ^ l.w) (h2p : l.w ≠ 16 → 2 * p < 2 ^ l.w)
    (h0 : u0 < 2 ^ l.w) (h1 : u1 < 2 ^ l.w) (wt wi : List Nat) :
    list2 (genDeg2 l p u0 u1) = nttWord l.w p 1 wt wi [u0, u1] := by
  have key : genDeg2 l p u0 u1 = (strictRed p (bflyLo l.w p u0 u1), strictRed p (subLazy l.w p u0 u1)) := by
    cases l
    · exact ntt_deg2_u16_eq p u0 u1 hp h0 h1
    · have := h2p (by decide)
      exact ntt_deg2_u32_eq p u0 u1 (by simp only [Limb.w] at this; omega) h0 h1
    · have := h2p (by decide)
      exact ntt_deg2_u64_eq p u0 u1 (by simp only [Limb.w] at this; omega) h0 h1
  rw [key]; rfl

/-- the body of the "last two layers" loop is the model's `fused4` -/
theorem genLast2_eq (l : Limb) {p u0 u1 u2 u3 w1 wi1 : Nat} (hp : p < 2 ^ l.w) (h2p : l.w ≠ 16 → 2 * p < 2 ^ l.w)
    (h0 : u0 < 2 ^ l.w) (h1 : u1 < 2 ^ l.w) (h2 : u2 < 2 ^ l.w) (h3 : u3 < 2 ^ l.w) (hw : w1 < 2 ^ l.w)
    (hwi : wi1 < 2 ^ l.w) :
    list4 (genLast2 l p u0 u1 u2 u3 w1 wi1) = fused4 l.w p w1 wi1 [u0, u1, u2, u3] := by
  have key : genLast2 l p u0 u1 u2 u3 w1 wi1 = fused4Tuple l.w p w1 wi1 u0 u1 u2 u3 := by
    cases l
    · exact ntt_last2_u16_eq p u0 u1 u2 u3 w1 wi1 hp h0 h1 h2 h3 hw hwi
    · have := h2p (by decide)
      exact ntt_last2_u32_eq p u0 u1 u2 u3 w1 wi1 (by simp only [Limb.w] at this; omega) h0 h1 h2 h3 hw hwi
    · have := h2p (by decide)
      exact ntt_last2_u64_eq p u0 u1 u2 u3 w1 wi1 (by simp only [Limb.w] at this; omega) h0 h1 h2 h3 hw hwi
  rw [key, fused4_eq_tuple]; rfl

/-- the NTT_STRICTMOD statement is the model's `strictRed` (no hypothesis beyond the C types) -/
theorem genFinal_eq (l : Limb) {p x : Nat} (hp : p < 2 ^ l.w) (hx : x < 2 ^ l.w) : genFinal l p x = strictRed p x := by
  cases l
  · exact ntt_final_u16_eq p x hp hx
  · exact ntt_final_u32_eq p x hp hx
  · exact ntt_final_u64_eq p x hp hx

/-! ### (2) the per-block facts of C02 about the generated blocks, every table row -/

theorem p_lt (l : Limb) {r : Row} (hr : r ∈ l.table.rows) : r.p < 2 ^ l.w := by
  have := four_p_le l hr; have := C03.p_pos l hr; omega
theorem two_p_lt (l : Limb) {r : Row} (hr : r ∈ l.table.rows) : 2 * r.p < 2 ^ l.w := by
  have := four_p_le l hr; have := C03.p_pos l hr; omega
theorem shoupOf_lt (w p x : Nat) : shoupOf w p x < 2 ^ w := Nat.mod_lt _ (Nat.two_pow_pos _)
theorem one_le_w (l : Limb) : 1 ≤ l.w := by cases l <;> simp [Limb.w]

/-- **lazy butterfly** (generated `ntt_loop_body<serial>::operator()` with the table entry `wt` and the Shoup constant
`core::initialize` stores beside it): the range `[0,2p)` is preserved and the results are `u0+u1`, `(u0-u1)·wt` mod p. -/
theorem body_lazy_ast (l : Limb) {r : Row} (hr : r ∈ l.table.rows) {u0 u1 wt : Nat} (h0 : u0 < 2 * r.p)
    (h1 : u1 < 2 * r.p) (hwt : wt < r.p) :
    (genBody l r.p u0 u1 wt (shoupOf l.w r.p wt)).1 < 2 * r.p ∧ (genBody l r.p u0 u1 wt (shoupOf l.w r.p wt)).2 < 2 * r.p ∧
    (((genBody l r.p u0 u1 wt (shoupOf l.w r.p wt)).1 : Nat) : ZMod r.p) = (u0 : ZMod r.p) + u1 ∧
    (((genBody l r.p u0 u1 wt (shoupOf l.w r.p wt)).2 : Nat) : ZMod r.p) = ((u0 : ZMod r.p) - u1) * wt := by
  have h4 := four_p_le l hr
  have hp0 := C03.p_pos l hr
  rw [genBody_eq l (p_lt l hr) (fun _ => two_p_lt l hr) (by omega) (by omega) (by omega) (shoupOf_lt _ _ _)]
  obtain ⟨a, b⟩ := bflyLo_spec h4 h0 h1
  obtain ⟨c, d⟩ := bflyHi_spec l.w_cases hp0 h4 h0 h1 hwt
  exact ⟨a, c, b, d⟩

/-- **final reduction** (generated NTT_STRICTMOD statement): a lazy word becomes canonical, same residue. -/
theorem final_ast (l : Limb) {r : Row} (hr : r ∈ l.table.rows) {x : Nat} (hx : x < 2 * r.p) :
    genFinal l r.p x < r.p ∧ ((genFinal l r.p x : Nat) : ZMod r.p) = (x : ZMod r.p) := by
  have h4 := four_p_le l hr
  rw [genFinal_eq l (p_lt l hr) (by omega)]
  exact strictRed_spec hx

/-- **degree 2** (generated block): canonical results `u0+u1`, `u0-u1` mod p for lazy (in particular canonical) inputs. -/
theorem deg2_ast (l : Limb) {r : Row} (hr : r ∈ l.table.rows) {u0 u1 : Nat} (h0 : u0 < 2 * r.p) (h1 : u1 < 2 * r.p) :
    (genDeg2 l r.p u0 u1).1 < r.p ∧ (genDeg2 l r.p u0 u1).2 < r.p ∧
    (((genDeg2 l r.p u0 u1).1 : Nat) : ZMod r.p) = (u0 : ZMod r.p) + u1 ∧
    (((genDeg2 l r.p u0 u1).2 : Nat) : ZMod r.p) = (u0 : ZMod r.p) - u1 := by
  have h4 := four_p_le l hr
  have e := genDeg2_eq l (p_lt l hr) (fun _ => two_p_lt l hr) (by omega : u0 < 2 ^ l.w) (by omega : u1 < 2 ^ l.w) [] []
  have e1 : (genDeg2 l r.p u0 u1).1 = strictRed r.p (bflyLo l.w r.p u0 u1) := by
    have := congrArg (fun x => x.getD 0 0) e; simpa [list2, nttWord] using this
  have e2 : (genDeg2 l r.p u0 u1).2 = strictRed r.p (subLazy l.w r.p u0 u1) := by
    have := congrArg (fun x => x.getD 1 0) e; simpa [list2, nttWord] using this
  obtain ⟨a, b⟩ := bflyLo_spec h4 h0 h1
  obtain ⟨c, d⟩ := subLazy_spec (one_le_w l) h4 h0 h1
  obtain ⟨a', b'⟩ := strictRed_spec a
  obtain ⟨c', d'⟩ := strictRed_spec c
  rw [e1, e2]
  exact ⟨a', c', b'.trans b, d'.trans d⟩

/-- **last two layers** (generated loop body with `wtab[1] = w1` and its Shoup constant): the range `[0,2p)` is
preserved and the four results are the two fused decimation-in-frequency layers of the abstract transform. -/
theorem last2_ast (l : Limb) {r : Row} (hr : r ∈ l.table.rows) {u0 u1 u2 u3 w1 : Nat} (h0 : u0 < 2 * r.p)
    (h1 : u1 < 2 * r.p) (h2 : u2 < 2 * r.p) (h3 : u3 < 2 * r.p) (hw1 : w1 < r.p) :
    Lazy r.p (list4 (genLast2 l r.p u0 u1 u2 u3 w1 (shoupOf l.w r.p w1))) ∧
    castL r.p (list4 (genLast2 l r.p u0 u1 u2 u3 w1 (shoupOf l.w r.p w1))) =
      Dft.dif 2 (w1 : ZMod r.p) (castL r.p [u0, u1, u2, u3]) := by
  have h4 := four_p_le l hr
  have hp0 := C03.p_pos l hr
  rw [genLast2_eq l (p_lt l hr) (fun _ => two_p_lt l hr) (by omega) (by omega) (by omega) (by omega) (by omega)
    (shoupOf_lt _ _ _)]
  have hl : Lazy r.p [u0, u1, u2, u3] := by
    intro z hz
    simp only [List.mem_cons, List.not_mem_nil, or_false] at hz
    rcases hz with rfl | rfl | rfl | rfl <;> assumption
  obtain ⟨a, _, c⟩ := fused4_spec l.w_cases hp0 h4 hw1 [u0, u1, u2, u3] rfl hl
  exact ⟨a, c⟩

/-! ### non-vacuity and concrete runs of the generated blocks (first row of each table) -/

example : (⟨15361, 17458, 4989, 15331⟩ : Row) ∈ Limb.w16.table.rows := by decide

-- 16 bit, p = 15361: wrap of the 16-bit sum (30000+40000), negative `int` difference, `(short) d < 0`, 32-bit `int` overflow
example : ntt_body_u16 15361 30000 40000 3 12 = (bflyLo 16 15361 30000 40000, bflyHi 16 15361 30000 40000 3 12) := by decide
example : ntt_body_u16 15361 20000 30000 3 (shoupOf 16 15361 3) = (19278, 16083) := by decide
example : ntt_deg2_u16 15361 3 5 = (8, 15359) := by decide
example : ntt_last2_u16 15361 15360 15360 15360 15360 4 (shoupOf 16 15361 4) = (30718, 0, 15361, 15361) := by decide
example : ntt_final_u16 15361 30721 = 15360 := by decide
-- 32 bit, p = 1073479681
example : ntt_body_u32 1073479681 2146959361 2146959361 7 (shoupOf 32 1073479681 7) = (2146959360, 1073479681) := by decide
example : ntt_deg2_u32 1073479681 3 5 = (8, 1073479679) := by decide
example : ntt_final_u32 1073479681 2146959361 = 1073479680 := by decide
-- 64 bit, p = 4611686018326724609
example : ntt_deg2_u64 4611686018326724609 3 5 = (8, 4611686018326724607) := by decide
example : ntt_final_u64 4611686018326724609 9223372036653449217 = 4611686018326724608 := by decide
example : list4 (ntt_last2_u64 4611686018326724609 1 2 3 4 5 (shoupOf 64 4611686018326724609 5)) =
    fused4 64 4611686018326724609 5 (shoupOf 64 4611686018326724609 5) [1, 2, 3, 4] := by decide

/-! ### the hypothesis `2 * p < 2^w` of the 32/64-bit equalities is needed

For `p = 2^(w-1) + 1` the C++ product `2*p` wraps to `2`, so `t0 >= 2*p` holds for `t0 = 5` and the code subtracts 2,
whereas the model compares with the exact `2^w + 2`.  (Out of the library's range: every modulus has `4p ≤ 2^w`.) -/

example : (ntt_body_u32 (2 ^ 31 + 1) 5 0 0 0).1 = 3 ∧ bflyLo 32 (2 ^ 31 + 1) 5 0 = 5 := by decide
example : (ntt_body_u64 (2 ^ 63 + 1) 5 0 0 0).1 = 3 ∧ bflyLo 64 (2 ^ 63 + 1) 5 0 = 5 := by decide
example : list2 (ntt_deg2_u32 (2 ^ 31 + 1) 5 0) ≠ nttWord 32 (2 ^ 31 + 1) 1 [] [] [5, 0] := by decide
example : list2 (ntt_deg2_u64 (2 ^ 63 + 1) 5 0) ≠ nttWord 64 (2 ^ 63 + 1) 1 [] [] [5, 0] := by decide
example : list4 (ntt_last2_u32 (2 ^ 31 + 1) 5 0 0 0 0 0) ≠ fused4 32 (2 ^ 31 + 1) 0 0 [5, 0, 0, 0] := by decide
example : list4 (ntt_last2_u64 (2 ^ 63 + 1) 5 0 0 0 0 0) ≠ fused4 64 (2 ^ 63 + 1) 0 0 [5, 0, 0, 0] := by decide
/-- no such hypothesis for 16 bit (`2*p` is an `int`): the largest 16-bit "modulus" -/
example : ntt_body_u16 65535 65535 65535 65535 65535 = (bflyLo 16 65535 65535 65535, bflyHi 16 65535 65535 65535 65535 65535) := by
  decide

end Nfl.C02Ast
