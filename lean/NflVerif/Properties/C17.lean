/- C17 — concurrent arithmetic on distinct polynomials is race-free and deterministic   (PARTIAL)

   What is proved: for the interleaving model of `Model/Conc.lean` (any number of threads, programs of any length,
   EVERY schedule) the access discipline `Confined` (a thread writes only its own objects and reads only its own
   objects and shared storage) implies data-race freedom and determinism; and the regenerated footprint of NFLlib's
   arithmetic API (`Generated/Footprint.lean`, extracted from the real binary on every run) has no store into static
   storage, which is what makes thread programs built from API calls on private objects `Confined`.
   What is NOT proved (hence "partial"): that the real execution is an interleaving of atomic accesses at this
   granularity, and that the footprint observed in the traced run is the footprint of every run.  Real schedules
   are observed under ThreadSanitizer by harness/conc17.cpp. -/
import NflVerif.Model.Conc
import NflVerif.Proofs.ConcInv
import NflVerif.Proofs.ConcSeq
import NflVerif.Generated.Footprint
namespace Nfl.C17
open Nfl.Conc

/-- **Data-race freedom.**  If every thread writes only its own objects and reads only its own objects and shared
    storage, then no schedule (of any length, complete or not) contains two conflicting accesses from different
    threads. -/
theorem drf (progs : Nat → List Access) (m0 : Mem) (h : Confined progs) :
    ∀ (sched : List Nat) (c : Config), run (init progs m0) sched = some c →
      ∀ e1 ∈ c.trace, ∀ e2 ∈ c.trace, ¬ Conflict e1 e2 := by
  intro sched c hr
  have hi := inv_run h sched _ c (inv_init progs m0) hr
  -- a write event of thread t is on an object of t; any event of thread t is on an object of t or on shared storage
  have key : ∀ e ∈ c.trace, (e.isWrite = true → ∃ o, e.loc = .priv e.tid o) ∧
      ((∃ s, e.loc = .shared s) ∨ ∃ o, e.loc = .priv e.tid o) := by
    intro e he
    obtain ⟨a, ha, hw, hl⟩ := hi.trace e he
    have hok := h e.tid a ha
    cases a with
    | read l =>
      simp [Access.isWrite] at hw
      simp [Access.loc] at hl
      subst hl
      exact ⟨fun hw' => (by rw [hw'] at hw; cases hw), okFor_read hok⟩
    | write l f =>
      simp [Access.loc] at hl
      subst hl
      exact ⟨fun _ => okFor_write hok, Or.inr (okFor_write hok)⟩
  intro e1 h1 e2 h2 ⟨hne, hloc, hw⟩
  obtain ⟨k1w, k1⟩ := key e1 h1
  obtain ⟨k2w, k2⟩ := key e2 h2
  rcases hw with hw | hw
  · obtain ⟨o, ho⟩ := k1w hw
    rcases k2 with ⟨s, hs⟩ | ⟨o', ho'⟩
    · rw [ho, hs] at hloc; cases hloc
    · rw [ho, ho'] at hloc; exact hne (Loc.priv.inj hloc).1
  · obtain ⟨o, ho⟩ := k2w hw
    rcases k1 with ⟨s, hs⟩ | ⟨o', ho'⟩
    · rw [ho, hs] at hloc; cases hloc
    · rw [ho, ho'] at hloc; exact hne (Loc.priv.inj hloc).1

/-- **Determinism (prefix form).**  Under the same hypothesis, after EVERY schedule – complete or not – every thread
    is at some point `done ++ todo` of its own program, has read exactly what it reads when it runs ALONE from the
    initial memory up to that point, its objects hold what its solo run leaves there, and shared storage is
    unchanged. -/
theorem deterministic_prefix (progs : Nat → List Access) (m0 : Mem) (h : Confined progs) :
    ∀ (sched : List Nat) (c : Config), run (init progs m0) sched = some c →
      (∀ t, ∃ done, progs t = done ++ (c.thr t).todo ∧ (c.thr t).obs = (solo done (m0, [])).2 ∧
          ∀ o, c.mem (.priv t o) = (solo done (m0, [])).1 (.priv t o)) ∧
      ∀ s, c.mem (.shared s) = m0 (.shared s) := by
  intro sched c hr
  have hi := inv_run h sched _ c (inv_init progs m0) hr
  exact ⟨hi.thr, hi.shared⟩

/-- **Determinism.**  Under the same hypothesis, for EVERY complete schedule each thread observes the same read
    values (`soloObs`: those of its solo run) and the final memory is the same (`finalMem`): neither depends on the
    schedule. -/
theorem deterministic (progs : Nat → List Access) (m0 : Mem) (h : Confined progs) :
    ∀ (sched : List Nat) (c : Config), run (init progs m0) sched = some c → Complete c →
      c.mem = finalMem progs m0 ∧ ∀ t, (c.thr t).obs = soloObs progs m0 t := by
  intro sched c hr hcpl
  have hi := inv_run h sched _ c (inv_init progs m0) hr
  have hdone : ∀ t, (c.thr t).obs = (solo (progs t) (m0, [])).2 ∧
      ∀ o, c.mem (.priv t o) = (solo (progs t) (m0, [])).1 (.priv t o) := by
    intro t
    obtain ⟨done, hp, ho, hm⟩ := hi.thr t
    rw [hcpl t, List.append_nil] at hp
    rw [hp]; exact ⟨ho, hm⟩
  refine ⟨?_, fun t => (hdone t).1⟩
  funext l
  cases l with
  | shared s => exact hi.shared s
  | priv t o => exact (hdone t).2 o

/-- … in particular every complete schedule of `n` threads gives each thread the reads, and the memory the final
    contents, of the SEQUENTIAL execution (thread 0 to completion, then thread 1, …), which is itself a complete
    schedule. -/
theorem deterministic_seq (progs : Nat → List Access) (m0 : Mem) (h : Confined progs) (n : Nat)
    (hn : ∀ t, n ≤ t → progs t = []) :
    ∃ cs, run (init progs m0) (seqSched progs n) = some cs ∧ Complete cs ∧
      ∀ (sched : List Nat) (c : Config), run (init progs m0) sched = some c → Complete c →
        c.mem = cs.mem ∧ ∀ t, (c.thr t).obs = (cs.thr t).obs := by
  obtain ⟨cs, hrs, hcs⟩ := seq_complete progs m0 n hn
  refine ⟨cs, hrs, hcs, ?_⟩
  intro sched c hr hc
  obtain ⟨m1, o1⟩ := deterministic progs m0 h sched c hr hc
  obtain ⟨m2, o2⟩ := deterministic progs m0 h _ cs hrs hcs
  exact ⟨m1.trans m2.symm, fun t => (o1 t).trans (o2 t).symm⟩

/-! ### the instance for NFLlib -/

/-- The regenerated footprint: no arithmetic API operation (any backend, any traced configuration) stores into the
    executable's static storage after static initialisation.  Breaks (kernel `decide` evaluates to `false`) as soon
    as an operation caches anything in a static. -/
theorem footprint_ok : Generated.footprint.all (fun f => f.staticStores.isEmpty) = true := by decide +kernel

/-- the footprint is not empty and the operations do read the static tables (the theorem above is not about an
    empty trace) -/
theorem footprint_nonvacuous :
    Generated.footprint.length ≥ 100 ∧ (Generated.footprint.filter (fun f => f.staticLoads > 0)).length ≥ 30 ∧
    (Generated.footprint.filter (fun f => f.staticLoads > 1000)).length ≥ 3 := by decide +kernel

/-- an API call whose footprint has no static store is a confined piece of program, whoever runs it -/
theorem opAccesses_ok (sid : String → Nat) (t : Nat) (f : OpFootprint) (pr pw : List Nat) (g : List Val → Val)
    (hf : f.staticStores.isEmpty = true) : ∀ a ∈ opAccesses sid t f pr pw g, a.okFor t = true := by
  intro a ha
  have : f.staticStores = [] := List.isEmpty_iff.mp hf
  simp [opAccesses, this] at ha
  rcases ha with ⟨s, _, rfl⟩ | ⟨o, _, rfl⟩ | ⟨o, _, rfl⟩ <;> simp [Access.okFor]

/-- **Instance.**  Thread programs that are sequences of API calls taken from the measured footprint, each on
    objects of the calling thread, satisfy the hypothesis of `drf` and `deterministic`. -/
theorem api_confined (sid : String → Nat) (calls : Nat → List Call)
    (hcalls : ∀ t, ∀ c ∈ calls t, c.f ∈ Generated.footprint) :
    Confined (fun t => apiProg sid t (calls t)) := by
  intro t a ha
  simp only [apiProg, List.mem_flatMap] at ha
  obtain ⟨c, hc, hac⟩ := ha
  have := List.all_eq_true.mp footprint_ok c.f (hcalls t c hc)
  exact opAccesses_ok sid t c.f c.pr c.pw c.g this a hac

/-- DRF and determinism for every program made of measured API calls on private objects, every schedule. -/
theorem api_race_free_deterministic (sid : String → Nat) (calls : Nat → List Call) (m0 : Mem)
    (hcalls : ∀ t, ∀ c ∈ calls t, c.f ∈ Generated.footprint) :
    ∀ (sched : List Nat) (c : Config), run (init (fun t => apiProg sid t (calls t)) m0) sched = some c →
      (∀ e1 ∈ c.trace, ∀ e2 ∈ c.trace, ¬ Conflict e1 e2) ∧
      (Complete c → c.mem = finalMem (fun t => apiProg sid t (calls t)) m0 ∧
        ∀ t, (c.thr t).obs = soloObs (fun t => apiProg sid t (calls t)) m0 t) := by
  intro sched c hr
  have hc := api_confined sid calls hcalls
  exact ⟨drf _ m0 hc sched c hr, deterministic _ m0 hc sched c hr⟩

/-! ### non-vacuity -/

/-- two threads; each reads the shared table entry 0 and its own object 0, writes the sum into its object 1 -/
def exProg : Nat → List Access
  | 0 => [.read (.shared 0), .read (.priv 0 0), .write (.priv 0 1) (fun r => r.sum)]
  | 1 => [.read (.shared 0), .read (.priv 1 0), .write (.priv 1 1) (fun r => r.sum + 1)]
  | _ => []

def exMem : Mem
  | .shared _ => 7
  | .priv t _ => 10 * (t + 1)

example : Confined exProg := by
  intro t a ha
  match t with
  | 0 => simp [exProg] at ha; rcases ha with rfl | rfl | rfl <;> rfl
  | 1 => simp [exProg] at ha; rcases ha with rfl | rfl | rfl <;> rfl
  | (_ + 2) => simp [exProg] at ha

/-- two different complete interleavings of the example exist and end with the same contents of both result objects,
    equal to the sequential schedule's (`seqSched exProg 2 = [0,0,0,1,1,1]`) -/
example : seqSched exProg 2 = [0, 0, 0, 1, 1, 1] := by decide
example : ((run (init exProg exMem) [0, 1, 1, 0, 0, 1]).map fun c => (c.mem (.priv 0 1), c.mem (.priv 1 1), (c.thr 0).obs, (c.thr 1).obs))
    = some (17, 28, [7, 10], [7, 20]) := by decide
example : ((run (init exProg exMem) [1, 1, 1, 0, 0, 0]).map fun c => (c.mem (.priv 0 1), c.mem (.priv 1 1), (c.thr 0).obs, (c.thr 1).obs))
    = some (17, 28, [7, 10], [7, 20]) := by decide
example : ((run (init exProg exMem) (seqSched exProg 2)).map fun c => (c.mem (.priv 0 1), c.mem (.priv 1 1), (c.thr 0).obs, (c.thr 1).obs))
    = some (17, 28, [7, 10], [7, 20]) := by decide

/-- The hypothesis is needed: a "scratch buffer cached in a static" (both threads write `shared 9` and read it back)
    is not confined, the two schedules below contain a conflicting pair and give thread 0 different results. -/
def badProg : Nat → List Access
  | 0 => [.write (.shared 9) (fun _ => 1), .read (.shared 9), .write (.priv 0 0) (fun r => r.sum)]
  | 1 => [.write (.shared 9) (fun _ => 2), .read (.shared 9), .write (.priv 1 0) (fun r => r.sum)]
  | _ => []

example : ¬ Confined badProg := by
  intro h
  have := h 0 (.write (.shared 9) (fun _ => 1)) (by simp [badProg])
  simp [Access.okFor] at this
example : ((run (init badProg exMem) [0, 0, 0, 1, 1, 1]).map fun c => c.mem (.priv 0 0)) = some 1 := by decide
example : ((run (init badProg exMem) [0, 1, 0, 0, 1, 1]).map fun c => c.mem (.priv 0 0)) = some 2 := by decide

/-- the instance hypothesis is satisfiable: a call list made of the first measured operation -/
example : Generated.footprint.filter (fun f => f.staticLoads > 0) ≠ [] := by decide +kernel

end Nfl.C17
