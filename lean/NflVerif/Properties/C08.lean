/-
C08 — Equality and inequality compare whole polynomials.

Property theorems only (helpers: `Proofs/ExprBool.lean`).  Model: `Model/Expr.lean` (`exprToBool`, `polyToBool`,
`polyPEq`, `polyPNeq`); for expression operands the exact meaning comes from C07 (`loadElem_exact`).

`exprToBool c be st e` evaluates `expr::operator bool` in the mode the library picks for `e` in backend `be`;
the `…_words` theorems hold in **every** mode `m` whose register width divides the degree (scalar compare in serial
mode, 64-bit-lane compare in the vector modes), so the answer never depends on the backend.
-/
import NflVerif.Proofs.ExprBool
import NflVerif.Proofs.ExprExact
namespace Nfl.C08
open Nfl Nfl.Ex

theorem arith_of_adm (c : Ctx) (st : Store) : ∀ e, Adm c st e → e.arith = true := by
  intro e
  induction e with
  | leaf h => intro _; rfl
  | add a b iha ihb | sub a b iha ihb | mul a b iha ihb =>
    intro h; simp [Expr.arith, iha h.1, ihb h.2.1]
  | shoup3 a b q iha ihb ihq => intro h; simp [Expr.arith, iha h.1, ihb h.2.1, ihq h.2.2.1]
  | computeShoup a iha => intro h; simp [Expr.arith, iha h]
  | eq a b _ _ | neq a b _ _ => intro h; exact h.elim

/-! ### every mode, word level (no hypothesis on the data) -/

/-- `bool(a == b)` is true iff **all** coefficients agree – in serial mode and in the vector modes (where the
comparison is done on 64-bit lanes: all lanes equal ⇔ all elements equal). -/
theorem eq_iff_words (c : Ctx) (m : Mode) (st : Store) (a b : Expr) (ha : a.arith = true) (hb : b.arith = true)
    (hdiv : eltCount c.l m ∣ c.deg) :
    exprToBoolM c m st (.eq a b) = some true ↔
      ∀ cm, cm < c.nmod → ∀ i, i < c.deg → loadElem c st a cm i = loadElem c st b cm i := by
  rw [exprToBoolM_eq c m st a b ha hb, ← allSame_iff c m st a b hdiv]
  simp

/-- `bool(a != b)` is true iff **some** coefficient differs (any lane differs ⇔ any element differs). -/
theorem neq_iff_words (c : Ctx) (m : Mode) (st : Store) (a b : Expr) (ha : a.arith = true) (hb : b.arith = true)
    (hdiv : eltCount c.l m ∣ c.deg) :
    exprToBoolM c m st (.neq a b) = some true ↔
      ∃ cm, cm < c.nmod ∧ ∃ i, i < c.deg ∧ loadElem c st a cm i ≠ loadElem c st b cm i := by
  rw [exprToBoolM_neq c m st a b ha hb]
  have h := allSame_iff c m st a b hdiv
  constructor
  · intro h1
    have h2 : ¬ allSame c m st a b = true := by
      intro h3; rw [h3] at h1; simp at h1
    apply Classical.byContradiction
    intro hn
    apply h2
    rw [h]
    intro cm hcm i hi
    apply Classical.byContradiction
    intro hne
    exact hn ⟨cm, hcm, i, hi, hne⟩
  · intro ⟨cm, hcm, i, hi, hne⟩
    have h2 : ¬ allSame c m st a b = true := fun h3 => hne (h.mp h3 cm hcm i hi)
    cases h4 : allSame c m st a b
    · rfl
    · exact (h2 h4).elim

/-- `==` and `!=` are complementary, even when they are evaluated in two different modes. -/
theorem eq_neq_compl (c : Ctx) (m m' : Mode) (st : Store) (a b : Expr) (ha : a.arith = true) (hb : b.arith = true)
    (hdiv : eltCount c.l m ∣ c.deg) (hdiv' : eltCount c.l m' ∣ c.deg) :
    exprToBoolM c m' st (.neq a b) = (exprToBoolM c m st (.eq a b)).map not := by
  rw [exprToBoolM_neq c m' st a b ha hb, exprToBoolM_eq c m st a b ha hb]
  simp only [Option.map_some]
  have h1 := allSame_iff c m st a b hdiv
  have h2 := allSame_iff c m' st a b hdiv'
  have hsame : allSame c m' st a b = allSame c m st a b := by rw [Bool.eq_iff_iff, h2, h1]
  rw [hsame]

/-- an arithmetic expression converts to `true` iff some coefficient of its value is non-zero -/
theorem bool_iff_nonzero_words (c : Ctx) (m : Mode) (st : Store) (e : Expr) (he : e.arith = true)
    (hdiv : eltCount c.l m ∣ c.deg) :
    exprToBoolM c m st e = some true ↔ ∃ cm, cm < c.nmod ∧ ∃ i, i < c.deg ∧ loadElem c st e cm i ≠ 0 := by
  rw [exprToBoolM_arith c m st e he, ← anyNonzero_iff c m st e hdiv]
  simp

/-- the boolean conversions do not depend on the mode they are evaluated in -/
theorem mode_independent (c : Ctx) (m m' : Mode) (st : Store) (e : Expr)
    (hdiv : eltCount c.l m ∣ c.deg) (hdiv' : eltCount c.l m' ∣ c.deg) :
    exprToBoolM c m st e = exprToBoolM c m' st e := by
  by_cases hdom : e.inDomain = true
  · have key : ∀ x y : Option Bool, (∃ v, x = some v) → (∃ v, y = some v) → (x = some true ↔ y = some true) → x = y := by
      intro x y ⟨v, hv⟩ ⟨v', hv'⟩ h
      subst hv hv'
      cases v <;> cases v' <;> simp_all
    cases e with
    | eq a b =>
      simp only [Expr.inDomain, Bool.and_eq_true] at hdom
      apply key _ _ ⟨_, exprToBoolM_eq c m st a b hdom.1 hdom.2⟩ ⟨_, exprToBoolM_eq c m' st a b hdom.1 hdom.2⟩
      rw [eq_iff_words c m st a b hdom.1 hdom.2 hdiv, eq_iff_words c m' st a b hdom.1 hdom.2 hdiv']
    | neq a b =>
      simp only [Expr.inDomain, Bool.and_eq_true] at hdom
      apply key _ _ ⟨_, exprToBoolM_neq c m st a b hdom.1 hdom.2⟩ ⟨_, exprToBoolM_neq c m' st a b hdom.1 hdom.2⟩
      rw [neq_iff_words c m st a b hdom.1 hdom.2 hdiv, neq_iff_words c m' st a b hdom.1 hdom.2 hdiv']
    | leaf _ | add _ _ | sub _ _ | mul _ _ | shoup3 _ _ _ | computeShoup _ =>
      have he : Expr.arith _ = true := hdom
      apply key _ _ ⟨_, exprToBoolM_arith c m st _ he⟩ ⟨_, exprToBoolM_arith c m' st _ he⟩
      rw [bool_iff_nonzero_words c m st _ he hdiv, bool_iff_nonzero_words c m' st _ he hdiv']
  · unfold exprToBoolM
    simp [hdom]

/-! ### every position counts, at every degree

Corollaries in the form the position sweeps of the correspondence stream exercise (`bsweep` lines: the two operands differ
in exactly one residue, at each position in turn; resp. agree in exactly one): whatever the degree — any multiple of the
register width, power of two or not — and whatever the position of the difference, first or last of a modulus row, inside
a full register or in the last one. -/

/-- one differing coefficient, anywhere, makes `==` false -/
theorem eq_false_of_differ_at (c : Ctx) (m : Mode) (st : Store) (a b : Expr) (ha : a.arith = true) (hb : b.arith = true)
    (hdiv : eltCount c.l m ∣ c.deg) (cm i : Nat) (hcm : cm < c.nmod) (hi : i < c.deg)
    (hne : loadElem c st a cm i ≠ loadElem c st b cm i) :
    exprToBoolM c m st (.eq a b) = some false := by
  have h := eq_iff_words c m st a b ha hb hdiv
  rw [exprToBoolM_eq c m st a b ha hb] at h ⊢
  cases hs : allSame c m st a b
  · rfl
  · exact (hne ((h.mp (by rw [hs])) cm hcm i hi)).elim

/-- one differing coefficient, anywhere, makes `!=` true -/
theorem neq_true_of_differ_at (c : Ctx) (m : Mode) (st : Store) (a b : Expr) (ha : a.arith = true) (hb : b.arith = true)
    (hdiv : eltCount c.l m ∣ c.deg) (cm i : Nat) (hcm : cm < c.nmod) (hi : i < c.deg)
    (hne : loadElem c st a cm i ≠ loadElem c st b cm i) :
    exprToBoolM c m st (.neq a b) = some true :=
  (neq_iff_words c m st a b ha hb hdiv).mpr ⟨cm, hcm, i, hi, hne⟩

/-- one non-zero coefficient, anywhere, makes the conversion of an arithmetic expression true -/
theorem bool_true_of_nonzero_at (c : Ctx) (m : Mode) (st : Store) (e : Expr) (he : e.arith = true)
    (hdiv : eltCount c.l m ∣ c.deg) (cm i : Nat) (hcm : cm < c.nmod) (hi : i < c.deg) (hne : loadElem c st e cm i ≠ 0) :
    exprToBoolM c m st e = some true :=
  (bool_iff_nonzero_words c m st e he hdiv).mpr ⟨cm, hcm, i, hi, hne⟩

/-- a single agreeing coefficient does not make `==` true: it is true only if *all* agree (the former defect F1 had
"some residue agrees"), in particular not when all the others differ -/
theorem eq_true_only_if_all (c : Ctx) (m : Mode) (st : Store) (a b : Expr) (ha : a.arith = true) (hb : b.arith = true)
    (hdiv : eltCount c.l m ∣ c.deg) (h : exprToBoolM c m st (.eq a b) = some true) (cm i : Nat) (hcm : cm < c.nmod)
    (hi : i < c.deg) : loadElem c st a cm i = loadElem c st b cm i :=
  (eq_iff_words c m st a b ha hb hdiv).mp h cm hcm i hi

/-! ### the property: plain polynomials -/

/-- **`a == b` on polynomials** (`poly == poly`, and what `poly_p == poly`, `poly_p == poly_p` forward to):
true iff every stored residue of `a` equals the corresponding residue of `b`. -/
theorem eq_iff_poly (c : Ctx) (be : Backend) (st : Store) (ha hb : Nat)
    (la : (st.getD ha []).length = c.n) (lb : (st.getD hb []).length = c.n) (hdiv : eltCount c.l be ∣ c.deg) :
    exprToBool c be st (.eq (.leaf ha) (.leaf hb)) = some true ↔ st.getD ha [] = st.getD hb [] := by
  unfold exprToBool
  rw [eq_iff_words c _ st _ _ rfl rfl (by simpa [mode, tag2, Expr.isLeaf, fnMode] using hdiv),
    rows_eq_iff c st ha hb la lb]
  rfl

/-- **`a != b` on polynomials**: true iff at least one residue differs. -/
theorem neq_iff_poly (c : Ctx) (be : Backend) (st : Store) (ha hb : Nat)
    (la : (st.getD ha []).length = c.n) (lb : (st.getD hb []).length = c.n) (hdiv : eltCount c.l be ∣ c.deg) :
    exprToBool c be st (.neq (.leaf ha) (.leaf hb)) = some true ↔ st.getD ha [] ≠ st.getD hb [] := by
  have hd : eltCount c.l (mode be c.l (.neq (.leaf ha) (.leaf hb))) ∣ c.deg := by
    simpa [mode, tag2, Expr.isLeaf, fnMode] using hdiv
  have hd' : eltCount c.l (mode be c.l (.eq (.leaf ha) (.leaf hb))) ∣ c.deg := by
    simpa [mode, tag2, Expr.isLeaf, fnMode] using hdiv
  have heq := eq_iff_poly c be st ha hb la lb hdiv
  unfold exprToBool at heq ⊢
  rw [eq_neq_compl c _ _ st _ _ rfl rfl hd' hd]
  rw [exprToBoolM_eq c _ st _ _ rfl rfl] at heq ⊢
  cases h : allSame c (mode be c.l (.eq (.leaf ha) (.leaf hb))) st (.leaf ha) (.leaf hb) <;> simp_all

/-- **polynomial to bool**: true iff it has a non-zero residue. -/
theorem bool_iff_nonzero_poly (c : Ctx) (st : Store) (h : Nat) (lh : (st.getD h []).length = c.n) :
    polyToBool st h = true ↔ ∃ k, k < c.n ∧ rd st h k ≠ 0 := by
  rw [polyToBool_iff, lh]

/-! ### shared handles -/

/-- **`poly_p == poly_p`**: the short-cut on identical storage is sound, otherwise the full comparison. -/
theorem polyp_eq_iff (c : Ctx) (be : Backend) (st : Store) (ha hb : Nat)
    (la : (st.getD ha []).length = c.n) (lb : (st.getD hb []).length = c.n) (hdiv : eltCount c.l be ∣ c.deg) :
    polyPEq c be st ha hb = some true ↔ st.getD ha [] = st.getD hb [] := by
  unfold polyPEq
  by_cases h : ha = hb
  · subst h; simp
  · simp only [h, if_false]; exact eq_iff_poly c be st ha hb la lb hdiv

theorem polyp_neq_iff (c : Ctx) (be : Backend) (st : Store) (ha hb : Nat)
    (la : (st.getD ha []).length = c.n) (lb : (st.getD hb []).length = c.n) (hdiv : eltCount c.l be ∣ c.deg) :
    polyPNeq c be st ha hb = some true ↔ st.getD ha [] ≠ st.getD hb [] := by
  unfold polyPNeq
  by_cases h : ha = hb
  · subst h; simp
  · simp only [h, if_false]; exact neq_iff_poly c be st ha hb la lb hdiv

/-- `poly_p`: `!=` is the complement of `==` -/
theorem polyp_compl (c : Ctx) (be : Backend) (st : Store) (ha hb : Nat) (hdiv : eltCount c.l be ∣ c.deg) :
    polyPNeq c be st ha hb = (polyPEq c be st ha hb).map not := by
  unfold polyPNeq polyPEq
  by_cases h : ha = hb
  · simp [h]
  · have hd : eltCount c.l (mode be c.l (.neq (.leaf ha) (.leaf hb))) ∣ c.deg := by
      simpa [mode, tag2, Expr.isLeaf, fnMode] using hdiv
    have hd' : eltCount c.l (mode be c.l (.eq (.leaf ha) (.leaf hb))) ∣ c.deg := by
      simpa [mode, tag2, Expr.isLeaf, fnMode] using hdiv
    simp only [h, if_false]
    exact eq_neq_compl c _ _ st _ _ rfl rfl hd' hd

/-! ### expressions on either side (values by C07) -/

/-- **`a == b` with arbitrary admissible arithmetic expressions on either side** (a leaf is the special case of a
polynomial): true iff the two values agree at every coefficient. -/
theorem eq_iff (c : Ctx) (hrows : c.TableRows) (be : Backend) (st : Store) (a b : Expr)
    (ha : Adm c st a) (hb : Adm c st b) (hdiv : eltCount c.l (mode be c.l (.eq a b)) ∣ c.deg) :
    exprToBool c be st (.eq a b) = some true ↔
      ∀ cm, cm < c.nmod → ∀ i, i < c.deg → evalExact c st a cm i = evalExact c st b cm i := by
  unfold exprToBool
  rw [eq_iff_words c _ st a b (arith_of_adm c st a ha) (arith_of_adm c st b hb) hdiv]
  constructor
  · intro h cm hcm i hi
    rw [← loadElem_exact hrows st a ha cm hcm i hi, ← loadElem_exact hrows st b hb cm hcm i hi]; exact h cm hcm i hi
  · intro h cm hcm i hi
    rw [loadElem_exact hrows st a ha cm hcm i hi, loadElem_exact hrows st b hb cm hcm i hi]; exact h cm hcm i hi

theorem neq_iff (c : Ctx) (hrows : c.TableRows) (be : Backend) (st : Store) (a b : Expr)
    (ha : Adm c st a) (hb : Adm c st b) (hdiv : eltCount c.l (mode be c.l (.neq a b)) ∣ c.deg) :
    exprToBool c be st (.neq a b) = some true ↔
      ∃ cm, cm < c.nmod ∧ ∃ i, i < c.deg ∧ evalExact c st a cm i ≠ evalExact c st b cm i := by
  unfold exprToBool
  rw [neq_iff_words c _ st a b (arith_of_adm c st a ha) (arith_of_adm c st b hb) hdiv]
  constructor
  · intro ⟨cm, hcm, i, hi, h⟩
    refine ⟨cm, hcm, i, hi, ?_⟩
    rw [← loadElem_exact hrows st a ha cm hcm i hi, ← loadElem_exact hrows st b hb cm hcm i hi]; exact h
  · intro ⟨cm, hcm, i, hi, h⟩
    refine ⟨cm, hcm, i, hi, ?_⟩
    rw [loadElem_exact hrows st a ha cm hcm i hi, loadElem_exact hrows st b hb cm hcm i hi]; exact h

/-- **expression to bool**: true iff the value of the expression has a non-zero residue. -/
theorem bool_iff_nonzero (c : Ctx) (hrows : c.TableRows) (be : Backend) (st : Store) (e : Expr)
    (he : Adm c st e) (hdiv : eltCount c.l (mode be c.l e) ∣ c.deg) :
    exprToBool c be st e = some true ↔ ∃ cm, cm < c.nmod ∧ ∃ i, i < c.deg ∧ evalExact c st e cm i ≠ 0 := by
  unfold exprToBool
  rw [bool_iff_nonzero_words c _ st e (arith_of_adm c st e he) hdiv]
  constructor
  · intro ⟨cm, hcm, i, hi, h⟩
    refine ⟨cm, hcm, i, hi, ?_⟩
    rw [← loadElem_exact hrows st e he cm hcm i hi]; exact h
  · intro ⟨cm, hcm, i, hi, h⟩
    refine ⟨cm, hcm, i, hi, ?_⟩
    rw [loadElem_exact hrows st e he cm hcm i hi]; exact h

/-! ### non-vacuity and the former defect witnesses (F1) as regression cases -/

def ctx16 : Ctx := { l := .w16, deg := 8, rows := [⟨15361, 17458, 4989, 15331⟩] }
def ctx32 : Ctx := { l := .w32, deg := 8, rows := [⟨1073479681, 4195312, 31849551, 1073446921⟩] }

/-- `{1,2,3}` vs `{1,5,6}` (one residue equal, zero padding equal): was `true`, must be `false` – in all three builds -/
def w1 : Store := [[1, 2, 3, 0, 0, 0, 0, 0], [1, 5, 6, 0, 0, 0, 0, 0]]
example : exprToBool ctx16 .serial w1 (.eq (.leaf 0) (.leaf 1)) = some false := by decide
example : exprToBool ctx16 .sse w1 (.eq (.leaf 0) (.leaf 1)) = some false := by decide
example : exprToBool ctx32 .avx2 w1 (.eq (.leaf 0) (.leaf 1)) = some false := by decide
example : exprToBool ctx16 .sse w1 (.neq (.leaf 0) (.leaf 1)) = some true := by decide
/-- `{1,…,8}` vs `{1,9,3,9,5,9,7,9}`, 32-bit, n = 8: every 64-bit lane differs although every second element agrees
(the serial and the vector builds used to disagree) -/
def w2 : Store := [[1, 2, 3, 4, 5, 6, 7, 8], [1, 9, 3, 9, 5, 9, 7, 9]]
example : exprToBool ctx32 .serial w2 (.eq (.leaf 0) (.leaf 1)) = some false := by decide
example : exprToBool ctx32 .sse w2 (.eq (.leaf 0) (.leaf 1)) = some false := by decide
example : exprToBool ctx32 .avx2 w2 (.eq (.leaf 0) (.leaf 1)) = some false := by decide
/-- a pair that differs in the last element of the last lane only, and an equal pair -/
def w3 : Store := [[1, 2, 3, 4, 5, 6, 7, 8], [1, 2, 3, 4, 5, 6, 7, 9], [1, 2, 3, 4, 5, 6, 7, 8]]
example : exprToBool ctx16 .sse w3 (.eq (.leaf 0) (.leaf 1)) = some false := by decide
example : exprToBool ctx16 .sse w3 (.eq (.leaf 0) (.leaf 2)) = some true := by decide
example : polyPEq ctx16 .sse w3 0 0 = some true ∧ polyPNeq ctx16 .sse w3 0 0 = some false := by decide
/-- `bool(a - b)`: zero for equal operands, non-zero otherwise; `bool(poly)` -/
example : exprToBool ctx16 .sse w3 (.sub (.leaf 0) (.leaf 2)) = some false := by decide
example : exprToBool ctx16 .sse w3 (.sub (.leaf 0) (.leaf 1)) = some true := by decide
example : polyToBool w3 0 = true ∧ polyToBool [[0, 0, 0, 0, 0, 0, 0, 0]] 0 = false := by decide
example : ctx16.TableRows := by intro r hr; simp [ctx16] at hr; subst hr; decide

/-! degrees that are not powers of two: 12 coefficients, two moduli, 32-bit limbs (register widths 1, 4; 8 does not
divide 12: the AVX2 comparison of two such polynomials is rejected by the library's `static_assert`); the two rows
differ in the **last** coefficient of the **first** modulus row only, resp. of the last row only -/
def ctx12 : Ctx := { l := .w32, deg := 12, rows := [⟨1073479681, 4195312, 31849551, 1073446921⟩, ⟨1072496641, 19946058, 356382027, 1072463911⟩] }
def w4 : Store := [(List.range 24).map (· + 1), ((List.range 24).map (· + 1)).set 11 99, ((List.range 24).map (· + 1)).set 23 99]
example : eltCount ctx12.l .sse ∣ ctx12.deg ∧ ¬ eltCount ctx12.l .avx2 ∣ ctx12.deg := by decide
example : compiles .avx2 .w32 12 (.eq (.leaf 0) (.leaf 1)) = false ∧ compiles .sse .w32 12 (.eq (.leaf 0) (.leaf 1)) = true := by decide
example : exprToBool ctx12 .serial w4 (.eq (.leaf 0) (.leaf 1)) = some false := by decide
example : exprToBool ctx12 .sse w4 (.eq (.leaf 0) (.leaf 1)) = some false := by decide
example : exprToBool ctx12 .sse w4 (.eq (.leaf 0) (.leaf 2)) = some false := by decide
example : exprToBool ctx12 .sse w4 (.neq (.leaf 0) (.leaf 2)) = some true := by decide
example : exprToBool ctx12 .sse w4 (.sub (.leaf 0) (.leaf 1)) = some true := by decide
example : exprToBool ctx12 .sse w4 (.eq (.leaf 0) (.leaf 0)) = some true := by decide
example : polyPEq ctx12 .sse w4 1 2 = some false ∧ polyPNeq ctx12 .sse w4 1 2 = some true := by decide
example : ctx12.TableRows := by intro r hr; simp [ctx12] at hr; rcases hr with hr | hr <;> subst hr <;> decide

end Nfl.C08
