/-
Semantics of the one C++ construct that `tools/gen_vloop_ast.py` meets beyond `CSem.lean` / `CSemLoop.lean` in the LOOP STRUCTURE
of the SSE and AVX2 transforms (`ops::ntt_loop_sse_unrolled<poly>::run`, `ops::ntt_loop_avx2_unrolled<poly>::run`): the whole-
register memory accesses that the vector functor `ntt_loop_body<simd::sse|avx2, poly, T>::operator()` performs through its pointer
arguments.  Hand-written, core Lean only, TRUSTED (together with clang's AST, `CSem.lean`, `CSemLoop.lean`).

`_mm_load_si128((__m128i const*) p)` / `_mm256_load_si256((__m256i const*) p)` with `p = &arr[i]`, `arr` an array of `W`-bit
elements, reads the `L = 128/W` resp. `256/W` consecutive cells `arr[i], …, arr[i+L-1]` as one register; lane `j` of the register
(in the `W`-bit view, `Simd.Reg` = list of lanes, lane 0 first) is the cell `i + j` — x86 is little endian, lane 0 = lowest
address: the view of `SimdView.relane` and of the hand model `Model/Simd.lean`.  `_mm_store_si128((__m128i*) p, v)` /
`_mm256_store_si256` writes lane `j` of `v` to the cell `i + j`.

NOT modelled: the ALIGNMENT requirement of these intrinsics (`p` must be 16- resp. 32-byte aligned, a general-protection fault
otherwise).  The translator checks on its concrete runs (every degree 2^3 … 2^15) that every vector access is at an element
offset that is a multiple of `L` from the start of its array — the arrays themselves are assumed 32-byte aligned (`alignas(32)`
in poly / the tables of `core`).  As in `CSemLoop`, a cell outside the array reads as `0` and a write to it is dropped; the same
concrete runs exclude this.
-/
import NflVerif.Model.CSemLoop

namespace Nfl.CSemVLoop
open Nfl.CSemLoop

/-- whole-register load of `L` lanes from the cells `i, …, i+L-1` -/
def rdv (L : Nat) (m : List Nat) (i : Nat) : List Nat := (List.range L).map (fun j => rd m (i + j))

/-- whole-register store: lane `j` of `v` to the cell `i + j` -/
def wrv : List Nat → Nat → List Nat → List Nat
  | m, _, [] => m
  | m, i, a :: v => wrv (wr m i a) (i + 1) v

example : rdv 4 [10, 11, 12, 13, 14, 15] 1 = [11, 12, 13, 14] := by decide
example : wrv [10, 11, 12, 13, 14, 15] 1 [1, 2, 3, 4] = [10, 1, 2, 3, 4, 15] := by decide
example : rdv 4 [10, 11, 12] 1 = [11, 12, 0, 0] ∧ wrv [10, 11, 12] 1 [1, 2, 3, 4] = [10, 1, 2] := by decide

end Nfl.CSemVLoop
