/-
Pratt-certificate checker and table-row checker (core Lean only, kernel-evaluable).

Everything here is structural recursion on fuel / lists so that `decide +kernel` can evaluate it on the
regenerated tables of `params.hpp`.  Soundness is proved in `Proofs/PrattSound.lean`.
-/
namespace Nfl

/-- Square-and-multiply, structural on `fuel` (number of exponent bits still to be processed). -/
def powModAux : Nat → Nat → Nat → Nat → Nat → Nat
  | 0, _, _, _, acc => acc
  | fuel + 1, b, e, m, acc =>
      bif Nat.beq e 0 then acc else
      powModAux fuel (b * b % m) (e / 2) m (bif Nat.beq (e % 2) 1 then acc * b % m else acc)

/-- `b^e mod m` for `e < 2^128`. -/
def powMod (b e m : Nat) : Nat := powModAux 128 b e m (1 % m)

/-- One line of a Pratt certificate: `p` is prime because `a` has order `p-1`, where
`p - 1 = ∏ qᵢ^eᵢ` and every `qᵢ` is 2 or an earlier line of the same chain. -/
structure PrattLine where
  p : Nat
  a : Nat
  factors : List (Nat × Nat)
deriving Repr, DecidableEq

def prodPow : List (Nat × Nat) → Nat
  | [] => 1
  | (q, e) :: t => q ^ e * prodPow t

def memNat (x : Nat) : List Nat → Bool
  | [] => false
  | y :: t => Nat.beq x y || memNat x t

def PrattLine.check (known : List Nat) (l : PrattLine) : Bool :=
  Nat.ble 2 l.p && Nat.blt l.p (2 ^ 128) &&
  Nat.beq (prodPow l.factors) (l.p - 1) &&
  Nat.beq (powMod l.a (l.p - 1) l.p) 1 &&
  l.factors.all (fun qe =>
    Nat.ble 1 qe.2 &&
    (Nat.beq qe.1 2 || memNat qe.1 known) &&
    !(Nat.beq (powMod l.a ((l.p - 1) / qe.1) l.p) 1))

/-- Checks a chain front to back; returns the list of numbers certified prime. -/
def checkChain : List PrattLine → List Nat → Option (List Nat)
  | [], known => some known
  | l :: t, known => if l.check known then checkChain t (l.p :: known) else none

/-- `p` is certified by `chain`. -/
def certifies (chain : List PrattLine) (p : Nat) : Bool :=
  match checkChain chain [] with
  | some known => memNat p known
  | none => false

/-- The facts property C06 states about one table row, as a Boolean the kernel can evaluate.
`w` limb width in bits, `kMax` maximum degree (a power of two, `kMax = 2^lk`). -/
def rowCheck (w lk p pn root invN : Nat) (chain : List PrattLine) : Bool :=
  certifies chain p &&
  Nat.ble (2 ^ (w - 3)) p && Nat.blt p (2 ^ (w - 2)) &&
  Nat.beq (p % (2 * 2 ^ lk)) 1 &&
  Nat.blt root p && Nat.beq (powMod root (2 ^ lk) p) (p - 1) &&
  Nat.blt invN p && Nat.beq (invN * 2 ^ lk % p) 1 &&
  Nat.beq (2 ^ (2 * w) / p) (4 * 2 ^ w + pn) && Nat.blt pn (2 ^ w)

/-- Strictly decreasing list: all rows distinct. -/
def strictDecreasing : List Nat → Bool
  | [] => true
  | [_] => true
  | a :: b :: t => Nat.blt b a && strictDecreasing (b :: t)

/-- Row `i` of the four tables plus its certificate chain. -/
structure Table where
  w : Nat
  lk : Nat           -- log2 of kMaxPolyDegree
  P : List Nat
  Pn : List Nat
  roots : List Nat
  invN : List Nat
  certs : List (List PrattLine)

def rowsCheckAux (w lk : Nat) : List Nat → List Nat → List Nat → List Nat → List (List PrattLine) → Bool
  | [], [], [], [], [] => true
  | p :: ps, pn :: pns, r :: rs, i :: is, c :: cs =>
      rowCheck w lk p pn r i c && rowsCheckAux w lk ps pns rs is cs
  | _, _, _, _, _ => false

def Table.check (t : Table) : Bool :=
  rowsCheckAux t.w t.lk t.P t.Pn t.roots t.invN t.certs && strictDecreasing t.P

end Nfl

namespace Nfl

/-- One row of the tables: modulus, Newton quotient (low word), tabulated root, inverse of kMax. -/
structure Row where
  p : Nat
  pn : Nat
  root : Nat
  invN : Nat
deriving Repr, DecidableEq, Inhabited

def zipRows : List Nat → List Nat → List Nat → List Nat → List Row
  | p :: ps, pn :: pns, r :: rs, i :: is => ⟨p, pn, r, i⟩ :: zipRows ps pns rs is
  | _, _, _, _ => []

def Table.rows (t : Table) : List Row := zipRows t.P t.Pn t.roots t.invN

/-- Row `cm` (what `params<T>::P[cm]` etc. denote); a default row of zeros outside the table. -/
def Table.row (t : Table) (cm : Nat) : Row := t.rows.getD cm ⟨0, 0, 0, 0⟩

end Nfl
