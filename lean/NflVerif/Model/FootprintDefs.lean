/- C17: shape of the generated static-storage footprint (tools/gen_footprint.py fills `Generated/Footprint.lean`).
   Core Lean only. -/
namespace Nfl.Conc

/-- What one arithmetic API operation did to the executable's writable static storage (`.data`/`.bss`, where every
    NFLlib static lives) in the traced run: `staticStores` = (symbol, offset) of every store observed inside the
    operation's window; `staticLoads` = number of loads; `staticLoadSyms` = static objects read. -/
structure OpFootprint where
  backend : String
  cfg : String
  op : String
  staticStores : List (String × Nat)
  staticLoads : Nat
  staticLoadSyms : List String
deriving Repr

end Nfl.Conc
