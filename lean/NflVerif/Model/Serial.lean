/-
Model of the serialisers of NFLlib (property C16) — core Lean only.

  poly.hpp   serialize_manually(std::ostream& o)   o.write(reinterpret_cast<char*>(_data), N*sizeof(T))
             deserialize_manually(std::istream& i) i.read (reinterpret_cast<char*>(_data), N*sizeof(T))
  core.hpp   operator<<(ostream&, poly const&)     l.398–421
  poly_p.hpp forwards all three to `poly_obj()`.

A polynomial is the list of its `N = n*m` words (`T _data[N]`, modulus-major).  The object memory is the
concatenation of the little-endian byte images of the words (x86-64: the only architecture the library's SIMD
back-ends and this framework run on; the header itself says the format is not portable across endianness).

Contracts of the C++ library that are **assumed**, not verified:
  * `ostream::write(p, k)` appends the `k` bytes at `p` to the stream (no translation: the stream is binary /
    a `stringstream`).
  * `istream::read(p, k)` on a good stream extracts `g = min(k, available)` bytes into `p[0..g)`, leaves
    `p[g..k)` untouched, and sets `failbit|eofbit` iff `g < k`; on a stream that is not good it extracts
    nothing and sets `failbit`.
  * `ostream << unsigned` prints the decimal digits (default flags: `dec`, no width, "C" locale).
-/
namespace Nfl.Serial

/-! ### byte images -/

/-- the `bytes` low-order bytes of `x`, least significant first -/
def encodeLE : Nat → Nat → List Nat
  | 0, _ => []
  | b + 1, x => x % 256 :: encodeLE b (x / 256)

/-- the number whose little-endian bytes are given -/
def decodeLE : List Nat → Nat
  | [] => 0
  | b :: bs => b + 256 * decodeLE bs

/-- the object memory of a word array with `B`-byte words -/
def toBytes (B : Nat) (ws : List Nat) : List Nat := ws.flatMap (encodeLE B)

/-- reading memory back as `len` words of `B` bytes -/
def fromBytes (B : Nat) : Nat → List Nat → List Nat
  | 0, _ => []
  | len + 1, bs => decodeLE (bs.take B) :: fromBytes B len (bs.drop B)

/-! ### raw form -/

/-- `serialize_manually`: the bytes appended to the stream -/
def serialize (w : Nat) (poly : List Nat) : List Nat := toBytes (w / 8) poly

/-- `deserialize_manually` into an object of `len` words currently holding `old`, from a good stream whose
unread content is `stream`.  Returns (new object, unread rest of the stream, failbit). -/
def deserialize (w : Nat) (len : Nat) (old : List Nat) (stream : List Nat) : List Nat × List Nat × Bool :=
  let B := w / 8
  let req := len * B
  let got := min req stream.length
  let mem := stream.take got ++ (toBytes B old).drop got
  (fromBytes B len mem, stream.drop got, decide (got < req))

/-- number of bytes the last `read` extracted (`istream::gcount()`) -/
def gcount (w : Nat) (len : Nat) (stream : List Nat) : Nat := min (len * (w / 8)) stream.length

/-- several objects read one after the other from the same stream; once `failbit` is set every further
`read` is a no-op (the sentry fails).  Result per object: (contents, gcount, failbit after the call). -/
def deserializeSeq (w len : Nat) : List (List Nat) → List Nat → Bool → List (List Nat × Nat × Bool) × List Nat
  | [], stream, _ => ([], stream)
  | old :: olds, stream, failed =>
      if failed then
        let r := deserializeSeq w len olds stream true
        ((old, 0, true) :: r.1, r.2)
      else
        let d := deserialize w len old stream
        let r := deserializeSeq w len olds d.2.1 d.2.2
        ((d.1, gcount w len stream, d.2.2) :: r.1, r.2)

/-! ### several objects and one stream: statement histories

The receiving object of a read is an object with a past: it holds old contents, it may have been written to the
stream before, and — for `poly_p` — its storage may be shared with other handles (copies).  `poly_p` forwards the
raw reader/writer and the cereal `serialize` to `poly_obj()`, which un-shares first (`detach()`, modelled with its
use counts in `Model/Cow.lean`: `assign` / `touch`), so that *every* variable behaves as a value.  The history model
below therefore has one word list per variable (plain `poly` or handle) and one `std::stringstream`:

* `write i`  — `h_i.serialize_manually(ss)`: `ostream::write`, a no-op on a stream that is not good;
* `read j`   — `h_j.deserialize_manually(ss)`: `istream::read` into the object of `h_j` only (short read: `failbit`,
  which a `stringstream` shares between its two directions; on a failed stream nothing is extracted);
* `copy d s` — `h_d = h_s` (for handles: the two now share storage);
* `poke d i x` — `h_d(i / n, i % n) = x`.
-/

inductive HStep where
  | write (i : Nat)
  | read (j : Nat)
  | copy (d s : Nat)
  | poke (d i x : Nat)
  deriving Repr

/-- contents of variable `i` -/
def getH (hs : List (List Nat)) (i : Nat) : List Nat := (hs[i]?).getD []

structure HState where
  hs : List (List Nat)
  stream : List Nat
  failed : Bool
  deriving Repr

def stepH (w len : Nat) (s : HState) : HStep → HState
  | .write i => if s.failed then s else { s with stream := s.stream ++ serialize w (getH s.hs i) }
  | .read j =>
    if s.failed then s else
      let d := deserialize w len (getH s.hs j) s.stream
      { hs := s.hs.set j d.1, stream := d.2.1, failed := d.2.2 }
  | .copy d src => { s with hs := s.hs.set d (getH s.hs src) }
  | .poke d i x => { s with hs := s.hs.set d ((getH s.hs d).set i x) }

/-- what the statement lets the caller observe: bytes appended by a write; (`fail()`, `gcount()`) after a read -/
def obsH (w len : Nat) (s : HState) : HStep → Nat × Nat
  | .write i => (if s.failed then 0 else (serialize w (getH s.hs i)).length, 0)
  | .read j =>
    if s.failed then (1, 0)
    else (if (stepH w len s (.read j)).failed then 1 else 0, gcount w len s.stream)
  | _ => (0, 0)

/-- observation and contents of **all** variables after every statement -/
def traceH (w len : Nat) : List HStep → HState → List ((Nat × Nat) × List (List Nat))
  | [], _ => []
  | st :: r, s =>
    let s' := stepH w len s st
    (obsH w len s st, s'.hs) :: traceH w len r s'

/-! The same histories as the property states them: variables are values, the stream is a FIFO of polynomials. -/

structure VHState where
  hs : List (List Nat)
  queue : List (List Nat)
  failed : Bool
  deriving Repr

def stepHV (s : VHState) : HStep → VHState
  | .write i => if s.failed then s else { s with queue := s.queue ++ [getH s.hs i] }
  | .read j =>
    if s.failed then s else
      match s.queue with
      | [] => { s with failed := true }
      | v :: q => { s with hs := s.hs.set j v, queue := q }
  | .copy d src => { s with hs := s.hs.set d (getH s.hs src) }
  | .poke d i x => { s with hs := s.hs.set d ((getH s.hs d).set i x) }

/-- `size` = bytes of one polynomial -/
def obsHV (size : Nat) (s : VHState) : HStep → Nat × Nat
  | .write _ => (if s.failed then 0 else size, 0)
  | .read _ =>
    if s.failed then (1, 0) else
      match s.queue with
      | [] => (1, 0)
      | _ :: _ => (0, size)
  | _ => (0, 0)

def traceHV (size : Nat) : List HStep → VHState → List ((Nat × Nat) × List (List Nat))
  | [], _ => []
  | st :: r, s =>
    let s' := stepHV s st
    (obsHV size s st, s'.hs) :: traceHV size r s'

/-! ### text form -/

/-- `term`: "ULL" for `uint64_t`, "UL" for `uint32_t`, "U" otherwise -/
def suffix (w : Nat) : List Char :=
  if w = 64 then ['U', 'L', 'L'] else if w = 32 then ['U', 'L'] else ['U']

/-- the range-for of `operator<<` with its `first` flag -/
def printLoop (term : List Char) : Bool → List Nat → List Char
  | _, [] => []
  | true, v :: vs => Nat.toDigits 10 v ++ printLoop term false vs
  | false, v :: vs => term ++ [',', ' '] ++ Nat.toDigits 10 v ++ printLoop term false vs

/-- `outs << "{ "; loop; outs << term << " }"` -/
def printChars (w : Nat) (poly : List Nat) : List Char :=
  ['{', ' '] ++ printLoop (suffix w) true poly ++ (suffix w ++ [' ', '}'])

def printText (w : Nat) (poly : List Nat) : String := String.ofList (printChars w poly)

/-- longest prefix of decimal digits, and the rest -/
def spanDigits : List Char → List Char × List Char
  | [] => ([], [])
  | c :: cs => if c.isDigit then let r := spanDigits cs; (c :: r.1, r.2) else ([], c :: cs)

def stripPrefix : List Char → List Char → Option (List Char)
  | [], s => some s
  | _ :: _, [] => none
  | a :: as, c :: cs => if a = c then stripPrefix as cs else none

/-- `<digits><term>` then either `, ` and more elements or ` }` and the end of the text.
A number that does not fit the limb is rejected. -/
def parseElems (w : Nat) (term : List Char) : Nat → List Char → Option (List Nat)
  | 0, _ => none
  | fuel + 1, s =>
    let ds := spanDigits s
    if ds.1.isEmpty then none else
    let v := Nat.ofDigitChars 10 ds.1 0
    if 2 ^ w ≤ v then none else
    match stripPrefix term ds.2 with
    | none => none
    | some [' ', '}'] => some [v]
    | some (',' :: ' ' :: rest) => (parseElems w term fuel rest).map (v :: ·)
    | some _ => none

def parseChars (w : Nat) (s : List Char) : Option (List Nat) :=
  match s with
  | '{' :: ' ' :: rest => parseElems w (suffix w) rest.length rest
  | _ => none

def parseText (w : Nat) (s : String) : Option (List Nat) := parseChars w s.toList

end Nfl.Serial
