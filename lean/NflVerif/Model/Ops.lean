/-
Executable model of the scalar functors of `include/nfl/ops.hpp` and `include/nfl/opt/ops.hpp`.

Conventions: `w ∈ {16,32,64}` is the limb width, a value of C type `T` is a `Nat < 2^w`, a value of
`greater_value_type` is a `Nat < 2^(2w)`.  Every place where C++ truncates (assignment to `T`,
arithmetic in `T` for `w ≥ 32`, arithmetic in `int` for `w = 16`) is an explicit `% 2^…` here.
Core Lean only (the driver links this file).
-/
namespace Nfl

/-- Width of the type in which `x * y - q * p` is evaluated when `x y q p : T`:
`uint16_t` operands are promoted to (32-bit) `int`, the others stay in `T`. -/
def arithWidth (w : Nat) : Nat := if w = 16 then 32 else w

/-- `a - b` in an unsigned type of `M = 2^k` values (two's complement wrap-around). -/
def subWrap (M a b : Nat) : Nat := (a % M + M - b % M) % M

/-- `addmod<T,serial>`: `const T z = x + y; return z - ((z >= p) ? p : 0);` -/
def addmod (w p x y : Nat) : Nat :=
  let z := (x + y) % 2 ^ w
  if p ≤ z then z - p else z

/-- `submod<T,serial>`: `addmod(x, static_cast<T>(p - y))` -/
def submod (w p x y : Nat) : Nat :=
  addmod w p x (subWrap (2 ^ w) p y)

/-- `while (x >= p) x -= p;` with explicit fuel (the loop runs at most `x` times when `p > 0`). -/
def subLoop : Nat → Nat → Nat → Nat
  | 0, x, _ => x
  | fuel + 1, x, p => if p ≤ x then subLoop fuel (x - p) p else x

/-- `compute_shoup<T,serial>`: reduce by repeated subtraction, then `T(((greater)x << w) / p)`. -/
def computeShoup (w p x : Nat) : Nat :=
  let x' := subLoop x x p
  ((x' * 2 ^ w) % 2 ^ (2 * w) / p) % 2 ^ w

/-- `mulmod<T,serial>` for 16/32-bit limbs: product in the greater type, `% p`, returned as `T`. -/
def mulmodDiv (w p x y : Nat) : Nat :=
  ((x * y) % 2 ^ (2 * w) % p) % 2 ^ w

/-- The Barrett core shared by `mulmod<uint64_t>` and `muladd<uint64_t>`:
`res = x*y; q = Pn*(res>>64) + (res<<2); r = res - (q>>64)*p; if (r >= p) r -= p;` -/
def barrett64 (p pn x y : Nat) : Nat :=
  let res := (x * y) % 2 ^ 128
  let q := (pn * (res / 2 ^ 64) % 2 ^ 128 + (res * 4) % 2 ^ 128) % 2 ^ 128
  let r := (subWrap (2 ^ 128) res ((q / 2 ^ 64) * p % 2 ^ 128)) % 2 ^ 64
  if p ≤ r then r - p else r

def mulmod64 (p pn x y : Nat) : Nat := barrett64 p pn x y

/-- `mulmod<T,serial>` as dispatched by limb width. -/
def mulmod (w p pn x y : Nat) : Nat :=
  if w = 64 then mulmod64 p pn x y else mulmodDiv w p x y

/-- `T q = ((greater) x * yprime) >> w;` -/
def shoupQ (w x yprime : Nat) : Nat := ((x * yprime) % 2 ^ (2 * w) / 2 ^ w) % 2 ^ w

/-- `x * y - q * p` evaluated in `T` (or `int` for 16 bit) and converted to an unsigned value. -/
def shoupDiff (w p x y q : Nat) : Nat := subWrap (2 ^ arithWidth w) (x * y) (q * p)

/-- `mulmod_shoup<T,serial>`: `res = x*y - q*p; return res - ((res>=p) ? p : 0);` -/
def mulmodShoup (w p x y yprime : Nat) : Nat :=
  let q := shoupQ w x yprime
  let res := shoupDiff w p x y q
  (if p ≤ res then res - p else res) % 2 ^ w

/-- `muladd<T,serial>` (16/32 bit): `res = x*y; res += rop; res %= p;` -/
def muladdDiv (w p rop x y : Nat) : Nat :=
  (((x * y) % 2 ^ (2 * w) + rop) % 2 ^ (2 * w) % p) % 2 ^ w

/-- `muladd<uint64_t,serial>`: Barrett, then `r += rop; if (r >= p) r -= p;` -/
def muladd64 (p pn rop x y : Nat) : Nat :=
  let r := (barrett64 p pn x y + rop) % 2 ^ 64
  if p ≤ r then r - p else r

def muladd (w p pn rop x y : Nat) : Nat :=
  if w = 64 then muladd64 p pn rop x y else muladdDiv w p rop x y

/-- `muladd_shoup<T,serial>` (ENFORCE_STRICTMOD not defined):
`rop += x*y - q*p; return rop - ((rop>=p) ? p : 0);` -/
def muladdShoup (w p rop x y yprime : Nat) : Nat :=
  let q := shoupQ w x yprime
  let rop' := (rop + shoupDiff w p x y q) % 2 ^ w
  (if p ≤ rop' then rop' - p else rop') % 2 ^ w

/-- `x == y` / `x != y` on scalars (`eqmod`, `neqmod` with `A = T`): the `bool` converted back to `T`. -/
def eqmod (x y : Nat) : Nat := if x = y then 1 else 0
def neqmod (x y : Nat) : Nat := if x = y then 0 else 1

end Nfl
