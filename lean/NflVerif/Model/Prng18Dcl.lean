/- C18: a DOUBLE-CHECKED seeding with a lock-free hot path (not the code of the repository: the documented witness of
   a fault class; core Lean only).

       if (!init.load(acquire)) { lock; SEEDING-ONCE; unlock; }        -- the flag is read OUTSIDE the mutex
       n := nonce.fetch_add(1);  generate(n, key)

   SEEDING-ONCE is `if (init) return;` followed by the same steps as in Model/Prng18.lean (`Seeding`: the key arrives
   in `chunks` pieces, the flag is written before or after them).  Every access is atomic or inside the mutex, the
   nonces are reserved by one atomic fetch-and-add, the key is seeded once.  With `flagFirst = false` the flag is the
   publication signal of a complete key.  With `flagFirst = true` - harmless under the whole-function lock of
   Model/Prng18.lean, see `C18.key_complete` - a request whose unlocked check falls between the flag and the last
   piece of the key skips the mutex and generates from the all-zero or partially written key:
   `C18.dcl_flag_first_zero_key`, `C18.dcl_flag_first_partial_key`.  The nonces of such a run are still distinct and
   gap-free and `randombytes` is called once: only the identification of the returned blocks under the key that was
   delivered sees it, and only at the START of the process's history (first requests racing with the seeding call):
   that is the first-request family of harness/conc18.cpp.
   Two threads, one request each: enough for the witnesses. -/
import NflVerif.Model.Prng18
namespace Nfl.Prng18

inductive DPc where
  | chk      -- next: read `init` (atomic, no mutex)
  | lock     -- next: acquire the mutex (enabled only when free)
  | rdInit   -- holds the mutex; next: read `init` again (`if (seeded) return`)
  | wrInit   -- next: init := 1
  | seed     -- next: call randombytes
  | fill     -- next: one more piece of the key
  | unlock   -- next: release the mutex
  | fetch    -- next: n := nonce.fetch_add(1)
  | gen      -- next: salsa20(r, rlen, n, key)
  | done
deriving DecidableEq, Repr

structure DTState where
  pc : DPc
  n : Nat
deriving DecidableEq, Repr

structure DState where
  init : Bool
  key : Nat
  miss : Nat
  nonce : Nat
  seeds : Nat
  lock : Option Nat
  t0 : DTState
  t1 : DTState
  out : List Out
deriving DecidableEq, Repr

def dstep (sd : Seeding) (seedVal : Nat → Nat) (s : DState) (t : Nat) : Option DState :=
  let ts := if t = 0 then s.t0 else s.t1
  let put (s : DState) (v : DTState) : DState := if t = 0 then { s with t0 := v } else { s with t1 := v }
  let filled : DPc := if sd.flagFirst then .unlock else .wrInit
  match ts.pc with
  | .chk => some (put s { ts with pc := if s.init then .fetch else .lock })
  | .lock => match s.lock with
    | some _ => none
    | none => some (put { s with lock := some t } { ts with pc := .rdInit })
  | .rdInit => some (put s { ts with pc := if s.init then .unlock else if sd.flagFirst then .wrInit else .seed })
  | .wrInit => some (put { s with init := true } { ts with pc := if sd.flagFirst then .seed else .unlock })
  | .seed => some (put { s with key := seedVal s.seeds, miss := sd.chunks, seeds := s.seeds + 1 }
                       { ts with pc := if sd.chunks = 0 then filled else .fill })
  | .fill => some (put { s with miss := s.miss - 1 } { ts with pc := if s.miss ≤ 1 then filled else .fill })
  | .unlock => some (put { s with lock := none } { ts with pc := .fetch })
  | .fetch => some (put { s with nonce := (s.nonce + 1) % W } { ts with pc := .gen, n := s.nonce })
  | .gen => some (put { s with out := s.out ++ [⟨t, ts.n, s.key, s.miss⟩] } { ts with pc := .done })
  | .done => none

def drun (sd : Seeding) (seedVal : Nat → Nat) (s : DState) : List Nat → Option DState
  | [] => some s
  | t :: r => match dstep sd seedVal s t with
    | none => none
    | some s' => drun sd seedVal s' r

/-- process start: nothing seeded, the static key array all zero (`key = 0`, nothing missing), counter at `n0` -/
def dinit (n0 : Nat) : DState :=
  { init := false, key := 0, miss := 0, nonce := n0, seeds := 0, lock := none, t0 := ⟨.chk, 0⟩, t1 := ⟨.chk, 0⟩, out := [] }

end Nfl.Prng18
