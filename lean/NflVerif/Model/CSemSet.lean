/-
Node semantics of the C++ expression kinds that `tools/gen_set_ast.py` meets in NFLlib's setters / samplers
(`include/nfl/core.hpp`) and that `Model/CSem.lean` does not have.  Hand-written, core Lean only; together with
CSem.lean and clang's AST this is the TRUSTED reading of the C++ text: `Generated/SetAst.lean` applies exactly one
helper per AST node.  Representation as in CSem.lean (unsigned k-bit value = `Nat < 2^k`; a signed `k`-bit value is
its residue mod `2^k`; `bool` = `Bool`).

Undefined behaviour: a shift whose count is not below the width of the (promoted) left operand is undefined in C++;
`shlV` / `shrV` are the mathematical shifts reduced mod `2^k` (every site is listed by the translator under
`ub_shift_sites`).  `int % 0` is undefined; `modS32 a 0 = a` here.
Floating point: `floor(log2((double) x))` is NOT given a semantics here: the translator emits `flog2 x` with
`flog2 : Nat → Nat` a parameter (contract: the integer value of that double, which is ≥ 0 for x ≥ 1).  Integer-valued
doubles below 2^53 add exactly (`addD`); converting one in `[0, 2^31)` to `int` keeps its value (`d2i`; out of range
it is undefined in C++, here the residue mod 2^32).
-/
import NflVerif.Model.CSem
namespace Nfl.CSet
open Nfl

/-- `a & b`, `a | b`, `a ^ b` in an unsigned type of `k` bits -/
def andU (k a b : Nat) : Nat := (a &&& b) % 2 ^ k
def orU (k a b : Nat) : Nat := (a ||| b) % 2 ^ k
def xorU (k a b : Nat) : Nat := (a ^^^ b) % 2 ^ k
/-- `~a` in an unsigned type of `k` bits -/
def notU (k a : Nat) : Nat := 2 ^ k - 1 - a % 2 ^ k
/-- `a & b` in `int`: the bitwise and of the two's-complement representations -/
def andS32 (a b : Nat) : Nat := (a % 2 ^ 32) &&& (b % 2 ^ 32)
/-- `a << s`, `a >> s` with a count that is not a compile-time constant (undefined in C++ unless `s < k`) -/
def shlV (k a s : Nat) : Nat := (a * 2 ^ s) % 2 ^ k
def shrV (k a s : Nat) : Nat := (a / 2 ^ s) % 2 ^ k
/-- `a % b` in `int` (truncated division; undefined for `b = 0`, here `a`) -/
def modS32 (a b : Nat) : Nat := (Int.tmod (CSem.sval a) (CSem.sval b) % 2 ^ 32).toNat
/-- signed `j` bits → unsigned `k` bits: the signed value modulo `2^k` (sign extension for `k > j`) -/
def castSwU (j k a : Nat) : Nat :=
  if a % 2 ^ j < 2 ^ (j - 1) then (a % 2 ^ j) % 2 ^ k else (a % 2 ^ j + 2 ^ k * 2 ^ j - 2 ^ j) % 2 ^ k
/-- sum of two non-negative integer-valued doubles (exact below 2^53) -/
def addD (a b : Nat) : Nat := a + b
/-- `(int) d` for a non-negative integer-valued double -/
def d2i (a : Nat) : Nat := a % 2 ^ 32

end Nfl.CSet
