/-
Model of the coefficient-list setters of NFLlib (property C15) — core Lean only.

  core.hpp  poly::set(It first, It last, bool reduce_coeffs)          l.101–136
            poly::set(value_type v, bool reduce_coeffs)               l.85–94
            poly::set(std::initializer_list<value_type>, bool)        (forwards to the iterator form)
            constructors poly(value_type,bool) / poly(initializer_list,bool) / poly(It,It,bool)
            operator=(value_type) / operator=(initializer_list)        (poly.hpp, reduce_coeffs = true)
  gmp.hpp   poly::set_mpz(It first, It last)                          l.75–108
            set_mpz(mpz_t) / set_mpz(mpz_class)  = set_mpz of a 1-element list
            set_mpz(initializer_list<mpz_class>) / set_mpz(array<mpz_class,Degree>) = iterator form
  poly_p.hpp: every setter is `poly_obj().set…(…)` (the copy-on-write part is property C14).

A polynomial with `m` moduli of degree `n` is a `List Nat` of `n*m` words, modulus-major
(`_data[cm*degree + i]`).  The code is modelled as it is written:

  size = distance(first,last)
  if (size > degree && size != degree*nmoduli) throw            -- before any store
  iter = begin(); viter = first
  for cm in 0 … nmoduli-1:
     p = P[cm]
     if (size != degree*nmoduli) viter = first                   -- rewind
     for (i = 0; i < degree && viter < last; ++i, ++viter, ++iter) *iter = store p *viter
     for (; i < degree; ++i, ++iter)                             *iter = 0

`store` is `reduce ? v % p : v` converted to `T` (the `% 2^w` below) for native sources, and
`mpz_fdiv_ui(z, p)` — contract: the non-negative remainder `Int.emod z p` — for big integers.
The sequential stores `*iter++ = x` starting at `begin()` overwrite a prefix of the object: `overwrite`.
-/
namespace Nfl.Setters

inductive Err where
  | badSize      -- std::runtime_error "initializer of size above degree but not equal to nmoduli*degree"
  | config       -- rejected at compile time by the static_asserts of `core` (more moduli than the table has)
deriving DecidableEq, Repr

/-- sequential stores through `iter` from `begin()`: the first `written.length` words are replaced -/
def overwrite (old written : List Nat) : List Nat := written ++ old.drop written.length

/-- The two inner loops for one modulus.  `cnt = degree - i`; `src` is what is left between `viter`
and `last`.  Returns the `cnt` words stored and the advanced `viter`. -/
def oneModulus {α : Type} (f : α → Nat) : Nat → List α → List Nat × List α
  | 0, src => ([], src)
  | cnt + 1, [] => let r := oneModulus f cnt []; (0 :: r.1, r.2)           -- padding loop
  | cnt + 1, v :: src => let r := oneModulus f cnt src; (f v :: r.1, r.2)  -- copy loop

/-- The loop over the moduli.  `full` is `size == degree*nmoduli` (no rewind), `first` the whole source. -/
def outer {α : Type} (n : Nat) (full : Bool) (first : List α) (store : Nat → α → Nat) :
    List Nat → List α → List Nat
  | [], _ => []
  | p :: ps, viter =>
      let viter := if full then viter else first
      let r := oneModulus (store p) n viter
      r.1 ++ outer n full first store ps r.2

/-- `set(It,It,…)` / `set_mpz(It,It)` for an arbitrary element type and store function. -/
def setGen {α : Type} (n m : Nat) (P : List Nat) (store : Nat → α → Nat) (vals : List α)
    (old : List Nat) : Except Err (List Nat) :=
  if P.length < m then .error .config else
  let size := vals.length
  if size > n && size != n * m then .error .badSize else
  .ok (overwrite old (outer n (size == n * m) vals store (P.take m) vals))

/-- the value stored for a native (unsigned) source element `v`: `reduce ? v % p : v`, converted to `T` -/
def storeWord (w : Nat) (reduce : Bool) (p v : Nat) : Nat := (if reduce then v % p else v) % 2 ^ w

/-- the value stored for a big integer: `mpz_fdiv_ui(z,p)` (floor remainder, always in `[0,p)`), converted to `T` -/
def storeMpz (w : Nat) (p : Nat) (z : Int) : Nat := (z % (p : Int)).toNat % 2 ^ w   -- `%` on `Int` is `Int.emod`

/-- `poly::set(It first, It last, bool reduce_coeffs)` -/
def setList (w n m : Nat) (P : List Nat) (vals : List Nat) (reduce : Bool) (old : List Nat) :
    Except Err (List Nat) :=
  setGen n m P (storeWord w reduce) vals old

/-- `poly::set(value_type v, bool reduce_coeffs)`: `v == 0` ⇒ `std::fill(begin(), end(), 0)`, else `set({v})` -/
def setScalar (w n m : Nat) (P : List Nat) (v : Nat) (reduce : Bool) (old : List Nat) :
    Except Err (List Nat) :=
  if v = 0 then .ok (overwrite old (List.replicate (n * m) 0)) else setList w n m P [v] reduce old

/-- `poly::set_mpz(It first, It last)` -/
def setMpz (w n m : Nat) (P : List Nat) (vals : List Int) (old : List Nat) : Except Err (List Nat) :=
  setGen n m P (storeMpz w) vals old

/-- `set_mpz(mpz_t const&)`, `set_mpz(mpz_class const&)`: `set_mpz({v})` -/
def setMpz1 (w n m : Nat) (P : List Nat) (z : Int) (old : List Nat) : Except Err (List Nat) :=
  setMpz w n m P [z] old

/-- what the object holds after the call: a throwing call leaves it as it was -/
def objAfter (old : List Nat) : Except Err (List Nat) → List Nat
  | .ok r => r
  | .error _ => old

def threw : Except Err (List Nat) → Bool
  | .ok _ => false
  | .error _ => true

end Nfl.Setters
