/-
The `std::shared_ptr` contract used by the translator `tools/gen_cow_ast.py` (vocabulary of `Generated/CowAst.lean`).

One definition per library operation the translator accepts BY NAME; everything else stops the translation.

  std::allocate_shared<T>(alloc, args…) / std::make_shared<T>(args…)   `allocShared`  fresh cell, one owner
  shared_ptr(shared_ptr const&)                                         `copy`         one more owner, same cell
  shared_ptr(shared_ptr&&) / std::move                                  `move`         ownership transferred, source empty
  operator=(shared_ptr const&)   (= `shared_ptr(r).swap(*this)`)        `assignCopy`
  operator=(shared_ptr&&)        (= `shared_ptr(std::move(r)).swap(*this)`)  `assignMove`
  ~shared_ptr (member of a destroyed handle, end of a temporary)        `destroy`      one owner less, storage freed at 0
  reset()                                                               `reset`
  use_count() / unique()                                                `useCount` / `unique`
  get()                                                                 `get`          allocation identity or null
  operator* / operator->                                                `deref`        the cell (undefined on an empty pointer)

Undefined behaviour (dereferencing an empty pointer, touching a released control block / object) is `none`.
The heap is the one of the hand model (`Nfl.Cow.Cell`: value + reference count, pointers are allocation identities),
kept here WITHOUT the handles: a handle is just the current value (`Ptr`) of its `_p` member.
A reference to a `poly` (`PolyRef`) designates either a heap cell or a polynomial outside the heap (a plain `nfl::poly`
the caller owns), a reference to one coefficient (`ElemRef`) a cell and a flat index.
Core Lean only.
-/
import NflVerif.Model.Cow

namespace Nfl.Sp
open Nfl.Cow (Val Cell)

/-- value of a `std::shared_ptr<poly>` object: empty, or one of the owners of cell `p` -/
inductive Ptr where
  | null
  | at (p : Nat)
  deriving DecidableEq, Repr, Inhabited

structure Heap where
  cells : Nat → Option Cell
  next : Nat
  allocLog : List Nat
  freeLog : List Nat

def upd (f : Nat → Option Cell) (p : Nat) (c : Option Cell) : Nat → Option Cell :=
  fun q => if q = p then c else f q

/-- `std::allocate_shared<poly>(alloc, args…)` / `std::make_shared<poly>(args…)`, `v` = the value `poly(args…)`:
    a fresh control block + object, the returned prvalue is its only owner -/
def allocShared (h : Heap) (v : Val) : Heap × Ptr :=
  ({ h with cells := upd h.cells h.next (some ⟨v, 1⟩), next := h.next + 1, allocLog := h.next :: h.allocLog },
   .at h.next)

/-- `use_count()` (0 for an empty pointer) -/
def useCount (h : Heap) : Ptr → Nat
  | .null => 0
  | .at p => match h.cells p with
    | some c => c.rc
    | none => 0

/-- `unique()` = `use_count() == 1` -/
def unique (h : Heap) (p : Ptr) : Bool := useCount h p == 1

/-- `get()`: the address as an allocation identity, `none` = `nullptr` -/
def get : Ptr → Option Nat
  | .null => none
  | .at p => some p

/-- `shared_ptr(shared_ptr const& r)`: the new object; one more owner of a non-empty `r` -/
def copy (h : Heap) : Ptr → Option (Heap × Ptr)
  | .null => some (h, .null)
  | .at p => match h.cells p with
    | some c => some ({ h with cells := upd h.cells p (some { c with rc := c.rc + 1 }) }, .at p)
    | none => none

/-- `shared_ptr(shared_ptr&& r)`: (the new object, `r` afterwards) -/
def move (r : Ptr) : Ptr × Ptr := (r, .null)

/-- `~shared_ptr()`: one owner less; the last owner destroys the object and releases the storage -/
def destroy (h : Heap) : Ptr → Option Heap
  | .null => some h
  | .at p => match h.cells p with
    | some c =>
      if c.rc = 0 then none
      else if c.rc = 1 then some { h with cells := upd h.cells p none, freeLog := p :: h.freeLog }
      else some { h with cells := upd h.cells p (some { c with rc := c.rc - 1 }) }
    | none => none

/-- `reset()` = `shared_ptr().swap(*this)` -/
def reset (h : Heap) (p : Ptr) : Option (Heap × Ptr) := (destroy h p).map fun h1 => (h1, .null)

/-- `dst = src` with an lvalue `src` = `shared_ptr(src).swap(dst)`: copy, swap, destroy the temporary
    (which then holds the old value of `dst`).  Result: heap, `dst` afterwards. -/
def assignCopy (h : Heap) (dst src : Ptr) : Option (Heap × Ptr) :=
  match copy h src with
  | some (h1, tmp) => (destroy h1 dst).map fun h2 => (h2, tmp)
  | none => none

/-- `dst = std::move(src)` (`dst`, `src` distinct objects) = `shared_ptr(std::move(src)).swap(dst)`.
    Result: heap, `dst` afterwards, `src` afterwards. -/
def assignMove (h : Heap) (dst src : Ptr) : Option (Heap × Ptr × Ptr) :=
  let (tmp, src') := move src
  (destroy h dst).map fun h1 => (h1, tmp, src')

/-- `*p` / `p->`: the cell; undefined on an empty pointer -/
def deref : Ptr → Option Nat
  | .null => none
  | .at p => some p

/-- current value of the polynomial in cell `q` (undefined if released) -/
def cellVal (h : Heap) (q : Nat) : Option Val := (h.cells q).map (·.val)

/-- a non-const `poly` member / assignment applied to the object in cell `q`; `f` = its value-level meaning -/
def modify (h : Heap) (q : Nat) (f : Val → Val) : Option Heap :=
  match h.cells q with
  | some c => some { h with cells := upd h.cells q (some { c with val := f c.val }) }
  | none => none

/-- `poly&` / `poly const&` -/
inductive PolyRef where
  | cell (q : Nat)
  | ext (v : Val)

def readRef (h : Heap) : PolyRef → Option Val
  | .cell q => cellVal h q
  | .ext v => some v

/-- `value_type&` returned by `poly::operator()(cm, i)`: cell and flat index -/
structure ElemRef where
  cell : Nat
  idx : Nat
  deriving DecidableEq, Repr

def loadRef (h : Heap) (r : ElemRef) : Option Nat := (cellVal h r.cell).bind fun v => v[r.idx]?

/-- `ref = x`; out of range = undefined -/
def storeRef (h : Heap) (r : ElemRef) (x : Nat) : Option Heap :=
  match h.cells r.cell with
  | some c => if r.idx < c.val.length then
      some { h with cells := upd h.cells r.cell (some { c with val := c.val.set r.idx x }) } else none
  | none => none

end Nfl.Sp
