/-
Node semantics used by `tools/gen_entry_ast.py` (the two public transform entry points of core.hpp) beyond CSem / CSemExpr /
CSemInit.  Hand-written, core Lean only; part of the TRUSTED reading of the C++ text.
* the static tables of `poly<T,Degree,NbModuli>::core` are `T : Nat → Gen.InitRow`: row `cm` of every member array (the
  representation `core::initialize()` is translated to, Generated/InitAst.lean);
* `reinterpret_cast<poly const&>(F)` for `value_type F[nmoduli][degree]`: the object whose `_data` is the rows one after the other;
* a `value_type*` argument pointing INTO an array, handed to a function translated on (array, offset) pointers
  (Generated/NttLoopAst.lean), is passed as the window the callee may touch at offset 0: `callSlice` for the read-write `x` (window
  `[o, o+n)`, written back in place), `suffix` for a read-only table.  tools/gen_nttloop_ast.py RUNS the index expressions of the
  callees for every degree 2^1..2^15 and stops unless every access to `x` falls in `[0, degree)` and no index is negative.
-/
namespace Nfl.CSemEntry

/-- `reinterpret_cast<poly const&>(F)`, `F[nmoduli][degree]` -/
def flat2d (nmoduli : Nat) (row : Nat → List Nat) : List Nat := (List.range nmoduli).flatMap row

/-- `f(&a[o], …)` where `f` reads and writes `n` cells from its pointer: the cells `[o, o+n)` are replaced by what `f` returns -/
def callSlice (a : List Nat) (o n : Nat) (f : List Nat → List Nat) : List Nat :=
  a.take o ++ f ((a.drop o).take n) ++ a.drop (o + n)

/-- a read-only pointer `a + o` seen from offset 0 -/
def suffix (a : List Nat) (o : Nat) : List Nat := a.drop o

/-- the object `h` of a heap -/
def obj (m : List (List Nat)) (h : Nat) : List Nat := m.getD h []

end Nfl.CSemEntry
