/-
How the sample budget `m` (and `lambda`, `sigma`) enter `FastGaussianNoise::init()` (include/nfl/prng/FastGaussianNoise.hpp),
in exact integer arithmetic.  Core Lean only.

The C++ is floating point:
    k            = _security + 1 + ceil(log(_samples)/log(2));
    _tail_bound  = t  with  t² − 2·ln t − 1 − 2·k·ln 2 ≥ 0        (Newton iteration; the code prints a WARNING otherwise)
    epsi         = k + log2(2 · t · sigma);   _bit_precision = ceil(epsi) rounded up to whole words
    _number_of_barriers = 1 + 2·ceil(t · sigma)
What is modelled exactly is `k` (`kOf`: `ceil(log2 m)` is `clog2 m`; the quotient of the two `double` logarithms is the
modelled contract — it is exact for every `m ≤ 2^28`, powers of two included).  What is *not* recomputed (Newton's
iteration, `log2`, the products in `double`) is replaced by exact-integer consequences that any run of that code has
to satisfy, evaluated by the driver on the `_word_precision`, `_bit_precision`, `_number_of_barriers` of the live
object (`gpar` lines):
  * Lemma-1 side (`tailOK`): `T = (nb−1)/2 = ⌈t·σ⌉ ≥ t·σ` and `t² ≥ 1 + 2·ln t + 2·k·ln 2 > 1 + 2·k·(693/1000)` (as
    `t > 1`, `ln 2 > 0.693`), so with `σ = sn/sd`:  `T²·sd²·1000 ≥ sn²·(1000 + 1386·k)`;
  * Lemma-2 side (`precOK`): `bits ≥ k + log2(2·t·σ)` and `nb − 1 = 2⌈t·σ⌉ < 2·t·σ + 2`, so `2^bits > 2^k·(nb − 3)`.
Both are monotone in `k`: a `k` that is too small for the given `m` (for instance the number of trailing zero bits of `m`
instead of `⌈log₂ m⌉`) violates them as soon as the loss exceeds the rounding slack (`⌈·⌉` of `t·σ`, whole words).
-/
namespace Nfl.Gauss

/-- `⌈log₂ m⌉` (`0` for `m ≤ 1`): the value of `ceil(log(_samples)/log(2))`. -/
def clog2 (m : Nat) : Nat := if m ≤ 1 then 0 else Nat.log2 (m - 1) + 1

/-- `k = _security + 1 + ceil(log2(_samples))`: the per-sample budget is `2^-k ≤ 2^-(λ+1) / m`. -/
def kOf (lam m : Nat) : Nat := lam + 1 + clog2 m

/-- Lemma-1 side: the half-width `T = (nb−1)/2` of the support against `σ·sqrt(1 + 2k·ln 2)`, `σ = sn/sd`. -/
def tailOK (k nb sn sd : Nat) : Bool :=
  sn ^ 2 * (1000 + 1386 * k) ≤ ((nb - 1) / 2) ^ 2 * sd ^ 2 * 1000

/-- Lemma-2 side: `2·t·σ·2^-bits ≤ 2^-k` with `2·t·σ > nb − 3`. -/
def precOK (k nb bits : Nat) : Bool := 2 ^ k * (nb - 3) < 2 ^ bits

/-- everything the driver checks on the derived parameters of a live sampler (`wordBits` = 8 or 16). -/
def paramsOK (wordBits lam m sn sd wp nb bits : Nat) : Bool :=
  1 ≤ m && 1 ≤ sd && nb % 2 == 1 && 3 ≤ nb && bits == wp * wordBits &&
    tailOK (kOf lam m) nb sn sd && precOK (kOf lam m) nb bits

end Nfl.Gauss
