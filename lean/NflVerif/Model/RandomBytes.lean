/-
Model of `nfl::randombytes` (lib/prng/randombytes.cpp), core Lean only.

    static int fd = -1;
    void randombytes(unsigned char *x, unsigned long long xlen) {
      int i;
      if (fd == -1) {
        for (;;) { fd = open("/dev/urandom", O_RDONLY); if (fd != -1) break; sleep(1); }
      }
      while (xlen > 0) {
        i = (xlen < 1048576) ? xlen : 1048576;
        i = read(fd, x, i);
        if (i < 1) { sleep(1); continue; }
        x += i; xlen -= i;
      }
    }

The operating system is a *script*: the list of answers it gives to the successive `open` / `read`
calls (`sleep` has no answer).  The model consumes the script exactly as the code makes the calls and
records every call together with the answer it got.  The real function is partial (it loops for ever on
an endless sequence of failures); the model makes that explicit: when the script is exhausted while the
code would make another call, the result is `stopped outOfScript` carrying the state reached so far.
Recursion is structural on the script (one outcome is consumed per `open`/`read`), i.e. fuel = script
length.

OS contract (trusted, stated, *not* assumed silently): `open` returns -1 or a non-negative descriptor;
`read(fd, p, n)` returns -1, 0 or a count `1 ≤ k ≤ n` after having written exactly `k` bytes at `p`.
An environment answering with more than `n` bytes is outside the contract: the model stops with
`overlong` (the real code would have its buffer overrun by the kernel and `xlen` wrap around).
`int i` conversions: requests are ≤ 2^20 and answers ≤ request, far below 2^31.

`errno` and the value of `sleep`: a failing `open`/`read` also stores an error code in `errno` (ENOENT, EMFILE, EINTR,
EBADF, …; an answer ≥ 0 may leave a stale one behind) and an interrupted `sleep(1)` returns 1.  The code reads neither
(`errno` does not occur in the file, the result of `sleep` is discarded), so the model takes an environment of `Answer`s
= outcome + errno + sleep result and *forgets* the last two (`forget`, `runCallsA`): every failure is the same failure.
The correspondence stream plays every errno of a representative set to the real code and compares with this
errno-free model, which is how a dependence of the code on the error code shows up.
-/
namespace Nfl.RB

/-- the chunk limit of one `read` request -/
def chunk : Nat := 1048576

/-- answers of the operating system -/
inductive Outcome
  | openFail                      -- open(...) = -1
  | openOk (fd : Nat)             -- open(...) = fd ≥ 0
  | readErr                       -- read(...) = -1
  | readZero                      -- read(...) = 0
  | readBytes (bs : List Nat)     -- read(...) = bs.length, the bytes `bs` have been stored at the pointer
  deriving DecidableEq, Repr, Inhabited

/-- calls made by the code, with the answer received -/
inductive Call
  | open (ret : Option Nat)                 -- open("/dev/urandom", O_RDONLY) returned -1 (`none`) or a descriptor
  | read (fd off req : Nat) (ret : Int)     -- read(fd, x₀ + off, req) returned `ret`
  | sleep (secs : Nat)                      -- sleep(secs)
  | openNoAns                               -- open(...) called, the script has no (well-typed) answer
  | readNoAns (fd off req : Nat)            -- read(...) called, the script has no (well-typed, in-contract) answer
  deriving DecidableEq, Repr, Inhabited

inductive Stop
  | outOfScript   -- the script is exhausted: the real function is still looping
  | mismatch      -- the next outcome is not an answer to the call being made (ill-typed environment)
  | overlong      -- `read` delivered more bytes than requested (environment outside the OS contract)
  deriving DecidableEq, Repr, Inhabited

/-- caller's buffer: `none` = byte never written by the device during this call -/
abbrev Mem := List (Option Nat)

inductive Result
  /-- the function returned: buffer, call log, unconsumed script, value of the static `fd` -/
  | done (buf : Mem) (log : List Call) (rest : List Outcome) (fd : Nat)
  /-- the function did not return on this script -/
  | stopped (why : Stop) (buf : Mem) (log : List Call) (fd : Option Nat)
  deriving DecidableEq, Repr, Inhabited

def Result.addLog (pre : List Call) : Result → Result
  | .done b l r f => .done b (pre ++ l) r f
  | .stopped w b l f => .stopped w b (pre ++ l) f

def Result.log : Result → List Call
  | .done _ l _ _ => l
  | .stopped _ _ l _ => l

def Result.buf : Result → Mem
  | .done b _ _ _ => b
  | .stopped _ b _ _ => b

def Result.isDone : Result → Bool
  | .done .. => true
  | .stopped .. => false

/-- what `read` does to the caller's memory: `bs` stored at offset `off` -/
def writeAt (mem : Mem) (off : Nat) (bs : List Nat) : Mem :=
  mem.take off ++ bs.map some ++ mem.drop (off + bs.length)

/-- `while (xlen > 0) {…}` with `x = x₀ + off`, `xlen = rem`, descriptor `fd` -/
def readLoop (fd : Nat) (script : List Outcome) (mem : Mem) (off rem : Nat) : Result :=
  if rem = 0 then .done mem [] script fd else
  let req := min rem chunk          -- i = (xlen < 1048576) ? xlen : 1048576
  match script with
  | [] => .stopped .outOfScript mem [.readNoAns fd off req] (some fd)
  | .readErr :: s =>                -- i = -1 < 1: sleep(1); continue
    (readLoop fd s mem off rem).addLog [.read fd off req (-1), .sleep 1]
  | .readZero :: s =>               -- i = 0 < 1
    (readLoop fd s mem off rem).addLog [.read fd off req 0, .sleep 1]
  | .readBytes bs :: s =>
    if req < bs.length then .stopped .overlong mem [.readNoAns fd off req] (some fd)
    else if bs.length < 1 then      -- a zero-length delivery is `read = 0`
      (readLoop fd s mem off rem).addLog [.read fd off req 0, .sleep 1]
    else                            -- x += i; xlen -= i
      (readLoop fd s (writeAt mem off bs) (off + bs.length) (rem - bs.length)).addLog
        [.read fd off req bs.length]
  | .openFail :: _ => .stopped .mismatch mem [.readNoAns fd off req] (some fd)
  | .openOk _ :: _ => .stopped .mismatch mem [.readNoAns fd off req] (some fd)

/-- result of the `for (;;) { fd = open(…); if (fd != -1) break; sleep(1); }` loop -/
inductive OpenRes
  | ok (fd : Nat) (rest : List Outcome) (log : List Call)
  | stuck (why : Stop) (log : List Call)
  deriving DecidableEq, Repr, Inhabited

def openLoop : List Outcome → OpenRes
  | [] => .stuck .outOfScript [.openNoAns]
  | .openFail :: s =>
    match openLoop s with
    | .ok f r l => .ok f r (.open none :: .sleep 1 :: l)
    | .stuck w l => .stuck w (.open none :: .sleep 1 :: l)
  | .openOk f :: s => .ok f s [.open (some f)]
  | _ :: _ => .stuck .mismatch [.openNoAns]

/-- one call `randombytes(x, xlen)`; `fd0` is the static `fd` on entry (`none` = -1);
    the buffer is entirely "unwritten" on entry -/
def randombytes (fd0 : Option Nat) (script : List Outcome) (xlen : Nat) : Result :=
  match fd0 with
  | some f => readLoop f script (List.replicate xlen none) 0 xlen
  | none =>
    match openLoop script with
    | .ok f s l => (readLoop f s (List.replicate xlen none) 0 xlen).addLog l
    | .stuck w l => .stopped w (List.replicate xlen none) l none

/-- a sequence of calls sharing the static `fd` and the environment; stops at the first call that does
    not return -/
def runCalls (fd0 : Option Nat) (script : List Outcome) : List Nat → List Result
  | [] => []
  | x :: xs =>
    match randombytes fd0 script x with
    | .done b l r f => .done b l r f :: runCalls (some f) r xs
    | r => [r]

/-- bytes delivered by the successful reads of a script, in order -/
def delivered : List Outcome → List Nat
  | [] => []
  | .readBytes bs :: s => bs ++ delivered s
  | _ :: s => delivered s

/-- an answer of the operating system as the code could observe it: the value returned (`out`), what the call left in
    `errno` (0 = untouched) and what the first `sleep` after it returns (unslept seconds) -/
structure Answer where
  out : Outcome
  errno : Nat := 0
  sleepRet : Nat := 0
  deriving DecidableEq, Repr, Inhabited

/-- what the code looks at -/
def forget (s : List Answer) : List Outcome := s.map (·.out)

/-- a sequence of calls against an environment of full answers -/
def runCallsA (fd0 : Option Nat) (s : List Answer) (xlens : List Nat) : List Result :=
  runCalls fd0 (forget s) xlens

end Nfl.RB
