/-
Model of `nfl::fastrandombytes` (lib/prng/fastrandombytes.cpp), the process-wide byte generator.
Core Lean only, executable (linked into the correspondence driver).

  static int init = 0; static unsigned char key[32]; static unsigned char nonce[8] = {0};
  void fastrandombytes(unsigned char *r, unsigned long long rlen) {
    unsigned long long n = 0; unsigned char my_nonce[8];
    { lock_guard lock(state_mutex);
      if (!init) { randombytes(key, 32); init = 1; }
      for (i < 8) my_nonce[i] = nonce[i];
      for (i < 8) n ^= ((unsigned long long)nonce[i]) << 8 * i;
      n++;
      for (i < 8) nonce[i] = (n >> 8 * i) & 0xff;
    }
    nfl_crypto_stream_salsa20_amd64_xmm6(r, rlen, my_nonce, key);
  }

What is modelled: the three statics, the lazy seeding, the copy of the nonce, the decode–increment–encode
loops exactly as written (64-bit truncation explicit).  Parameters (the environment):
* `os k` — the 32 bytes delivered by the `k`-th call (k = 0, 1, …) of `nfl::randombytes` (reads /dev/urandom);
* `gen key nonce len` — the `len` bytes that the assembly routine writes to `r` (the 4 823 lines of
  nfl_crypto_stream_salsa20_amd64_xmm6.s are NOT modelled; the properties instantiate `gen` with the Salsa20
  specification, and that instantiation is what the correspondence stream observes at run time).
The model is sequential: one request at a time (the mutex makes the critical section atomic; schedules are the
subject of the concurrency properties, not of this file).
`seeds` is a ghost counter of the calls of `randombytes`.
-/
namespace Nfl.FastRandom

structure State where
  init : Bool
  key : List Nat      -- 32 bytes
  nonce : List Nat    -- 8 bytes
  seeds : Nat         -- ghost: number of calls of `randombytes` so far
  deriving Repr, DecidableEq

/-- static initialisation: `init = 0`, `key` zero-filled (static storage), `nonce = {0}` -/
def start : State := { init := false, key := List.replicate 32 0, nonce := List.replicate 8 0, seeds := 0 }

/-- `if (!init) { randombytes(key, 32); init = 1; }` -/
def seed (os : Nat → List Nat) (s : State) : State :=
  if s.init then s else { s with key := os s.seeds, init := true, seeds := s.seeds + 1 }

/-- `for (i = 0; i < 8; i++) n ^= ((unsigned long long)nonce[i]) << 8 * i;` — loop state `(i, n)`, remaining bytes -/
def decodeLoop : Nat → Nat → List Nat → Nat
  | _, n, [] => n
  | i, n, b :: bs => decodeLoop (i + 1) (n ^^^ ((b <<< (8 * i)) % 2 ^ 64)) bs

/-- `n = 0;` then the decoding loop over the 8 bytes of `nonce` -/
def decode (nonce : List Nat) : Nat := decodeLoop 0 0 nonce

/-- `for (i = 0; i < 8; i++) nonce[i] = (n >> 8 * i) & 0xff;` -/
def encode (n : Nat) : List Nat := (List.range 8).map fun i => (n >>> (8 * i)) &&& 0xff

/-- the nonce update: decode, `n++` on `unsigned long long`, encode -/
def bump (nonce : List Nat) : List Nat := encode ((decode nonce + 1) % 2 ^ 64)

/-- state after one request (independent of the requested length) -/
def next (os : Nat → List Nat) (s : State) : State :=
  let s1 := seed os s
  { s1 with nonce := bump s1.nonce }

/-- bytes written to the caller's buffer by one request of length `len` issued in state `s`:
`my_nonce` is the nonce *before* the update, the key is the (possibly just seeded) global key -/
def output (gen : List Nat → List Nat → Nat → List Nat) (os : Nat → List Nat) (s : State) (len : Nat) : List Nat :=
  let s1 := seed os s
  gen s1.key s1.nonce len

/-- one call of `fastrandombytes(r, len)` -/
def request (gen : List Nat → List Nat → Nat → List Nat) (os : Nat → List Nat) (s : State) (len : Nat) :
    State × List Nat := (next os s, output gen os s len)

/-- state after a history of requests (their lengths, in order) -/
def runState (os : Nat → List Nat) (s : State) (lens : List Nat) : State := lens.foldl (fun s _ => next os s) s

/-- the outputs of a history of requests, in order -/
def outputs (gen : List Nat → List Nat → Nat → List Nat) (os : Nat → List Nat) : State → List Nat → List (List Nat)
  | _, [] => []
  | s, len :: rest => output gen os s len :: outputs gen os (next os s) rest

/-- a start state whose nonce has been preset to the encoding of `m` (state injection in the white-box harness;
reachable from `start` by `m` requests, see `Nfl.C13.nonce_after`) -/
def startAt (m : Nat) : State := { start with nonce := encode (m % 2 ^ 64) }

end Nfl.FastRandom
