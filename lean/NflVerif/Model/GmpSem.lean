/-
The GMP-call mapping table of `tools/gen_crt_ast.py` (core Lean only, hand-written, TRUSTED): what each GMP C
function that the translator meets in `include/nfl/gmp.hpp` does to the mathematical integers its `mpz_t`
operands hold.  It is the contract listed in C04's trusted base, written out once per function NAME (the
translator strips the `__gmpz_` prefix of the linker names that gmp.h's macros introduce):

* an `mpz_t` holds a mathematical integer (`Int`); `std::array<mpz_t, n>` is a `List Int` of length `n`;
* `mpz_init`, `mpz_inits`, `mpz_init2` give the value `0` (the size of `mpz_init2` is an allocation hint only:
  GMP reallocates); `mpz_clear(s)` ends the lifetime (no value; the translator refuses a later read);
* `mpz_set_ui`, `mpz_init_set_ui`, `mpz_mul(_ui)`, `mpz_add(_ui)`, `mpz_sub(_ui)`, `mpz_addmul(_ui)`,
  `mpz_submul(_ui)`, `mpz_ui_pow_ui` are exact;
* `mpz_tdiv_q`, `mpz_tdiv_q_2exp` round towards zero (`Int.tdiv`); a zero divisor makes GMP raise a division
  by zero (process abort) — here `Int.tdiv n 0 = 0`;
* `mpz_divexact(q, n, d)` is `n / d` and is specified by GMP ONLY when `d ∣ n` (otherwise unspecified; here the
  truncated quotient);
* `mpz_sizeinbase(x, 2)` is the bit length of `|x|` (1 for 0); the translator accepts base 2 only; the result
  is assumed to fit `size_t` (an `mpz_t` cannot hold more than `2^37` bits on LP64);
* `mpz_fdiv_ui(z, d)` returns the floor remainder `z mod d ∈ [0, d)` (`d = 0`: GMP division by zero; here `|z|`);
* `mpz_cmp(a, b)` is specified by its SIGN only; the translator accepts it only as the left operand of a
  comparison with the literal `0` and maps the whole comparison to `cmp_ge`/`cmp_gt`/… ;
* `mpz_invert(rop, a, p)` is the PARAMETER `inv` of the generated definitions (contract `Crt.InvContract`: when
  `gcd(a,p) = 1`, `0 ≤ rop < p` and `a·rop ≡ 1 (mod p)`); its `int` result is ignored by gmp.hpp.  `inv` takes
  naturals: the mapping below passes `a.toNat`, `p.toNat`, which is the GMP operand for `a ≥ 0`, `p ≥ 0` only
  (`Proofs/CrtAstEq.lean` shows that the operands the constructor passes are casts of naturals).
`unsigned long` arguments are `Nat`s already reduced to 64 bits by the translator (CSem).
-/
namespace Nfl.GmpSem

def init : Int := 0
def init2 (_bits : Nat) : Int := 0
def init_set_ui (v : Nat) : Int := (v : Int)
def set_ui (v : Nat) : Int := (v : Int)
def set (a : Int) : Int := a
def add (a b : Int) : Int := a + b
def add_ui (a : Int) (v : Nat) : Int := a + (v : Int)
def sub (a b : Int) : Int := a - b
def sub_ui (a : Int) (v : Nat) : Int := a - (v : Int)
def mul (a b : Int) : Int := a * b
def mul_ui (a : Int) (v : Nat) : Int := a * (v : Int)
/-- `mpz_addmul(rop, a, b)`: `rop += a·b` -/
def addmul (rop a b : Int) : Int := rop + a * b
def addmul_ui (rop a : Int) (v : Nat) : Int := rop + a * (v : Int)
/-- `mpz_submul(rop, a, b)`: `rop -= a·b` -/
def submul (rop a b : Int) : Int := rop - a * b
def submul_ui (rop a : Int) (v : Nat) : Int := rop - a * (v : Int)
def ui_pow_ui (b e : Nat) : Int := ((b ^ e : Nat) : Int)
def tdiv_q (n d : Int) : Int := Int.tdiv n d
def tdiv_q_2exp (n : Int) (b : Nat) : Int := Int.tdiv n ((2 ^ b : Nat) : Int)
def divexact (n d : Int) : Int := Int.tdiv n d
/-- `mpz_sizeinbase(x, 2)` -/
def sizeinbase2 (x : Int) : Nat := if x = 0 then 1 else Nat.log2 x.natAbs + 1
/-- `mpz_fdiv_ui(z, d)` (the returned remainder) -/
def fdiv_ui (z : Int) (d : Nat) : Nat := (z % (d : Int)).toNat
/-- `mpz_cmp(a, b) >= 0` etc. -/
def cmp_ge (a b : Int) : Bool := decide (b ≤ a)
def cmp_gt (a b : Int) : Bool := decide (b < a)
def cmp_le (a b : Int) : Bool := decide (a ≤ b)
def cmp_lt (a b : Int) : Bool := decide (a < b)
def cmp_eq (a b : Int) : Bool := decide (a = b)
def cmp_ne (a b : Int) : Bool := decide (a ≠ b)
/-- `mpz_invert(rop, a, p)` through the parameter `inv` -/
def invert (inv : Nat → Nat → Nat) (a p : Int) : Int := ((inv a.toNat p.toNat : Nat) : Int)

end Nfl.GmpSem
