/-
The iostream / cereal / object-representation contract used by the translator `tools/gen_ser_ast.py`
(vocabulary of `Generated/SerAst.lean`).  One definition per library operation the translator accepts BY NAME;
everything else stops the translation.  This file is exactly the part of C16's trusted base that is about the C++
library; nothing here refers to the hand model `Model/Serial.lean`.

  reinterpret_cast<char*>(T[N] object)         `objRepr` / `ofObjRepr`   THE ONLY PLACE WHERE ENDIANNESS ENTERS:
                                               x86-64 object representation of an array of unsigned integers =
                                               byte `j` is byte `j mod sizeof(T)` (little-endian) of element `j / sizeof(T)`
  sizeof(T), typeid(T) == typeid(U)            `CTy.sizeOf`, `typeidEq`  (LP64: uint16_t/uint32_t/uint64_t are
                                               unsigned short / unsigned int / unsigned long)
  (std::streamsize) size_t value               `toStreamsize`            two's complement reinterpretation as `long`
  std::ostream::write(p, n)                    `ostreamWrite`  appends the `n` bytes at `p`; a no-op on a stream that is not good
  std::istream::read(p, n)                     `istreamRead`   on a good stream extracts g = min(n, available) bytes into p[0..g),
                                               leaves p[g..n) untouched, gcount = g, sets failbit|eofbit iff g < n;
                                               on a stream that is not good extracts nothing (gcount = 0, failbit)
  os << const char* / std::string              `putStr`        the characters, nothing on a stream that is not good
  os << unsigned short/int/long                `putUnsigned`   decimal digits (default flags: dec, no width, "C" locale)
  std::begin(a) / std::end(a) on T[N]          element offsets 0 / N (emitted by the translator)
  for (auto v : [b, e))                        `forPtr`        b ≤ e ≤ N required (otherwise the walk leaves the array: undefined)
  cereal Binary{Output,Input}Archive, ar(T(&)[N]) with arithmetic T
                                               `cerealSaveBinary` / `cerealLoadBinary`: `binary_data(a, sizeof(a))`, i.e.
                                               `rdbuf()->sputn` / `sgetn` of the whole object representation, bypassing the
                                               stream state; a short transfer throws `cereal::Exception` (flag `threw`)

A stream is the list of its bytes not yet extracted (for a `std::stringstream`: written and not yet read), one sticky
"not good" flag shared by both directions (a stringstream has ONE `basic_ios`), and `gcount()`.
Pointer arguments out of the bounds of the object they point into, and negative counts, are undefined: `none`.
Core Lean only.
-/
namespace Nfl.Ss

/-- the unsigned integer types the library instantiates `poly` with (and `uint8_t`) -/
inductive CTy where
  | u8 | u16 | u32 | u64
  deriving DecidableEq, Repr, Inhabited

/-- `sizeof(T)` -/
def CTy.sizeOf : CTy → Nat
  | .u8 => 1 | .u16 => 2 | .u32 => 4 | .u64 => 8

/-- number of value bits (no padding bits on x86-64) -/
def CTy.bits (T : CTy) : Nat := 8 * T.sizeOf

/-- `typeid(A) == typeid(B)`: type identity -/
def typeidEq (a b : CTy) : Bool := decide (a = b)

/-! ### object representation (x86-64: little-endian) -/

/-- byte `k` of the value `x` -/
def byteOf (x k : Nat) : Nat := x / 256 ^ k % 256

/-- the bytes of an array `T a[len]` holding the values `ws`, as seen through `reinterpret_cast<char*>(a)` -/
def objRepr (T : CTy) (ws : List Nat) : List Nat :=
  (List.range (ws.length * T.sizeOf)).map fun j => byteOf (ws.getD (j / T.sizeOf) 0) (j % T.sizeOf)

/-- the value of the `B`-byte element `i` of an array whose bytes are `mem`:
    `b₀ + 256·(b₁ + 256·(b₂ + …))` with `b_k` = byte `i·B + k` -/
def wordAt (B : Nat) (mem : List Nat) (i : Nat) : Nat :=
  (List.range B).foldr (fun k acc => mem.getD (i * B + k) 0 + 256 * acc) 0

/-- the values of the array `T a[mem.length / sizeof(T)]` whose bytes are `mem` -/
def ofObjRepr (T : CTy) (mem : List Nat) : List Nat :=
  (List.range (mem.length / T.sizeOf)).map (wordAt T.sizeOf mem)

/-! ### integer conversions -/

/-- `size_t` (64-bit) → `std::streamsize` (`long`) -/
def toStreamsize (x : Nat) : Int := if x < 2 ^ 63 then (x : Int) else (x : Int) - 2 ^ 64

/-! ### streams -/

structure Stream where
  /-- bytes not yet extracted -/
  bytes : List Nat
  /-- `!good()`; sticky -/
  failed : Bool
  /-- `gcount()` of the last unformatted input -/
  gcount : Nat
  deriving Repr, DecidableEq

/-- `os.write(mem + off, n)` -/
def ostreamWrite (s : Stream) (mem : List Nat) (off : Nat) (n : Int) : Option Stream :=
  if n < 0 then none
  else if mem.length < off + n.toNat then none
  else some (if s.failed then s else { s with bytes := s.bytes ++ (mem.drop off).take n.toNat })

/-- `is.read(mem + off, n)`: (memory afterwards, stream afterwards) -/
def istreamRead (s : Stream) (mem : List Nat) (off : Nat) (n : Int) : Option (List Nat × Stream) :=
  if n < 0 then none
  else if mem.length < off + n.toNat then none
  else if s.failed then some (mem, { s with gcount := 0 })
  else
    let g := min n.toNat s.bytes.length
    some (mem.take off ++ s.bytes.take g ++ mem.drop (off + g),
          { bytes := s.bytes.drop g, failed := decide (g < n.toNat), gcount := g })

/-- `os << "…"` / `os << std::string` -/
def putStr (s : Stream) (cs : List Char) : Stream :=
  if s.failed then s else { s with bytes := s.bytes ++ cs.map Char.toNat }

/-- `os << v` for an unsigned integer `v` (not a character type) -/
def putUnsigned (s : Stream) (v : Nat) : Stream := putStr s (Nat.toDigits 10 v)

/-- `for (auto v : r)` with `r.begin() = a + b`, `r.end() = a + e` (`!=`, `++`, `*`) -/
def forPtr {σ : Type} (a : List Nat) (b e : Nat) (init : σ) (body : σ → Nat → σ) : Option σ :=
  if b ≤ e ∧ e ≤ a.length then some (((a.drop b).take (e - b)).foldl body init) else none

/-! ### cereal binary archives (the archive is its stream) -/

/-- `BinaryOutputArchive::operator()(T(&)[N])`, `mem` = object representation of the array: (archive, threw) -/
def cerealSaveBinary (ar : Stream) (mem : List Nat) : Stream × Bool :=
  ({ ar with bytes := ar.bytes ++ mem }, false)

/-- `BinaryInputArchive::operator()(T(&)[N])`: (memory afterwards, archive, threw) -/
def cerealLoadBinary (ar : Stream) (mem : List Nat) : List Nat × Stream × Bool :=
  let g := min mem.length ar.bytes.length
  (ar.bytes.take g ++ mem.drop g, { ar with bytes := ar.bytes.drop g }, decide (g < mem.length))

end Nfl.Ss
