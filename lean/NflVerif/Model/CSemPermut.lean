/-
Node semantics of the C++ expression kinds that `tools/gen_permut_ast.py` meets in `include/nfl/permut.hpp` and
that `Model/CSem.lean` does not have.  Hand-written, core Lean only; together with CSem.lean and clang's AST this is
the TRUSTED reading of the C++ text: `Generated/PermutAst.lean` applies exactly one helper per AST node.
Representation as in CSem.lean (unsigned k-bit value = `Nat < 2^k`; `int` = residue mod `2^32`).

* `int` bitwise `|`, `&`: the bitwise operation of the two's-complement representations, i.e. of the residues.
* `int << s` (s a compile-time constant below 32): defined in C++14/17 only for a non-negative left operand whose
  shifted value fits; the translator checks this with its interval analysis and refuses otherwise.  Here: the residue
  of `a * 2^s`.
* `int >> s`: the value divided by `2^s` rounded towards minus infinity (implementation-defined for negative
  operands before C++20; arithmetic shift on every supported compiler).  The translator only meets non-negative
  operands.
* memory: an array is a `List Nat`, a pointer is a pair (array, offset); `p[i]` reads / writes element `offset + i`.
  `rd` of an index outside the list gives 0 and `wr` outside the list does nothing: both are out-of-bounds accesses in
  C++ (undefined); the theorems about the generated code carry the length hypotheses that exclude them.
-/
import NflVerif.Model.CSem
namespace Nfl.CSemPermut
open Nfl

/-- `a | b`, `a & b` in an unsigned type of `k` bits -/
def orU (k a b : Nat) : Nat := (a ||| b) % 2 ^ k
def andU (k a b : Nat) : Nat := (a &&& b) % 2 ^ k
/-- `a | b`, `a & b` in `int` -/
def orS32 (a b : Nat) : Nat := (a % 2 ^ 32) ||| (b % 2 ^ 32)
def andS32 (a b : Nat) : Nat := (a % 2 ^ 32) &&& (b % 2 ^ 32)
/-- `a << s` in `int`, `s` a constant below 32 (operand range checked by the translator) -/
def shlS32 (a s : Nat) : Nat := (a * 2 ^ s) % 2 ^ 32
/-- `a >> s` in `int`, `s` a constant below 32: arithmetic shift -/
def shrS32 (a s : Nat) : Nat :=
  if a % 2 ^ 32 < 2 ^ 31 then (a % 2 ^ 32) / 2 ^ s
  else ((a % 2 ^ 32) / 2 ^ s + 2 ^ 32 - 2 ^ (32 - s)) % 2 ^ 32

/-- `p[i]` as an rvalue -/
def rd (m : List Nat) (i : Nat) : Nat := m.getD i 0
/-- `p[i] = v` -/
def wr (m : List Nat) (i v : Nat) : List Nat := m.set i v

/-- sanity checks of the signed shift: `-8 >> 1 = -4`, `7 >> 1 = 3`, `-1 >> 31 = -1` -/
example : CSem.sval (shrS32 (2 ^ 32 - 8) 1) = -4 := by decide
example : CSem.sval (shrS32 7 1) = 3 := by decide
example : CSem.sval (shrS32 (2 ^ 32 - 1) 31) = -1 := by decide
example : CSem.sval (orS32 (2 ^ 32 - 8) 3) = -5 := by decide
example : CSem.sval (andS32 (2 ^ 32 - 8) 12) = 8 := by decide

end Nfl.CSemPermut
