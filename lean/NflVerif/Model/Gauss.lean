/-
Executable model of `FastGaussianNoise<in_class, out_class, _lu_depth>` (include/nfl/prng/FastGaussianNoise.hpp):
`cmp`, `buildLookupTables`, one iteration of the `getNoise` loop (`decode`) and the whole `getNoise` loop with its
buffer bookkeeping.  Core Lean only.

What is a *parameter* of the model (not modelled):
* the barrier table produced by `init` + `precomputeBarrierValues` (floating point + MPFR): a list `bs` of
  `nb` barriers, each a big-endian string of `wp` words `< W` (`W = 2^8` or `2^16`), and `rounded_center = rc`;
* the buffer length `bufLen = innoise_words` (a `float` product in the code; after the fix
  `if (innoise_words < _word_precision) innoise_words = _word_precision;` it is `≥ wp`): taken from the
  request length that the scripted `fastrandombytes` of the harness observes;
* the content of the random buffer after each `fastrandombytes` request: `fills r` for request number `r`.

`none` always means "the C++ code would read/write outside an object here" (or the model ran out of fuel, which the
theorems exclude): the model rejects instead of inventing a value.
-/
namespace Nfl.Gauss

/-- a string of `in_class` words, most significant first -/
abbrev Str := List Nat

/-- `output<in_class,out_class>`: `{val, flag, l_b_ptr}`; `new output_t[n]()` value-initialises to the default. -/
structure Cell where
  val : Int := 0
  flag : Bool := false
  bl : List Str := []
deriving Repr, DecidableEq, Inhabited

/-! ### `cmp` -/

/-- `cmp(op1, op2)` on two strings of the same length (`_word_precision` words): 1 / 0 / -1. -/
def cmp : Str → Str → Int
  | a :: as, b :: bs => if a > b then 1 else if a < b then -1 else cmp as bs
  | _, _ => 0

/-- `cmp(barrier, noise)` as executed against the remaining buffer `tape`: the loop runs over the `wp` words of the
barrier and stops at the first difference.  Result and number of buffer words read; `none` = reads past the buffer. -/
def cmpRd : Str → Str → Option (Int × Nat)
  | [], _ => some (0, 0)
  | _ :: _, [] => none
  | a :: as, b :: bs =>
    if a > b then some (1, 1) else if a < b then some (-1, 1)
    else match cmpRd as bs with
      | none => none
      | some (r, n) => some (r, n + 1)

/-- `for (b_ptr : list) { if (cmp(b_ptr, noise) == 1) break; output++; }` — pure version on a full string. -/
def scan (u : Str) : List Str → Int → Int
  | [], out => out
  | b :: bs, out => if cmp b u = 1 then out else scan u bs (out + 1)

/-- the same loop against the remaining buffer: `(output, largest number of buffer words read by a comparison)`. -/
def scanRd (tape : Str) : List Str → Int → Nat → Option (Int × Nat)
  | [], out, seen => some (out, seen)
  | b :: bs, out, seen =>
    match cmpRd b tape with
    | none => none
    | some (r, n) => if r = 1 then some (out, max seen n) else scanRd tape bs (out + 1) (max seen n)

/-! ### specification side: inverse CDF -/

/-- "barrier ≤ noise", i.e. `cmp(barrier, noise) != 1` -/
def leB (b u : Str) : Bool := cmp b u != 1

/-- `invCDF barriers v₀ u = v₀ + #{i | barrier_i ≤ u}` (lexicographic comparison of word strings) -/
def invCDF (bs : List Str) (v0 : Int) (u : Str) : Int := v0 + (bs.countP (fun b => leB b u) : Nat)

/-- big-endian value of a word string in base `W` -/
def valOf (W : Nat) : Str → Nat
  | [] => 0
  | a :: as => a * W ^ as.length + valOf W as

/-- the `n`-word big-endian base-`W` string of `u` (`u < W^n`) -/
def toWords (W : Nat) : Nat → Nat → Str
  | 0, _ => []
  | n + 1, u => (u / W ^ n) % W :: toWords W n (u % W ^ n)

/-- value of the first output: `val = -((int)nb-1)/2 + rounded_center` -/
def v0Of (nb : Nat) (rc : Int) : Int := -(((nb - 1) / 2 : Nat) : Int) + rc
/-- loop bound `((int)nb-1)/2 + rounded_center` -/
def vmaxOf (nb : Nat) (rc : Int) : Int := (((nb - 1) / 2 : Nat) : Int) + rc

/-! ### tables -/

/-- `lu_table` (first level, `_lu_size` cells) and `lu_table2` (`_lu_size` row pointers, `nullptr` = `none`). -/
structure Tables where
  t1 : Array Cell
  t2 : Array (Option (Array Cell))
deriving Repr, DecidableEq

/-- the barrier's prefix of length `|p|` is lexicographically below `p` -/
def isBelow (p : Str) (b : Str) : Bool := cmp b p == -1      -- `cmp` stops at the end of the shorter string
/-- the barrier starts with `p` -/
def hasPre (p : Str) (b : Str) : Bool := p.isPrefixOf b

/-- what a correct cell for prefix `p` looks like: its value counts the barriers strictly below the prefix; an
unflagged cell means no barrier has this prefix; a flagged one lists exactly the barriers with this prefix, in order. -/
def cellOK (bs : List Str) (v0 : Int) (p : Str) (c : Cell) : Bool :=
  c.val == v0 + (bs.countP (isBelow p) : Nat) &&
  (if c.flag then c.bl == bs.filter (hasPre p) else !(bs.any (hasPre p)))

/-- depth 1: every one of the `W` first-level cells is correct for its one-word prefix. -/
def tableOK1 (W : Nat) (bs : List Str) (v0 : Int) (T : Tables) : Bool :=
  T.t1.size == W && (List.range W).all fun i => cellOK bs v0 [i] (T.t1.getD i default)

/-- depth 2: an unflagged first-level cell is correct for its one-word prefix; under a flagged first-level cell there
is a second-level row of `W` cells, each correct for its two-word prefix. -/
def tableOK2 (W : Nat) (bs : List Str) (v0 : Int) (T : Tables) : Bool :=
  T.t1.size == W && T.t2.size == W && (List.range W).all fun i =>
    let c := T.t1.getD i default
    if c.flag then
      match T.t2.getD i none with
      | none => false
      | some row => row.size == W && (List.range W).all fun j => cellOK bs v0 [i, j] (row.getD j default)
    else cellOK bs v0 [i] c

def tableOK (depth W : Nat) (bs : List Str) (v0 : Int) (T : Tables) : Bool :=
  if depth = 1 then tableOK1 W bs v0 T else if depth = 2 then tableOK2 W bs v0 T else false

/-- every flagged cell of a table lists barriers of at most `wp` words -/
def listsOK (wp : Nat) (row : Array Cell) : Bool := row.toList.all fun c => !c.flag || c.bl.all (·.length ≤ wp)

/-- the *shape* that `buildLookupTables` gives the tables whatever the barrier values are: `W` first-level cells, a
`W`-cell row under every flagged first-level cell (depth 2), and the lists that `getNoise` walks hold barriers of at most
`wp` words.  This is all that memory safety of `getNoise` needs (C11); `tableOK` (for well-formed barriers) implies it. -/
def shapeOK (depth W wp : Nat) (T : Tables) : Bool :=
  T.t1.size == W &&
  (if depth == 1 then listsOK wp T.t1
   else depth == 2 && T.t2.size == W && (List.range W).all fun i =>
    !(T.t1.getD i default).flag ||
      match T.t2.getD i none with
      | none => false
      | some row => row.size == W && listsOK wp row)

/-- the side conditions on a barrier table under which everything below is proved; validated by the driver on every
barrier table the harness exports. -/
def barriersWF (W wp : Nat) (bs : List Str) : Bool :=
  bs.all fun b => b.length == wp && b.all (· < W)

/-- the last barrier starts with `depth` all-ones words (what `2^prec - 1` after normalisation gives; needed for the cells
above the last barrier, and — depth 2 — for `buildLookupTables` not to index `barriers[nb]`) -/
def lastOnes (W depth : Nat) (bs : List Str) : Bool :=
  match bs.getLast? with
  | none => false
  | some b => b.take depth == List.replicate depth (W - 1)

def sortedB : List Str → Bool
  | [] => true
  | [_] => true
  | a :: b :: t => leB a b && sortedB (b :: t)

/-! ### one iteration of the `getNoise` loop -/

/-- result of decoding one output: value, words consumed (`used_words` increment), words inspected
(the inspected buffer indices are `pos … pos+seen-1`). -/
structure Dec where
  out : Int
  used : Nat
  seen : Nat
deriving Repr, DecidableEq

/-- depth 1.  `tape` = the buffer from `noise` to its end. -/
def decode1 (wp : Nat) (T : Tables) (tape : Str) : Option Dec :=
  match tape with
  | [] => none                                   -- `input1 = *noise` past the buffer
  | i1 :: _ =>
    match T.t1[i1]? with
    | none => none
    | some c =>
      if c.flag then
        if wp < 1 then none                      -- `_word_precision - 1` wraps (unsigned): outside the domain
        else match scanRd tape c.bl c.val 1 with
          | none => none
          | some (out, seen) => some ⟨out, wp, seen⟩   -- noise += wp-1; noise++
      else some ⟨c.val, 1, 1⟩

/-- depth 2. -/
def decode2 (wp : Nat) (T : Tables) (tape : Str) : Option Dec :=
  match tape with
  | [] => none
  | i1 :: rest =>
    match T.t1[i1]? with
    | none => none
    | some c1 =>
      if c1.flag then
        match rest with
        | [] => none                             -- `input2 = *(noise+1)` past the buffer
        | i2 :: _ =>
          match T.t2[i1]? with
          | some (some row) =>
            match row[i2]? with
            | none => none
            | some c2 =>
              if c2.flag then
                if wp < 2 then none              -- `_word_precision - 2` wraps (unsigned): outside the domain
                else match scanRd tape c2.bl c2.val 2 with
                  | none => none
                  | some (out, seen) => some ⟨out, wp, seen⟩   -- noise += wp-2; noise++; noise++
              else some ⟨c2.val, 2, 2⟩
          | _ => none                            -- null row dereferenced
      else some ⟨c1.val, 1, 1⟩

def decode (depth wp : Nat) (T : Tables) (tape : Str) : Option Dec :=
  if depth = 1 then decode1 wp T tape else if depth = 2 then decode2 wp T tape else none

/-! ### the whole `getNoise` -/

/-- one executed iteration: which request filled the buffer, `used_words` before, decode result -/
structure Ev where
  req : Nat
  pos : Nat
  used : Nat
  seen : Nat
  out : Int
deriving Repr, DecidableEq

/-- `while (computed_outputs < rlen)`: one output per iteration, hence structural recursion on the number of outputs
still to produce.  State: request number that filled the buffer, `used_words` (`pos`) and the `noise` pointer, modelled
as the rest of the buffer from `noise` on (`rest = buffer.drop pos`, an invariant proved in Proofs/GaussLoop).
`fills r` = what request number `r` writes; the buffer holds its first `bufLen` words. -/
def loop (depth wp : Nat) (T : Tables) (bufLen : Nat) (fills : Nat → Str) : Nat → Nat → Nat → Str → Option (List Ev)
  | 0, _, _, _ => some []
  | n + 1, req, pos, rest =>
    match decode depth wp T rest with
    | none => none
    | some d =>
      -- `if ((used_words + _word_precision) >= innoise_words) { noise = noise_init_ptr; used_words = 0; fastrandombytes(..) }`
      let tl :=
        if pos + d.used + wp ≥ bufLen then loop depth wp T bufLen fills n (req + 1) 0 ((fills (req + 1)).take bufLen)
        else loop depth wp T bufLen fills n req (pos + d.used) (rest.drop d.used)
      match tl with
      | none => none
      | some evs => some (⟨req, pos, d.used, d.seen, d.out⟩ :: evs)

/-- `getNoise(out, rlen)`: request 0 is issued before the loop.  Returns the trace. -/
def getNoise (depth wp : Nat) (T : Tables) (bufLen : Nat) (fills : Nat → Str) (rlen : Nat) : Option (List Ev) :=
  loop depth wp T bufLen fills rlen 0 0 ((fills 0).take bufLen)

/-- number of `fastrandombytes` requests of a run: the initial one plus one per refill -/
def requests (wp bufLen : Nat) (evs : List Ev) : Nat :=
  1 + evs.countP (fun e => e.pos + e.used + wp ≥ bufLen)

/-! ### `buildLookupTables` -/

/-- `t[i] = f(t[i])`, `none` if `i` is outside the array -/
def wr (t : Array Cell) (i : Nat) (f : Cell → Cell) : Option (Array Cell) :=
  if h : i < t.size then some (t.set i (f t[i])) else none

/-- `barriers[b][k]` -/
def bword (ba : Array Str) (b k : Nat) : Option Nat :=
  match ba[b]? with
  | none => none
  | some s => s[k]?

/-- `while (lu_index1 < barriers[b_index][0] && lu_index1 < _lu_size) { lu_table[lu_index1].val = val; lu_index1++; }` -/
def fillLoop (W first : Nat) (val : Int) : Nat → Nat → Array Cell → Option (Nat × Array Cell)
  | 0, _, _ => none
  | fuel + 1, lu1, t =>
    if lu1 < first ∧ lu1 < W then
      match wr t lu1 (fun c => { c with val := val }) with
      | none => none
      | some t' => fillLoop W first val fuel (lu1 + 1) t'
    else some (lu1, t)

/-- depth 1: `while ((b_index<_number_of_barriers) && (lu_index1 == barriers[b_index][0])) { push_back; b_index++; val++; }`
returns the new `b_index`, `val` and the pushed barriers -/
def runLoop1 (ba : Array Str) (lu1 : Nat) : Nat → Nat → Int → List Str → Option (Nat × Int × List Str)
  | 0, _, _, _ => none
  | fuel + 1, b, val, acc =>
    if b < ba.size then
      match ba[b]? with
      | none => none
      | some s =>
        match s[0]? with
        | none => none
        | some w0 => if lu1 = w0 then runLoop1 ba lu1 fuel (b + 1) (val + 1) (acc ++ [s]) else some (b, val, acc)
    else some (b, val, acc)

structure BSt where
  lu1 : Nat
  val : Int
  b : Nat
  t1 : Array Cell
  t2 : Array (Option (Array Cell))

/-- depth 1 outer `for (val = …, b_index = 0; val <= vmax && lu_index1 < _lu_size;)` -/
def outer1 (W : Nat) (ba : Array Str) (vmax : Int) : Nat → BSt → Option BSt
  | 0, _ => none
  | fuel + 1, s =>
    if s.val ≤ vmax ∧ s.lu1 < W then
      match bword ba s.b 0 with
      | none => none
      | some first =>
        match fillLoop W first s.val (W + 1) s.lu1 s.t1 with
        | none => none
        | some (lu1, t) =>
          -- lu_table[lu1].val = val; .flag = true; l_b_ptr.push_back(barriers[b_index++]); val++;
          match ba[s.b]? with
          | none => none
          | some s0 =>
            match runLoop1 ba lu1 (ba.size + 1) (s.b + 1) (s.val + 1) [s0] with
            | none => none
            | some (b', val', run) =>
              match wr t lu1 (fun c => { val := s.val, flag := true, bl := c.bl ++ run }) with
              | none => none
              | some t' => outer1 W ba vmax fuel { s with lu1 := lu1 + 1, val := val', b := b', t1 := t' }
    else some s

/-- depth 2: `while ((b_index<nb) && (lu_index1 == barriers[b_index][0]) && (lu_index2 == barriers[b_index][1]))` -/
def runLoop2 (ba : Array Str) (lu1 lu2 : Nat) : Nat → Nat → Int → List Str → Option (Nat × Int × List Str)
  | 0, _, _, _ => none
  | fuel + 1, b, val, acc =>
    if b < ba.size then
      match ba[b]? with
      | none => none
      | some s =>
        match s[0]? with
        | none => none
        | some w0 =>
          if lu1 = w0 then
            match s[1]? with
            | none => none
            | some w1 => if lu2 = w1 then runLoop2 ba lu1 lu2 fuel (b + 1) (val + 1) (acc ++ [s]) else some (b, val, acc)
          else some (b, val, acc)
    else some (b, val, acc)

/-- depth 2: the `while (lu_index2 < _lu_size)` loop that fills the row under first-level cell `lu1`.
NOTE `barriers[b_index]` is evaluated at the top of every iteration *without* a `b_index < nb` test: if the last barrier
has been consumed in a cell `lu2 < W-1`, the next iteration reads `barriers[nb]` (outside the array) — `none` here. -/
def inner2 (W : Nat) (ba : Array Str) (lu1 : Nat) : Nat → Nat → Nat → Int → Array Cell → Option (Nat × Int × Array Cell)
  | 0, _, _, _, _ => none
  | fuel + 1, lu2, b, val, row =>
    if lu2 < W then
      match ba[b]? with
      | none => none                                            -- barriers[nb]: out of range
      | some s =>
        match s[0]? with
        | none => none
        | some w0 =>
          if lu1 < w0 then
            match wr row lu2 (fun c => { c with val := val }) with
            | none => none
            | some row' => inner2 W ba lu1 fuel (lu2 + 1) b val row'
          else
            match s[1]? with
            | none => none
            | some w1 =>
              if lu2 < w1 then
                match wr row lu2 (fun c => { c with val := val }) with
                | none => none
                | some row' => inner2 W ba lu1 fuel (lu2 + 1) b val row'
              else if lu1 = w0 ∧ lu2 = w1 then
                match runLoop2 ba lu1 lu2 (ba.size + 1) (b + 1) (val + 1) [s] with
                | none => none
                | some (b', val', run) =>
                  match wr row lu2 (fun c => { val := val, flag := true, bl := c.bl ++ run }) with
                  | none => none
                  | some row' => inner2 W ba lu1 fuel (lu2 + 1) b' val' row'
              else inner2 W ba lu1 fuel (lu2 + 1) b val row      -- neither branch: the cell keeps its default
    else some (b, val, row)

/-- depth 2 outer loop -/
def outer2 (W : Nat) (ba : Array Str) (vmax : Int) : Nat → BSt → Option BSt
  | 0, _ => none
  | fuel + 1, s =>
    if s.val ≤ vmax ∧ s.lu1 < W then
      match bword ba s.b 0 with
      | none => none
      | some first =>
        match fillLoop W first s.val (W + 1) s.lu1 s.t1 with
        | none => none
        | some (lu1, t) =>
          match wr t lu1 (fun c => { c with val := s.val, flag := true }) with
          | none => none
          | some t' =>
            if lu1 < s.t2.size then
              -- lu_table2[lu1] = new output_t[_lu_size]();
              match inner2 W ba lu1 (W + 1) 0 s.b s.val (Array.replicate W default) with
              | none => none
              | some (b', val', row) =>
                outer2 W ba vmax fuel { lu1 := lu1 + 1, val := val', b := b', t1 := t', t2 := s.t2.set! lu1 (some row) }
            else none
    else some s

/-- `buildLookupTables()` for `_lu_depth == 1` -/
def buildLUT1 (W : Nat) (bs : List Str) (rc : Int) : Option Tables :=
  let ba := bs.toArray
  match outer1 W ba (vmaxOf bs.length rc) (W + 1)
      { lu1 := 0, val := v0Of bs.length rc, b := 0, t1 := Array.replicate W default, t2 := #[] } with
  | none => none
  | some s => some ⟨s.t1, s.t2⟩

/-- `buildLookupTables()` for `_lu_depth == 2` -/
def buildLUT2 (W : Nat) (bs : List Str) (rc : Int) : Option Tables :=
  let ba := bs.toArray
  match outer2 W ba (vmaxOf bs.length rc) (W + 1)
      { lu1 := 0, val := v0Of bs.length rc, b := 0, t1 := Array.replicate W default, t2 := Array.replicate W none } with
  | none => none
  | some s => some ⟨s.t1, s.t2⟩

def buildLUT (depth W : Nat) (bs : List Str) (rc : Int) : Option Tables :=
  if depth = 1 then buildLUT1 W bs rc else if depth = 2 then buildLUT2 W bs rc else none

/-! ### the output type `out_class`

`getNoise` computes in `int64_t output` and stores `(out_class) output`; the table cells hold `out_class val` (written from the
`int64_t val` of `buildLookupTables`, read back by `output = cell.val`).  The decoder above works with the mathematical
integers; these definitions say how they appear in (and are recovered from) an `out_class` object of `b` bits. -/

/-- the integer denoted by the `b`-bit pattern `x` (`0 ≤ x < 2^b`) read as a two's complement number -/
def toSignedBits (b : Nat) (x : Int) : Int := if x < 2 ^ (b - 1) then x else x - 2 ^ b

/-- `(out_class) x`: the value of the resulting object (`[0, 2^b)` for an unsigned type, `[-2^(b-1), 2^(b-1))` for a signed one);
with `b = 64`, `sg = true` it is also the conversion to / wrap-around of `int64_t` -/
def outStore (b : Nat) (sg : Bool) (x : Int) : Int :=
  if sg then toSignedBits b (x % 2 ^ b) else x % 2 ^ b

/-- the integer an `out_class` value denotes when the object is read as the *signed* type of the same width
(`signed_value_type rnd[degree]; getNoise((value_type*)rnd, degree)` in `poly::set(gaussian)`) -/
def readOut (b : Nat) (y : Int) : Int := toSignedBits b (y % 2 ^ b)

/-- a flagged cell as executed: the cell holds `(out_class) val`; `int64_t output = cell.val;` then `k` times `output++`
(64-bit), then `(out_class) output` -/
def outPath (b : Nat) (sg : Bool) (val : Int) (k : Nat) : Int :=
  outStore b sg (outStore 64 true (outStore 64 true (outStore b sg val) + k))

/-- every value of `[lo, hi]` is representable in the signed `b`-bit type -/
def fitsOut (b : Nat) (lo hi : Int) : Bool := decide (-(2 ^ (b - 1) : Int) ≤ lo) && decide (hi < (2 ^ (b - 1) : Int))

/-- is `y` a value of the `b`-bit type of signedness `sg` -/
def inOutRange (b : Nat) (sg : Bool) (y : Int) : Bool :=
  if sg then decide (-(2 ^ (b - 1) : Int) ≤ y) && decide (y < (2 ^ (b - 1) : Int)) else decide (0 ≤ y) && decide (y < (2 ^ b : Int))

end Nfl.Gauss
