/-
Loop semantics for the translator `tools/gen_bool_ast.py` (functions made of `for` loops whose bodies may `return`).
Core Lean only.
-/
namespace Nfl.CSem

/-- `for (v = v0; c v; v = inc v) body` where `body v = some r` means "the body executes `return r`":
    the first return in iteration order, `none` = the loop ran to completion.
    `fuel` = number of states of the (k-bit) loop variable; a terminating loop never exhausts it. -/
def forRet {ρ : Type} (c : Nat → Bool) (inc : Nat → Nat) (body : Nat → Option ρ) : Nat → Nat → Option ρ
  | 0, _ => none
  | fuel + 1, v =>
    if c v then
      match body v with
      | some r => some r
      | none => forRet c inc body fuel (inc v)
    else none

/-- the statement after the loops: `return d` if no loop body returned -/
def retOr {ρ : Type} (r : Option ρ) (d : ρ) : ρ := r.getD d

/-- integral-to-boolean conversion -/
def toBool (a : Nat) : Bool := a != 0

end Nfl.CSem
