/- C18: interleaving models of `nfl::fastrandombytes` (lib/prng/fastrandombytes.cpp).  Core Lean only.

   Shared generator state: `init` (flag), `key` (32 bytes, abstracted to one value), `nonce` (64-bit counter),
   a mutex.  A request performs, in program order, the steps below; a schedule is a list of thread ids, each entry
   lets that thread perform its next step atomically; `lock` is enabled only when the mutex is free; a thread that
   has no request left is not schedulable.  Any number of threads, any number of requests per thread.

   LOCKED model (= the current code):
       lock; read init; [SEEDING] my := nonce; n := nonce; nonce := (n+1) mod 2^64; unlock;
       generate(my, key)        -- Salsa20 with the local copy of the nonce; reads `key` outside the lock
     SEEDING is not one step.  `randombytes(key, 32)` is a call (open/read on the entropy source, no access to the
     generator state) followed by the delivery of the 32 key bytes in PIECES - as many as the source's reads return
     (C19: short reads) - each piece one write to `key`; and the flag `init := 1` is a separate write.  The model
     takes the number of pieces (`Seeding.chunks`, any number) and the ORDER of flag and key as parameters:
       flagFirst = false   call; piece; …; piece; init := 1          (the repository's code)
       flagFirst = true    init := 1; call; piece; …; piece          (a helper that marks the flag before it fills
                                                                      the secret - invisible under this lock)
     The theorems hold for every `Seeding`: under the whole-function mutex no request generates from a key that is
     not completely written, whatever the order.  Model/Prng18Dcl.lean has the double-checked variant (the flag is
     read outside the mutex), where the order matters.
   UNLOCKED model (= the code before the fix, kept as the documented witness of the defect):
       read init; [key := randombytes(); init := 1;] generate(nonce, key)   -- reads the GLOBAL nonce
       n := nonce; nonce := (n+1) mod 2^64                                 -- no lock anywhere

   `randombytes` is a parameter (`seedVal k` = the key delivered by its k-th call); the keystream function itself is
   not modelled: a request's output is identified with the (nonce, key, missing pieces) it is generated from:
   `key` names the value being / having been delivered into the key array, `miss` counts its pieces that are not yet
   in place (`miss = 0`: the array holds exactly that key; `miss = chunks`: nothing written yet, the array still has
   its previous content - all zero at process start).
   Ghost components (`acq`, `pend`, `out`, `trace`, `ticket`, `csidx`) record history; no step reads them.
   The granularity (each line above = one atomic step; the 8 nonce bytes read/written at once) is a modelling choice. -/
namespace Nfl.Prng18

def W : Nat := 18446744073709551616   -- 2^64: the nonce is a 64-bit little-endian counter

inductive Pc where
  | idle      -- between requests; next step: lock
  | rdInit    -- holds the mutex; next: read `init`
  | seed      -- next: call randombytes(key, 32) (the k-th call will deliver `seedVal k`); nothing written yet
  | fill      -- inside randombytes: next: one more piece of the key is written
  | wrInit    -- next: init := 1
  | rdNonceA  -- next: my_nonce := nonce
  | rdNonceB  -- next: n := nonce
  | wrNonce   -- next: nonce := n + 1
  | unlock    -- next: release the mutex
  | gen       -- next: salsa20(r, rlen, my_nonce, key)
deriving DecidableEq, Repr

inductive Var where
  | init | key | nonce
deriving DecidableEq, Repr

/-- how the seeding step is carried out: in how many pieces the key bytes arrive, and whether the flag is set
    before the key is filled (see the head of the file).  The repository's code is `flagFirst = false`. -/
structure Seeding where
  chunks : Nat
  flagFirst : Bool
deriving DecidableEq, Repr

/-- one access to the shared generator state -/
structure Event where
  tid : Nat
  var : Var
  isWrite : Bool
  inside : Bool     -- the thread held the mutex
  cs : Nat          -- index, in acquisition order, of the thread's latest critical section
deriving DecidableEq, Repr

structure TState where
  pc : Pc
  todo : Nat        -- requests not yet started
  my : Nat          -- my_nonce
  n : Nat           -- n
  ticket : Nat      -- ghost: value of `nonce` when this thread last acquired the mutex
  csidx : Nat       -- ghost: index of its latest critical section
deriving Repr

/-- a generated keystream block is identified by who asked, the nonce and the key it was generated from -/
structure Out where
  tid : Nat
  nonce : Nat
  key : Nat
  miss : Nat := 0   -- pieces of `key` that were not yet written when the block was generated (0 = the complete key)
deriving DecidableEq, Repr

structure State where
  thr : Nat → TState
  lock : Option Nat           -- holder of the mutex
  init : Bool
  key : Nat
  miss : Nat                  -- pieces of `key` not yet written into the key array
  nonce : Nat
  seeds : Nat                 -- number of calls of randombytes so far
  acq : List (Nat × Nat)      -- ghost: (thread, `nonce` at that moment) per mutex acquisition, chronological
  pend : List (Nat × Nat)     -- ghost: requests that have acquired the mutex and not yet generated
  out : List Out              -- blocks generated, chronological
  trace : List Event          -- accesses to init/key/nonce, chronological

def upd (f : Nat → TState) (t : Nat) (v : TState) : Nat → TState := fun t' => if t' = t then v else f t'

@[simp] theorem upd_same (f : Nat → TState) (t : Nat) (v : TState) : upd f t v t = v := by simp [upd]
theorem upd_other (f : Nat → TState) {t t' : Nat} (v : TState) (h : t' ≠ t) : upd f t v t' = f t' := by simp [upd, h]

/-- thread `t` performs its next step (locked model) -/
def step (sd : Seeding) (seedVal : Nat → Nat) (s : State) (t : Nat) : Option State :=
  let ts := s.thr t
  let ev (v : Var) (w : Bool) (ins : Bool) : Event := ⟨t, v, w, ins, ts.csidx⟩
  let filled : Pc := if sd.flagFirst then .rdNonceA else .wrInit     -- where randombytes returns to
  match ts.pc with
  | .idle =>
    if ts.todo = 0 then none
    else match s.lock with
      | some _ => none       -- mutex busy: `lock` is not enabled
      | none =>
        some { s with lock := some t,
                      thr := upd s.thr t { ts with pc := .rdInit, todo := ts.todo - 1, ticket := s.nonce, csidx := s.acq.length },
                      acq := s.acq ++ [(t, s.nonce)], pend := s.pend ++ [(t, s.nonce)] }
  | .rdInit =>
    some { s with thr := upd s.thr t { ts with pc := if s.init then .rdNonceA else if sd.flagFirst then .wrInit else .seed },
                  trace := s.trace ++ [ev .init false true] }
  | .seed =>
    some { s with key := seedVal s.seeds, miss := sd.chunks, seeds := s.seeds + 1,
                  thr := upd s.thr t { ts with pc := if sd.chunks = 0 then filled else .fill } }
  | .fill =>
    some { s with miss := s.miss - 1, thr := upd s.thr t { ts with pc := if s.miss ≤ 1 then filled else .fill },
                  trace := s.trace ++ [ev .key true true] }
  | .wrInit =>
    some { s with init := true, thr := upd s.thr t { ts with pc := if sd.flagFirst then .seed else .rdNonceA },
                  trace := s.trace ++ [ev .init true true] }
  | .rdNonceA =>
    some { s with thr := upd s.thr t { ts with pc := .rdNonceB, my := s.nonce },
                  trace := s.trace ++ [ev .nonce false true] }
  | .rdNonceB =>
    some { s with thr := upd s.thr t { ts with pc := .wrNonce, n := s.nonce },
                  trace := s.trace ++ [ev .nonce false true] }
  | .wrNonce =>
    some { s with nonce := (ts.n + 1) % W, thr := upd s.thr t { ts with pc := .unlock },
                  trace := s.trace ++ [ev .nonce true true] }
  | .unlock =>
    some { s with lock := none, thr := upd s.thr t { ts with pc := .gen } }
  | .gen =>
    some { s with out := s.out ++ [⟨t, ts.my, s.key, s.miss⟩], pend := s.pend.erase (t, ts.ticket),
                  thr := upd s.thr t { ts with pc := .idle },
                  trace := s.trace ++ [ev .key false false] }

def run (sd : Seeding) (seedVal : Nat → Nat) (s : State) : List Nat → Option State
  | [] => some s
  | t :: r => match step sd seedVal s t with
    | none => none
    | some s' => run sd seedVal s' r

/-- process start: nothing seeded, `key` zero (static storage), `nonce = n0`; thread `t` will issue `reqs t` requests -/
def init (reqs : Nat → Nat) (n0 : Nat) : State :=
  { thr := fun t => ⟨.idle, reqs t, 0, 0, 0, 0⟩, lock := none, init := false, key := 0, miss := 0, nonce := n0, seeds := 0,
    acq := [], pend := [], out := [], trace := [] }

/-- every request of every thread has been served -/
def Complete (s : State) : Prop := ∀ t, (s.thr t).pc = .idle ∧ (s.thr t).todo = 0

def Conflict (e1 e2 : Event) : Prop :=
  e1.tid ≠ e2.tid ∧ e1.var = e2.var ∧ (e1.isWrite = true ∨ e2.isWrite = true)

/-- `e1` (earlier) is ordered before `e2` by the mutex: `e1` was performed inside a critical section that was
    released before the critical section `e2`'s thread had last entered was acquired
    (release of section i happens-before acquisition of section j for i < j). -/
def LockOrdered (e1 e2 : Event) : Prop := e1.inside = true ∧ e1.cs < e2.cs

/-- the sequential specification: requests served one at a time in the order `order` (thread ids), starting with
    nonce `n` -/
def seqServe : Nat → List Nat → List (Nat × Nat)
  | _, [] => []
  | n, t :: r => (t, n % W) :: seqServe (n + 1) r

/-- nonces thread `t` obtained, in its program order -/
def served (s : State) (t : Nat) : List Nat := (s.out.filter (fun o => o.tid == t)).map (·.nonce)

/-! ### the unlocked model (old code; its seeding is kept as one write: the witnesses below do not need more) -/

inductive UPc where
  | rdInit | seed | wrInit | gen | rdNonce | wrNonce
deriving DecidableEq, Repr

structure UTState where
  pc : UPc
  todo : Nat
  n : Nat
deriving Repr

structure UState where
  thr : Nat → UTState
  init : Bool
  key : Nat
  nonce : Nat
  seeds : Nat
  out : List Out

def uupd (f : Nat → UTState) (t : Nat) (v : UTState) : Nat → UTState := fun t' => if t' = t then v else f t'

def ustep (seedVal : Nat → Nat) (s : UState) (t : Nat) : Option UState :=
  let ts := s.thr t
  match ts.pc with
  | .rdInit =>
    if ts.todo = 0 then none
    else some { s with thr := uupd s.thr t { ts with todo := ts.todo - 1, pc := if s.init then .gen else .seed } }
  | .seed => some { s with key := seedVal s.seeds, seeds := s.seeds + 1, thr := uupd s.thr t { ts with pc := .wrInit } }
  | .wrInit => some { s with init := true, thr := uupd s.thr t { ts with pc := .gen } }
  | .gen => some { s with out := s.out ++ [⟨t, s.nonce, s.key, 0⟩], thr := uupd s.thr t { ts with pc := .rdNonce } }
  | .rdNonce => some { s with thr := uupd s.thr t { ts with pc := .wrNonce, n := s.nonce } }
  | .wrNonce => some { s with nonce := (ts.n + 1) % W, thr := uupd s.thr t { ts with pc := .rdInit } }

def urun (seedVal : Nat → Nat) (s : UState) : List Nat → Option UState
  | [] => some s
  | t :: r => match ustep seedVal s t with
    | none => none
    | some s' => urun seedVal s' r

def uinit (reqs : Nat → Nat) (n0 : Nat) : UState :=
  { thr := fun t => ⟨.rdInit, reqs t, 0⟩, init := false, key := 0, nonce := n0, seeds := 0, out := [] }

def UComplete (s : UState) : Prop := ∀ t, (s.thr t).pc = .rdInit ∧ (s.thr t).todo = 0

/-! ### a lock-free SPLIT counter (not the code of the repository: the documented witness of a fault class)

   The 64-bit counter is kept in two pieces: `ticket` (low part, modulo `B = 2^k`, reserved by one atomic
   fetch-and-add) and `epoch` (high part).  A request performs
       lo := fetch_add(ticket, 1) mod B;   hi := epoch;   if lo = B-1 then epoch := hi + 1;   generate(hi·B + lo)
   Every access is atomic (no data race), sequentially the nonces are n0, n0+1, …, and so are they in every schedule
   that does not straddle a multiple of `B`.  Across a carry the pair (ticket, epoch) is not reserved atomically:
   see `C18.split_counter_reuse` / `split_counter_skip`.  The position in the process's history (`n0` close to a
   multiple of `B`) is what the boundary mode of harness/conc18.cpp generates. -/

inductive SPc where
  | fetch | rdEpoch | carry | gen | done
deriving DecidableEq, Repr

structure STState where
  pc : SPc
  lo : Nat
  hi : Nat
deriving DecidableEq, Repr

/-- two threads, one request each (enough for the witnesses) -/
structure SState where
  ticket : Nat
  epoch : Nat
  t0 : STState
  t1 : STState
  out : List (Nat × Nat)     -- (thread, nonce) generated, chronological
deriving DecidableEq, Repr

def sstep (B : Nat) (s : SState) (t : Nat) : Option SState :=
  let ts := if t = 0 then s.t0 else s.t1
  let put (s : SState) (v : STState) : SState := if t = 0 then { s with t0 := v } else { s with t1 := v }
  match ts.pc with
  | .fetch => some (put { s with ticket := (s.ticket + 1) % B } { ts with pc := .rdEpoch, lo := s.ticket })
  | .rdEpoch => some (put s { ts with pc := .carry, hi := s.epoch })
  | .carry => some (put (if ts.lo = B - 1 then { s with epoch := ts.hi + 1 } else s) { ts with pc := .gen })
  | .gen => some (put { s with out := s.out ++ [(t, (ts.hi * B + ts.lo) % W)] } { ts with pc := .done })
  | .done => none

def srun (B : Nat) (s : SState) : List Nat → Option SState
  | [] => some s
  | t :: r => match sstep B s t with
    | none => none
    | some s' => srun B s' r

/-- the counter stands at `n0` (`n0 = epoch·B + ticket`), both threads are about to make one request -/
def sinit (B n0 : Nat) : SState :=
  { ticket := n0 % B, epoch := n0 / B, t0 := ⟨.fetch, 0, 0⟩, t1 := ⟨.fetch, 0, 0⟩, out := [] }

end Nfl.Prng18
