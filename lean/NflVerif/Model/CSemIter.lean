/-
Node semantics of the C++ constructs that `tools/gen_setmpz_ast.py` meets in `poly::set_mpz(It first, It last)` and the
overloads / constructors forwarding to it (include/nfl/gmp.hpp) beyond CSem.lean / GmpSem.lean.  Hand-written, core Lean
only; together with clang's AST, CSem.lean and GmpSem.lean this is the TRUSTED reading of the C++ text.

Representation
* an `mpz_class` holds a mathematical integer (`Int`), as an `mpz_t` does in GmpSem.lean; `v->get_mpz_t()` is that integer;
  the gmpxx constructors `mpz_class(mpz_srcptr)` (`mpz_init_set`) and `mpz_class(mpz_class const&)` copy it;
* a sequence of `mpz_class` (`std::array<mpz_class,n>`, `std::initializer_list<mpz_class>`, the array behind a
  `mpz_class const*` or a `std::vector<mpz_class>::iterator`) is a `List Int`;
* a random-access ITERATOR into such a sequence (`mpz_class const*`, `__gnu_cxx::__normal_iterator<mpz_class*, vector>`)
  is the pair (base list, element INDEX): the base list is a parameter of the generated function, the index a `Nat`;
  `++it` adds one WITHOUT wrap-around (moving an iterator outside `[begin, end]` is undefined in C++), `a < b` compares
  the indices, `std::distance(a, b)` is the difference of the indices as a `long`, and its conversion to `size_t` is the
  residue mod 2^64;
* `value_type* iter = begin()` is the element OFFSET into `_data` (a `Nat`, as in CSemInit.lean): `*iter = v` stores at the
  offset, `++iter` adds one without wrap.

Undefined behaviour.  Dereferencing an iterator at or beyond the end of its sequence is undefined in C++; `deref` gives 0
there.  A store outside `_data` is undefined; `store` drops it.  The theorems of Proofs/SetMpzAstEq.lean show that on a
range `first ≤ last ≤ length` every dereference happens below `last` (the loop tests `viter < last` first) and that the
result has `degree * nmoduli` words for ANY initial content of `_data` of that length, so a dropped store could not go
unnoticed.
-/
import NflVerif.Model.CSem
namespace Nfl.CSemIter

/-- `(size_t) std::distance(first, last)` on indices into one sequence -/
def distU (first last : Nat) : Nat := (((last : Int) - (first : Int)) % ((2 ^ 64 : Nat) : Int)).toNat
/-- `a < b` on two iterators into one sequence -/
def itLt (a b : Nat) : Bool := decide (a < b)
/-- `++it` -/
def itNext (a : Nat) : Nat := a + 1
/-- `it->get_mpz_t()`: the integer the element holds -/
def deref (vals : List Int) (i : Nat) : Int := vals.getD i 0
/-- `std::begin(_data)`, `values.begin()`: offset / index 0 -/
def seqBegin : Nat := 0
/-- `values.end()` of a `std::array<mpz_class, n>` -/
def arrEnd (n : Nat) : Nat := n
/-- `values.end()` of a `std::initializer_list<mpz_class>` -/
def ilEnd (values : List Int) : Nat := values.length
/-- `*iter = v` with `iter` at offset `i` of `_data` -/
def store (data : List Nat) (i v : Nat) : List Nat := data.set i v
/-- `++iter` on a `value_type*` -/
def ptrNext (off : Nat) : Nat := off + 1
/-- `mpz_class(mpz_srcptr z)` / `mpz_class(mpz_class const& z)` -/
def mpzClassOf (z : Int) : Int := z

end Nfl.CSemIter
