/-
Node semantics of the C++ constructs that `tools/gen_expr_ast.py` meets in the expression-template evaluation
machinery (`poly::operator=(expr)`, `poly::load`, `expr::load/_load`, `_make_op`, the operator overloads, `simd::X::load/store`,
`poly::operator bool`) beyond the integer expressions of CSem.lean.  Hand-written, core Lean only; part of the TRUSTED
reading of the C++ text (together with clang's AST and CSem.lean).

Representation
* the heap is `Mem = List (List Nat)`: object number `h` of type `poly<T,Degree,NbModuli>` is the row `_data[0..]` at index `h`;
  a REFERENCE to a `poly` (what `expr::args` holds) is the object number, so two references alias iff the numbers are equal;
* a `T*` / an lvalue of type `T` inside a `poly` is `Ptr = (object number, element index)`; `&lv` and `*p` are the identity on it;
* an object of type `ops::expr<Op, A0, ..., Ak>` is the value of its only member `std::tuple<A0 const&, ...> args`:
  the right-nested product of the operands' representations (one operand: the operand itself); `std::get<I>` is the projection;
* `__m128i` seen as lanes of `T` is a `List Nat` (as in Model/Simd.lean, `Simd.Reg`).

Undefined behaviour: a load outside the row gives 0 and a store outside is dropped (`List.getD` / `List.set`); the aligned
SSE load/store intrinsics additionally require a 16-byte aligned address — the translator records this as a side condition
(`alignment_sites` in its summary); `_data` is `aligned(32)` and the index is a multiple of the lane count in `operator=`.
-/
namespace Nfl.CSemExpr

abbrev Mem := List (List Nat)
abbrev Ptr := Nat × Nat

/-- the lvalue `obj._data[i]` -/
def elemPtr (obj i : Nat) : Ptr := (obj, i)

/-- lvalue-to-rvalue conversion of `*p` -/
def loadCell (m : Mem) (p : Ptr) : Nat := (m.getD p.1 []).getD p.2 0

/-- `*p = v` -/
def storeCell (m : Mem) (p : Ptr) (v : Nat) : Mem := m.set p.1 ((m.getD p.1 []).set p.2 v)

/-- `_mm_load_si128((__m128i const*) p)` for `p : T const*`, `T` of `bits` bits: the `128 / bits` elements from `p` on -/
def mm_load_si128 (bits : Nat) (m : Mem) (p : Ptr) : List Nat :=
  (List.range (128 / bits)).map fun t => loadCell m (p.1, p.2 + t)

/-- `_mm_store_si128((__m128i*) p, v)`: lane `t` of `v` goes to `p[t]` -/
def storeLanes (m : Mem) (obj : Nat) : Nat → List Nat → Mem
  | _, [] => m
  | i, v :: vs => storeLanes (storeCell m (obj, i) v) obj (i + 1) vs

def mm_store_si128 (_bits : Nat) (m : Mem) (p : Ptr) (v : List Nat) : Mem := storeLanes m p.1 p.2 v

/-- `for (size_t v = v0; c v; v = inc v) s = body s v;` (no `return`/`break` in the body; the body does not assign `v`).
`fuel` = number of states of the (64-bit) loop variable; a terminating loop never exhausts it. -/
def forSt {σ : Type} (c : Nat → Bool) (inc : Nat → Nat) (body : σ → Nat → σ) : Nat → Nat → σ → σ
  | 0, _, s => s
  | fuel + 1, v, s => if c v then forSt c inc body fuel (inc v) (body s v) else s

/-- a definition of a local object with indeterminate contents `junk` (`poly c(...)` before the constructor body runs):
the new object number and the extended heap -/
def alloc (m : Mem) (junk : List Nat) : Mem × Nat := (m ++ [junk], m.length)

/-- `std::find_if(first, last, pred) != last` for pointers into one object: some element in `[first, last)` satisfies `pred` -/
def find_if_ne_last (m : Mem) (first last : Ptr) (pred : Nat → Bool) : Bool :=
  (List.range (last.2 - first.2)).any fun t => pred (loadCell m (first.1, first.2 + t))

/-- `bool` converted to an unsigned integer type -/
def ofBool (b : Bool) : Nat := if b then 1 else 0

/-! ### resolved types, as DATA -/

/-- functor templates of `nfl::ops` -/
inductive Fn | addmod | submod | mulmod | mulmod_shoup | shoup | compute_shoup | eqmod | neqmod
deriving DecidableEq, Repr

/-- a resolved operand type: `poly<…>` or `ops::expr<Op<T, tag>, Args…>` with `tag::mode` as written in the type and
`expr::simd_mode::mode` (= `Op::simd_mode::mode`) as clang resolved it (0 serial, 1 sse, 2 avx2) -/
inductive Ty
  | poly
  | node1 (fn : Fn) (tag simd : Nat) (a : Ty)
  | node2 (fn : Fn) (tag simd : Nat) (a b : Ty)
  | node3 (fn : Fn) (tag simd : Nat) (a b c : Ty)
deriving DecidableEq, Repr

/-- the expression as WRITTEN in the translation unit (callee names of the operator overloads); leaves are numbered -/
inductive Src
  | leaf (i : Nat)
  | add (a b : Src) | sub (a b : Src) | mul (a b : Src) | shoup (a b : Src) | compute_shoup (a : Src)
  | eq (a b : Src) | neq (a b : Src)
deriving DecidableEq, Repr

/-- what clang resolved for one assignment `d = <src>` -/
structure Resolved where
  backend : Nat        -- `CC_SIMD::mode` = `poly::simd_mode::mode`
  limbBits : Nat       -- bits of `T`
  src : Src
  ty : Ty              -- type of the right-hand side
  fused : Nat          -- number of `_make_op` calls that went to the `shoup(mulmod(a,b),c)` specialisation
  storeMode : Nat      -- `mode` of the class whose `store` the instantiated `operator=` calls (`E::simd_mode`)
  vectorSize : Nat     -- `E::simd_mode::elt_count<T>::value`
deriving Repr

end Nfl.CSemExpr
