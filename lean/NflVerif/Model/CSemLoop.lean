/-
Semantics of the C++ constructs that `tools/gen_nttloop_ast.py` meets, beyond `CSem.lean`, in the LOOP STRUCTURE of the scalar
transform (`ops::ntt_loop<simd::serial>::run`, `poly::core::ntt`, `poly::core::inv_ntt`).  Hand-written, core Lean only, TRUSTED
(together with clang's AST and `CSem.lean`).

Memory.  A pointer is a pair (base array, offset): the array is a `List Nat` (one word per cell), the offset a `Nat` counted in
elements.  `p[i]` / `*(p+i)` is the cell `offset + i` of the base array (`i` the value of the `size_t` index expression; pointer
arithmetic is exact, it does not wrap).  Distinct pointer PARAMETERS of a function are assumed to point into distinct arrays
(the data `x`, the two read-only tables, the local array `y`).  An access outside the array is undefined in C++; here a read
gives `0` and a write is dropped — the translator checks, by running the translated loop nest on the index expressions alone for
every degree 2^1 … 2^15, that no such access happens (and stops otherwise).

Loops.  `for (size_t v = a; v < b; v += s) body` with `a`, `b`, `s` not changed by the body and `v` only changed by the header
is the fold of the body over `v = a, a+s, …` (`tripCount a b s` values).  No wrap of `v` provided `b + s ≤ 2^64` (checked on the
concrete runs above).

Shifts by a run-time count.  `a << s` in `int`: undefined in C++ for `s ≥ 32` or if `a·2^s` is not representable; modelled as
wrap-around mod 2^32.  `a >> s` for unsigned `a` and `s` below the width is `CSem.shrU`.  The translator lists every such site
(`shift_sites`) and checks the counts on the concrete runs.
-/
namespace Nfl.CSemLoop

/-- `a << s` in `int` (residues mod 2^32), run-time count `s` -/
def shlS32v (a s : Nat) : Nat := (a * 2 ^ s) % 2 ^ 32

/-- number of iterations of `for (v = a; v < b; v += s)` (`s > 0`) -/
def tripCount (a b s : Nat) : Nat := (b - a + (s - 1)) / s

/-- `for (size_t v = a; v < b; v += s) st = body v st` -/
def forRange {σ : Type} (a b s : Nat) (body : Nat → σ → σ) (st : σ) : σ :=
  (List.range (tripCount a b s)).foldl (fun st t => body (a + s * t) st) st

/-- read of the cell `i` -/
def rd (m : List Nat) (i : Nat) : Nat := m.getD i 0

/-- write of the cell `i` -/
def wr (m : List Nat) (i v : Nat) : List Nat := m.set i v

example : tripCount 0 8 2 = 4 ∧ tripCount 0 7 2 = 4 ∧ tripCount 0 0 1 = 0 ∧ tripCount 3 2 1 = 0 := by decide
example : forRange 0 5 2 (fun v st => st ++ [v]) [] = [0, 2, 4] := by decide

end Nfl.CSemLoop
