/-
Node semantics of the C++ integer expressions that `tools/gen_ops_ast.py` meets in the clang AST of
NFLlib's scalar functors.  Hand-written, core Lean only.  This file (together with clang's AST) is the
TRUSTED reading of the C++ text: `Generated/OpsAst.lean` applies exactly one of these helpers per AST node.
`tools/gen_ntt_ast.py` (scalar NTT butterfly blocks, `Generated/NttAst.lean`) uses the same helpers plus the
`short` / `long` section below.

Representation
* a value of an unsigned type of `k` bits (`k = 16, 32, 64, 128`) is a `Nat < 2^k`;
* a value of (32-bit, two's complement) `int` is its residue mod `2^32`: `v ≥ 0 ↦ v`, `v < 0 ↦ v + 2^32`
  (`sval` is the inverse map);
* `bool` is `Bool`.
Every helper returns an in-range value whatever its arguments (it reduces its result), so no invariant has
to be carried through the generated code.

Undefined behaviour.  Signed overflow of `int` arithmetic is modelled as wrap-around (what gcc/clang emit
for these expressions on x86-64); the translator lists every `int` node whose mathematical result can leave
`[-2^31, 2^31)` as an `ub_wrap_assumed` site.  Division/remainder by zero is Lean's `n / 0 = 0`, `n % 0 = n`
(listed by the translator as `ub_div_sites`); shift counts are required by the translator to be compile-time
constants below the width of the promoted left operand.
-/
namespace Nfl.CSem

/-! ### unsigned `k`-bit types -/

/-- conversion of an unsigned value to an unsigned type of `k` bits (zero-extension or truncation) -/
def castU (k a : Nat) : Nat := a % 2 ^ k
def addU (k a b : Nat) : Nat := (a + b) % 2 ^ k
/-- `a - b` in an unsigned type of `k` bits (`a b < 2^k`) -/
def subU (k a b : Nat) : Nat := (a + 2 ^ k - b) % 2 ^ k
def mulU (k a b : Nat) : Nat := (a * b) % 2 ^ k
/-- `a / b`; C++: undefined for `b = 0` (here `0`) -/
def divU (k a b : Nat) : Nat := (a / b) % 2 ^ k
/-- `a % b`; C++: undefined for `b = 0` (here `a`) -/
def modU (k a b : Nat) : Nat := (a % b) % 2 ^ k
/-- `a << s`, `s` below the width (checked by the translator) -/
def shlU (k a s : Nat) : Nat := (a * 2 ^ s) % 2 ^ k
/-- `a >> s`, `s` below the width (checked by the translator) -/
def shrU (k a s : Nat) : Nat := (a / 2 ^ s) % 2 ^ k
def geU (a b : Nat) : Bool := decide (b ≤ a)
def gtU (a b : Nat) : Bool := decide (b < a)
def leU (a b : Nat) : Bool := decide (a ≤ b)
def ltU (a b : Nat) : Bool := decide (a < b)
def eqU (a b : Nat) : Bool := decide (a = b)
def neU (a b : Nat) : Bool := decide (a ≠ b)

/-! ### `int` (residues mod `2^32`) -/

/-- the signed value a residue stands for -/
def sval (a : Nat) : Int := if a % 2 ^ 32 < 2 ^ 31 then (a % 2 ^ 32 : Nat) else ((a % 2 ^ 32 : Nat) : Int) - 2 ^ 32

/-- unsigned (`k` bits) → `int`: value-preserving for `k < 32`, modular otherwise -/
def castUS (_k a : Nat) : Nat := a % 2 ^ 32
/-- `int` → unsigned of `k` bits: the value modulo `2^k` (sign-extension for `k > 32`) -/
def castSU (k a : Nat) : Nat :=
  if a % 2 ^ 32 < 2 ^ 31 then (a % 2 ^ 32) % 2 ^ k else (a % 2 ^ 32 + 2 ^ k * 2 ^ 32 - 2 ^ 32) % 2 ^ k
def addS32 (a b : Nat) : Nat := (a + b) % 2 ^ 32
def subS32 (a b : Nat) : Nat := (a % 2 ^ 32 + 2 ^ 32 - b % 2 ^ 32) % 2 ^ 32
def mulS32 (a b : Nat) : Nat := (a * b) % 2 ^ 32
/-- order-preserving map `int → [0, 2^32)` (flip the sign bit) -/
def bias (a : Nat) : Nat := (a + 2 ^ 31) % 2 ^ 32
/-- signed comparisons -/
def geS32 (a b : Nat) : Bool := decide (bias b ≤ bias a)
def gtS32 (a b : Nat) : Bool := decide (bias b < bias a)
def leS32 (a b : Nat) : Bool := decide (bias a ≤ bias b)
def ltS32 (a b : Nat) : Bool := decide (bias a < bias b)
def eqS32 (a b : Nat) : Bool := decide (a % 2 ^ 32 = b % 2 ^ 32)
def neS32 (a b : Nat) : Bool := decide (a % 2 ^ 32 ≠ b % 2 ^ 32)

/-- `bias` really is the signed order: sanity check of the comparison helpers -/
theorem bias_le_iff (a b : Nat) : bias a ≤ bias b ↔ sval a ≤ sval b := by
  unfold bias sval
  split <;> split <;> omega

/-- the residue map is the two's complement encoding -/
theorem sval_castUS_of_lt (k a : Nat) (h : a < 2 ^ 31) : sval (castUS k a) = a := by
  unfold sval castUS; split <;> omega

/-! ### signed types of `k` bits other than `int` (`short`, `long`): residues mod `2^k`

Met by `tools/gen_ntt_ast.py` in the sign tests `(signed_value_type) v < 0` of the NTT butterflies.
A value of a signed `k`-bit type is its residue mod `2^k` (`svalW k` is the inverse map), as for `int`.
Unsigned → signed conversion of an out-of-range value is modular (implementation-defined before C++20,
two's complement on every supported compiler; the only behaviour since C++20). -/

/-- the signed value a `k`-bit residue stands for -/
def svalW (k a : Nat) : Int :=
  if a % 2 ^ k < 2 ^ (k - 1) then (a % 2 ^ k : Nat) else ((a % 2 ^ k : Nat) : Int) - 2 ^ k
/-- unsigned (any width) → signed type of `k` bits: the value modulo `2^k` -/
def castUSw (k a : Nat) : Nat := a % 2 ^ k
/-- signed `j` bits → signed `k` bits: sign extension (`k > j`) or truncation -/
def castSS (j k a : Nat) : Nat :=
  if a % 2 ^ j < 2 ^ (j - 1) then (a % 2 ^ j) % 2 ^ k else (a % 2 ^ j + 2 ^ k * 2 ^ j - 2 ^ j) % 2 ^ k
/-- order-preserving map of the signed `k`-bit values onto `[0, 2^k)` (flip the sign bit) -/
def biasW (k a : Nat) : Nat := (a + 2 ^ (k - 1)) % 2 ^ k
/-- comparisons in a signed type of `k` bits -/
def geS (k a b : Nat) : Bool := decide (biasW k b ≤ biasW k a)
def gtS (k a b : Nat) : Bool := decide (biasW k b < biasW k a)
def leS (k a b : Nat) : Bool := decide (biasW k a ≤ biasW k b)
def ltS (k a b : Nat) : Bool := decide (biasW k a < biasW k b)
def eqS (k a b : Nat) : Bool := decide (a % 2 ^ k = b % 2 ^ k)
def neS (k a b : Nat) : Bool := decide (a % 2 ^ k ≠ b % 2 ^ k)

/-- `biasW` really is the signed order (sanity check of the comparison helpers), for the widths in use -/
theorem biasW_lt_iff_16 (a b : Nat) : biasW 16 a < biasW 16 b ↔ svalW 16 a < svalW 16 b := by
  unfold biasW svalW
  split <;> split <;> omega
theorem biasW_lt_iff_64 (a b : Nat) : biasW 64 a < biasW 64 b ↔ svalW 64 a < svalW 64 b := by
  unfold biasW svalW
  split <;> split <;> omega
/-- `short → int` keeps the signed value -/
theorem sval_castSS_16_32 (a : Nat) : sval (castSS 16 32 a) = svalW 16 a := by
  unfold sval castSS svalW
  split <;> split <;> omega
/-- `int → long` keeps the signed value -/
theorem svalW_castSS_32_64 (a : Nat) : svalW 64 (castSS 32 64 a) = sval a := by
  unfold sval castSS svalW
  split <;> split <;> omega

/-! ### loops -/

/-- `while (c s) s = body s;` run for at most `fuel` iterations.  The translator passes as fuel the number
of states of the variables the loop assigns (`2^k` for one `k`-bit variable): a deterministic loop that
terminates cannot visit a state twice, so it terminates within that many iterations and the fuel is never
exhausted on a terminating run. -/
def whileFuel {σ : Type} (c : σ → Bool) (body : σ → σ) : Nat → σ → σ
  | 0, s => s
  | fuel + 1, s => if c s then whileFuel c body fuel (body s) else s

end Nfl.CSem
