/-
Helpers of the source-level translation of the vector kernels (`tools/gen_simd_ast.py` →
`Generated/SimdAst.lean`).  Core Lean only.

* `relane a b`: the same register bits read as lanes of `b` bits instead of lanes of `a` bits (little endian).
  C++ has no counterpart (`__m128i` is untyped, casts between `__m128i`/`__m128`/`__v4si` keep the bits); the
  translator knows the lane width each intrinsic produces and reads (from its NAME) and inserts `relane` where
  they differ.  It is proved below to be the hand model's special-purpose view functions
  (`view32of64`, `view64of32`, `to64`, `from64`).
* integer conversions the scalar translator's `CSem.lean` does not have (`short`, `long long`; a signed type of
  `k` bits is represented by its residue mod `2^k`, as `int` is in `CSem`).
-/
import NflVerif.Model.Simd

namespace Nfl.SimdView
open Nfl Nfl.Simd

/-- `n` lanes of `a·k` bits from groups of `k` lanes of `a` bits -/
def widen (a k : Nat) : Nat → Reg → Reg
  | 0, _ => []
  | n + 1, v => packLE a (v.take k) :: widen a k n (v.drop k)

/-- lanes of `a` bits re-read as lanes of `b` bits (`a ∣ b` or `b ∣ a`; an incomplete trailing group is dropped) -/
def relane (a b : Nat) (v : Reg) : Reg :=
  if a = b then v
  else if a < b then widen a (b / a) (v.length / (b / a)) v
  else v.flatMap (unpackLE b (a / b))

theorem relane_self (a : Nat) (v : Reg) : relane a a v = v := by simp [relane]

/-- 64-bit lanes read as 32-bit lanes: the hand model's `view32of64` -/
theorem relane_64_32 (v : Reg) : relane 64 32 v = view32of64 v := by
  induction v with
  | nil => simp [relane, view32of64]
  | cons x r ih =>
    simp only [relane] at ih ⊢
    simp only [show (64 : Nat) ≠ 32 by decide, show ¬ (64 : Nat) < 32 by decide, if_false, List.flatMap_cons] at ih ⊢
    rw [ih]
    simp [view32of64, unpackLE]

theorem widen_to64 (w : Nat) : ∀ (n : Nat) (v : Reg), widen w (64 / w) n v = to64 w n v
  | 0, _ => by simp [widen, to64]
  | n + 1, v => by simp [widen, to64, widen_to64 w n]

/-- narrower lanes read as 64-bit lanes: the hand model's `to64` with the number of complete groups -/
theorem relane_to64 (w : Nat) (hw : w < 64) (v : Reg) : relane w 64 v = to64 w (v.length / (64 / w)) v := by
  simp [relane, Nat.ne_of_lt hw, hw, widen_to64]

/-- 64-bit lanes read as narrower lanes: the hand model's `from64` -/
theorem relane_from64 (w : Nat) (hw : w < 64) (v : Reg) : relane 64 w v = from64 w v := by
  have h1 : (64 : Nat) ≠ w := by omega
  have h2 : ¬ (64 : Nat) < w := by omega
  simp [relane, h1, h2, from64]

theorem widen_32_2 : ∀ (v : Reg), widen 32 2 (v.length / 2) v = view64of32 v
  | [] => by simp [widen, view64of32]
  | [_] => by simp [widen, view64of32]
  | lo :: hi :: r => by
    have h : (lo :: hi :: r).length / 2 = r.length / 2 + 1 := by simp; omega
    rw [h]
    simp [widen, view64of32, packLE, widen_32_2 r]

/-- 32-bit lanes read as 64-bit lanes: the hand model's `view64of32` -/
theorem relane_32_64 (v : Reg) : relane 32 64 v = view64of32 v := by
  simp [relane, widen_32_2]

/-! ### integer conversions (values of a `k`-bit integer type, signed or not, are residues mod `2^k`) -/

/-- unsigned (any width; value `a`) → signed type of `k` bits -/
def castUSk (k a : Nat) : Nat := a % 2 ^ k

/-- signed `k1` bits → signed `k2` bits: truncation, or sign extension -/
def castSS (k1 k2 a : Nat) : Nat :=
  if k2 ≤ k1 then a % 2 ^ k2
  else if a % 2 ^ k1 < 2 ^ (k1 - 1) then a % 2 ^ k1 else a % 2 ^ k1 + 2 ^ k2 - 2 ^ k1

/-- `a << s` in `int` (`s < 32` constant; C++: undefined when the result does not fit, here wrap-around) -/
def shlS32 (a s : Nat) : Nat := (a * 2 ^ s) % 2 ^ 32

/-- `a | b` of two `k`-bit values (only constants: the immediates `1 | (0 << 2) | (3 << 4) | (2 << 6)`) -/
def orC (k a b : Nat) : Nat := (a ||| b) % 2 ^ k

end Nfl.SimdView
