/-
Executable model of the SSE / AVX2 kernels of `include/nfl/opt/arch/sse.hpp` and `avx2.hpp` at the
level of the x86 intrinsics they are written with.

A register is a `List Nat` of lanes together with a lane width that is explicit at every use
(`Reg`; a `__m128i` is 8×16, 4×32 or 2×64 bit, a `__m256i` 16×16, 8×32 or 4×64 bit, lane 0 first =
lowest address, little endian).  C++ does not distinguish the views (`__m128i` is untyped); here a
change of view is an explicit function (`view64of32`, `view32of64`, `to64`, `from64`).

Every intrinsic is modelled on its own (section *intrinsics*), the kernels are then written exactly as
the C++ composes the intrinsics (section *kernels*), the transform loops as in `ntt_loop_sse_unrolled`
and `ntt_loop_avx2_unrolled` (section *loops*).  Where the AVX2 source is literally the SSE source with
`_mm256_` for `_mm_` the model is one function with the lane count as parameter.

What is NOT modelled: alignment requirements of `_mm_load_si128` / `_mm256_load_si256` (the loops only
ever load at offsets that are multiples of the lane count inside 32-byte aligned arrays), instruction
selection by the compiler.  The correspondence stream `harness/simd.cpp` executes every intrinsic and
every kernel on the CPU and compares with the functions of this file.

Core Lean only (the driver links this file).
-/
import NflVerif.Model.Ops
import NflVerif.Model.Ntt

namespace Nfl.Simd
open Nfl

abbrev Reg := List Nat

/-! ## intrinsics -/

/-- all-ones lane -/
def ones (w : Nat) : Nat := 2 ^ w - 1

/-- two's complement reading of a `w`-bit lane -/
def toSigned (w : Nat) (a : Nat) : Int := if a < 2 ^ (w - 1) then (a : Int) else (a : Int) - (2 ^ w : Nat)

/-- `_mm_set1_epi16/32`, `_mm_set1_epi64x`, `_mm256_set1_…`: `n` lanes holding the argument truncated
to the lane width (the C++ argument is converted to `short` / `int` / `long long`). -/
def set1 (w n v : Nat) : Reg := List.replicate n (v % 2 ^ w)

/-- `_mm[256]_add_epi16/32/64` -/
def add (w : Nat) (a b : Reg) : Reg := List.zipWith (fun x y => (x + y) % 2 ^ w) a b

/-- `_mm[256]_sub_epi16/32/64` -/
def sub (w : Nat) (a b : Reg) : Reg := List.zipWith (subWrap (2 ^ w)) a b

/-- `_mm[256]_mullo_epi16/32`: low half of the lane product -/
def mullo (w : Nat) (a b : Reg) : Reg := List.zipWith (fun x y => (x * y) % 2 ^ w) a b

/-- `_mm[256]_mulhi_epu16`: high half of the unsigned 16×16 product -/
def mulhiEpu16 (a b : Reg) : Reg := List.zipWith (fun x y => (x * y) / 2 ^ 16 % 2 ^ 16) a b

/-- `_mm[256]_cmpgt_epi16/32/64`: SIGNED greater-than, all-ones or zero -/
def cmpgt (w : Nat) (a b : Reg) : Reg :=
  List.zipWith (fun x y => if toSigned w x > toSigned w y then ones w else 0) a b

/-- `_mm_and_si128`, `_mm256_and_si256` (bitwise, hence the same in every lane view) -/
def and (a b : Reg) : Reg := List.zipWith (fun x y => x &&& y) a b

/-- reinterpret 32-bit lanes as 64-bit lanes (little endian: even lane = low half) -/
def view64of32 : Reg → Reg
  | lo :: hi :: r => (lo + 2 ^ 32 * hi) :: view64of32 r
  | _ => []

/-- reinterpret 64-bit lanes as 32-bit lanes -/
def view32of64 : Reg → Reg
  | [] => []
  | v :: r => v % 2 ^ 32 :: v / 2 ^ 32 % 2 ^ 32 :: view32of64 r

/-- `_mm[256]_mul_epu32`: 32-bit lanes in, 64-bit lanes out — the low 32 bits of every 64-bit lane of
both operands are multiplied to a full 64-bit product (the odd 32-bit lanes are ignored). -/
def mulEpu32 (a b : Reg) : Reg :=
  List.zipWith (fun u v => (u % 2 ^ 32) * (v % 2 ^ 32)) (view64of32 a) (view64of32 b)

/-- `_mm[256]_srli_epi64(v, n)` on 64-bit lanes -/
def srli64 (n : Nat) (v : Reg) : Reg := v.map (fun x => x / 2 ^ n)

/-- `_mm[256]_slli_epi64(v, n)` on 64-bit lanes -/
def slli64 (n : Nat) (v : Reg) : Reg := v.map (fun x => x * 2 ^ n % 2 ^ 64)

def sel4 (a0 a1 a2 a3 i : Nat) : Nat :=
  match i % 4 with
  | 0 => a0
  | 1 => a1
  | 2 => a2
  | _ => a3

/-- `_mm[256]_shuffle_epi32(v, imm)`: inside every group of four 32-bit lanes (one 128-bit half),
result lane `i` is source lane `(imm >> 2i) & 3`. -/
def shuffleEpi32 (imm : Nat) : Reg → Reg
  | a0 :: a1 :: a2 :: a3 :: r =>
    sel4 a0 a1 a2 a3 imm :: sel4 a0 a1 a2 a3 (imm / 4) :: sel4 a0 a1 a2 a3 (imm / 16)
      :: sel4 a0 a1 a2 a3 (imm / 64) :: shuffleEpi32 imm r
  | _ => []

/-- the immediate written `1 | (0 << 2) | (3 << 4) | (2 << 6)` in the sources -/
def immB1 : Nat := 0xB1

/-- `_mm_blend_ps(a, b, mask)` / `_mm256_blend_ps`: 32-bit lane `i` from `b` if bit `i` of the mask is
set, else from `a`. -/
def blendPs : Nat → Reg → Reg → Reg
  | m, x :: a, y :: b => (if m % 2 = 1 then y else x) :: blendPs (m / 2) a b
  | _, _, _ => []

/-- `_mm_cvtepu16_epi32`: the low four 16-bit lanes zero-extended to four 32-bit lanes -/
def cvtepu16_128 (v : Reg) : Reg := v.take 4

/-- `_mm256_cvtepu16_epi32`: eight 16-bit lanes of a `__m128i` zero-extended to eight 32-bit lanes -/
def cvtepu16_256 (v : Reg) : Reg := v.take 8

/-- signed 32-bit → unsigned 16-bit saturation -/
def satU16 (v : Nat) : Nat :=
  let s := toSigned 32 v
  if s < 0 then 0 else if s > 65535 then 65535 else s.toNat

/-- `_mm_packus_epi32(a, b)`: 4+4 signed 32-bit lanes → 8 unsigned-saturated 16-bit lanes -/
def packus32 (a b : Reg) : Reg := (a ++ b).map satU16

/-- `_mm_srli_si128(v, 8)` seen on `w`-bit lanes: the upper 8 bytes move down, zeros enter -/
def srliSi128_8 (w : Nat) (v : Reg) : Reg := v.drop (64 / w) ++ List.replicate (64 / w) 0

/-- one 128-bit half (4×32-bit lanes) selected by a 4-bit control of `_mm256_permute2x128_si256` -/
def permSel (a b : Reg) (c : Nat) : Reg :=
  if c / 8 % 2 = 1 then List.replicate 4 0
  else match c % 4 with
    | 0 => a.take 4
    | 1 => a.drop 4
    | 2 => b.take 4
    | _ => b.drop 4

/-- `_mm256_permute2x128_si256(a, b, imm)` on 8×32-bit lanes -/
def permute2x128 (a b : Reg) (imm : Nat) : Reg := permSel a b (imm % 16) ++ permSel a b (imm / 16 % 16)

/-- `_mm256_castsi256_si128` on 32-bit lanes: the low half -/
def cast256to128 (v : Reg) : Reg := v.take 4

/-! ### comparison of whole registers (GCC vector extension on `long long` vectors) -/

/-- little-endian value of a group of `w`-bit lanes -/
def packLE (w : Nat) : List Nat → Nat
  | [] => 0
  | a :: r => a + 2 ^ w * packLE w r

/-- `m` lanes of `w` bits of a value -/
def unpackLE (w : Nat) : Nat → Nat → List Nat
  | 0, _ => []
  | m + 1, v => v % 2 ^ w :: unpackLE w m (v / 2 ^ w)

/-- `n` 64-bit lanes of a register given as `w`-bit lanes -/
def to64 (w : Nat) : Nat → Reg → Reg
  | 0, _ => []
  | n + 1, v => packLE w (v.take (64 / w)) :: to64 w n (v.drop (64 / w))

/-- 64-bit lanes stored to memory and read back as `w`-bit elements -/
def from64 (w : Nat) (v : Reg) : Reg := v.flatMap (unpackLE w (64 / w))

/-- `x == y` on `__m128i` / `__m256i`: 64-bit lanes, all-ones where equal -/
def vecEq64 (a b : Reg) : Reg := List.zipWith (fun x y => if x = y then ones 64 else 0) a b

/-- `x != y` on `__m128i` / `__m256i` -/
def vecNeq64 (a b : Reg) : Reg := List.zipWith (fun x y => if x = y then 0 else ones 64) a b

/-! ## kernels -/

/-- `mulhi_epu32` (sse.hpp, mask `0b1010`) and `avx2_mulhi_epu32` (avx2.hpp, mask `0b10101010`):
32-bit lanes in, 32-bit lanes out. -/
def mulhiEpu32 (mask : Nat) (a b : Reg) : Reg :=
  let mullow := srli64 32 (mulEpu32 a b)
  let a' := shuffleEpi32 immB1 a
  let b' := shuffleEpi32 immB1 b
  let mulhigh := mulEpu32 a' b'
  blendPs mask (view32of64 mullow) (view32of64 mulhigh)

def sseMulhiEpu32 : Reg → Reg → Reg := mulhiEpu32 0b1010
def avx2MulhiEpu32 : Reg → Reg → Reg := mulhiEpu32 0b10101010

/-- the constant `p - 0x80… - 1` evaluated in the lane type -/
def cmpConst (w v : Nat) : Nat := subWrap (2 ^ w) (subWrap (2 ^ w) v (2 ^ (w - 1))) 1

/-- `addmod<uint16_t|uint32_t, sse|avx2>` with `L` lanes of `w` bits -/
def vecAddmod (w L p : Nat) (x y : Reg) : Reg :=
  let vp := set1 w L p
  let vpc := set1 w L (cmpConst w p)
  let v80 := set1 w L (2 ^ (w - 1))
  let z := add w x y
  let cmp := cmpgt w (sub w z v80) vpc
  sub w z (and cmp vp)

/-- `submod<uint16_t|uint32_t, sse|avx2>` -/
def vecSubmod (w L p : Nat) (x y : Reg) : Reg :=
  let vp := set1 w L p
  vecAddmod w L p x (sub w vp y)

def sseAddmod32 := vecAddmod 32 4
def sseAddmod16 := vecAddmod 16 8
def avx2Addmod32 := vecAddmod 32 8
def avx2Addmod16 := vecAddmod 16 16
def sseSubmod32 := vecSubmod 32 4
def sseSubmod16 := vecSubmod 16 8
def avx2Submod32 := vecSubmod 32 8
def avx2Submod16 := vecSubmod 16 16

/-- `mulmod_shoup<uint32_t,sse>::finish`: 32-bit lanes in (only the even ones are used), 64-bit lanes out -/
def finish32 (x y q vp32 vp64 vpc64 v80 : Reg) : Reg :=
  let res := sub 64 (mulEpu32 x y) (mulEpu32 q vp32)
  let cmp := cmpgt 64 (sub 64 res v80) vpc64
  sub 64 res (and cmp vp64)

/-- `mulmod_shoup<uint32_t,sse>::shuffle_lh` -/
def shuffleLh : Reg → Reg := shuffleEpi32 immB1

/-- `mulmod_shoup<uint32_t,sse>::operator()` (also used by the AVX2 build: `mulmod_shoup<T,avx2> :
mulmod_shoup<T,sse>`), four 32-bit lanes. -/
def sseMulmodShoup32 (p : Nat) (x y y' : Reg) : Reg :=
  let vp32 := set1 32 4 p
  let vp64 := set1 64 2 p
  let vpc64 := set1 64 2 (cmpConst 64 p)
  let v80 := set1 64 2 (2 ^ 63)
  let q := sseMulhiEpu32 x y'
  let res1 := finish32 x y q vp32 vp64 vpc64 v80
  let res2 := finish32 (shuffleLh x) (shuffleLh y) (shuffleLh q) vp32 vp64 vpc64 v80
  let res2 := slli64 32 res2
  blendPs 0b1010 (view32of64 res1) (view32of64 res2)

/-- `mulmod_shoup<uint16_t,sse>::finish` (`cvt = cvtepu16_128`, 4 lanes) and the arithmetic part of
`mulmod_shoup<uint16_t,avx2>::finish` (`cvt = cvtepu16_256`, 8 lanes): 16-bit lanes in, 32-bit lanes out -/
def finish16 (cvt : Reg → Reg) (x y q vp32 vpc32 v80 : Reg) : Reg :=
  let x32 := cvt x
  let y32 := cvt y
  let q32 := cvt q
  let res := sub 32 (mullo 32 x32 y32) (mullo 32 q32 vp32)
  let cmp := cmpgt 32 (sub 32 res v80) vpc32
  sub 32 res (and cmp vp32)

/-- `shift8` -/
def shift8 : Reg → Reg := srliSi128_8 16

/-- `mulmod_shoup<uint16_t,sse>::operator()`, eight 16-bit lanes -/
def sseMulmodShoup16 (p : Nat) (x y y' : Reg) : Reg :=
  let vp32 := set1 32 4 p
  let vpc32 := set1 32 4 (cmpConst 32 p)
  let v80 := set1 32 4 (2 ^ 31)
  let q := mulhiEpu16 x y'
  let res1 := finish16 cvtepu16_128 x y q vp32 vpc32 v80
  let res2 := finish16 cvtepu16_128 (shift8 x) (shift8 y) (shift8 q) vp32 vpc32 v80
  packus32 res1 res2

/-- `mulmod_shoup<uint16_t,avx2>::operator()`: eight 16-bit lanes in a `__m128i`, arithmetic in a `__m256i` -/
def avx2MulmodShoup16 (p : Nat) (x y y' : Reg) : Reg :=
  let vp32 := set1 32 8 p
  let vpc32 := set1 32 8 (cmpConst 32 p)
  let v80 := set1 32 8 (2 ^ 31)
  let q := mulhiEpu16 x y'
  let tmp1 := finish16 cvtepu16_256 x y q vp32 vpc32 v80
  let tmp2 := permute2x128 tmp1 tmp1 1
  packus32 (cast256to128 tmp1) (cast256to128 tmp2)

/-- `muladd_shoup<uint16_t,sse>::finish`: note `_mm_add_epi32(sse_res, sse_80)` where every other kernel
subtracts. -/
def finishMuladd16Sse (rop x y q vp32 vpc32 v80 : Reg) : Reg :=
  let x32 := cvtepu16_128 x
  let y32 := cvtepu16_128 y
  let q32 := cvtepu16_128 q
  let rop32 := cvtepu16_128 rop
  let res := add 32 rop32 (sub 32 (mullo 32 x32 y32) (mullo 32 q32 vp32))
  let cmp := cmpgt 32 (add 32 res v80) vpc32
  sub 32 res (and cmp vp32)

/-- `muladd_shoup<uint16_t,sse>::operator()` -/
def sseMuladdShoup16 (p : Nat) (rop x y y' : Reg) : Reg :=
  let vp32 := set1 32 4 p
  let vpc32 := set1 32 4 (cmpConst 32 p)
  let v80 := set1 32 4 (2 ^ 31)
  let q := mulhiEpu16 x y'
  let res1 := finishMuladd16Sse rop x y q vp32 vpc32 v80
  let res2 := finishMuladd16Sse (shift8 rop) (shift8 x) (shift8 y) (shift8 q) vp32 vpc32 v80
  packus32 res1 res2

/-- arithmetic part of `muladd_shoup<uint16_t,avx2>::finish` -/
def finishMuladd16Avx2 (rop x y q vp32 vpc32 v80 : Reg) : Reg :=
  let x32 := cvtepu16_256 x
  let y32 := cvtepu16_256 y
  let q32 := cvtepu16_256 q
  let rop32 := cvtepu16_256 rop
  let res := add 32 rop32 (sub 32 (mullo 32 x32 y32) (mullo 32 q32 vp32))
  let cmp := cmpgt 32 (sub 32 res v80) vpc32
  sub 32 res (and cmp vp32)

/-- `muladd_shoup<uint16_t,avx2>::operator()` -/
def avx2MuladdShoup16 (p : Nat) (rop x y y' : Reg) : Reg :=
  let vp32 := set1 32 8 p
  let vpc32 := set1 32 8 (cmpConst 32 p)
  let v80 := set1 32 8 (2 ^ 31)
  let q := mulhiEpu16 x y'
  let tmp1 := finishMuladd16Avx2 rop x y q vp32 vpc32 v80
  let tmp2 := permute2x128 tmp1 tmp1 1
  packus32 (cast256to128 tmp1) (cast256to128 tmp2)

/-- `ntt_loop_body<sse|avx2, poly, uint16_t|uint32_t>`: constructor constants and `operator()`;
returns what is stored to `x0` and to `x1`.  Argument order as in the C++ (`winvtab` before `wtab`). -/
def vecBfly (w L : Nat) (mulhi : Reg → Reg → Reg) (p : Nat) (u0 u1 winvtab wtab : Reg) : Reg × Reg :=
  let v2p := set1 w L (2 * p)
  let vp := set1 w L p
  let v80 := set1 w L (2 ^ (w - 1))
  let v2pc := set1 w L (cmpConst w (2 * p))
  let t1 := add w v2p (sub w u0 u1)
  let q := mulhi t1 winvtab
  let t2 := sub w (mullo w t1 wtab) (mullo w q vp)
  let t0 := add w u0 u1
  let cmp := cmpgt w (sub w t0 v80) v2pc
  let t0 := sub w t0 (and cmp v2p)
  (t0, t2)

def sseBfly32 := vecBfly 32 4 sseMulhiEpu32
def sseBfly16 := vecBfly 16 8 mulhiEpu16
def avx2Bfly32 := vecBfly 32 8 avx2MulhiEpu32
def avx2Bfly16 := vecBfly 16 16 mulhiEpu16

/-- lanes per register -/
def sseLanes (w : Nat) : Nat := 128 / w
def avx2Lanes (w : Nat) : Nat := 256 / w

/-- the SSE / AVX2 loop body for limb width `w` (16, otherwise 32) -/
def sseBody (w p : Nat) : Reg → Reg → Reg → Reg → Reg × Reg :=
  if w = 16 then sseBfly16 p else sseBfly32 p
def avx2Body (w p : Nat) : Reg → Reg → Reg → Reg → Reg × Reg :=
  if w = 16 then avx2Bfly16 p else avx2Bfly32 p

/-! ## loops -/

abbrev Body := Reg → Reg → Reg → Reg → Reg × Reg

/-- `for (i = …; …; i += L) body(&x0[i], &x1[i], &winvtab[i], &wtab[i])`, `n` iterations on the two
halves of a block (`a0`, `a1`) and the table pointers; after the loop `rest` handles what is left
(identity for SSE; the single SSE call of the AVX2 loop).  Stores go to disjoint chunks, so the
result is the concatenation of the chunks. -/
def chunkLoop (L : Nat) (body : Body) (rest : Body) : Nat → Reg → Reg → Reg → Reg → Reg × Reg
  | 0, a0, a1, ws', ws => rest a0 a1 ws' ws
  | n + 1, a0, a1, ws', ws =>
    let (t0, t2) := body (a0.take L) (a1.take L) (ws'.take L) (ws.take L)
    let (r0, r1) := chunkLoop L body rest n (a0.drop L) (a1.drop L) (ws'.drop L) (ws.drop L)
    (t0 ++ r0, t2 ++ r1)

/-- nothing left to do: untouched elements keep their value -/
def keep : Body := fun a0 a1 _ _ => (a0, a1)

/-- one block of one vector layer of `ntt_loop_sse_unrolled`: `for (i = 0; i < N/2; i += L) body_sse(…)`.
(`⌈(N/2)/L⌉` iterations; in every layer this loop is used for, `N/2 ≥ 8` is a multiple of `L`.) -/
def sseBlock (body : Body) (L : Nat) (ws ws' b : List Nat) : List Nat :=
  let h := b.length / 2
  let (lo, hi) := chunkLoop L body keep ((h + L - 1) / L) (b.take h) (b.drop h) ws' ws
  lo ++ hi

/-- one block of one vector layer of `ntt_loop_avx2_unrolled`: `Navx2 = ((N/2)/La)*La`, AVX2 bodies up to
`Navx2`, then `if (Navx2 != N/2)` ONE SSE body at `i = Navx2`. -/
def avx2Block (bodyA bodyS : Body) (La Ls : Nat) (ws ws' b : List Nat) : List Nat :=
  let h := b.length / 2
  let n := h / La
  let rest : Body := fun a0 a1 ws' ws =>
    if n * La ≠ h then chunkLoop Ls bodyS keep 1 a0 a1 ws' ws else (a0, a1)
  let (lo, hi) := chunkLoop La bodyA rest n (b.take h) (b.drop h) ws' ws
  lo ++ hi

/-- `ntt_loop_sse_unrolled::run` / `ntt_loop_avx2_unrolled::run` with `vblk` the vector block:
layers `w = 0 … J-2` with the vector block, layer `J-1` with the serial body (`layerBlock`), table
pointers advanced by `N/2` per layer.  Same shape and result type as `nttLoop`. -/
def nttLoopVec (w p : Nat) (vblk : List Nat → List Nat → List Nat → List Nat) :
    Nat → Nat → Nat → List Nat → List Nat → List Nat → List Nat × List Nat × List Nat
  | 0, _, _, wt, wt', x => (x, wt, wt')
  | 1, N, M, wt, wt', x =>
    (mapBlocks N (layerBlock w p (wt.take (N / 2)) (wt'.take (N / 2))) M x, wt.drop (N / 2), wt'.drop (N / 2))
  | j + 2, N, M, wt, wt', x =>
    nttLoopVec w p vblk (j + 1) (N / 2) (2 * M) (wt.drop (N / 2)) (wt'.drop (N / 2))
      (mapBlocks N (vblk (wt.take (N / 2)) (wt'.take (N / 2))) M x)

def nttLoopSse (w p : Nat) := nttLoopVec w p (sseBlock (sseBody w p) (sseLanes w))

def nttLoopAvx2 (w p : Nat) :=
  nttLoopVec w p (avx2Block (avx2Body w p) (sseBody w p) (avx2Lanes w) (sseLanes w))

/-- `core::ntt` of a build whose `CC_SIMD` loop is `loop` (`w ∈ {16,32}`).  `ntt_loop_*_unrolled` has
`constexpr size_t w = J-1; constexpr size_t M = 1 << w;` with `J = log2(degree) - 2`: for
`degree < 8` this is not a constant expression and the build is rejected by the compiler — `none`. -/
def nttWordVec (w p k : Nat)
    (loop : Nat → Nat → Nat → List Nat → List Nat → List Nat → List Nat × List Nat × List Nat)
    (wt wt' : List Nat) (x : List Nat) : Option (List Nat) :=
  match k with
  | k' + 3 =>
    let (y, wt2, wt2') := loop (k' + 1) (2 ^ (k' + 3)) 1 wt wt' x
    let z := mapBlocks 4 (fused4 w p (wt2.getD 1 0) (wt2'.getD 1 0)) (2 ^ (k' + 1)) y
    some (z.map (strictRed p))
  | _ => none

def nttWordSse (w p k : Nat) := nttWordVec w p k (nttLoopSse w p)
def nttWordAvx2 (w p k : Nat) := nttWordVec w p k (nttLoopAvx2 w p)

/-! ## `expr::operator bool` (ops.hpp) -/

/-- the scan of the stored elements: `if (is_eq ? !tmp[k] : !!tmp[k]) return !is_eq;` — `some b` = return `b` -/
def scanTmp (isEq : Bool) : List Nat → Option Bool
  | [] => none
  | t :: r => if (if isEq then t = 0 else t ≠ 0) then some (!isEq) else scanTmp isEq r

/-- `expr<eqmod|neqmod<T,sse|avx2>, …>::operator bool` over the `n` registers (`L` elements of `w` bits
each) of all modulus slices of the two operands (slices are contiguous and a multiple of `L` long, so
the `cm`/`j` double loop is one walk over the flat element list). -/
def exprBoolVec (isEq : Bool) (w L : Nat) : Nat → List Nat → List Nat → Bool
  | 0, _, _ => isEq
  | n + 1, X, Y =>
    let a := to64 w (L * w / 64) (X.take L)
    let b := to64 w (L * w / 64) (Y.take L)
    let tmp := from64 w (if isEq then vecEq64 a b else vecNeq64 a b)
    match scanTmp isEq tmp with
    | some r => r
    | none => exprBoolVec isEq w L n (X.drop L) (Y.drop L)

/-- the serial build: one element per iteration, `tmp[0] = (x == y)` resp. `(x != y)` -/
def exprBoolScalar (isEq : Bool) : List Nat → List Nat → Bool
  | x :: X, y :: Y =>
    match scanTmp isEq [if isEq then eqmod x y else neqmod x y] with
    | some r => r
    | none => exprBoolScalar isEq X Y
  | _, _ => isEq

end Nfl.Simd
