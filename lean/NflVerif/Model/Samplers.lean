/-
Model of everything in `nfl/core.hpp` / `nfl/gmp.hpp` that *creates* a polynomial (C09, C12).

Every creator is a PURE function of its parameters and of the random **tape**: the byte strings that the
successive calls of `nfl::fastrandombytes(unsigned char*, unsigned long long)` return, in call order.
Nothing else is random in the code.  Words are assembled little-endian (x86-64; the code `memcpy`s /
casts the byte buffer to `value_type*`, `uint8_t*` or `size_t*`).

Conventions
* a polynomial is `List (List Nat)` : `out[cm][i]` = `_data[cm*degree + i]`;
* `w` = limb width (16/32/64), `n` = degree, `ps` = the moduli `get_modulus(0..nmoduli-1)`;
* a request that is shorter than what the code reads is read as zero-padded.  The real
  `fastrandombytes` always fills the buffer; the driver rejects harness lines whose recorded requests
  do not have exactly the lengths `…Requests` below, and all theorems are ∀ tape, so zero-padding only
  adds cases;
* `uint64_t` arithmetic is `% 2^64`, stores to `value_type` are `% 2^w`, written out wherever the C++
  can wrap.  CORE LEAN ONLY (the driver links this file).
-/
namespace Nfl.Samplers

abbrev Tape := List (List Nat)
abbrev Poly := List (List Nat)

def u64 : Nat := 2 ^ 64

/-- little-endian value of a byte string -/
def leWord : List Nat → Nat
  | [] => 0
  | b :: bs => b % 256 + 256 * leWord bs

/-- the `j`-th `wb`-byte word of a request buffer -/
def wordAt (wb : Nat) (req : List Nat) (j : Nat) : Nat :=
  leWord ((List.range wb).map fun t => req.getD (j * wb + t) 0)

/-- `out[cm][i]` (0 outside the shape) -/
def word (out : Poly) (cm i : Nat) : Nat := (out.getD cm []).getD i 0

/-- a polynomial given coefficient-wise -/
def mkPoly (n : Nat) (ps : List Nat) (f : Nat → Nat → Nat → Nat) : Poly :=
  ps.mapIdx fun cm p => (List.range n).map fun i => f cm p i

/-! ### `set(uniform)` — core.hpp l.151–186 -/

/-- `value_type mask = (1ULL << (int)(floor(log2(p)) + 1)) - 1;`
`floor(log2((double)p))` is modelled by `Nat.log2 p` (validated by the harness on every table row,
not proved: it is a floating-point computation).  Shift counts ≥ 64 are undefined behaviour; the
theorems assume `p < 2^63`. -/
def uniMask (w p : Nat) : Nat := ((2 ^ (Nat.log2 p + 1)) % u64 + u64 - 1) % u64 % 2 ^ w

/-- `if (tmp >= p) tmp -= p;` (no wrap: guarded) -/
def red1 (p tmp : Nat) : Nat := if tmp ≥ p then tmp - p else tmp

def uniCoef (w p x : Nat) : Nat := red1 p (x &&& uniMask w p)

/-- one request of `sizeof(poly)` bytes, written over `_data`; coefficient `(cm,i)` is word `cm*n+i` -/
def setUniform (w n : Nat) (ps : List Nat) (tape : Tape) : Poly :=
  let req := tape.headD []
  mkPoly n ps fun cm p i => uniCoef w p (wordAt (w / 8) req (cm * n + i))

/-- `sizeof(poly)`: the array is `aligned(32)`, so the object size is rounded up to 32 bytes -/
def sizeofPoly (w n nm : Nat) : Nat := (n * nm * (w / 8) + 31) / 32 * 32

def uniformRequests (w n nm : Nat) : List Nat := [sizeofPoly w n nm]

/-! ### `set(non_uniform)` — bound `B = upper_bound`, amplifier `A` (both `uint64_t`) -/

/-- `for (v = …; v != 0; v >>= 1) mask_bits++` -/
def bitLen (v : Nat) : Nat := if v = 0 then 0 else Nat.log2 v + 1

/-- `2*upper_bound-1` in `uint64_t` -/
def twoBm1 (B : Nat) : Nat := (2 * B % u64 + u64 - 1) % u64

/-- `value_type mask = (mask_bits >= 64) ? ~0ULL : (1ULL << mask_bits) - 1;` -/
def bndMask (w B : Nat) : Nat :=
  let bits := bitLen (twoBm1 B)
  (if bits ≥ 64 then u64 - 1 else 2 ^ bits - 1) % 2 ^ w

/-- `tmp = rnd[i] & mask; if (tmp >= 2B-1) tmp -= 2B-1;`  (comparison in `uint64_t`; no wrap: guarded) -/
def bndTmp (w B x : Nat) : Nat :=
  let t := twoBm1 B
  let tmp := x &&& bndMask w B
  if tmp ≥ t then tmp - t else tmp

/-- what is stored for modulus `p`.
`A ≠ 1`: `p + tmp*A - (2B-1)*A` resp. `tmp*A`, evaluated in `uint64_t`, truncated to `value_type`.
`A = 1`: `p + tmp - (2B-1)`: `p + tmp` is computed in `int` (16-bit limb, cannot overflow), `uint32_t`
or `uint64_t`, then converted to `uint64_t` for the subtraction, then truncated. -/
def bndCoef (w B A p x : Nat) : Nat :=
  let t := twoBm1 B
  let tmp := bndTmp w B x
  if A = 1 then
    if tmp ≥ B then
      let s := (p + tmp) % 2 ^ (if w < 32 then 32 else w)
      (s % u64 + u64 - t) % u64 % 2 ^ w
    else tmp
  else
    if tmp ≥ B then ((p + tmp * A) % u64 + u64 - (t * A) % u64) % u64 % 2 ^ w
    else tmp * A % u64 % 2 ^ w

/-- throws `std::runtime_error` (→ `none`, before any random byte is requested) when `B ≥ p` for some
modulus; otherwise one request of `n` limbs, word `i` feeds coefficient `i` of every modulus. -/
def setBounded (w n : Nat) (ps : List Nat) (B A : Nat) (tape : Tape) : Option Poly :=
  if ps.any (fun p => decide (B ≥ p)) then none
  else
    let req := tape.headD []
    some (mkPoly n ps fun _ p i => bndCoef w B A p (wordAt (w / 8) req i))

def boundedRequests (w n : Nat) : List Nat := [n * (w / 8)]

/-! ### `set(gaussian)` — the noise is what `FastGaussianNoise::getNoise` wrote into
`signed_value_type rnd[degree]` (model of `getNoise`: another property); here it is a parameter. -/

/-- two's complement reading of a `w`-bit word -/
def toSigned (w : Nat) (x : Int) : Int := if x < 2 ^ (w - 1) then x else x - 2 ^ w

/-- `rnd[i] *= amplifier;` : `rnd[i]` is converted to `uint64_t`, multiplied, truncated to the signed limb -/
def gauAmp (w amp : Nat) (v : Int) : Int :=
  if amp = 1 then v else toSigned w ((v % (u64 : Int)) * (amp : Int) % (u64 : Int) % (2 : Int) ^ w)

/-- `if (rnd[i] < 0) _data = p + rnd[i]; else _data = rnd[i];` (result truncated to `value_type`) -/
def gauStore (w p : Nat) (v : Int) : Nat :=
  if v < 0 then (((p : Int) + v) % (2 : Int) ^ w).toNat else (v % (2 : Int) ^ w).toNat

def setGaussian (w n : Nat) (ps : List Nat) (amp : Nat) (noise : List Int) : Poly :=
  mkPoly n ps fun _ p i => gauStore w p (gauAmp w amp (noise.getD i 0))

/-! ### `set(ZO_dist)` — one request of `n` bytes -/

/-- `const T pm = P[cm] - 1u;` -/
def pmOf (w p : Nat) : Nat := (p + 2 ^ w - 1) % 2 ^ w

/-- `rnd[i] <= rho ? ((rnd[i] & 2) ? T(1) : pm) : T(0)` -/
def zoCoef (w rho p b : Nat) : Nat :=
  if b ≤ rho then (if b &&& 2 ≠ 0 then 1 else pmOf w p) else 0

def setZO (w n : Nat) (ps : List Nat) (rho : Nat) (tape : Tape) : Poly :=
  let req := tape.headD []
  mkPoly n ps fun _ p i => zoCoef w rho p (req.getD i 0 % 256)

def zoRequests (n : Nat) : List Nat := [n]

/-! ### `set(hwt_dist)` — reservoir sampling of `h` positions, index by rejection, then signs -/

/-- `std::numeric_limits<size_t>::max()` -/
def sizeMax : Nat := 2 ^ 64 - 1

/-- `pos < reject_sample * (k + 1)` with `reject_sample = SIZE_MAX / (k+1)` (the product is ≤ SIZE_MAX) -/
def accept (k x : Nat) : Bool := x < sizeMax / (k + 1) * (k + 1)

/-- `if (pos < hwt) hitted[pos] = k;` -/
def resStep (h : Nat) (hit : List Nat) (k pos : Nat) : List Nat := if pos < h then hit.set pos k else hit

structure HwtSt where
  k : Nat
  hit : List Nat
deriving Repr, DecidableEq

/-- consume the words of the current buffer until it is exhausted or the loop over `k` is finished -/
def runBuf (h n : Nat) : HwtSt → List Nat → HwtSt
  | st, [] => st
  | st, x :: rest =>
    if st.k ≥ n then st
    else if accept st.k x then runBuf h n ⟨st.k + 1, resStep h st.hit st.k (x % (st.k + 1))⟩ rest
    else runBuf h n st rest

/-- the `h` 64-bit words (`size_t`) of one request -/
def words64 (h : Nat) (req : List Nat) : List Nat := (List.range h).map (wordAt 8 req)

/-- a new request (`h` words) is made only when a word is needed and the buffer is exhausted.
`none`: the tape ends before the reservoir loop does (the real stream never ends; every finite tape
on which the real code terminates is long enough). Returns the final state and the unread tape. -/
def runTape (h n : Nat) : HwtSt → Tape → Option (HwtSt × Tape)
  | st, [] => if st.k ≥ n then some (st, []) else none
  | st, req :: t => if st.k ≥ n then some (st, req :: t) else runTape h n (runBuf h n st (words64 h req)) t

/-- writes `_data[pos+offset] = (sign word & 2) ? 1 : pm` for the sorted positions, in order -/
def hwtWrite (w n p : Nat) (sorted : List Nat) (signReq : List Nat) : List Nat :=
  sorted.zipIdx.foldl (fun d (pj : Nat × Nat) =>
      d.set pj.1 (if wordAt 8 signReq pj.2 &&& 2 ≠ 0 then 1 else pmOf w p))
    (List.replicate n 0)

/-- `std::sort(hitted.begin(), hitted.end())` (contract: the ascending permutation of its input, which is unique)
modelled by insertion sort (structural recursion, evaluates in the kernel) -/
def ins (a : Nat) : List Nat → List Nat
  | [] => [a]
  | b :: l => if a ≤ b then a :: b :: l else b :: ins a l

def isort : List Nat → List Nat
  | [] => []
  | a :: l => ins a (isort l)

/-- positions phase: `(sorted positions, unread tape)` -/
def hwtPositions (h n : Nat) (tape : Tape) : Option (List Nat × Tape) :=
  match runTape h n ⟨h, List.range h⟩ tape with
  | none => none
  | some (st, rest) => some (isort st.hit, rest)

/-- `assert(hwt > 0 && hwt <= Degree)` → `none`.  The signs come from a FRESH request (the next one on
the tape after those consumed by the positions phase). -/
def setHwt (w n : Nat) (ps : List Nat) (h : Nat) (tape : Tape) : Option Poly :=
  if h = 0 ∨ n < h then none
  else match hwtPositions h n tape with
    | none => none
    | some (sorted, rest) => some (ps.map fun p => hwtWrite w n p sorted (rest.headD []))

/-- the reservoir as a function of the accepted, reduced indices `idx_k ∈ [0,k]`, `k = k0, k0+1, …` -/
def resFold (h : Nat) : Nat → List Nat → List Nat → List Nat
  | _, hit, [] => hit
  | k, hit, x :: xs => resFold h (k + 1) (resStep h hit k x) xs

/-! ### creators from values: `set(value_type)`, `set(It,It,bool)`, `set_mpz` -/

/-- `set(first,last,reduce)`; `none` = throws (size above degree and ≠ degree·nmoduli) -/
def setValues (n : Nat) (ps : List Nat) (vals : List Nat) (reduce : Bool) : Option Poly :=
  let nm := ps.length
  if vals.length > n ∧ vals.length ≠ n * nm then none
  else some (mkPoly n ps fun cm p i =>
    let src := if vals.length = n * nm then cm * n + i else i
    if src < vals.length then (if reduce then vals.getD src 0 % p else vals.getD src 0) else 0)

/-- `set(v, reduce)`: `v == 0` fills with zeros, otherwise `set({v}, reduce)` -/
def setScalar (n : Nat) (ps : List Nat) (v : Nat) (reduce : Bool) : Option Poly :=
  if v = 0 then some (mkPoly n ps fun _ _ _ => 0) else setValues n ps [v] reduce

/-- `set_mpz`: same walk, each residue is `mpz_fdiv_ui(v, p)`.  CONTRACT (GMP, external): for `p > 0`
`mpz_fdiv_ui` returns the floored remainder `v mod p ∈ [0,p)`. -/
def setMpz (n : Nat) (ps : List Nat) (vals : List Int) : Option Poly :=
  let nm := ps.length
  if vals.length > n ∧ vals.length ≠ n * nm then none
  else some (mkPoly n ps fun cm p i =>
    let src := if vals.length = n * nm then cm * n + i else i
    if src < vals.length then (vals.getD src 0 % (p : Int)).toNat else 0)

end Nfl.Samplers
