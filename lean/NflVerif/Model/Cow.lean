/-
C14 — executable model of the handle / heap mechanics of `nfl::poly_p` (include/nfl/poly_p.hpp).

`poly_p<T,N,M>` holds one `std::shared_ptr<poly<T,N,M>> _p`.  The model keeps

* a heap `Nat → Option Cell` (`Cell = (value, refcount)`; `none` = not allocated / released), a fresh
  pointer counter (pointers are allocation identities, never reused), the log of allocations and the
  log of releases;
* one `Handle` per `poly_p` variable: `dead` (no object: never constructed or destroyed), `null`
  (object whose `_p` is empty: moved-from), `at p`.

Each `Op` is one C++ statement shape.  `step` executes it the way the header does, shared_ptr
operation by shared_ptr operation (copy = increment, `_p = x` = build temporary, swap, destroy
temporary; `detach()` = `if (!_p.unique()) _p = make_pointer(*_p)`), and returns `none` where the C++
has undefined behaviour (dereferencing an empty `_p`, using a non-object, index out of range, releasing
a released cell).  `stepV` is the specification: the same statement on plain value-type polynomials.

Overload facts used (measured by compiling snippets against /repo, g++ 12):
* `poly_p a = b` / `poly_p a(b)` with non-const lvalue `b` selects `poly_p(poly_p&)`, with const `b`
  selects `poly_p(poly_p const&)`: both share.
* `a = b` with a non-const lvalue `b` does not compile (forwarding `operator=(O&&)` wins and tries
  `poly = poly_p`); `a = static_cast<poly_p const&>(b)` selects the copy assignment, `a = std::move(b)`
  the move assignment.
* `poly_p()` → `make_pointer()` → `poly()` = all-zero polynomial; `poly_p(args…)` forwards to `poly(args…)`
  (also for a non-const plain `poly` lvalue: the forwarding constructor beats the deleted `poly_p(poly const&)`).
* `poly_p::set(std::array<…>)` cannot be instantiated (`poly` has no matching `set`), so it is not a statement.
* `a = scalar | {list} | expression | distribution tag` go through `poly_obj() = …` (detach, then write);
  an expression's operands are read through `poly_obj() const` (no detach) when the expression is built.
* `a == b` on two handles selects the non-template member with the pointer short-cut.

Core Lean only.
-/
namespace Nfl.Cow

-- pointers (allocation identities) are plain `Nat`
/-- value of a polynomial: the `N·M` words of `_data`, flat index `cm·N + i` -/
abbrev Val := List Nat

inductive Handle where
  | dead
  | null
  | at (p : Nat)
  deriving DecidableEq, Repr, Inhabited

structure Cell where
  val : Val
  rc : Nat
  deriving Repr

structure State where
  hs : List Handle
  heap : Nat → Option Cell
  next : Nat
  allocLog : List Nat
  freeLog : List Nat

/-- `nh` variables, none constructed yet; empty heap -/
def init (nh : Nat) : State :=
  { hs := List.replicate nh .dead, heap := fun _ => none, next := 0, allocLog := [], freeLog := [] }

def upd (f : Nat → Option Cell) (p : Nat) (c : Option Cell) : Nat → Option Cell :=
  fun q => if q = p then c else f q

def setH (s : State) (d : Nat) (h : Handle) : State := { s with hs := s.hs.set d h }

/-- `make_pointer(v)`: a new control block + object with one owner (the returned temporary) -/
def alloc (s : State) (v : Val) : State × Nat :=
  ({ s with heap := upd s.heap s.next (some ⟨v, 1⟩), next := s.next + 1, allocLog := s.next :: s.allocLog },
   s.next)

/-- copy of a non-empty `shared_ptr`: one more owner -/
def incr (s : State) (p : Nat) : Option State :=
  match s.heap p with
  | some c => some { s with heap := upd s.heap p (some { c with rc := c.rc + 1 }) }
  | none => none

/-- destruction of a non-empty `shared_ptr`: one owner less; the last owner releases the storage.
    Releasing a released cell (double free) is rejected. -/
def decr (s : State) (p : Nat) : Option State :=
  match s.heap p with
  | some c =>
    if c.rc = 0 then none
    else if c.rc = 1 then some { s with heap := upd s.heap p none, freeLog := p :: s.freeLog }
    else some { s with heap := upd s.heap p (some { c with rc := c.rc - 1 }) }
  | none => none

/-- `*_p` read through `poly_obj() const` -/
def readVal (s : State) (h : Nat) : Option Val :=
  match s.hs[h]? with
  | some (.at p) => (s.heap p).map (·.val)
  | _ => none

def readVals (s : State) (srcs : List Nat) : Option (List Val) := srcs.mapM (readVal s)

/-- `detach()`: `if (!_p.unique()) _p = make_pointer(*_p);`
    (`unique()` is `use_count() == 1`; on an empty `_p` it is false and `*_p` is then undefined) -/
def detach (s : State) (d : Nat) : Option State :=
  match s.hs[d]? with
  | some (.at p) =>
    match s.heap p with
    | some c =>
      if c.rc = 1 then some s
      else
        let (s1, q) := alloc s c.val       -- temporary = make_pointer(*_p)
        decr (setH s1 d (.at q)) p         -- move-assign: _p takes q, the old pointer is released
    | none => none
  | _ => none

/-- overwrite the value of the cell `d` points to (after `detach`) -/
def modifyVal (s : State) (d : Nat) (f : Val → Option Val) : Option State :=
  match s.hs[d]? with
  | some (.at p) =>
    match s.heap p with
    | some c => (f c.val).map fun v => { s with heap := upd s.heap p (some { c with val := v }) }
    | none => none
  | _ => none

inductive Op where
  /-- `poly_p d(args…)` through the forwarding constructor (`make_pointer(args…)`): default (`srcs=[]`,
      zero value), scalar, list, iterator pair, distribution tag (`srcs=[]`, `g` constant) or an
      expression over other handles (`g` applied to their values, read through `poly_obj() const`) -/
  | mk (d : Nat) (srcs : List Nat) (g : List Val → Val)
  /-- `poly_p d(s)` — `poly_p(poly_p const&)` and `poly_p(poly_p&)` alike -/
  | copyCtor (d s : Nat)
  /-- `poly_p d(std::move(s))` -/
  | moveCtor (d s : Nat)
  /-- `d = static_cast<poly_p const&>(s)` -/
  | copyAssign (d s : Nat)
  /-- `d = std::move(s)` -/
  | moveAssign (d s : Nat)
  /-- `d = value` via `poly_obj() = …` or `d.set(…)` / `set_mpz` / `mpz2poly` / `deserialize_manually`:
      operands read, then detach, then overwrite -/
  | assign (d : Nat) (srcs : List Nat) (g : List Val → Val)
  /-- `d(cm,i) = x` on a non-const handle (flat index) -/
  | writeElem (d i x : Nat)
  /-- non-const access that does not write (`d(cm,i)` read on a non-const handle, `d.poly_obj()`,
      `serialize_manually`, `poly2mpz`) -/
  | touch (d : Nat)
  /-- `d.ntt_pow_phi()` / `d.invntt_pow_invphi()`: detach, then `f` in place -/
  | xform (d : Nat) (f : Val → Val)
  /-- `static_cast<poly_p const&>(s)(cm,i)` -/
  | readElem (s i : Nat)
  /-- `a == b` (`neg = false`) / `a != b` (`neg = true`) -/
  | compare (a b : Nat) (neg : Bool)
  /-- `a == q` / `a != q` with a plain polynomial `q` -/
  | compareVal (a : Nat) (v : Val) (neg : Bool)
  /-- end of lifetime of the variable -/
  | destroy (d : Nat)

/-- named shapes of `mk` / `assign` -/
@[reducible] def Op.mkDefault (d len : Nat) : Op := .mk d [] (fun _ => List.replicate len 0)
@[reducible] def Op.mkVal (d : Nat) (v : Val) : Op := .mk d [] (fun _ => v)
@[reducible] def Op.assignVal (d : Nat) (v : Val) : Op := .assign d [] (fun _ => v)
@[reducible] def Op.arith (d a b : Nat) (g : Val → Val → Val) : Op :=
  .assign d [a, b] (fun vs => g (vs.getD 0 []) (vs.getD 1 []))

def isDead : Handle → Bool
  | .dead => true
  | _ => false

/-- `_p.get() == o._p.get()` -/
def ptrEq : Handle → Handle → Bool
  | .at p, .at q => p == q
  | .null, .null => true
  | _, _ => false

def step (s : State) : Op → Option State
  | .mk d srcs g =>
    match s.hs[d]? with
    | some .dead =>
      match readVals s srcs with
      | some vs => let (s1, q) := alloc s (g vs); some (setH s1 d (.at q))
      | none => none
    | _ => none
  | .copyCtor d src =>
    match s.hs[d]?, s.hs[src]? with
    | some .dead, some (.at p) => (incr s p).map fun s1 => setH s1 d (.at p)
    | some .dead, some .null => some (setH s d .null)
    | _, _ => none
  | .moveCtor d src =>
    match s.hs[d]?, s.hs[src]? with
    | some .dead, some .dead => none
    | some .dead, some h => some (setH (setH s src .null) d h)   -- `_p(std::move(o._p))`
    | _, _ => none
  | .copyAssign d src =>
    match s.hs[d]?, s.hs[src]? with
    | some hd, some hsrc =>
      if isDead hd || isDead hsrc then none
      else if d = src then some s                       -- `if (this != &o)`
      else
        -- `_p = o._p` is `shared_ptr(o._p).swap(_p)`: copy, swap, destroy the temporary
        let s1? := match hsrc with
          | .at p => incr s p
          | _ => some s
        match s1? with
        | some s1 =>
          let s2 := setH s1 d hsrc
          match hd with
          | .at q => decr s2 q
          | _ => some s2
        | none => none
    | _, _ => none
  | .moveAssign d src =>
    match s.hs[d]?, s.hs[src]? with
    | some hd, some hsrc =>
      if isDead hd || isDead hsrc then none
      else if d = src then some s                       -- `if (this != &o)`
      else
        -- `_p = std::move(o._p)`: move to a temporary (source empty), swap, destroy the temporary
        let s2 := setH (setH s src .null) d hsrc
        match hd with
        | .at q => decr s2 q
        | _ => some s2
    | _, _ => none
  | .assign d srcs g =>
    match readVals s srcs with
    | some vs => (detach s d).bind fun s1 => modifyVal s1 d (fun _ => some (g vs))
    | none => none
  | .writeElem d i x =>
    (detach s d).bind fun s1 => modifyVal s1 d (fun v => if i < v.length then some (v.set i x) else none)
  | .touch d => detach s d
  | .xform d f => (detach s d).bind fun s1 => modifyVal s1 d (fun v => some (f v))
  | .readElem h i =>
    match readVal s h with
    | some v => if i < v.length then some s else none
    | none => none
  | .compare a b _ =>
    match s.hs[a]?, s.hs[b]? with
    | some ha, some hb =>
      if isDead ha || isDead hb then none
      else if ptrEq ha hb then some s
      else match readVal s a, readVal s b with
        | some _, some _ => some s
        | _, _ => none
    | _, _ => none
  | .compareVal a _ _ =>
    match readVal s a with
    | some _ => some s
    | none => none
  | .destroy d =>
    match s.hs[d]? with
    | some (.at p) => decr (setH s d .dead) p
    | some .null => some (setH s d .dead)
    | _ => none

def b2n (b : Bool) : Nat := if b then 1 else 0

/-- what the statement returns (evaluated in the state *before* it) -/
def observe (s : State) : Op → Option Nat
  | .readElem h i => (readVal s h).bind fun v => v[i]?
  | .compare a b neg =>
    match s.hs[a]?, s.hs[b]? with
    | some ha, some hb =>
      if isDead ha || isDead hb then none
      else if ptrEq ha hb then some (b2n (!neg))          -- the pointer short-cut
      else match readVal s a, readVal s b with
        | some va, some vb => some (b2n (if neg then va != vb else va == vb))
        | _, _ => none
    | _, _ => none
  | .compareVal a v neg => (readVal s a).map fun va => b2n (if neg then va != v else va == v)
  | _ => some 0

def run : List Op → State → Option State
  | [], s => some s
  | op :: ops, s => (step s op).bind (run ops)

/-! ## Specification: the same statements on plain value-type polynomials -/

inductive VH where
  | dead
  | moved
  | val (v : Val)
  deriving DecidableEq, Repr, Inhabited

abbrev VState := List VH

def initV (nh : Nat) : VState := List.replicate nh .dead

def readV (vs : VState) (h : Nat) : Option Val :=
  match vs[h]? with
  | some (.val v) => some v
  | _ => none

def readVsV (vs : VState) (srcs : List Nat) : Option (List Val) := srcs.mapM (readV vs)

def isVal : Option VH → Bool
  | some (.val _) => true
  | _ => false

/-- a variable that holds an object (possibly moved-from) -/
def isObj : Option VH → Bool
  | some (.val _) => true
  | some .moved => true
  | _ => false

/-- well-formedness of one statement in a value state: constructions only on non-objects, sources are
    live values, a moved-from variable is only destroyed or the target of a copy/move assignment,
    indices in range -/
def okV (vs : VState) : Op → Bool
  | .mk d srcs _ => vs[d]? == some .dead && (readVsV vs srcs).isSome
  | .copyCtor d s => vs[d]? == some .dead && isVal vs[s]?
  | .moveCtor d s => vs[d]? == some .dead && isVal vs[s]?
  | .copyAssign d s => isObj vs[d]? && isVal vs[s]?
  | .moveAssign d s => isObj vs[d]? && isVal vs[s]?
  | .assign d srcs _ => isVal vs[d]? && (readVsV vs srcs).isSome
  | .writeElem d i _ => match readV vs d with | some v => i < v.length | none => false
  | .touch d => isVal vs[d]?
  | .xform d _ => isVal vs[d]?
  | .readElem s i => match readV vs s with | some v => i < v.length | none => false
  | .compare a b _ => isVal vs[a]? && isVal vs[b]?
  | .compareVal a _ _ => isVal vs[a]?
  | .destroy d => isObj vs[d]?

def stepV (vs : VState) : Op → VState
  | .mk d srcs g => match readVsV vs srcs with | some l => vs.set d (.val (g l)) | none => vs
  | .copyCtor d s => match vs[s]? with | some x => vs.set d x | none => vs
  | .moveCtor d s => match vs[s]? with | some x => (vs.set s .moved).set d x | none => vs
  | .copyAssign d s => match vs[s]? with | some x => vs.set d x | none => vs
  | .moveAssign d s => if d = s then vs else match vs[s]? with | some x => (vs.set s .moved).set d x | none => vs
  | .assign d srcs g => match readVsV vs srcs with | some l => vs.set d (.val (g l)) | none => vs
  | .writeElem d i x => match readV vs d with | some v => vs.set d (.val (v.set i x)) | none => vs
  | .touch _ => vs
  | .xform d f => match readV vs d with | some v => vs.set d (.val (f v)) | none => vs
  | .readElem _ _ => vs
  | .compare _ _ _ => vs
  | .compareVal _ _ _ => vs
  | .destroy d => vs.set d .dead

def observeV (vs : VState) : Op → Option Nat
  | .readElem h i => (readV vs h).bind fun v => v[i]?
  | .compare a b neg =>
    match readV vs a, readV vs b with
    | some va, some vb => some (b2n (if neg then va != vb else va == vb))
    | _, _ => none
  | .compareVal a v neg => (readV vs a).map fun va => b2n (if neg then va != v else va == v)
  | _ => some 0

def runValues : List Op → VState → VState
  | [], vs => vs
  | op :: ops, vs => runValues ops (stepV vs op)

/-- the whole history is well-formed (each statement in the value state it is executed in) -/
def wfB : List Op → VState → Bool
  | [], _ => true
  | op :: ops, vs => okV vs op && wfB ops (stepV vs op)

/-! ## Abstraction: what is seen through each handle -/

def absH (heap : Nat → Option Cell) : Handle → VH
  | .dead => .dead
  | .null => .moved
  | .at p => match heap p with
    | some c => .val c.val
    | none => .dead      -- dangling: excluded by the invariant

def abs (s : State) : VState := s.hs.map (absH s.heap)

/-- `use_count()` as seen through handle `h` (0 for an empty `_p`) -/
def useCount (s : State) (h : Nat) : Nat :=
  match s.hs[h]? with
  | some (.at p) => match s.heap p with | some c => c.rc | none => 0
  | _ => 0

/-- statements that end the lifetime of every variable still holding an object -/
def destroyFrom : Nat → List VH → List Op
  | _, [] => []
  | i, x :: xs => (if isObj (some x) then [Op.destroy i] else []) ++ destroyFrom (i + 1) xs

def destroyAll (vs : VState) : List Op := destroyFrom 0 vs

end Nfl.Cow
