/- C17: interleaving model of threads that access a shared memory.  Core Lean only.

   * a location is either `shared s` (static storage: transform tables, CRT constants, permutation tables …) or
     `priv t o` (an object owned by thread `t`: its polynomials, handles, stack and heap scratch);
   * a thread is a list of atomic accesses `read l` / `write l f`; the value written is `f` applied to the list of
     values the thread has read so far (its local state), so data flows from reads to later writes;
   * a schedule is a list of thread ids; `run` consumes it with `step` (a schedule that selects a finished thread
     is not a schedule of the program: `none`).  Every interleaving of the threads' accesses is such a list.
   The granularity "one access = one atomic step" is a modelling choice (see DESIGN.md §3 C17). -/
import NflVerif.Model.FootprintDefs
namespace Nfl.Conc

inductive Loc where
  | shared (s : Nat)
  | priv (t : Nat) (o : Nat)
deriving DecidableEq, Repr

abbrev Val := Nat
abbrev Mem := Loc → Val

def Mem.set (m : Mem) (l : Loc) (v : Val) : Mem := fun l' => if l' = l then v else m l'

inductive Access where
  | read (l : Loc)
  | write (l : Loc) (f : List Val → Val)

def Access.loc : Access → Loc
  | .read l => l
  | .write l _ => l

def Access.isWrite : Access → Bool
  | .read _ => false
  | .write _ _ => true

/-- thread state: accesses still to do, values read so far (oldest first) -/
structure TState where
  todo : List Access
  obs : List Val

structure Event where
  tid : Nat
  isWrite : Bool
  loc : Loc
deriving DecidableEq, Repr

structure Config where
  thr : Nat → TState
  mem : Mem
  trace : List Event      -- chronological

def setThr (thr : Nat → TState) (t : Nat) (ts : TState) : Nat → TState :=
  fun t' => if t' = t then ts else thr t'

/-- thread `t` performs its next access atomically -/
def step (c : Config) (t : Nat) : Option Config :=
  match (c.thr t).todo with
  | [] => none
  | .read l :: rest =>
    some { thr := setThr c.thr t ⟨rest, (c.thr t).obs ++ [c.mem l]⟩, mem := c.mem,
           trace := c.trace ++ [⟨t, false, l⟩] }
  | .write l f :: rest =>
    some { thr := setThr c.thr t ⟨rest, (c.thr t).obs⟩, mem := c.mem.set l (f (c.thr t).obs),
           trace := c.trace ++ [⟨t, true, l⟩] }

def run (c : Config) : List Nat → Option Config
  | [] => some c
  | t :: s => match step c t with
    | none => none
    | some c' => run c' s

def init (progs : Nat → List Access) (m0 : Mem) : Config :=
  { thr := fun t => ⟨progs t, []⟩, mem := m0, trace := [] }

/-- every thread has finished -/
def Complete (c : Config) : Prop := ∀ t, (c.thr t).todo = []

/-- the access discipline of "distinct polynomials": thread `t` writes only its own objects and reads only its own
    objects and shared (static) storage -/
def Access.okFor (t : Nat) : Access → Bool
  | .read (.shared _) => true
  | .read (.priv t' _) => t' == t
  | .write (.shared _) _ => false
  | .write (.priv t' _) _ => t' == t

def Confined (progs : Nat → List Access) : Prop := ∀ t, ∀ a ∈ progs t, a.okFor t = true

/-- two events conflict: different threads, same location, at least one write -/
def Conflict (e1 e2 : Event) : Prop :=
  e1.tid ≠ e2.tid ∧ e1.loc = e2.loc ∧ (e1.isWrite = true ∨ e2.isWrite = true)

/-! ### a thread running alone -/

def soloStep (st : Mem × List Val) (a : Access) : Mem × List Val :=
  match a with
  | .read l => (st.1, st.2 ++ [st.1 l])
  | .write l f => (st.1.set l (f st.2), st.2)

def solo (as : List Access) (st : Mem × List Val) : Mem × List Val := as.foldl soloStep st

/-- the values thread `t` reads when it runs alone from `m0` -/
def soloObs (progs : Nat → List Access) (m0 : Mem) (t : Nat) : List Val := (solo (progs t) (m0, [])).2

/-- the memory after every thread has run alone from `m0`, glued together: thread `t`'s objects come from its own
    solo run, shared storage is the initial one -/
def finalMem (progs : Nat → List Access) (m0 : Mem) : Mem
  | .shared s => m0 (.shared s)
  | .priv t o => (solo (progs t) (m0, [])).1 (.priv t o)

/-- the sequential execution as a schedule: thread 0 to completion, then thread 1, … thread n-1 -/
def seqSched (progs : Nat → List Access) (n : Nat) : List Nat :=
  (List.range n).flatMap (fun t => List.replicate (progs t).length t)

/-! ### the instance: programs built from footprints of API operations -/

/-- Abstraction of one API call by thread `t` whose measured footprint is `f`: it reads the statics `f` lists, reads
    and writes private objects (`pr`, `pw`: offsets) and – if the footprint has any – stores into statics. -/
def opAccesses (sid : String → Nat) (t : Nat) (f : OpFootprint) (pr pw : List Nat) (g : List Val → Val) : List Access :=
  f.staticLoadSyms.map (fun s => Access.read (.shared (sid s))) ++ pr.map (fun o => Access.read (.priv t o))
  ++ f.staticStores.map (fun s => Access.write (.shared (sid s.1)) g) ++ pw.map (fun o => Access.write (.priv t o) g)

structure Call where
  f : OpFootprint
  pr : List Nat
  pw : List Nat
  g : List Val → Val

def apiProg (sid : String → Nat) (t : Nat) (calls : List Call) : List Access :=
  calls.flatMap (fun c => opAccesses sid t c.f c.pr c.pw c.g)

end Nfl.Conc
