/-
Array-backed evaluators of the sampler models of `Model/Samplers.lean`, for the correspondence driver at
LARGE degrees (fixed weight at degree 2^17 … 2^20: 10^5 – 10^6 tape words per line).

The model functions index byte lists with `List.getD` (linear in the index), update the reservoir with
`List.set`, sort by insertion and write the signs with `List.set`: all fine for reasoning and for degree ≤ 64,
quadratic at degree 2^17.  The functions below compute THE SAME VALUES with `Array` reads/writes and merge sort;
`Proofs/SamplersFast.lean` proves, for all inputs and without any new hypothesis,
  `setHwtFast = setHwt`, `hwtPositionsFast = hwtPositions`, `setUniformFast = setUniform`,
  `setBoundedFast = setBounded`, `setZOFast = setZO`,
so the driver's use of them is a use of the model.  CORE LEAN ONLY (the driver links this file).
-/
import NflVerif.Model.Samplers
namespace Nfl.Samplers

/-- `wordAt` on an array of bytes -/
def wordAtA (wb : Nat) (a : Array Nat) (j : Nat) : Nat :=
  leWord ((List.range wb).map fun t => a.getD (j * wb + t) 0)

def setUniformFast (w n : Nat) (ps : List Nat) (tape : Tape) : Poly :=
  let a := (tape.headD []).toArray
  mkPoly n ps fun cm p i => uniCoef w p (wordAtA (w / 8) a (cm * n + i))

def setBoundedFast (w n : Nat) (ps : List Nat) (B A : Nat) (tape : Tape) : Option Poly :=
  if ps.any (fun p => decide (B ≥ p)) then none
  else
    let a := (tape.headD []).toArray
    some (mkPoly n ps fun _ p i => bndCoef w B A p (wordAtA (w / 8) a i))

def setZOFast (w n : Nat) (ps : List Nat) (rho : Nat) (tape : Tape) : Poly :=
  let a := (tape.headD []).toArray
  mkPoly n ps fun _ p i => zoCoef w rho p (a.getD i 0 % 256)

/-! ### fixed weight -/

def words64A (h : Nat) (a : Array Nat) : List Nat := (List.range h).map (wordAtA 8 a)

def resStepA (h : Nat) (hit : Array Nat) (k pos : Nat) : Array Nat :=
  if pos < h then hit.setIfInBounds pos k else hit

/-- `runBuf` with the reservoir in an array (state = `k`, `hit`) -/
def runBufA (h n : Nat) : Nat → Array Nat → List Nat → Nat × Array Nat
  | k, hit, [] => (k, hit)
  | k, hit, x :: rest =>
    if k ≥ n then (k, hit)
    else if accept k x then runBufA h n (k + 1) (resStepA h hit k (x % (k + 1))) rest
    else runBufA h n k hit rest

def runTapeA (h n : Nat) : Nat → Array Nat → Tape → Option ((Nat × Array Nat) × Tape)
  | k, hit, [] => if k ≥ n then some ((k, hit), []) else none
  | k, hit, req :: t =>
    if k ≥ n then some ((k, hit), req :: t)
    else
      let s := runBufA h n k hit (words64A h req.toArray)
      runTapeA h n s.1 s.2 t

def hwtPositionsFast (h n : Nat) (tape : Tape) : Option (List Nat × Tape) :=
  match runTapeA h n h (Array.range h) tape with
  | none => none
  | some (st, rest) => some (st.2.toList.mergeSort (fun a b => decide (a ≤ b)), rest)

def hwtWriteA (w n p : Nat) (sorted : List Nat) (sign : Array Nat) : List Nat :=
  (sorted.zipIdx.foldl (fun (d : Array Nat) (pj : Nat × Nat) =>
      d.setIfInBounds pj.1 (if wordAtA 8 sign pj.2 &&& 2 ≠ 0 then 1 else pmOf w p))
    (Array.replicate n 0)).toList

def setHwtFast (w n : Nat) (ps : List Nat) (h : Nat) (tape : Tape) : Option Poly :=
  if h = 0 ∨ n < h then none
  else match hwtPositionsFast h n tape with
    | none => none
    | some (sorted, rest) =>
      let sign := (rest.headD []).toArray
      some (ps.map fun p => hwtWriteA w n p sorted sign)

end Nfl.Samplers
