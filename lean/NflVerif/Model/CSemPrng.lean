/-
Additional node semantics and the step-function vocabulary used by `tools/gen_prng_ast.py`
(`Generated/PrngAst.lean`: `nfl::randombytes` and `nfl::fastrandombytes` translated from clang's AST as STEP
FUNCTIONS).  Hand-written, core Lean only; together with `Model/CSem.lean` (not modified) this is the TRUSTED reading
of the C++ text.

Value representation: as in `CSem` (unsigned `k` bits = `Nat < 2^k`; a signed `k`-bit type = its residue mod `2^k`;
`bool` = `Bool`).  In addition
* an array of integers is the `List Nat` of its cells (`arrGet` / `arrSet`; the translator only emits constant
  indices that it has checked against the declared bound);
* a pointer variable is the OFFSET (in elements, mod 2^64) from the value it had on entry of the function;
* an external call is DATA: `Next.call site args` — which call site of the function comes next and with which
  arguments — and the function is resumed by the generated continuation of that site with the call's value.

Segment-cutting convention (TRUSTED, see the head of tools/gen_prng_ast.py): a function is cut at its external
calls, at the heads of the loops that contain an external call and after the `if`s that contain one; every piece is
a pure function  state [× value returned by the call] → state × Next.
-/
import NflVerif.Model.CSem
namespace Nfl.CSemX
open Nfl

/-! ### integer nodes that `CSem` does not have -/

/-- unary minus on `int` (wrap-around; the translator lists `-INT_MIN` as an overflow site) -/
def negS32 (a : Nat) : Nat := (2 ^ 32 - a % 2 ^ 32) % 2 ^ 32
/-- `int → bool` (IntegralToBoolean): non-zero -/
def toBoolS32 (a : Nat) : Bool := decide (a % 2 ^ 32 ≠ 0)
/-- unsigned → `bool` -/
def toBoolU (a : Nat) : Bool := decide (a ≠ 0)
/-- `!b` -/
def notB (b : Bool) : Bool := !b
def xorU (k a b : Nat) : Nat := (a ^^^ b) % 2 ^ k
def andU (k a b : Nat) : Nat := (a &&& b) % 2 ^ k
def orU (k a b : Nat) : Nat := (a ||| b) % 2 ^ k
/-- signed `j` bits → unsigned `k` bits: the value modulo `2^k` (sign extension for `k > j`) -/
def castSwU (j k a : Nat) : Nat :=
  if a % 2 ^ j < 2 ^ (j - 1) then (a % 2 ^ j) % 2 ^ k else (a % 2 ^ j + 2 ^ k * 2 ^ j - 2 ^ j) % 2 ^ k

/-! ### pointers (offsets) and arrays (lists of cells) -/

/-- `p += i` with `i : int`, element size `esize`: the offset moves by the SIGNED value of `i`
(address arithmetic modulo 2^64; leaving the object is undefined in C++ and not detected here) -/
def ptrAddS32 (esize p i : Nat) : Nat := (p + esize * CSem.castSU 64 i) % 2 ^ 64
/-- `p += i` with `i` of an unsigned type -/
def ptrAddU (esize p i : Nat) : Nat := (p + esize * i) % 2 ^ 64

def arrGet (a : List Nat) (k : Nat) : Nat := a.getD k 0
def arrSet (a : List Nat) (k v : Nat) : List Nat := a.set k v

/-! ### external calls as data -/

/-- the external functions the translator knows (anything else stops the translation) -/
inductive Callee
  | open          -- ::open(const char*, int, ...)
  | read          -- ::read(int, void*, size_t)
  | sleep         -- ::sleep(unsigned)
  | randombytes   -- nfl::randombytes(unsigned char*, unsigned long long)
  | salsa20       -- nfl_crypto_stream_salsa20_amd64_xmm6(unsigned char*, unsigned long long, const unsigned char*, const unsigned char*)
  | lock          -- constructor of a std::lock_guard<std::mutex> local
  | unlock        -- end of the block that declares it (its destructor)
  deriving DecidableEq, Repr, Inhabited

/-- an argument of an external call: an integer, a pointer (object it points into, offset), a string literal -/
inductive CArg (Obj : Type)
  | int (v : Nat)
  | ptr (obj : Obj) (off : Nat)
  | str (s : String)
  deriving DecidableEq, Repr

/-- what a piece does when it ends -/
inductive Next (Site Obj : Type)
  | call (site : Site) (args : List (CArg Obj))
  | ret
  deriving DecidableEq, Repr

/-- how a static variable is touched by one occurrence in the source -/
inductive How
  | direct                     -- read / assigned by the function itself
  | passedTo (c : Callee)      -- its address is an argument of a call (`const` pointee: read only)
  | lockGuard                  -- the mutex handed to the lock_guard
  deriving DecidableEq, Repr

/-- one occurrence of a static variable in the function's text; `guarded` = it lies in the block of a
`std::lock_guard` local, after its declaration -/
structure Access (V : Type) where
  var : V
  read : Bool
  write : Bool
  guarded : Bool
  line : Nat
  how : How
  deriving DecidableEq, Repr

end Nfl.CSemX
