/-
CONTRACTS of the C / C++ standard-library calls that `tools/gen_smp_ast.py` maps BY NAME (their bodies are
outside the AST dump and are not translated): `std::vector<size_t>(n)`, `.size()`, `.begin()`, `.end()`,
`.data()`, `std::iota`, `std::sort`, `std::distance`, `std::memset`, the range-`for` over a vector.
Hand-written, core Lean only, TRUSTED (the standard's specification of these functions, for the argument
shapes the translator accepts: whole-vector ranges `[begin, end)`).
A vector / array is a `List Nat`; an iterator / pointer is an element offset (see CSemSmp.lean).
-/
import NflVerif.Model.CSemSmp
namespace Nfl.StdSem
open Nfl

/-- `std::vector<size_t> v(n);` : `n` value-initialised (zero) elements -/
def vectorN (n : Nat) : List Nat := List.replicate n 0
/-- `v.size()` (a `size_t`; a vector has fewer than 2^64 elements) -/
def vecSize (v : List Nat) : Nat := v.length
/-- `v.begin()`, `v.data()` as offsets into `v`; `v.end()` -/
def vecBegin (_v : List Nat) : Nat := 0
def vecEnd (v : List Nat) : Nat := v.length
/-- `std::distance(first, last)` for two pointers into the same array, `first ≤ last` -/
def distance (first last : Nat) : Nat := last - first

/-- `std::iota(v.begin(), v.end(), value)` with `value` of an unsigned type of `k` bits: the elements become
`value, value+1, …` (`++value` wraps at `2^k`; each is converted to the 64-bit element type unchanged) -/
def iotaAll (k : Nat) (v : List Nat) (value : Nat) : List Nat :=
  (List.range v.length).map fun j => (value + j) % 2 ^ k

/-- insertion into an ascending list -/
def ins (a : Nat) : List Nat → List Nat
  | [] => [a]
  | b :: l => if a ≤ b then a :: b :: l else b :: ins a l

/-- `std::sort(v.begin(), v.end())`: CONTRACT = the ascending permutation of the elements (unique for
integers); given here executably as insertion sort -/
def sortAll : List Nat → List Nat
  | [] => []
  | a :: l => ins a (sortAll l)

/-- `std::memset(arr, c, n)` on an array of `wb`-byte words: the first `n` bytes become `(unsigned char) c` -/
def memset (wb : Nat) (arr : List Nat) (c n : Nat) : List Nat :=
  arr.mapIdx fun j old => Smp.overWord wb (fun _ => c) n j old

/-- `for (size_t x : v) s = body s x;` (the body does not modify `v`) -/
def forEach {σ : Type} (v : List Nat) (body : σ → Nat → σ) (s : σ) : σ := v.foldl body s

end Nfl.StdSem
