/-
Node semantics used by `tools/gen_lut_ast.py` (`Generated/LutAst.lean`: `FastGaussianNoise<in_class,out_class,_lu_depth>::buildLookupTables`
translated from clang's AST) in addition to `Model/CSem.lean` and `Model/CSemGauss.lean` (neither is modified).  Hand-written, core Lean
only; together with clang's AST this is the TRUSTED reading of the C++ text.

* `in_class **barriers` is the list of the barrier objects (`List (List Nat)`); `barriers[i]` (`barAt`) is a pointer to the first word of
  object `i`, `none` when `i` is outside the array (negative, or `≥` the number of objects).  The objects are produced by
  `precomputeBarrierValues` (MPFR): a PARAMETER of the generated function.
* `new output_t[n]()` is `newCells n`: value-initialisation of `output<in_class,out_class>` (implicit default constructor, the
  AST node says `zeroing`) gives `val = 0`, `flag = false`, an empty `std::list`.
* `(output_t **) calloc(n, sizeof(output_t *))` is `callocRows n`: `n` null pointers.
* stores into a cell: `t[i].val = v` / `t[i].flag = b` / `t[i].l_b_ptr.push_back(p)` are `setVal` / `setFlag` / `pushBack`
  (`none` = `i` outside `t`); through a row pointer `t2[i][j].…` they are `setVal2` / `setFlag2` / `pushBack2` (`none` = `i` outside
  `t2`, `t2[i]` null, or `j` outside the row); `t2[i] = new output_t[n]()` is `setRow`.
  `std::list<in_class*>::push_back(p)` (mapped BY NAME) appends; a stored pointer is represented by the object it points to, so only
  pointers to the first word of an object can be stored (anything else: `none`, never a guess).
* `while (c) body` is `whileFuel fuel c body`: at most `fuel` tests of the condition; `none` when the fuel runs out (never a made-up
  state) or when the condition / body is `none`.  The translator takes `fuel = B + 1` from a conjunct `x < B` of the condition whose
  `x` is incremented by every execution of the body and whose `B` the body does not assign: the body runs at most `B - x₀` times
  when `x₀ ≥ 0`.  That the fuel suffices is PROVED (Proofs/LutAstEq: the generated function equals the hand model, which terminates
  with `some` on well-formed barriers), not assumed.
* `a / b` on `int`: truncation towards zero (`divS32`); `b = 0` and `INT_MIN / -1` are undefined in C (the translator lists the sites).
-/
import NflVerif.Model.CSemGauss
namespace Nfl.CLut
open Nfl Nfl.CGauss

/-- `a / b` in `int` -/
def divS32 (a b : Nat) : Nat := ((Int.tdiv (CSem.sval a) (CSem.sval b)) % 2 ^ 32).toNat

def newCells (n : Nat) : Array CCell := Array.replicate n ⟨0, false, []⟩
def callocRows (n : Nat) : Array (Option (Array CCell)) := Array.replicate n none

/-- `barriers[i]` with `i` of a signed `k`-bit type -/
def barAt (k : Nat) (bs : List (List Nat)) (i : Nat) : Option Ptr :=
  if 0 ≤ CSem.svalW k i then (bs[(CSem.svalW k i).toNat]?).map (fun b => ⟨b, 0⟩) else none

def updCell (t : Array CCell) (i : Nat) (f : CCell → CCell) : Option (Array CCell) :=
  if h : i < t.size then some (t.set i (f t[i])) else none

def setVal (t : Array CCell) (i v : Nat) : Option (Array CCell) := updCell t i (fun c => { c with val := v })
def setFlag (t : Array CCell) (i : Nat) (b : Bool) : Option (Array CCell) := updCell t i (fun c => { c with flag := b })
def pushBack (t : Array CCell) (i : Nat) (p : Ptr) : Option (Array CCell) :=
  if p.off = 0 then updCell t i (fun c => { c with l_b_ptr := c.l_b_ptr ++ [p.obj] }) else none

def updRow (t2 : Array (Option (Array CCell))) (i : Nat) (f : Array CCell → Option (Array CCell)) :
    Option (Array (Option (Array CCell))) :=
  if h : i < t2.size then
    match t2[i] with
    | none => none
    | some r => (f r).map (fun r' => t2.set i (some r'))
  else none

def setRow (t2 : Array (Option (Array CCell))) (i : Nat) (r : Array CCell) : Option (Array (Option (Array CCell))) :=
  if h : i < t2.size then some (t2.set i (some r)) else none
def setVal2 (t2 : Array (Option (Array CCell))) (i j v : Nat) := updRow t2 i (fun r => setVal r j v)
def setFlag2 (t2 : Array (Option (Array CCell))) (i j : Nat) (b : Bool) := updRow t2 i (fun r => setFlag r j b)
def pushBack2 (t2 : Array (Option (Array CCell))) (i j : Nat) (p : Ptr) := updRow t2 i (fun r => pushBack r j p)

def whileFuel {σ : Type} (fuel : Nat) (cond : σ → Option Bool) (body : σ → Option σ) (s : σ) : Option σ :=
  match fuel with
  | 0 => none
  | f + 1 =>
    match cond s with
    | none => none
    | some false => some s
    | some true =>
      match body s with
      | none => none
      | some s' => whileFuel f cond body s'

end Nfl.CLut
