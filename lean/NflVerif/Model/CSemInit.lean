/-
Node semantics of the C++ constructs that `tools/gen_init_ast.py` meets in `core::initialize()` /
`core::prep_wtab` beyond the integer expressions of CSem.lean.  Hand-written, core Lean only; part of the
TRUSTED reading of the C++ text (together with clang's AST and CSem.lean).

Representation
* a row `F[cm]` of a member array `value_type F[nmoduli][n]` is a `List Nat` of `n` words;
* a `value_type*` is the ELEMENT OFFSET (a `Nat`) into one row that the translator knows statically;
  pointer arithmetic is arithmetic on the offset WITHOUT wrap-around (forming a pointer outside
  `[row, row + n]` is undefined in C++; the equality theorems prove the offsets the code reaches).

Undefined behaviour.  A store / load outside the row is undefined in C++; here a store outside is dropped and
a load outside gives 0.  The theorems of Proofs/InitAstEq.lean show, for rows of the declared extents, the
final offsets (so every store was inside), and they hold for ARBITRARY initial row contents, so a dropped
store could not go unnoticed.
-/
namespace Nfl.CSemInit

/-- `row[i] = v` / `*q = v` with `q` at offset `i` -/
def store (row : List Nat) (i v : Nat) : List Nat := row.set i v
/-- the value of `row[i]` -/
def load (row : List Nat) (i : Nat) : Nat := row.getD i 0
/-- `q + n`, `q++` on a pointer at offset `off` -/
def ptrAdd (off n : Nat) : Nat := off + n

/-- `for (U i = 0; i < B; i++) s = body s i;` with `U` an unsigned type of `k` bits (the comparison is made in a
type at least as wide, so `i` is compared by value), `i` not assigned by the body, `B` not changed by it.
`i++` wraps at `2^k`.  Fuel: the translator passes the bound `B` itself — for `B < 2^k` the loop ends after
exactly `B` iterations (`forCount_eq_foldl`); for `B ≥ 2^k` the C++ loop never ends (the counter wraps below
the bound for ever) and the value here is the state after `B` iterations. -/
def forCountAux {σ : Type} (k B : Nat) (body : σ → Nat → σ) : Nat → Nat → σ → σ
  | 0, _, s => s
  | fuel + 1, i, s => if i < B then forCountAux k B body fuel ((i + 1) % 2 ^ k) (body s i) else s

def forCount {σ : Type} (k B : Nat) (body : σ → Nat → σ) (s : σ) : σ := forCountAux k B body B 0 s

theorem forCountAux_eq_foldl {σ : Type} (k B : Nat) (body : σ → Nat → σ) (hB : B < 2 ^ k) :
    ∀ (fuel i : Nat) (s : σ), i + fuel = B →
      forCountAux k B body fuel i s = ((List.range' i fuel).foldl body s) := by
  intro fuel
  induction fuel with
  | zero => intro i s _; rfl
  | succ f ih =>
    intro i s h
    have hi : i < B := by omega
    have hm : (i + 1) % 2 ^ k = i + 1 := Nat.mod_eq_of_lt (by omega)
    simp only [forCountAux, hi, if_true, hm, List.range'_succ, List.foldl_cons]
    exact ih (i + 1) (body s i) (by omega)

/-- below `2^k` the counted loop is the fold over `0, 1, …, B-1` -/
theorem forCount_eq_foldl {σ : Type} (k B : Nat) (body : σ → Nat → σ) (s : σ) (hB : B < 2 ^ k) :
    forCount k B body s = (List.range B).foldl body s := by
  unfold forCount
  rw [forCountAux_eq_foldl k B body hB B 0 s (by omega), List.range_eq_range']

/-- the bound on `B` is needed: a 2-bit counter below 5 sees 0,1,2,3,0 (and the C++ loop never ends) -/
example : forCount 2 5 (fun (l : List Nat) i => l ++ [i]) [] = [0, 1, 2, 3, 0] := by decide
example : (List.range 5).foldl (fun (l : List Nat) i => l ++ [i]) [] = [0, 1, 2, 3, 4] := by decide

end Nfl.CSemInit
