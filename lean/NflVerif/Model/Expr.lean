/-
Executable model of the expression templates of `include/nfl/ops.hpp`, `poly.hpp`, `poly_p.hpp`, `core.hpp`
(C07, C08).  Core Lean only (the driver links this file).

* `Expr`        the tree the operator overloads build (`ops::expr<Op, Args...>`); a leaf is a *storage handle*
                (a `poly` object, or the `poly` a `poly_p` points to – two `poly_p` sharing storage have the same handle).
* `mkShoup`     the `_make_op` partial specialisation (ops.hpp l.273-284).
* `mode`        `Op::simd_mode` of the root functor = the mode the whole tree is loaded in (`load<M>` passes the *same*
                `M` down to every node, ops.hpp l.76-86); `tagOf` is the tag the operator overloads pass to the functor
                (ops.hpp l.18-45: `CC_SIMD` for two polynomials, the sub-expression's `simd_mode` for a mixed pair,
                `common_mode` for two sub-expressions; `retag` for the fused Shoup node).
* `loadElem`    one element of `expr::load` (scalar functors of `Model/Ops.lean`).
* `assign`      `poly::operator=(expr)` (core.hpp l.24-37): double loop, one block of `vector_size` elements is
                loaded from *the current store*, computed, stored into the destination row of the same store.
* `exprToBool`  `expr::operator bool` (ops.hpp l.88-102) incl. the 64-bit-lane compare of the vector modes;
                `polyToBool` `poly::operator bool` (core.hpp l.39-43); `polyPEq/polyPNeq` (poly_p.hpp l.107-121).
-/
import NflVerif.Model.Ops
import NflVerif.Model.Pratt
namespace Nfl.Ex
open Nfl

/-- `simd::serial`, `simd::sse`, `simd::avx2`.  A *backend* is the value of `CC_SIMD` (arch.hpp). -/
inductive Mode | serial | sse | avx2
deriving DecidableEq, Repr, Inhabited

abbrev Backend := Mode

/-- `simd::X::mode` -/
def Mode.code : Mode → Nat | .serial => 0 | .sse => 1 | .avx2 => 2

def Mode.ofCode : Nat → Option Mode | 0 => some .serial | 1 => some .sse | 2 => some .avx2 | _ => none

inductive Limb | w16 | w32 | w64
deriving DecidableEq, Repr, Inhabited

def Limb.w : Limb → Nat | .w16 => 16 | .w32 => 32 | .w64 => 64

def Limb.ofW : Nat → Option Limb | 16 => some .w16 | 32 => some .w32 | 64 => some .w64 | _ => none

/-- `M::elt_count<T>::value`: 1, `16/sizeof(T)`, `32/sizeof(T)`. -/
def eltCount (l : Limb) : Mode → Nat
  | .serial => 1
  | .sse => 128 / l.w
  | .avx2 => 256 / l.w

/-- `common_mode<M0,M1>` (common.hpp l.32-35, sse.hpp l.33-34, avx2.hpp l.29-32): serial dominates, avx2 ∧ sse = sse. -/
def commonMode : Mode → Mode → Mode
  | .serial, _ => .serial
  | _, .serial => .serial
  | .sse, _ => .sse
  | _, .sse => .sse
  | .avx2, .avx2 => .avx2

/-- `common_mode<M0, M...>` folds from the right: `common_mode<M0, common_mode<M...>>`. -/
def commonMode3 (a b c : Mode) : Mode := commonMode a (commonMode b c)

inductive Expr
  | leaf (h : Nat)
  | add (a b : Expr)
  | sub (a b : Expr)
  | mul (a b : Expr)
  | shoup3 (a b q : Expr)        -- `expr<mulmod_shoup<T,·>, A, B, Q>`
  | computeShoup (a : Expr)
  | eq (a b : Expr)
  | neq (a b : Expr)
deriving DecidableEq, Repr, Inhabited

/-- `shoup(x, q)`: only the pattern `shoup(mul(a,b), q)` yields an evaluable node; the generic `expr<shoup<T,tag>,X,Q>`
cannot be loaded (`shoup<T,serial>::operator()` static_asserts, `shoup<T,sse/avx2>` has no call operator), so an
assignment from it does not compile. -/
def mkShoup : Expr → Expr → Option Expr
  | .mul a b, q => some (.shoup3 a b q)
  | _, _ => none

/-- functor families -/
inductive Fn | add | sub | mul | mulShoup | cshoup | cmp
deriving DecidableEq, Repr

/-- `NAME<T,tag>::simd_mode` – which specialisation is picked and what it inherits:
64-bit limb: every arithmetic functor falls back to the serial one (`X<T,sse> : X<T,serial>`, `X<T,avx2> : X<T,sse>`);
16/32-bit: `addmod`/`submod` have sse and avx2 kernels, `mulmod` and `compute_shoup` inherit serial,
`mulmod_shoup<uint16_t,avx2>::simd_mode = sse` explicitly and `mulmod_shoup<uint32_t,avx2>` inherits the sse kernel;
`eqmod`/`neqmod` are generic: `simd_mode = tag`. -/
def fnMode (l : Limb) (f : Fn) (tag : Mode) : Mode :=
  match f with
  | .cmp => tag
  | .mul | .cshoup => .serial
  | .add | .sub => if l = .w64 then .serial else tag
  | .mulShoup => if l = .w64 then .serial else match tag with | .serial => .serial | _ => .sse

def Expr.isLeaf : Expr → Bool | .leaf _ => true | _ => false

/-- tag chosen by the four overloads of `DECLARE_BINARY_OPERATOR` (`ma`, `mb`: `simd_mode` of the operands):
two polynomials ⇒ `CC_SIMD`; polynomial and sub-expression ⇒ the sub-expression's mode; two sub-expressions ⇒ `common_mode`. -/
def tag2 (be : Backend) (a b : Expr) (ma mb : Mode) : Mode :=
  match a.isLeaf, b.isLeaf with
  | true, true => be
  | true, false => mb
  | false, true => ma
  | false, false => commonMode ma mb

/-- `simd_mode` of a node: `poly::simd_mode = CC_SIMD`, `expr::simd_mode = Op::simd_mode`; for the root it is the
mode the whole tree is loaded in and the width of the assignment loop. -/
def mode (be : Backend) (l : Limb) : Expr → Mode
  | .leaf _ => be
  | .add a b => fnMode l .add (tag2 be a b (mode be l a) (mode be l b))
  | .sub a b => fnMode l .sub (tag2 be a b (mode be l a) (mode be l b))
  | .mul a b => fnMode l .mul (tag2 be a b (mode be l a) (mode be l b))
  | .shoup3 a b q => fnMode l .mulShoup (commonMode3 (mode be l a) (mode be l b) (mode be l q))
  | .computeShoup a => fnMode l .cshoup (mode be l a)
  | .eq a b => fnMode l .cmp (tag2 be a b (mode be l a) (mode be l b))
  | .neq a b => fnMode l .cmp (tag2 be a b (mode be l a) (mode be l b))

def Expr.isCmp : Expr → Bool | .eq _ _ => true | .neq _ _ => true | _ => false

/-- no comparison node anywhere: an arithmetic expression -/
def Expr.arith : Expr → Bool
  | .leaf _ => true
  | .add a b | .sub a b | .mul a b => a.arith && b.arith
  | .shoup3 a b q => a.arith && b.arith && q.arith
  | .computeShoup a => a.arith
  | .eq _ _ | .neq _ _ => false

/-- every arithmetic functor below accepts the register type of mode `m` (its own `simd_mode` is `m`);
comparison functors are templates and accept any register. -/
def accepts (be : Backend) (l : Limb) (m : Mode) : Expr → Bool
  | .leaf _ => true
  | .add a b => mode be l (.add a b) == m && accepts be l m a && accepts be l m b
  | .sub a b => mode be l (.sub a b) == m && accepts be l m a && accepts be l m b
  | .mul a b => mode be l (.mul a b) == m && accepts be l m a && accepts be l m b
  | .shoup3 a b q => mode be l (.shoup3 a b q) == m && accepts be l m a && accepts be l m b && accepts be l m q
  | .computeShoup a => mode be l (.computeShoup a) == m && accepts be l m a
  | .eq a b => accepts be l m a && accepts be l m b
  | .neq a b => accepts be l m a && accepts be l m b

/-- predictor of "the assignment / boolean conversion of this tree compiles" as far as the evaluation modes are
concerned (generator aid; which operator overloads exist for `poly`/`poly_p` operands is in tools/gen_expr.py). -/
def compiles (be : Backend) (l : Limb) (deg : Nat) (e : Expr) : Bool :=
  accepts be l (mode be l e) e && deg % eltCount l (mode be l e) == 0

/-! ### stores -/

abbrev Store := List (List Nat)

structure Ctx where
  l : Limb
  deg : Nat
  rows : List Row          -- `params<T>::P[cm]`, `Pn[cm]` for `cm < nmoduli`
deriving Repr

def Ctx.w (c : Ctx) : Nat := c.l.w
def Ctx.nmod (c : Ctx) : Nat := c.rows.length
def Ctx.n (c : Ctx) : Nat := c.nmod * c.deg
def Ctx.row (c : Ctx) (cm : Nat) : Row := c.rows.getD cm ⟨0, 0, 0, 0⟩
def Ctx.p (c : Ctx) (cm : Nat) : Nat := (c.row cm).p

/-- `_data[k]` of handle `h` -/
def rd (st : Store) (h k : Nat) : Nat := (st.getD h []).getD k 0

/-- `_data[k] = v` of handle `h` -/
def wr (st : Store) (h k v : Nat) : Store := st.set h ((st.getD h []).set k v)

/-- one element of `expr::load<M>(cm, i)`, every functor being the scalar one; `(*this)(cm,i) = _data[cm*degree+i]` -/
def loadElem (c : Ctx) (st : Store) : Expr → Nat → Nat → Nat
  | .leaf h, cm, i => rd st h (cm * c.deg + i)
  | .add a b, cm, i => addmod c.w (c.p cm) (loadElem c st a cm i) (loadElem c st b cm i)
  | .sub a b, cm, i => submod c.w (c.p cm) (loadElem c st a cm i) (loadElem c st b cm i)
  | .mul a b, cm, i => mulmod c.w (c.p cm) (c.row cm).pn (loadElem c st a cm i) (loadElem c st b cm i)
  | .shoup3 a b q, cm, i =>
      mulmodShoup c.w (c.p cm) (loadElem c st a cm i) (loadElem c st b cm i) (loadElem c st q cm i)
  | .computeShoup a, cm, i => computeShoup c.w (c.p cm) (loadElem c st a cm i)
  | .eq a b, cm, i => eqmod (loadElem c st a cm i) (loadElem c st b cm i)
  | .neq a b, cm, i => neqmod (loadElem c st a cm i) (loadElem c st b cm i)

/-- `expr.load<M>(cm, j)` for a register of `vs` elements -/
def loadBlock (c : Ctx) (st : Store) (e : Expr) (cm j vs : Nat) : List Nat :=
  (List.range vs).map fun t => loadElem c st e cm (j + t)

/-- `M::store(&dest(cm,j), v)`: the elements of `v` go to `_data[base], _data[base+1], …` -/
def storeBlock (st : Store) (d : Nat) : Nat → List Nat → Store
  | _, [] => st
  | base, v :: vs => storeBlock (wr st d base v) d (base + 1) vs

/-- body of the inner loop: `M::store(&(*this)(cm,j), expr.load<M>(cm,j))` -/
def assignStep (c : Ctx) (d : Nat) (e : Expr) (vs cm : Nat) (st : Store) (jb : Nat) : Store :=
  storeBlock st d (cm * c.deg + jb * vs) (loadBlock c st e cm (jb * vs) vs)

/-- `for (j = 0; j < degree; j += vs)` (`degree / vs * vs == degree` is static_asserted) -/
def assignCm (c : Ctx) (d : Nat) (e : Expr) (vs : Nat) (st : Store) (cm : Nat) : Store :=
  (List.range (c.deg / vs)).foldl (assignStep c d e vs cm) st

/-- `poly::operator=(expr)` with vector width `vs` -/
def assignW (c : Ctx) (vs d : Nat) (e : Expr) (st : Store) : Store :=
  (List.range c.nmod).foldl (assignCm c d e vs) st

/-- `dest = e` in backend `be`: the width is `elt_count` of the root's `simd_mode` -/
def assign (c : Ctx) (be : Backend) (d : Nat) (e : Expr) (st : Store) : Store :=
  assignW c (eltCount c.l (mode be c.l e)) d e st

/-- `poly c(e)` / `poly_p c(e)`: a new object whose (uninitialised) storage `junk` is assigned to. -/
def construct (c : Ctx) (be : Backend) (junk : List Nat) (e : Expr) (st : Store) : Store :=
  assign c be st.length e (st ++ [junk])

/-- `nfl::add(out,a,b)`, `nfl::sub`, `nfl::mul` (poly.hpp l.325-343) -/
def addH (c : Ctx) (be : Backend) (out a b : Nat) (st : Store) : Store := assign c be out (.add (.leaf a) (.leaf b)) st
def subH (c : Ctx) (be : Backend) (out a b : Nat) (st : Store) : Store := assign c be out (.sub (.leaf a) (.leaf b)) st
def mulH (c : Ctx) (be : Backend) (out a b : Nat) (st : Store) : Store := assign c be out (.mul (.leaf a) (.leaf b)) st

/-! ### boolean conversions -/

/-- elements per 64-bit lane: GCC's `==`/`!=` on `__m128i`/`__m256i` (vectors of `long long`) compares 64-bit lanes -/
def eltsPerLane (l : Limb) : Mode → Nat
  | .serial => 1
  | _ => 64 / l.w

/-- what a *true* comparison leaves in each element of its lane: the scalar `bool` converted to `T` is 1, a vector
lane is all-ones. -/
def trueWord (l : Limb) : Mode → Nat
  | .serial => 1
  | _ => 2 ^ l.w - 1

/-- comparison only at the root, over arithmetic operands (a comparison nested inside another node has a
mode-dependent meaning: outside the modelled domain, `exprToBool` answers `none`). -/
def Expr.inDomain : Expr → Bool
  | .eq a b | .neq a b => a.arith && b.arith
  | e => e.arith

/-- element `t` of the register `x == y` / `x != y` for `x = a.load<M>(cm,j)`, `y = b.load<M>(cm,j)`:
the 64-bit lane containing element `t` starts at element `t / epl * epl`. -/
def cmpWord (c : Ctx) (m : Mode) (st : Store) (a b : Expr) (isEq : Bool) (cm j t : Nat) : Nat :=
  let epl := eltsPerLane c.l m
  let l0 := t / epl * epl
  let same := (List.range epl).all fun u => loadElem c st a cm (j + (l0 + u)) == loadElem c st b cm (j + (l0 + u))
  if same == isEq then trueWord c.l m else 0

/-- `tmp[t]` after `simd_mode::store(tmp, load<simd_mode>(cm, j))` -/
def rootWord (c : Ctx) (m : Mode) (st : Store) (e : Expr) (cm j t : Nat) : Nat :=
  match e with
  | .eq a b => cmpWord c m st a b true cm j t
  | .neq a b => cmpWord c m st a b false cm j t
  | e => loadElem c st e cm (j + t)

/-- `expr::operator bool` evaluated in mode `m` (three nested loops with early return): an `eqmod` root is true iff
no stored element is zero, every other root iff some stored element is non-zero. -/
def exprToBoolM (c : Ctx) (m : Mode) (st : Store) (e : Expr) : Option Bool :=
  if !e.inDomain then none else
  let vs := eltCount c.l m
  some (match e with
    | .eq _ _ =>
      (List.range c.nmod).all fun cm => (List.range (c.deg / vs)).all fun jb => (List.range vs).all fun t =>
        rootWord c m st e cm (jb * vs) t != 0
    | _ =>
      (List.range c.nmod).any fun cm => (List.range (c.deg / vs)).any fun jb => (List.range vs).any fun t =>
        rootWord c m st e cm (jb * vs) t != 0)

def exprToBool (c : Ctx) (be : Backend) (st : Store) (e : Expr) : Option Bool :=
  exprToBoolM c (mode be c.l e) st e

/-- `poly::operator bool`: `find_if(begin(), end(), v != 0) != end()` -/
def polyToBool (st : Store) (h : Nat) : Bool := (st.getD h []).any (· != 0)

/-- `poly_p::operator==(poly_p const&)`: identical storage ⇒ `true`, else `poly == poly` converted to `bool` -/
def polyPEq (c : Ctx) (be : Backend) (st : Store) (ha hb : Nat) : Option Bool :=
  if ha = hb then some true else exprToBool c be st (.eq (.leaf ha) (.leaf hb))

/-- `poly_p::operator!=(poly_p const&)` -/
def polyPNeq (c : Ctx) (be : Backend) (st : Store) (ha hb : Nat) : Option Bool :=
  if ha = hb then some false else exprToBool c be st (.neq (.leaf ha) (.leaf hb))

end Nfl.Ex
