/-
Node semantics and memory vocabulary used by `tools/gen_gauss_ast.py` (`Generated/GaussAst.lean`: the sampling path
`FastGaussianNoise<in_class,out_class,_lu_depth>::getNoise` / `cmp` translated from clang's AST).  Hand-written, core Lean
only; together with `Model/CSem.lean` (not modified) and clang's AST this is the TRUSTED reading of the C++ text.

Values: as in `CSem` (unsigned `k` bits = `Nat < 2^k`; a signed `k`-bit type = its residue mod `2^k`; `bool` = `Bool`).
Memory:
* a pointer to integers is `Ptr` = the cells of the object it points into + an element offset; `load` / `idxS` return
  `none` when the access is outside the object (the whole generated function then returns `none`);
* `output<in_class,out_class>` is `CCell` (`val` = residue of the `out_class` value; `l_b_ptr` = the list of barrier
  objects the stored pointers point to, each pointer pointing at the first word);
* `output_t*` (`lu_table`) is the array of its cells, `output_t**` (`lu_table2`) an array of rows, `none` = null pointer.
Control: a loop body returns `Flow` (`next` state / `brk` = break / `ret` = return from the function); `forEach` runs a
body over a list and stops at the first `brk` / `ret` / `none`; `for (int i = 0; i < B; i++)` with a loop-invariant
bound is `forEach (List.range (tripS 32 B))`; a range-based `for` over a `std::list` member is `forEach` over its elements.
External call `fastrandombytes(p, n)`: DATA (`Ext`), appended to the call log; its effect on memory is NOT applied
(the translator refuses any memory read after it inside the same piece).
-/
import NflVerif.Model.CSem
namespace Nfl.CGauss
open Nfl

/-! ### integers that `CSem` does not have -/

/-- `a + b`, `a - b` in a signed type of `k` bits (wrap-around; overflow sites are listed by the translator) -/
def addS (k a b : Nat) : Nat := (a + b) % 2 ^ k
/-- unary minus on `int` -/
def negS32 (a : Nat) : Nat := (2 ^ 32 - a % 2 ^ 32) % 2 ^ 32
/-- signed `j` bits → unsigned `k` bits: the signed value modulo `2^k` -/
def castSwU (j k a : Nat) : Nat :=
  if a % 2 ^ j < 2 ^ (j - 1) then (a % 2 ^ j) % 2 ^ k else (a % 2 ^ j + 2 ^ k * 2 ^ j - 2 ^ j) % 2 ^ k
/-- number of iterations of `for (T i = 0; i < B; i++)` for a signed `k`-bit `B`: `max B 0` -/
def tripS (k b : Nat) : Nat := (CSem.svalW k b).toNat
/-- the integer an `out_class` object denotes: `b` bits, signed or not -/
def valOfOut (b : Nat) (sg : Bool) (x : Nat) : Int := if sg then CSem.svalW b x else ((x % 2 ^ b : Nat) : Int)

/-! ### memory -/

structure Ptr where
  obj : List Nat
  off : Nat
deriving Repr, DecidableEq

/-- `*p` -/
def load (p : Ptr) : Option Nat := p.obj[p.off]?
/-- `p + i`, `p += i` with `i` of an unsigned type -/
def ptrAddU (p : Ptr) (i : Nat) : Ptr := { p with off := p.off + i }
/-- `p + i` with `i` of a signed `k`-bit type; `none` = before the start of the object -/
def ptrAddS (k : Nat) (p : Ptr) (i : Nat) : Option Ptr :=
  if 0 ≤ (p.off : Int) + CSem.svalW k i then some { p with off := ((p.off : Int) + CSem.svalW k i).toNat } else none
/-- `p[i]` with `i` of a signed `k`-bit type -/
def idxS (k : Nat) (p : Ptr) (i : Nat) : Option Nat := (ptrAddS k p i).bind load
/-- `p[i] = v` with `i` unsigned; `none` = outside the object -/
def storeU (p : Ptr) (i v : Nat) : Option Ptr :=
  if p.off + i < p.obj.length then some { p with obj := p.obj.set (p.off + i) v } else none
/-- `new T[n]`: `n` cells of indeterminate value (modelled as 0; the code fills them through `fastrandombytes` first) -/
def newArray (n : Nat) : Ptr := ⟨List.replicate n 0, 0⟩

structure CCell where
  val : Nat
  flag : Bool
  l_b_ptr : List (List Nat)
deriving Repr, DecidableEq, Inhabited

/-- an element of `l_b_ptr` as a pointer value -/
def ptrOf (b : List Nat) : Ptr := ⟨b, 0⟩
/-- `t[i]` for `t : output_t*` -/
def cellAt (t : Array CCell) (i : Nat) : Option CCell := t[i]?
/-- the row `t[i]` of `t : output_t**` as something that can be subscripted: `none` = outside `t` or a null pointer -/
def rowAt (t : Array (Option (Array CCell))) (i : Nat) : Option (Array CCell) :=
  match t[i]? with
  | some (some r) => some r
  | _ => none

/-! ### control -/

inductive Flow (σ ρ : Type) where
  | next (s : σ)
  | brk (s : σ)
  | ret (r : ρ)
deriving Repr, DecidableEq

def forEach {α σ ρ : Type} (l : List α) (body : α → σ → Option (Flow σ ρ)) (s : σ) : Option (Flow σ ρ) :=
  match l with
  | [] => some (.next s)
  | a :: l =>
    match body a s with
    | some (.next s') => forEach l body s'
    | other => other

/-- state after a loop whose body has no `return` -/
def Flow.state {σ : Type} : Flow σ Empty → σ
  | .next s => s
  | .brk s => s

/-- external calls as data -/
inductive Ext where
  | fastrandombytes (p : Ptr) (n : Nat)
deriving Repr, DecidableEq

end Nfl.CGauss
