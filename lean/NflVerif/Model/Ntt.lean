/-
Executable model of the transform code: `core::initialize`, `core::prep_wtab`, `core::ntt`,
`core::inv_ntt`, `ntt_loop<serial>` / `ntt_loop_body<serial>` (algos.hpp), the bit-reversal of
`permut.hpp`, `ntt_pow_phi`, `invntt_pow_invphi` (core.hpp).

One modulus slice is a `List Nat` of `n = 2^k` words.  Loops are kept in the shape of the code:
layer by layer, block by block (`mapBlocks`), table pointers advanced by `drop`.
Core Lean only.
-/
import NflVerif.Model.Ops
import NflVerif.Model.Pratt

namespace Nfl

/-! ### bit reversal (`permut.hpp`) -/

/-- `r_loop` / `permut_compute`: `r = (r << 1) | (i & 1); i >>= 1`, `k` times. -/
def bitrevCode : Nat → Nat → Nat
  | 0, _ => 0
  | k + 1, i => (i % 2) * 2 ^ k + bitrevCode k (i / 2)

/-- `permut<degree>::compute(y, x)`: `y[i] = x[P(i)]`. -/
def permutW (k : Nat) (x : List Nat) : List Nat :=
  let a := x.toArray
  (List.range (2 ^ k)).map (fun i => a.getD (bitrevCode k i) 0)

/-! ### table initialisation (`core::initialize`, `core::prep_wtab`) -/

/-- `((greater_value_type) x << w) / p` stored into a `value_type` -/
def shoupOf (w p x : Nat) : Nat := ((x * 2 ^ w) % 2 ^ (2 * w) / p) % 2 ^ w

/-- `[c, c·s, c·s², …]` (`n` entries) by repeated `mulmod` -/
def iterMul (w p pn s : Nat) : Nat → Nat → List Nat
  | 0, _ => []
  | n + 1, c => c :: iterMul w p pn s n (mulmod w p pn c s)

/-- `x^(2^j)` by `j` modular squarings -/
def sqrIter (w p pn : Nat) : Nat → Nat → Nat
  | 0, x => x
  | j + 1, x => sqrIter w p pn j (mulmod w p pn x x)

/-- `prep_wtab`: for `K = 2^k, 2^(k-1), …, 2` the powers `ω^0 … ω^(K/2-1)`, then `ω ← ω²`. -/
def prepWtab (w p pn : Nat) : Nat → Nat → List Nat
  | 0, _ => []
  | k + 1, om => iterMul w p pn om (2 ^ k) 1 ++ prepWtab w p pn k (mulmod w p pn om om)

structure NttTables where
  phis : List Nat
  shoupphis : List Nat
  invphis : List Nat          -- invpoly_times_invphis
  shoupinvphis : List Nat
  omegas : List Nat
  shoupomegas : List Nat
  invomegas : List Nat
  shoupinvomegas : List Nat
deriving Repr

/-- `core::initialize` for one modulus (row `r`), degree `2^k`, `lk = log2 kMaxPolyDegree`. -/
def initTables (w lk : Nat) (r : Row) (k : Nat) : NttTables :=
  let p := r.p
  let n := 2 ^ k
  let mm := mulmod w p r.pn
  let phi := sqrIter w p r.pn (lk - k) r.root
  let phis := iterMul w p r.pn phi n 1
  -- temp after the loop = phi^n ; invphi = temp * phis[n-1]
  let phiN := (iterMul w p r.pn phi (n + 1) 1).getD n 0
  let invphi := mm phiN (phis.getD (n - 1) 0)
  let invDeg := mm r.invN ((2 ^ lk / n) % 2 ^ w)
  let invphis := iterMul w p r.pn invphi n invDeg
  let omega := mm phi phi
  let invomega := mm invphi invphi
  let om := prepWtab w p r.pn k omega
  let iom := prepWtab w p r.pn k invomega
  { phis := phis, shoupphis := phis.map (shoupOf w p),
    invphis := invphis, shoupinvphis := invphis.map (shoupOf w p),
    omegas := om, shoupomegas := om.map (shoupOf w p),
    invomegas := iom, shoupinvomegas := iom.map (shoupOf w p) }

/-! ### butterflies (`ntt_loop_body<serial>` and the fused last two layers of `core::ntt`) -/

/-- `t0 = u0 + u1; t0 -= (t0 >= 2p) ? 2p : 0` -/
def bflyLo (w p u0 u1 : Nat) : Nat :=
  let t0 := (u0 + u1) % 2 ^ w
  if 2 * p ≤ t0 then t0 - 2 * p else t0

/-- `t1 = u0 - u1 + 2p; q = (t1 * w') >> W; t2 = t1 * w - q * p` -/
def bflyHi (w p u0 u1 wt wt' : Nat) : Nat :=
  let t1 := (u0 + 2 * p + (2 ^ w - u1 % 2 ^ w)) % 2 ^ w
  let q := shoupQ w t1 wt'
  subWrap (2 ^ w) (t1 * wt) (q * p)

/-- `v = a - b; v += ((signed) v < 0) ? 2p : 0` -/
def subLazy (w p a b : Nat) : Nat :=
  let d := (a + (2 ^ w - b % 2 ^ w)) % 2 ^ w
  if 2 ^ (w - 1) ≤ d then (d + 2 * p) % 2 ^ w else d

/-- `x -= (x >= p) ? p : 0` -/
def strictRed (p x : Nat) : Nat := if p ≤ x then x - p else x

def hiList (w p : Nat) : List Nat → List Nat → List Nat → List Nat → List Nat
  | u0 :: a, u1 :: b, wt :: c, wt' :: d => bflyHi w p u0 u1 wt wt' :: hiList w p a b c d
  | _, _, _, _ => []

/-- one block of one layer: `x0 = lo(x0,x1)`, `x1 = hi(x0,x1,w_i)` for `i < N/2` -/
def layerBlock (w p : Nat) (ws ws' : List Nat) (b : List Nat) : List Nat :=
  let h := b.length / 2
  let a0 := b.take h
  let a1 := b.drop h
  List.zipWith (bflyLo w p) a0 a1 ++ hiList w p a0 a1 ws ws'

/-- apply `f` to `M` consecutive blocks of `N` words -/
def mapBlocks (N : Nat) (f : List Nat → List Nat) : Nat → List Nat → List Nat
  | 0, _ => []
  | M + 1, x => f (x.take N) ++ mapBlocks N f M (x.drop N)

/-- `ntt_loop<serial>::run`: `layers` layers starting with `M` blocks of `N` words; returns the data
and the advanced table pointers. -/
def nttLoop (w p : Nat) : Nat → Nat → Nat → List Nat → List Nat → List Nat → List Nat × List Nat × List Nat
  | 0, _, _, wt, wt', x => (x, wt, wt')
  | j + 1, N, M, wt, wt', x =>
    nttLoop w p j (N / 2) (2 * M) (wt.drop (N / 2)) (wt'.drop (N / 2))
      (mapBlocks N (layerBlock w p (wt.take (N / 2)) (wt'.take (N / 2))) M x)

/-- the fused last two layers on one block of four words (`wtab[1]`, `winvtab[1]`) -/
def fused4 (w p w1 w1' : Nat) : List Nat → List Nat
  | [u0, u1, u2, u3] =>
    let v0 := bflyLo w p u0 u2
    let v2 := subLazy w p u0 u2
    let v1 := bflyLo w p u1 u3
    let v3 := bflyHi w p u1 u3 w1 w1'
    [bflyLo w p v0 v1, subLazy w p v0 v1, bflyLo w p v2 v3, subLazy w p v2 v3]
  | x => x

/-- `core::ntt` (in place on `x`): degree 1 and 2 special cases, layers, fused last two layers,
final strict reduction (`NTT_STRICTMOD` is defined in debug.hpp). -/
def nttWord (w p k : Nat) (wt wt' : List Nat) (x : List Nat) : List Nat :=
  match k with
  | 0 => x
  | 1 =>
    match x with
    | [u0, u1] =>
      let t0 := bflyLo w p u0 u1
      let t1 := subLazy w p u0 u1
      [strictRed p t0, strictRed p t1]
    | _ => x
  | k' + 2 =>
    let (y, wt2, wt2') := nttLoop w p k' (2 ^ k) 1 wt wt' x
    let z := mapBlocks 4 (fused4 w p (wt2.getD 1 0) (wt2'.getD 1 0)) (2 ^ k') y
    z.map (strictRed p)

/-- `core::inv_ntt`: bit-reverse, `ntt` with the inverse tables, bit-reverse. -/
def invNttWord (w p k : Nat) (iwt iwt' : List Nat) (x : List Nat) : List Nat :=
  if k = 0 then x else permutW k (nttWord w p k iwt iwt' (permutW k x))

/-- element-wise `shoup(op * tab, tab')` as evaluated by `poly::operator=(expr)` -/
def mulShoupList (w p : Nat) : List Nat → List Nat → List Nat → List Nat
  | x :: xs, y :: ys, y' :: ys' => mulmodShoup w p x y y' :: mulShoupList w p xs ys ys'
  | _, _, _ => []

/-- `ntt_pow_phi` on one modulus slice -/
def nttPowPhi (w p k : Nat) (t : NttTables) (a : List Nat) : List Nat :=
  nttWord w p k t.omegas t.shoupomegas (mulShoupList w p a t.phis t.shoupphis)

/-- `invntt_pow_invphi` on one modulus slice -/
def invnttPowInvphi (w p k : Nat) (t : NttTables) (y : List Nat) : List Nat :=
  mulShoupList w p (invNttWord w p k t.invomegas t.shoupinvomegas y) t.invphis t.shoupinvphis

end Nfl
