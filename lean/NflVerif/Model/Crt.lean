import NflVerif.Spec.NttSpec
/-
Model of `include/nfl/gmp.hpp` (core Lean only, executable).

GMP is an *external contract*: `mpz_t` values are mathematical integers (`Nat`/`Int`), `mpz_mul(_ui)`,
`mpz_addmul_ui`, `mpz_submul`, `mpz_sub`, `mpz_tdiv_q`, `mpz_tdiv_q_2exp`, `mpz_divexact`, `mpz_cmp` are exact,
`mpz_sizeinbase(x,2)` is the bit length (1 for 0), `mpz_fdiv_ui(z,p)` is the floor remainder in `[0,p)`
(`Int.emod` for `p > 0`), and `mpz_invert(rop,a,p)` stores the inverse of `a` modulo `p` in `[0,p)` when it exists
(the constructor ignores its return value; when no inverse exists the C result is unspecified — this never
happens for pairwise coprime moduli, and the theorems of C04 are stated for *any* function meeting the contract,
then instantiated with the extended-Euclid implementation below, which is proved to meet it).
`mpz_init2` sizes are allocation hints only (GMP reallocates), so they do not appear.

Everything is written the way the C++ does it: product of the moduli by a left fold, the shift
`bits(Q) + kModulusRepresentationBitsize + static_log2<nmoduli> + 1`, zero residues skipped in the accumulation,
the quotient estimate `(x·μ) >> s`, the signed `x − q·Q` and exactly one conditional subtraction.
-/
namespace Nfl.Crt

/-- `mpz_sizeinbase(x, 2)` -/
def bitsNat (x : Nat) : Nat := if x = 0 then 1 else Nat.log2 x + 1

/-- `static_log2<N>::value` (`meta.hpp`: `_log2<N> = 1 + _log2<N/2>`, `_log2<1> = 0`) for `N ≥ 1`;
`static_log2<0>` has no `value` member, i.e. `NbModuli = 0` does not compile. -/
def staticLog2 (n : Nat) : Nat := Nat.log2 n

/-- extended Euclid on `(r0, r1)` carrying the Bézout coefficient of the first argument modulo the second;
structural on `fuel` -/
def xgcdAux : Nat → Nat → Int → Nat → Int → Nat × Int
  | 0, r0, s0, _, _ => (r0, s0)
  | fuel + 1, r0, s0, r1, s1 =>
    if r1 = 0 then (r0, s0) else xgcdAux fuel r1 s1 (r0 % r1) (s0 - ((r0 / r1 : Nat) : Int) * s1)

/-- implementation of the `mpz_invert` contract: the inverse of `a` modulo `p`, in `[0,p)` -/
def invMod (a p : Nat) : Nat := ((xgcdAux (p + 1) a 1 p 0).2 % (p : Int)).toNat

/-- the static members of `poly<T,Degree,NbModuli>::GMP` -/
structure GmpConsts where
  ps : List Nat          -- get_modulus(0..m-1)
  Q : Nat                -- moduli_product
  bitsQ : Nat            -- bits_in_moduli_product
  s : Nat                -- shift_modulus_shoup
  mu : Nat               -- modulus_shoup
  bitsMu : Nat           -- bits_in_modulus_shoup
  L : List Nat           -- lifting_integers
deriving Repr

/-- product of the moduli as the constructor computes it (`Q = 1; Q *= p_cm`) -/
def prodL (ps : List Nat) : Nat := ps.foldl (· * ·) 1

/-- `GMP::GMP()` for limb width `w = kModulusRepresentationBitsize` and moduli `ps`, with `inv` standing for
`mpz_invert` -/
def gmpInitWith (inv : Nat → Nat → Nat) (w : Nat) (ps : List Nat) : GmpConsts :=
  let Q := prodL ps
  let bitsQ := bitsNat Q
  let s := bitsQ + w + staticLog2 ps.length + 1
  let mu := 2 ^ s / Q
  { ps := ps, Q := Q, bitsQ := bitsQ, s := s, mu := mu, bitsMu := bitsNat mu,
    L := ps.map fun p => let quotient := Q / p; inv quotient p * quotient }

def gmpInit (w : Nat) (ps : List Nat) : GmpConsts := gmpInitWith invMod w ps

/-- the accumulation loop of `poly2mpz` for one coefficient: `x += L_cm · r_cm` unless `r_cm = 0` -/
def rawSumAux : List Nat → List Nat → Nat → Nat
  | l :: L, r :: rs, acc => rawSumAux L rs (if r ≠ 0 then acc + l * r else acc)
  | _, _, acc => acc

def rawSum (L rs : List Nat) : Nat := rawSumAux L rs 0

/-- "Modular reduction using Shoup": `tmp = (x·μ) >> s; x -= tmp·Q; if (x >= Q) x -= Q` (signed, as `mpz_t`) -/
def shoupReduce (g : GmpConsts) (x : Nat) : Int :=
  let q := (x * g.mu) >>> g.s
  let x1 : Int := (x : Int) - (q : Int) * (g.Q : Int)
  if x1 ≥ (g.Q : Int) then x1 - (g.Q : Int) else x1

/-- one coefficient of `GMP::poly2mpz`: residues `r_0 … r_{m-1}` ↦ lifted integer -/
def poly2mpzCoeff (g : GmpConsts) (rs : List Nat) : Int := shoupReduce g (rawSum g.L rs)

/-- the residues of coefficient `i` of a polynomial stored modulus-major (`op(cm,i) = data[cm·n+i]`) -/
def residuesAt (n m : Nat) (data : List Nat) (i : Nat) : List Nat :=
  (List.range m).map fun cm => data.getD (cm * n + i) 0

/-- `GMP::poly2mpz` on a polynomial of degree `n` (`n·m` words, modulus-major) -/
def poly2mpz (g : GmpConsts) (n : Nat) (data : List Nat) : List Int :=
  (List.range n).map fun i => poly2mpzCoeff g (residuesAt n g.ps.length data i)

/-- `mpz_fdiv_ui(z, p)` -/
def fdivUi (z : Int) (p : Nat) : Nat := (z % (p : Int)).toNat

/-- the residues of one integer: what `mpz2poly` / `set_mpz` store for one coefficient -/
def mpz2polyCoeff (ps : List Nat) (z : Int) : List Nat := ps.map (fdivUi z)

/-- `GMP::mpz2poly`: `n` integers ↦ `n·m` words, modulus-major -/
def mpz2poly (ps : List Nat) (zs : List Int) : List Nat := ps.flatMap fun p => zs.map fun z => fdivUi z p

/-- `poly::set_mpz(first, last)`: at most `n` values (replicated for every modulus, zero padded) or exactly
`n·m` values (one block per modulus); any other size throws (`none`). -/
def setMpz (ps : List Nat) (n : Nat) (vals : List Int) : Option (List Nat) :=
  let size := vals.length
  let m := ps.length
  if size > n ∧ size ≠ n * m then none
  else some <| (List.range m).flatMap fun cm =>
    let p := ps.getD cm 0
    let src := if size ≠ n * m then vals else vals.drop (cm * n)
    let taken := (src.take n).map fun z => fdivUi z p
    taken ++ List.replicate (n - taken.length) 0

/-- compositions -/
def liftOfMpz (g : GmpConsts) (z : Int) : Int := poly2mpzCoeff g (mpz2polyCoeff g.ps z)
def residuesOfLift (g : GmpConsts) (rs : List Nat) : List Nat := mpz2polyCoeff g.ps (poly2mpzCoeff g rs)
def poly2mpzOfMpz2poly (g : GmpConsts) (zs : List Int) : List Int := poly2mpz g zs.length (mpz2poly g.ps zs)
def mpz2polyOfPoly2mpz (g : GmpConsts) (n : Nat) (data : List Nat) : List Nat := mpz2poly g.ps (poly2mpz g n data)

/-! residue-wise ring operations with exact modular arithmetic (the library's `addmod`/`submod`/`mulmod` are
proved to compute exactly these in `Nfl.C03`) -/
def zip3With (f : Nat → Nat → Nat → Nat) : List Nat → List Nat → List Nat → List Nat
  | p :: ps, x :: xs, y :: ys => f p x y :: zip3With f ps xs ys
  | _, _, _ => []

def addRes (ps a b : List Nat) : List Nat := zip3With (fun p x y => (x + y) % p) ps a b
def subRes (ps a b : List Nat) : List Nat := zip3With (fun p x y => (x + p - y) % p) ps a b
def mulRes (ps a b : List Nat) : List Nat := zip3With (fun p x y => (x * y) % p) ps a b

/-- words of modulus `cm` of a polynomial stored modulus-major -/
def slice (n : Nat) (data : List Nat) (cm : Nat) : List Nat := (data.drop (cm * n)).take n

/-- the product in `Z_{p_cm}[X]/(X^n+1)` taken independently for every modulus (what the transform-based
multiplication computes, C01) -/
def mulPoly (ps : List Nat) (n : Nat) (a b : List Nat) : List Nat :=
  (List.range ps.length).flatMap fun cm => Spec.negacyclicNat (ps.getD cm 0) (slice n a cm) (slice n b cm)

end Nfl.Crt
