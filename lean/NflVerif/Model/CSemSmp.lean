/-
Node semantics that `tools/gen_smp_ast.py` needs to translate WHOLE sampler / setter functions of
`include/nfl/core.hpp` (loops, memory, the external randomness source) beyond the expression helpers of
CSem.lean / CSemSet.lean and the counted loop of CSemInit.lean.  Hand-written, core Lean only; part of the
TRUSTED reading of the C++ text (with clang's AST, CSem*.lean and StdSem.lean).

Representation
* an array / `std::vector` of `wb`-byte words is a `List Nat`; a pointer / iterator into it is an ELEMENT
  OFFSET (`Nat`) into one array the translator knows statically (as in CSemInit.lean);
* the randomness source is the TAPE: the byte strings that the successive calls of
  `nfl::fastrandombytes(unsigned char*, unsigned long long)` deliver, in call order.  `IO` carries the unread
  tape and the list of the sizes REQUESTED so far (in call order);
* a function that can stop early has a result in `Res`: `ok v`, or `err e` with `e` =
  `thrown` (a C++ `throw`), `assertion` (`assert` failed), `tapeEnd` (fastrandombytes was called but the tape
  has no buffer left: the finite tape does not describe this run), `fuel` (an unbounded C++ loop used up the
  iteration budget the translator gave it — the equality theorems show this never happens).

Undefined behaviour.  A store outside the array is dropped and a load outside gives 0 (as CSemInit);
bytes that `fastrandombytes` / `memset` would write past the end of the array are dropped (for
`sizeof(poly)` these are the padding bytes of the `aligned(32)` member).  Words are little-endian (x86-64).
-/
namespace Nfl.Smp

inductive Err where
  | thrown | assertion | tapeEnd | fuel
deriving DecidableEq, Repr

inductive Res (α : Type) where
  | ok (a : α)
  | err (e : Err)
deriving Repr, DecidableEq

def Res.bind {α β : Type} : Res α → (α → Res β) → Res β
  | .ok a, f => f a
  | .err e, _ => .err e

@[simp] theorem Res.bind_ok {α β : Type} (a : α) (f : α → Res β) : (Res.ok a).bind f = f a := rfl
@[simp] theorem Res.bind_err {α β : Type} (e : Err) (f : α → Res β) : (Res.err e : Res α).bind f = .err e := rfl

structure IO where
  tape : List (List Nat)
  reqs : List Nat
deriving Repr

/-- `arr[i] = v` / `*q = v` with `q` at offset `i` -/
def store (arr : List Nat) (i v : Nat) : List Nat := arr.set i v
/-- the value of `arr[i]` / `*q` -/
def load (arr : List Nat) (i : Nat) : Nat := arr.getD i 0
/-- `q + n`, `q++` -/
def ptrAdd (off n : Nat) : Nat := off + n
/-- `p == q`, `p < q` for two pointers / iterators into the same array -/
def ptrEq (a b : Nat) : Bool := decide (a = b)
def ptrLt (a b : Nat) : Bool := decide (a < b)

/-- little-endian value of a byte string -/
def leBytes : List Nat → Nat
  | [] => 0
  | b :: bs => b % 256 + 256 * leBytes bs

/-- byte `t` of a word -/
def byteOf (x t : Nat) : Nat := x / 256 ^ t % 256

/-- word `j` of an array of `wb`-byte words after the first `n` BYTES of the array were overwritten with the
bytes `src 0, src 1, …` -/
def overWord (wb : Nat) (src : Nat → Nat) (n j old : Nat) : Nat :=
  leBytes ((List.range wb).map fun t => if j * wb + t < n then src (j * wb + t) % 256 else byteOf old t)

/-- `fastrandombytes((unsigned char*) arr, n)`: the next buffer of the tape is copied over the first `n` bytes
of `arr` (a buffer shorter than `n` is read as zero-padded), the request size is recorded. -/
def frb (wb : Nat) (arr : List Nat) (n : Nat) (io : IO) : Res (List Nat × IO) :=
  match io.tape with
  | [] => .err .tapeEnd
  | req :: rest => .ok (arr.mapIdx (fun j old => overWord wb (fun t => req.getD t 0) n j old), ⟨rest, io.reqs ++ [n]⟩)

/-- `for (U i = lo; i < B; i++) s = body s i;` whose body can stop the function; `U` unsigned of `k` bits,
`i` not assigned by the body, `B` not changed by it.  Fuel `B - lo` (cf. CSemInit.forCount). -/
def forFromMAux {σ : Type} (k B : Nat) (body : σ → Nat → Res σ) : Nat → Nat → σ → Res σ
  | 0, _, s => .ok s
  | fuel + 1, i, s => if i < B then (body s i).bind (forFromMAux k B body fuel ((i + 1) % 2 ^ k)) else .ok s

def forFromM {σ : Type} (k lo B : Nat) (body : σ → Nat → Res σ) (s : σ) : Res σ :=
  forFromMAux k B body (B - lo) lo s

/-- `for (;;) { … if (c) { …; break; } }`: `body s = ok (s', true)` when the iteration ends in `break`.
The C++ loop has no bound; `fuel` iterations are allowed, then `err fuel`. -/
def loopM {σ : Type} (body : σ → Res (σ × Bool)) : Nat → σ → Res σ
  | 0, _ => .err .fuel
  | fuel + 1, s =>
    match body s with
    | .err e => .err e
    | .ok (s', true) => .ok s'
    | .ok (s', false) => loopM body fuel s'

/-- iteration budget given to a `for (;;)` loop that reads one word of the buffer `buf` per iteration and
refills the buffer from the tape when it is exhausted: every iteration either consumes a word or fails. -/
def loopFuel (io : IO) (buf : List Nat) : Nat := (io.tape.length + 1) * (buf.length + 1)

/-- `if (c) throw …;` / `assert(c)` -/
def throwIf (c : Bool) : Res Unit := if c then .err .thrown else .ok ()
def assertThat (c : Bool) : Res Unit := if c then .ok () else .err .assertion

end Nfl.Smp
