/-
Model of the heap blocks a `FastGaussianNoise` object obtains and releases over its life, when constructor, `getNoise`
and destructor may run on different threads, several samplers are alive at once and threads end in between
(include/nfl/prng/FastGaussianNoise.hpp: the two constructors = `init` + `precomputeBarrierValues` +
`buildLookupTables`, `getNoise`, `~FastGaussianNoise`).  Core Lean only.

External behaviour taken as a contract (MPFR built with thread-local storage, `mpfr_buildopt_tls_p() = 1`):
  * MPFR functions (`mpfr_exp` in `nn_gaussian_law`) may leave blocks in the *calling thread's* cache (constant `log 2`,
    the `mpz` pool): `fill` blocks per construction, any number;
  * `mpfr_free_cache()` releases the caches of the *calling thread* only;
  * the blocks cached by a thread that ends without releasing them are lost for good;
  * blocks owned by the object itself (barriers, tables, `_center`, `_const_sigma`: `own` of them) come from the global
    allocator and may be released from any thread.
What the code does: `precomputeBarrierValues` ends with `mpfr_free_cache()` — i.e. the *constructor* releases the
cache on the thread that filled it (`Policy.inCtor`); the destructor releases the object's own blocks only.
`Policy.inDtor` (release in the destructor instead) is modelled as well, for the converse witness.

Events are what the harness's `glc` lines carry: `(op, obj, thr)`, `op` 0 construct / 1 getNoise / 2 destroy / 3 the
thread `thr` ends.  `step` rejects (`none`) what the harness never does: constructing a live slot, using a dead one.
-/
namespace Nfl.Gauss.Life

inductive Policy | inCtor | inDtor
deriving DecidableEq, Repr

structure Evt where
  op : Nat
  obj : Nat
  thr : Nat
deriving DecidableEq, Repr

structure St where
  cache : Nat → Nat     -- blocks held in the MPFR cache of each thread
  own : Nat → Nat       -- blocks owned by each live sampler (0 = not alive)
  lost : Nat            -- blocks that were cached by threads that have ended

def St.init : St := { cache := fun _ => 0, own := fun _ => 0, lost := 0 }

def upd (f : Nat → Nat) (i v : Nat) : Nat → Nat := fun j => if j = i then v else f j

/-- one event; `fill` = blocks MPFR caches during a construction, `own` = blocks a sampler owns (`≥ 1`) -/
def step (pol : Policy) (fill ownB : Nat) (s : St) (e : Evt) : Option St :=
  match e.op with
  | 0 =>  -- constructor on thread e.thr
    if s.own e.obj ≠ 0 then none else
    let c := match pol with
      | .inCtor => 0                          -- … mpfr_exp …; mpfr_free_cache()  on this thread
      | .inDtor => s.cache e.thr + fill       -- the cache of this thread keeps what mpfr_exp left
    some { s with cache := upd s.cache e.thr c, own := upd s.own e.obj (ownB + 1) }
  | 1 =>  -- getNoise: no allocation survives the call
    if s.own e.obj = 0 then none else some s
  | 2 =>  -- destructor on thread e.thr
    if s.own e.obj = 0 then none else
    let c := match pol with
      | .inCtor => s.cache e.thr
      | .inDtor => 0                          -- mpfr_free_cache() on the destroying thread
    some { s with cache := upd s.cache e.thr c, own := upd s.own e.obj 0 }
  | 3 =>  -- thread e.thr ends: whatever its cache holds is lost
    some { s with cache := upd s.cache e.thr 0, lost := s.lost + s.cache e.thr }
  | _ => none

def run (pol : Policy) (fill ownB : Nat) : St → List Evt → Option St
  | s, [] => some s
  | s, e :: es =>
    match step pol fill ownB s e with
    | none => none
    | some s' => run pol fill ownB s' es

def sumTo (f : Nat → Nat) : Nat → Nat
  | 0 => 0
  | n + 1 => sumTo f n + f n

/-- blocks still allocated: lost ones, those cached by the threads `< nthr`, those owned by the samplers `< nobj` -/
def residual (nthr nobj : Nat) (s : St) : Nat := s.lost + sumTo s.cache nthr + sumTo s.own nobj

/-- every sampler slot `< nobj` has been destroyed -/
def allDead (nobj : Nat) (s : St) : Bool := (List.range nobj).all fun o => s.own o == 0

end Nfl.Gauss.Life
