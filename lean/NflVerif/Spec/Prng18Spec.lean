/- C18: executable reading of the conclusions of `nonces_distinct_gapfree` / `linearizable` on an OBSERVED history
   (harness/conc18.cpp: every returned block identified among the reference keystreams).  Core Lean only. -/
import NflVerif.Model.Prng18
namespace Nfl.Prng18

/-- the multiset of nonces is exactly {n0, …, n0+N-1} (as 64-bit counters) -/
def noncesOk (n0 : Nat) (nonces : List Nat) : Bool :=
  nonces.mergeSort (fun a b => decide (a ≤ b)) ==
    ((List.range' n0 nonces.length).map (· % W)).mergeSort (fun a b => decide (a ≤ b))

def increasing : List Nat → Bool
  | a :: b :: r => decide (a < b) && increasing (b :: r)
  | _ => true

/-- along every thread (program order) the uniquely identified nonces increase: the sequential order that explains
    the history (`linearizable`) respects each thread's program order.  Only meaningful without wrap-around. -/
def threadsOk (n0 : Nat) (hist : List (Nat × Nat × Bool)) : Bool :=
  if n0 + hist.length > W then true
  else (hist.map (·.1)).eraseDups.all fun t =>
    increasing ((hist.filter (fun x => x.1 == t && x.2.2)).map (·.2.1))

def histOk (n0 : Nat) (hist : List (Nat × Nat × Bool)) : Bool :=
  noncesOk n0 (hist.map (·.2.1)) && threadsOk n0 hist

-- sanity tests, evaluated at build time (`List.mergeSort` is defined by well-founded recursion, so `decide` cannot
-- unfold it; the same function is what the compiled driver runs)
#guard histOk 0 [(0, 0, true), (1, 2, true), (0, 1, false), (1, 3, true)] == true
#guard histOk 0 [(0, 0, true), (1, 0, true)] == false          -- a nonce used twice
#guard histOk 0 [(0, 0, true), (1, 2, true)] == false          -- a gap
#guard histOk 0 [(0, 1, true), (0, 0, true)] == false          -- program order not respected
#guard histOk (W - 1) [(0, W - 1, true), (1, 0, true)] == true -- wrap-around of the 64-bit counter

end Nfl.Prng18
