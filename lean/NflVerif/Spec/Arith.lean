/-
Executable specifications (oracles) for coefficient arithmetic: what the properties say, in terms of
exact integer arithmetic.  Core Lean only.
-/
namespace Nfl.Spec

def addSpec (p x y : Nat) : Nat := (x + y) % p
def subSpec (p x y : Nat) : Nat := (x + p - y % p) % p
def mulSpec (p x y : Nat) : Nat := (x * y) % p
def muladdSpec (p z x y : Nat) : Nat := (x * y + z) % p
/-- precomputed quotient of any word `y` -/
def shoupSpec (w p y : Nat) : Nat := (y % p) * 2 ^ w / p
/-- lazily reduced multiply-add: congruent to `x*y+z` and below `2p` -/
def muladdLazyOk (p z x y r : Nat) : Bool := r % p == (x * y + z) % p && r < 2 * p

end Nfl.Spec
