/-
Salsa20/20 after D. J. Bernstein, "Salsa20 specification" (2005), on 32-bit words held in `Nat`.
Core Lean only, executable (linked into the correspondence driver).

Sections follow the specification: words (§2), quarterround (§3), rowround (§4), columnround (§5),
doubleround (§6), littleendian (§7), the hash function on 64 bytes (§8), the 32-byte-key expansion
(§9) and the stream with a 64-bit little-endian block counter starting at 0 (§10).
Every example of the specification that can be evaluated in the kernel is re-checked below
(`decide +kernel` on closed terms); the 10^6-fold iterated hash example of §8 is checked by the compiled
driver against the portable C implementation of harness/salsa.cpp (op `salsa20iter`).
-/
namespace Nfl.Salsa20

/-! ## §2 words -/

/-- the word modulus `2^32` (a named constant so that compiled code builds the number once) -/
@[noinline] def M32 : Nat := 2 ^ 32

/-- sum of two words: `(a + b) mod 2^32` -/
def add32 (a b : Nat) : Nat := (a + b) % M32

/-- `c`-bit left rotation of a word (`0 < c < 32`): the low 32 bits of `x·2^c`, or-ed with the `c` bits shifted out -/
@[inline] def rotl32 (x c : Nat) : Nat := ((x * 2 ^ c) % M32) ||| (x / 2 ^ (32 - c))

/-! ## §3 quarterround -/

def quarterround (y0 y1 y2 y3 : Nat) : Nat × Nat × Nat × Nat :=
  let z1 := y1 ^^^ rotl32 (add32 y0 y3) 7
  let z2 := y2 ^^^ rotl32 (add32 z1 y0) 9
  let z3 := y3 ^^^ rotl32 (add32 z2 z1) 13
  let z0 := y0 ^^^ rotl32 (add32 z3 z2) 18
  (z0, z1, z2, z3)

/-! ## §4 rowround, §5 columnround, §6 doubleround (on 16-word lists; anything else maps to 16 zero words,
which never happens below: `wordsOf` always yields 16 words) -/

def rowround : List Nat → List Nat
  | [y0, y1, y2, y3, y4, y5, y6, y7, y8, y9, y10, y11, y12, y13, y14, y15] =>
    let (z0, z1, z2, z3) := quarterround y0 y1 y2 y3
    let (z5, z6, z7, z4) := quarterround y5 y6 y7 y4
    let (z10, z11, z8, z9) := quarterround y10 y11 y8 y9
    let (z15, z12, z13, z14) := quarterround y15 y12 y13 y14
    [z0, z1, z2, z3, z4, z5, z6, z7, z8, z9, z10, z11, z12, z13, z14, z15]
  | _ => List.replicate 16 0

def columnround : List Nat → List Nat
  | [x0, x1, x2, x3, x4, x5, x6, x7, x8, x9, x10, x11, x12, x13, x14, x15] =>
    let (y0, y4, y8, y12) := quarterround x0 x4 x8 x12
    let (y5, y9, y13, y1) := quarterround x5 x9 x13 x1
    let (y10, y14, y2, y6) := quarterround x10 x14 x2 x6
    let (y15, y3, y7, y11) := quarterround x15 x3 x7 x11
    [y0, y1, y2, y3, y4, y5, y6, y7, y8, y9, y10, y11, y12, y13, y14, y15]
  | _ => List.replicate 16 0

def doubleround (x : List Nat) : List Nat := rowround (columnround x)

/-- `f` applied `n` times -/
def iter {α : Type} (f : α → α) : Nat → α → α
  | 0, x => x
  | n + 1, x => iter f n (f x)

/-! ## §7 littleendian -/

def littleendian (b0 b1 b2 b3 : Nat) : Nat := b0 + 2 ^ 8 * b1 + 2 ^ 16 * b2 + 2 ^ 24 * b3

/-- the `k`-byte little-endian encoding of `n mod 256^k` (`littleendian⁻¹` for `k = 4`; the block counter
and the request nonce for `k = 8`) -/
def encodeLE : Nat → Nat → List Nat
  | 0, _ => []
  | k + 1, n => n % 256 :: encodeLE k (n / 256)

/-- value of a little-endian byte string -/
def decodeLE : List Nat → Nat
  | [] => 0
  | b :: bs => b + 256 * decodeLE bs

/-! ## §8 the Salsa20 hash function: 64 bytes ↦ 64 bytes -/

/-- the sixteen words `x_i = littleendian(x[4i], …, x[4i+3])` of a 64-byte string (missing bytes read as 0) -/
def wordsOf (x : List Nat) : List Nat :=
  (List.range 16).map fun i =>
    littleendian (x.getD (4 * i) 0) (x.getD (4 * i + 1) 0) (x.getD (4 * i + 2) 0) (x.getD (4 * i + 3) 0)

/-- `Salsa20(x) = x + doubleround^10(x)`, word-wise, re-encoded little-endian -/
def hash (x : List Nat) : List Nat :=
  let w := wordsOf x
  let z := iter doubleround 10 w
  (List.range 16).flatMap fun i => encodeLE 4 (add32 (z.getD i 0) (w.getD i 0))

/-! ## §9 key expansion (32-byte key) -/

/-- "expa" -/ def sigma0 : List Nat := [101, 120, 112, 97]
/-- "nd 3" -/ def sigma1 : List Nat := [110, 100, 32, 51]
/-- "2-by" -/ def sigma2 : List Nat := [50, 45, 98, 121]
/-- "te k" -/ def sigma3 : List Nat := [116, 101, 32, 107]

/-- the 64-byte hash input `(σ0, k0, σ1, n, σ2, k1, σ3)` for a 32-byte key `k0 ++ k1` and 16-byte `n` -/
def expand32 (key n : List Nat) : List Nat :=
  sigma0 ++ key.take 16 ++ sigma1 ++ n ++ sigma2 ++ (key.drop 16).take 16 ++ sigma3

/-- `Salsa20_{k0,k1}(n)` -/
def salsa20k32 (key n : List Nat) : List Nat := hash (expand32 key n)

/-- "expand 16-byte k" constants and `Salsa20_k(n)` for a 16-byte key (only used to re-check the second
example of §9; the library uses 32-byte keys) -/
def tau0 : List Nat := [101, 120, 112, 97]
def tau1 : List Nat := [110, 100, 32, 49]
def tau2 : List Nat := [54, 45, 98, 121]
def tau3 : List Nat := [116, 101, 32, 107]
def salsa20k16 (key n : List Nat) : List Nat := hash (tau0 ++ key ++ tau1 ++ n ++ tau2 ++ key ++ tau3)

/-! ## §10 the stream: block `j` is `Salsa20_k(v, j)` with `j` as 8 little-endian bytes after the 8-byte nonce `v` -/

/-- the 64 bytes fed to the hash function for block `j` of the stream with nonce `v` -/
def blockInput (key nonce : List Nat) (j : Nat) : List Nat := expand32 key (nonce ++ encodeLE 8 j)

/-- the `j`-th 64-byte block of the stream -/
def block (key nonce : List Nat) (j : Nat) : List Nat := hash (blockInput key nonce j)

/-- the first `nb` blocks, concatenated -/
def blocks (key nonce : List Nat) (nb : Nat) : List Nat := (List.range nb).flatMap (block key nonce)

/-- the first `len` bytes of the Salsa20/20 stream for (`key`, `nonce`): block counter from 0, the last
block truncated when `len` is not a multiple of 64 -/
def stream (key nonce : List Nat) (len : Nat) : List Nat := (blocks key nonce ((len + 63) / 64)).take len

/-- random access: bytes `[off, off + n)` of the stream, computed from the blocks `off / 64 …` they fall into without
materialising the prefix (used on requests of several GiB, of which the harness emits sampled windows).
`Nfl.C13.stream_window` proves that this IS `((stream key nonce len).drop off).take n` whenever `off + n ≤ len`. -/
def window (key nonce : List Nat) (off n : Nat) : List Nat :=
  (((List.range ((off % 64 + n + 63) / 64)).flatMap fun i => block key nonce (off / 64 + i)).drop (off % 64)).take n

/-! ## The examples of the specification -/

-- §3
example : quarterround 0 0 0 0 = (0, 0, 0, 0) := by decide +kernel
example : quarterround 0x00000001 0 0 0 = (0x08008145, 0x00000080, 0x00010200, 0x20500000) := by decide +kernel
example : quarterround 0 0x00000001 0 0 = (0x88000100, 0x00000001, 0x00000200, 0x00402000) := by decide +kernel
example : quarterround 0 0 0x00000001 0 = (0x80040000, 0x00000000, 0x00000001, 0x00002000) := by decide +kernel
example : quarterround 0 0 0 0x00000001 = (0x00048044, 0x00000080, 0x00010000, 0x20100001) := by decide +kernel
example : quarterround 0xe7e8c006 0xc4f9417d 0x6479b4b2 0x68c67137
    = (0xe876d72b, 0x9361dfd5, 0xf1460244, 0x948541a3) := by decide +kernel
example : quarterround 0xd3917c5b 0x55f1c407 0x52a58a7a 0x8f887a3b
    = (0x3e2f308c, 0xd90a8f36, 0x6ab2a923, 0x2883524c) := by decide +kernel

-- §4
example : rowround [0x00000001, 0, 0, 0, 0x00000001, 0, 0, 0, 0x00000001, 0, 0, 0, 0x00000001, 0, 0, 0]
    = [0x08008145, 0x00000080, 0x00010200, 0x20500000,
       0x20100001, 0x00048044, 0x00000080, 0x00010000,
       0x00000001, 0x00002000, 0x80040000, 0x00000000,
       0x00000001, 0x00000200, 0x00402000, 0x88000100] := by decide +kernel
example : rowround [0x08521bd6, 0x1fe88837, 0xbb2aa576, 0x3aa26365,
                    0xc54c6a5b, 0x2fc74c2f, 0x6dd39cc3, 0xda0a64f6,
                    0x90a2f23d, 0x067f95a6, 0x06b35f61, 0x41e4732e,
                    0xe859c100, 0xea4d84b7, 0x0f619bff, 0xbc6e965a]
    = [0xa890d39d, 0x65d71596, 0xe9487daa, 0xc8ca6a86,
       0x949d2192, 0x764b7754, 0xe408d9b9, 0x7a41b4d1,
       0x3402e183, 0x3c3af432, 0x50669f96, 0xd89ef0a8,
       0x0040ede5, 0xb545fbce, 0xd257ed4f, 0x1818882d] := by decide +kernel

-- §5
example : columnround [0x00000001, 0, 0, 0, 0x00000001, 0, 0, 0, 0x00000001, 0, 0, 0, 0x00000001, 0, 0, 0]
    = [0x10090288, 0x00000000, 0x00000000, 0x00000000,
       0x00000101, 0x00000000, 0x00000000, 0x00000000,
       0x00020401, 0x00000000, 0x00000000, 0x00000000,
       0x40a04001, 0x00000000, 0x00000000, 0x00000000] := by decide +kernel
example : columnround [0x08521bd6, 0x1fe88837, 0xbb2aa576, 0x3aa26365,
                       0xc54c6a5b, 0x2fc74c2f, 0x6dd39cc3, 0xda0a64f6,
                       0x90a2f23d, 0x067f95a6, 0x06b35f61, 0x41e4732e,
                       0xe859c100, 0xea4d84b7, 0x0f619bff, 0xbc6e965a]
    = [0x8c9d190a, 0xce8e4c90, 0x1ef8e9d3, 0x1326a71a,
       0x90a20123, 0xead3c4f3, 0x63a091a0, 0xf0708d69,
       0x789b010c, 0xd195a681, 0xeb7d5504, 0xa774135c,
       0x481c2027, 0x53a8e4b5, 0x4c1f89c5, 0x3f78c9c8] := by decide +kernel

-- §6
example : doubleround [0x00000001, 0, 0, 0, 0, 0, 0, 0, 0, 0, 0, 0, 0, 0, 0, 0]
    = [0x8186a22d, 0x0040a284, 0x82479210, 0x06929051,
       0x08000090, 0x02402200, 0x00004000, 0x00800000,
       0x00010200, 0x20400000, 0x08008104, 0x00000000,
       0x20500000, 0xa0000040, 0x0008180a, 0x612a8020] := by decide +kernel
example : doubleround [0xde501066, 0x6f9eb8f7, 0xe4fbbd9b, 0x454e3f57,
                       0xb75540d3, 0x43e93a4c, 0x3a6f2aa0, 0x726d6b36,
                       0x9243f484, 0x9145d1e8, 0x4fa9d247, 0xdc8dee11,
                       0x054bf545, 0x254dd653, 0xd9421b6d, 0x67b276c1]
    = [0xccaaf672, 0x23d960f7, 0x9153e63a, 0xcd9a60d0,
       0x50440492, 0xf07cad19, 0xae344aa0, 0xdf4cfdfc,
       0xca531c29, 0x8e7943db, 0xac1680cd, 0xd503ca00,
       0xa74b2ad6, 0xbc331c5c, 0x1dda24c7, 0xee928277] := by decide +kernel

-- §7
example : littleendian 0 0 0 0 = 0x00000000 := by decide +kernel
example : littleendian 86 75 30 9 = 0x091e4b56 := by decide +kernel
example : littleendian 255 255 255 250 = 0xfaffffff := by decide +kernel
example : encodeLE 4 0x091e4b56 = [86, 75, 30, 9] := by decide +kernel

-- §8
example : hash (List.replicate 64 0) = List.replicate 64 0 := by decide +kernel
example : hash [211, 159, 13, 115, 76, 55, 82, 183, 3, 117, 222, 37, 191, 187, 234, 136,
                49, 237, 179, 48, 1, 106, 178, 219, 175, 199, 166, 48, 86, 16, 179, 207,
                31, 240, 32, 63, 15, 83, 93, 161, 116, 147, 48, 113, 238, 55, 204, 36,
                79, 201, 235, 79, 3, 81, 156, 47, 203, 26, 244, 243, 88, 118, 104, 54]
    = [109, 42, 178, 168, 156, 240, 248, 238, 168, 196, 190, 203, 26, 110, 170, 154,
       29, 29, 150, 26, 150, 30, 235, 249, 190, 163, 251, 48, 69, 144, 51, 57,
       118, 40, 152, 157, 180, 57, 27, 94, 107, 42, 236, 35, 27, 111, 114, 114,
       219, 236, 232, 135, 111, 155, 110, 18, 24, 232, 95, 158, 179, 19, 48, 202] := by decide +kernel
example : hash [88, 118, 104, 54, 79, 201, 235, 79, 3, 81, 156, 47, 203, 26, 244, 243,
                191, 187, 234, 136, 211, 159, 13, 115, 76, 55, 82, 183, 3, 117, 222, 37,
                86, 16, 179, 207, 49, 237, 179, 48, 1, 106, 178, 219, 175, 199, 166, 48,
                238, 55, 204, 36, 31, 240, 32, 63, 15, 83, 93, 161, 116, 147, 48, 113]
    = [179, 19, 48, 202, 219, 236, 232, 135, 111, 155, 110, 18, 24, 232, 95, 158,
       26, 110, 170, 154, 109, 42, 178, 168, 156, 240, 248, 238, 168, 196, 190, 203,
       69, 144, 51, 57, 29, 29, 150, 26, 150, 30, 235, 249, 190, 163, 251, 48,
       27, 111, 114, 114, 118, 40, 152, 157, 180, 57, 27, 94, 107, 42, 236, 35] := by decide +kernel

-- §9: k0 = (1..16), k1 = (201..216), n = (101..116)
def exK0 : List Nat := (List.range 16).map (· + 1)
def exK1 : List Nat := (List.range 16).map (· + 201)
def exN : List Nat := (List.range 16).map (· + 101)

example : salsa20k32 (exK0 ++ exK1) exN
    = [69, 37, 68, 39, 41, 15, 107, 193, 255, 139, 122, 6, 170, 233, 217, 98,
       89, 144, 182, 106, 21, 51, 200, 65, 239, 49, 222, 34, 215, 114, 40, 126,
       104, 197, 7, 225, 197, 153, 31, 2, 102, 78, 76, 176, 84, 245, 246, 184,
       177, 160, 133, 130, 6, 72, 149, 119, 192, 195, 132, 236, 234, 103, 246, 74] := by decide +kernel
example : salsa20k16 exK0 exN
    = [39, 173, 46, 248, 30, 200, 82, 17, 48, 67, 254, 239, 37, 18, 13, 247,
       241, 200, 61, 144, 10, 55, 50, 185, 6, 47, 246, 253, 143, 86, 187, 225,
       134, 85, 110, 246, 161, 163, 43, 235, 231, 94, 171, 51, 145, 214, 112, 29,
       14, 232, 5, 16, 151, 140, 183, 141, 171, 9, 122, 181, 104, 182, 177, 193] := by decide +kernel

-- §10 / ECRYPT Salsa20/20 256-bit test vector set 1, vector 0 (key = 80 00…00, IV = 0), stream[0..63]
example : stream (0x80 :: List.replicate 31 0) (List.replicate 8 0) 64
    = [0xE3, 0xBE, 0x8F, 0xDD, 0x8B, 0xEC, 0xA2, 0xE3, 0xEA, 0x8E, 0xF9, 0x47, 0x5B, 0x29, 0xA6, 0xE7,
       0x00, 0x39, 0x51, 0xE1, 0x09, 0x7A, 0x5C, 0x38, 0xD2, 0x3B, 0x7A, 0x5F, 0xAD, 0x9F, 0x68, 0x44,
       0xB2, 0x2C, 0x97, 0x55, 0x9E, 0x27, 0x23, 0xC7, 0xCB, 0xBD, 0x3F, 0xE4, 0xFC, 0x8D, 0x9A, 0x07,
       0x44, 0x65, 0x2A, 0x83, 0xE7, 0x2A, 0x9C, 0x46, 0x18, 0x76, 0xAF, 0x4D, 0x7E, 0xF1, 0xA1, 0x17] := by
  decide +kernel

end Nfl.Salsa20
