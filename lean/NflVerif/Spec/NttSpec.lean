/-
Executable oracles for C01/C02 (core Lean only): schoolbook product in Z_p[X]/(X^n+1) and the
direct O(n²) evaluation form.
-/
namespace Nfl.Spec

/-- coefficient `c` of `a·b mod (X^n+1, p)`: `Σ_{i+j=c} a_i b_j − Σ_{i+j=c+n} a_i b_j`, in `[0,p)` -/
def negacyclicNat (p : Nat) (a b : List Nat) : List Nat :=
  let n := a.length
  let A := a.toArray
  let B := b.toArray
  (List.range n).map fun c =>
    let pos := (List.range (c + 1)).foldl (fun s i => (s + A.getD i 0 * B.getD (c - i) 0) % p) 0
    let neg := (List.range (n - c - 1)).foldl (fun s t => let i := c + 1 + t; (s + A.getD i 0 * B.getD (c + n - i) 0) % p) 0
    (pos + p - neg % p) % p

/-- one coefficient of the negacyclic product (O(n)): used as a sampled oracle at degrees where the full schoolbook
product is too slow -/
def negacyclicCoeffNat (p : Nat) (A B : Array Nat) (n c : Nat) : Nat :=
  let pos := (List.range (c + 1)).foldl (fun s i => (s + A.getD i 0 * B.getD (c - i) 0) % p) 0
  let neg := (List.range (n - c - 1)).foldl (fun s t => let i := c + 1 + t; (s + A.getD i 0 * B.getD (c + n - i) 0) % p) 0
  (pos + p - neg % p) % p

def powModN (b e m : Nat) : Nat := Id.run do
  let mut r := 1 % m
  let mut x := b % m
  let mut e := e
  while e > 0 do
    if e % 2 = 1 then r := r * x % m
    x := x * x % m
    e := e / 2
  return r

/-- `Σ_j a_j ζ^j mod p` (Horner) -/
def evalNat (p : Nat) (a : List Nat) (z : Nat) : Nat := a.foldr (fun c acc => (acc * z + c) % p) 0

def pointwise (f : Nat → Nat → Nat) : List Nat → List Nat → List Nat
  | x :: xs, y :: ys => f x y :: pointwise f xs ys
  | _, _ => []

end Nfl.Spec
