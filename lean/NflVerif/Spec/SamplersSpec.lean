/-
Executable specifications for C09 / C12, evaluated by the driver on the IMPLEMENTATION's output
(flat `_data`: `out[cm*n + i]`).  Core Lean only.
-/
namespace Nfl.Spec.Samplers

/-- how a small signed integer is stored modulo `p`: `v`, or `p - |v|` when negative -/
def enc (p : Nat) (v : Int) : Nat := if 0 ≤ v then v.toNat else p - v.natAbs

def getW (out : List Nat) (n cm i : Nat) : Nat := out.getD (cm * n + i) 0

/-- every stored word is `< p_cm`, and the shape is `n·nm` -/
def canonical (n : Nat) (ps : List Nat) (out : List Nat) : Bool :=
  out.length == n * ps.length &&
  (List.range ps.length).all fun cm => (List.range n).all fun i => decide (getW out n cm i < ps.getD cm 0)

/-- the signed integer a residue `r` mod `p` stands for when `|v| ≤ bound` is promised (`none` if there is none;
 with `2·bound < p` it is unique) -/
def decode (p bound r : Nat) : Option Int :=
  if r ≤ bound then some (r : Int) else if r < p ∧ p - r ≤ bound then some (-((p - r : Nat) : Int)) else none

/-- coefficient `i`: there is ONE integer `v`, `|v| ≤ bound`, `ok v`, with `out[cm][i] = enc p_cm v` for every modulus -/
def crtCoef (n : Nat) (ps : List Nat) (out : List Nat) (bound : Nat) (ok : Int → Bool) (i : Nat) : Bool :=
  match ps with
  | [] => true
  | p0 :: _ =>
    let r0 := getW out n 0 i
    let cands : List Int := (if r0 ≤ bound then [(r0 : Int)] else []) ++
      (if r0 < p0 ∧ 0 < p0 - r0 ∧ p0 - r0 ≤ bound then [-((p0 - r0 : Nat) : Int)] else [])
    cands.any fun v => ok v && (List.range ps.length).all fun cm => getW out n cm i == enc (ps.getD cm 0) v

def crtConsistent (n : Nat) (ps : List Nat) (out : List Nat) (bound : Nat) (ok : Int → Bool) : Bool :=
  (List.range n).all (crtCoef n ps out bound ok)

/-- the exact integer polynomial is known: `out[cm][i] = enc p_cm (v i)` -/
def encodes (n : Nat) (ps : List Nat) (out : List Nat) (v : Nat → Int) : Bool :=
  out.length == n * ps.length &&
  (List.range ps.length).all fun cm => (List.range n).all fun i => getW out n cm i == enc (ps.getD cm 0) (v i)

/-- bit length by repeated halving (independent of `Nat.log2`) -/
def bitLenLoop : Nat → Nat → Nat
  | 0, _ => 0
  | fuel + 1, v => if v = 0 then 0 else 1 + bitLenLoop fuel (v / 2)

def bitLenSpec (v : Nat) : Nat := bitLenLoop 130 v

/-- ternary law of `ZO_dist(rho)` for one byte -/
def zoSpec (rho b : Nat) : Int := if b ≤ rho then (if (b / 2) % 2 = 1 then 1 else -1) else 0

/-- positions of the non-zero coefficients of modulus `cm` -/
def support (n : Nat) (out : List Nat) (cm : Nat) : List Nat := (List.range n).filter fun i => getW out n cm i != 0

end Nfl.Spec.Samplers
