/-
Executable specifications for C09 / C12, evaluated by the driver on the IMPLEMENTATION's output
(flat `_data`: `out[cm*n + i]`).  Core Lean only.
-/
namespace Nfl.Spec.Samplers

/-- how a small signed integer is stored modulo `p`: `v`, or `p - |v|` when negative -/
def enc (p : Nat) (v : Int) : Nat := if 0 ≤ v then v.toNat else p - v.natAbs

def getW (out : List Nat) (n cm i : Nat) : Nat := out.getD (cm * n + i) 0

/-- every stored word is `< p_cm`, and the shape is `n·nm` -/
def canonical (n : Nat) (ps : List Nat) (out : List Nat) : Bool :=
  out.length == n * ps.length &&
  (List.range ps.length).all fun cm => (List.range n).all fun i => decide (getW out n cm i < ps.getD cm 0)

/-- the signed integer a residue `r` mod `p` stands for when `|v| ≤ bound` is promised (`none` if there is none;
 with `2·bound < p` it is unique) -/
def decode (p bound r : Nat) : Option Int :=
  if r ≤ bound then some (r : Int) else if r < p ∧ p - r ≤ bound then some (-((p - r : Nat) : Int)) else none

/-- coefficient `i`: there is ONE integer `v`, `|v| ≤ bound`, `ok v`, with `out[cm][i] = enc p_cm v` for every modulus -/
def crtCoef (n : Nat) (ps : List Nat) (out : List Nat) (bound : Nat) (ok : Int → Bool) (i : Nat) : Bool :=
  match ps with
  | [] => true
  | p0 :: _ =>
    let r0 := getW out n 0 i
    let cands : List Int := (if r0 ≤ bound then [(r0 : Int)] else []) ++
      (if r0 < p0 ∧ 0 < p0 - r0 ∧ p0 - r0 ≤ bound then [-((p0 - r0 : Nat) : Int)] else [])
    cands.any fun v => ok v && (List.range ps.length).all fun cm => getW out n cm i == enc (ps.getD cm 0) v

def crtConsistent (n : Nat) (ps : List Nat) (out : List Nat) (bound : Nat) (ok : Int → Bool) : Bool :=
  (List.range n).all (crtCoef n ps out bound ok)

/-- the exact integer polynomial is known: `out[cm][i] = enc p_cm (v i)` -/
def encodes (n : Nat) (ps : List Nat) (out : List Nat) (v : Nat → Int) : Bool :=
  out.length == n * ps.length &&
  (List.range ps.length).all fun cm => (List.range n).all fun i => getW out n cm i == enc (ps.getD cm 0) (v i)

/-- bit length by repeated halving (independent of `Nat.log2`) -/
def bitLenLoop : Nat → Nat → Nat
  | 0, _ => 0
  | fuel + 1, v => if v = 0 then 0 else 1 + bitLenLoop fuel (v / 2)

def bitLenSpec (v : Nat) : Nat := bitLenLoop 130 v

/-- ternary law of `ZO_dist(rho)` for one byte -/
def zoSpec (rho b : Nat) : Int := if b ≤ rho then (if (b / 2) % 2 = 1 then 1 else -1) else 0

/-- positions of the non-zero coefficients of modulus `cm` -/
def support (n : Nat) (out : List Nat) (cm : Nat) : List Nat := (List.range n).filter fun i => getW out n cm i != 0

/-! ### array-backed evaluation of the same predicates (large degrees: `List.getD` is linear in the index).
`Proofs/SamplersFast.lean` proves each `…A … out.toArray = … out`. -/

def getWA (a : Array Nat) (n cm i : Nat) : Nat := a.getD (cm * n + i) 0

def canonicalA (n : Nat) (ps : List Nat) (a : Array Nat) : Bool :=
  a.size == n * ps.length &&
  (List.range ps.length).all fun cm => (List.range n).all fun i => decide (getWA a n cm i < ps.getD cm 0)

def crtCoefA (n : Nat) (ps : List Nat) (a : Array Nat) (bound : Nat) (ok : Int → Bool) (i : Nat) : Bool :=
  match ps with
  | [] => true
  | p0 :: _ =>
    let r0 := getWA a n 0 i
    let cands : List Int := (if r0 ≤ bound then [(r0 : Int)] else []) ++
      (if r0 < p0 ∧ 0 < p0 - r0 ∧ p0 - r0 ≤ bound then [-((p0 - r0 : Nat) : Int)] else [])
    cands.any fun v => ok v && (List.range ps.length).all fun cm => getWA a n cm i == enc (ps.getD cm 0) v

def crtConsistentA (n : Nat) (ps : List Nat) (a : Array Nat) (bound : Nat) (ok : Int → Bool) : Bool :=
  (List.range n).all (crtCoefA n ps a bound ok)

def encodesA (n : Nat) (ps : List Nat) (a : Array Nat) (v : Nat → Int) : Bool :=
  a.size == n * ps.length &&
  (List.range ps.length).all fun cm => (List.range n).all fun i => getWA a n cm i == enc (ps.getD cm 0) (v i)

def supportA (n : Nat) (a : Array Nat) (cm : Nat) : List Nat := (List.range n).filter fun i => getWA a n cm i != 0

/-! ### fixed weight: the positions, stated on the flat stream of 64-bit words of the position phase.

Step `k` (`k = h … n-1`) draws an index in `[0,k]` from a 64-bit word `x`: the words are cut into blocks of `k+1`
consecutive values; `x` is used iff its block is one of the `⌊(2^64-1)/(k+1)⌋` COMPLETE blocks below the top of the
range (then `x mod (k+1)` is uniform on `[0,k]` for a uniform word: each index has exactly one word per block);
otherwise the next word is tried.  The reservoir keeps position `k` in slot `idx` when `idx < h`. -/

def specAccept (k x : Nat) : Bool := decide (x / (k + 1) < (2 ^ 64 - 1) / (k + 1))

/-- first word of the incomplete top block of step `k` (every word `≥ rejThreshold k` must be rejected) -/
def rejThreshold (k : Nat) : Nat := (2 ^ 64 - 1) / (k + 1) * (k + 1)

/-- the reservoir run over the word stream.  `flips` (ascending word indices whose accept/reject decision is
INVERTED) is `[]` for the specification; the driver uses non-empty `flips` only to *explain* a wrong answer.
Returns (slots, step reached, words consumed). -/
def specRun (h n : Nat) : List Nat → (t k : Nat) → Array Nat → List Nat → Array Nat × Nat × Nat
  | [], t, k, hit, _ => (hit, k, t)
  | x :: ws, t, k, hit, flips =>
    if k ≥ n then (hit, k, t)
    else
      let flip := flips.head? == some t
      let flips' := if flip then flips.tail else flips
      if specAccept k x != flip then
        specRun h n ws (t + 1) (k + 1) (if x % (k + 1) < h then hit.setIfInBounds (x % (k + 1)) k else hit) flips'
      else specRun h n ws (t + 1) k hit flips'

/-- ascending positions chosen on the word stream `ws` (`none`: the stream ends before step `n-1` is done) -/
def specPositions (h n : Nat) (ws : List Nat) : Option (List Nat) :=
  let r := specRun h n ws 0 h (Array.range h) []
  if r.2.1 ≥ n then some (r.1.toList.mergeSort fun a b => decide (a ≤ b)) else none

end Nfl.Spec.Samplers
