/-
Specification vocabulary of C19 (core Lean only):

* `ReadTrace` — what a correct read phase looks like as a sequence of calls (used by the theorems);
* `openFails`, `isOpenOk`, `isOpenCall`, `ReadPhase` — shape of the open phase;
* `inContract` — an environment that answers only reads, within the `read` contract, until the request
  is satisfied;
* `checkCalls` — the *executable* specification evaluated by the driver on the **implementation's**
  call log and buffer (independent of the model's `randombytes`).
-/
import NflVerif.Model.RandomBytes
namespace Nfl.RB

/-- `k` failed opens, each followed by `sleep(1)` -/
def openFails : Nat → List Call
  | 0 => []
  | k + 1 => .open none :: .sleep 1 :: openFails k

def isOpenOk : Call → Bool
  | .open (some _) => true
  | _ => false

def isOpenCall : Call → Bool
  | .open _ => true
  | .openNoAns => true
  | _ => false

def isReadCall : Call → Bool
  | .read .. => true
  | .readNoAns .. => true
  | _ => false

/-- calls allowed once the descriptor `f` is open: reads on `f` and sleeps — never an `open` -/
def ReadPhase (f : Nat) : Call → Prop
  | .read f' _ _ _ => f' = f
  | .readNoAns f' _ _ => f' = f
  | .sleep _ => True
  | _ => False

/-- concatenated call log of a sequence of calls -/
def allLog (rs : List Result) : List Call := rs.flatMap Result.log

/-- bytes gained according to a call log: sum of the positive `read` answers -/
def gained : List Call → Nat
  | [] => 0
  | .read _ _ _ r :: l => r.toNat + gained l
  | _ :: l => gained l

/-- `ReadTrace fd off rem log fin`: `log` is a read phase starting with `off` bytes filled and `rem` bytes
    still wanted: every `read` is on `fd`, at pointer offset `off`, asks for exactly `min rem 2^20`;
    an answer `< 1` is followed by `sleep(1)` and changes nothing; an answer `n ≥ 1` (`≤` request) advances
    the pointer and decreases the remaining count by exactly `n`.  `fin = true`: the phase ended because
    `rem = 0`; `fin = false`: it ended on a call the environment did not answer. -/
inductive ReadTrace (fd : Nat) : Nat → Nat → List Call → Bool → Prop
  | ret (off : Nat) : ReadTrace fd off 0 [] true
  | stuck (off rem : Nat) : 0 < rem → ReadTrace fd off rem [.readNoAns fd off (min rem chunk)] false
  | fail (off rem : Nat) (r : Int) (l : List Call) (fin : Bool) :
      0 < rem → r < 1 → ReadTrace fd off rem l fin →
      ReadTrace fd off rem (.read fd off (min rem chunk) r :: .sleep 1 :: l) fin
  | ok (off rem n : Nat) (l : List Call) (fin : Bool) :
      0 < rem → 1 ≤ n → n ≤ min rem chunk → ReadTrace fd (off + n) (rem - n) l fin →
      ReadTrace fd off rem (.read fd off (min rem chunk) (n : Int) :: l) fin

/-- the environment answers only `read`s and within the contract (`≤` the request that the code makes
    in that state) for as long as `rem` bytes are still wanted -/
def inContract : Nat → List Outcome → Bool
  | _, [] => true
  | rem, o :: s =>
    rem == 0 ||
    match o with
    | .readBytes bs => decide (bs.length ≤ min rem chunk) && inContract (rem - bs.length) s
    | .readErr => inContract rem s
    | .readZero => inContract rem s
    | _ => false

/-! ### executable specification for the implementation's observable behaviour -/

/-- what the harness observed for one call -/
structure ImplCall where
  returned : Bool          -- `randombytes` returned (false: the script ran out while it was still looping)
  log : List Call
  deriving Repr

/-- state threaded through a sequence of calls -/
structure SpecSt where
  script : List Outcome            -- answers not yet given
  opened : Option Nat := none      -- descriptor obtained by the (single) successful open so far
  okOpens : Nat := 0
  deriving Repr

/-- replay of one call's log against the script.  Returns the bytes delivered during this call and the
    new state, or `none` when the log violates the property:
    * `open` only while no descriptor has been obtained; at most one success over all calls;
    * `read` only on the obtained descriptor, at pointer offset = number of bytes delivered so far in this
      call, for `1 ≤ req ≤ min (xlen − delivered) 2^20` bytes;
    * (echo) the answer recorded with each call is the script's next outcome, within the `read` contract;
    * an unanswered call only when the script is exhausted, and last. -/
def replayLog (xlen : Nat) : List Call → SpecSt → List Nat → Option (List Nat × SpecSt × Bool)
  | [], st, d => some (d, st, false)
  | .sleep _ :: l, st, d => replayLog xlen l st d
  | .open ret :: l, st, d =>
    match st.opened, st.script, ret with
    | none, .openFail :: s, none => if d.isEmpty then replayLog xlen l { st with script := s } d else none
    | none, .openOk f :: s, some f' =>
      if f = f' && d.isEmpty then
        replayLog xlen l { script := s, opened := some f, okOpens := st.okOpens + 1 } d
      else none
    | _, _, _ => none
  | .read f off req ret :: l, st, d =>
    if st.opened = some f ∧ off = d.length ∧ 1 ≤ req ∧ req ≤ min (xlen - d.length) chunk then
      match st.script, ret with
      | .readErr :: s, .negSucc 0 => replayLog xlen l { st with script := s } d
      | .readZero :: s, .ofNat 0 => replayLog xlen l { st with script := s } d
      | .readBytes bs :: s, .ofNat n =>
        if n = bs.length ∧ n ≤ req then replayLog xlen l { st with script := s } (d ++ bs) else none
      | _, _ => none
    else none
  | [.openNoAns], st, d =>
    if st.opened = none ∧ st.script = [] ∧ d.isEmpty then some (d, st, true) else none
  | [.readNoAns f off req], st, d =>
    if st.opened = some f ∧ off = d.length ∧ 1 ≤ req ∧ req ≤ min (xlen - d.length) chunk ∧ st.script = []
    then some (d, st, true) else none
  | _ :: _, _, _ => none

/-- property on one call: the log is legal; if the function returned, exactly `xlen` bytes were delivered
    during the call (so it did not return early) and the expected buffer is these bytes in order; if it did
    not return, fewer than `xlen` bytes (or no descriptor) were available and the buffer is the delivered
    prefix followed by unwritten bytes.  Returns the expected buffer. -/
def checkCall (xlen : Nat) (ic : ImplCall) (st : SpecSt) : Option (Mem × SpecSt) :=
  match replayLog xlen ic.log st [] with
  | none => none
  | some (d, st', pending) =>
    if st'.okOpens ≤ 1 then
      if ic.returned then
        if !pending && d.length == xlen then some (d.map some, st') else none
      else
        if pending && (d.length < xlen || st'.opened.isNone) then
          some (d.map some ++ List.replicate (xlen - d.length) none, st')
        else none
    else none

/-- a sequence of calls: expected buffers (per call) and number of script outcomes consumed -/
def checkCalls : List Nat → List ImplCall → SpecSt → Option (List Mem × SpecSt)
  | [], [], st => some ([], st)
  | x :: xs, ic :: ics, st =>
    match checkCall x ic st with
    | none => none
    | some (m, st') =>
      if ic.returned then
        match checkCalls xs ics st' with
        | none => none
        | some (ms, st'') => some (m :: ms, st'')
      else if ics.isEmpty then some ([m], st') else none
  | _, _, _ => none

end Nfl.RB
