/-
Reference decoder for the Gaussian sampler, written from the barriers only (no lookup tables): each output is the
inverse CDF of the next `wp` words; the number of words it is *allowed* to consume is 1 if no barrier starts with the
first word, 2 (depth 2) if none starts with the first two words, `wp` otherwise; successive outputs use consecutive
pieces of the buffer; a new request is made when fewer than `wp` words would remain.  Used by the driver as the
executable specification on whole `getNoise` runs (C11).  Core Lean only.
-/
import NflVerif.Model.Gauss

namespace Nfl.Gauss.Spec
open Nfl.Gauss

def refUsed (depth wp : Nat) (bs : List Str) (u : Str) : Nat :=
  if !(bs.any (hasPre (u.take 1))) then 1
  else if depth == 2 && !(bs.any (hasPre (u.take 2))) then 2
  else wp

/-- outputs and number of requests of a reference run; `none` if a piece would leave the buffer -/
def refRun (depth wp : Nat) (bs : List Str) (v0 : Int) (bufLen : Nat) (fills : Nat → Str) :
    Nat → Nat → Nat → Str → Option (List Int × Nat)
  | 0, req, _, _ => some ([], req + 1)
  | n + 1, req, pos, rest =>
    if rest.length < wp then none else
    let u := rest.take wp
    let out := invCDF bs v0 u
    let k := refUsed depth wp bs u
    let tl :=
      if pos + k + wp ≥ bufLen then refRun depth wp bs v0 bufLen fills n (req + 1) 0 ((fills (req + 1)).take bufLen)
      else refRun depth wp bs v0 bufLen fills n req (pos + k) (rest.drop k)
    match tl with
    | none => none
    | some (outs, nreq) => some (out :: outs, nreq)

end Nfl.Gauss.Spec
