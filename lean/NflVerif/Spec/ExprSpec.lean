/-
Executable specification for C07/C08: the coefficient-wise meaning of an expression tree in exact modular
arithmetic, and the hypotheses under which the library's evaluation is claimed to equal it.  Core Lean only.
-/
import NflVerif.Model.Expr
import NflVerif.Spec.Arith
namespace Nfl.Ex
open Nfl

/-- the value of `e` at coefficient `(cm, i)` with exact arithmetic modulo `p = P[cm]`:
`(x+y) % p`, the representative of `x-y` in `[0,p)`, `x*y % p`, the quotient `⌊(y % p)·2^w / p⌋`;
the fused node means the product of its first two operands. -/
def evalExact (c : Ctx) (st : Store) : Expr → Nat → Nat → Nat
  | .leaf h, cm, i => rd st h (cm * c.deg + i)
  | .add a b, cm, i => Spec.addSpec (c.p cm) (evalExact c st a cm i) (evalExact c st b cm i)
  | .sub a b, cm, i => Spec.subSpec (c.p cm) (evalExact c st a cm i) (evalExact c st b cm i)
  | .mul a b, cm, i => Spec.mulSpec (c.p cm) (evalExact c st a cm i) (evalExact c st b cm i)
  | .shoup3 a b _, cm, i => Spec.mulSpec (c.p cm) (evalExact c st a cm i) (evalExact c st b cm i)
  | .computeShoup a, cm, i => Spec.shoupSpec c.w (c.p cm) (evalExact c st a cm i)
  | .eq a b, cm, i => if evalExact c st a cm i = evalExact c st b cm i then 1 else 0
  | .neq a b, cm, i => if evalExact c st a cm i = evalExact c st b cm i then 0 else 1

/-- the polynomial `e` denotes, as the flat array `_data[cm*degree + i]` -/
def pointwise (c : Ctx) (st : Store) (e : Expr) : List Nat :=
  (List.range c.n).map fun k => evalExact c st e (k / c.deg) (k % c.deg)

/-- **Admissibility** of a tree on a store (the documented preconditions of the functors, ops.hpp "ASSUMPTION"):
every `+ - *` and fused product receives canonical operands (`< p`), and the third operand of each fused product is
the precomputed quotient `⌊y·2^w/p⌋` of the second; no comparison inside. -/
def Adm (c : Ctx) (st : Store) : Expr → Prop
  | .leaf _ => True
  | .add a b | .sub a b | .mul a b =>
      Adm c st a ∧ Adm c st b ∧
      ∀ cm, cm < c.nmod → ∀ i, i < c.deg → evalExact c st a cm i < c.p cm ∧ evalExact c st b cm i < c.p cm
  | .shoup3 a b q =>
      Adm c st a ∧ Adm c st b ∧ Adm c st q ∧
      ∀ cm, cm < c.nmod → ∀ i, i < c.deg → evalExact c st a cm i < c.p cm ∧ evalExact c st b cm i < c.p cm ∧
        evalExact c st q cm i = evalExact c st b cm i * 2 ^ c.w / c.p cm
  | .computeShoup a => Adm c st a
  | .eq _ _ | .neq _ _ => False

/-- decidable version for the driver (same definition with bounded quantifiers as loops) -/
def admB (c : Ctx) (st : Store) : Expr → Bool
  | .leaf _ => true
  | .add a b | .sub a b | .mul a b =>
      admB c st a && admB c st b &&
      (List.range c.nmod).all fun cm => (List.range c.deg).all fun i =>
        decide (evalExact c st a cm i < c.p cm) && decide (evalExact c st b cm i < c.p cm)
  | .shoup3 a b q =>
      admB c st a && admB c st b && admB c st q &&
      (List.range c.nmod).all fun cm => (List.range c.deg).all fun i =>
        decide (evalExact c st a cm i < c.p cm) && decide (evalExact c st b cm i < c.p cm) &&
        evalExact c st q cm i == evalExact c st b cm i * 2 ^ c.w / c.p cm
  | .computeShoup a => admB c st a
  | .eq _ _ | .neq _ _ => false

/-- all rows of the store have the length of a polynomial -/
def Store.wf (c : Ctx) (st : Store) : Prop := ∀ r ∈ st, r.length = c.n

def storeWfB (c : Ctx) (st : Store) : Bool := st.all fun r => r.length == c.n

end Nfl.Ex
