import NflVerif.Generated.TablesOk
