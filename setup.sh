#!/bin/sh
# Fresh-restore setup: regenerate translated Lean files from /repo, build every Lean module + the driver.
set -e
cd "$(dirname "$0")"
mkdir -p build evidence
python3 tools/gen_params.py > build/gen_params.log
python3 tools/gen_ops_ast.py > build/gen_ops_ast.log     # C03: Generated/OpsAst.lean (clang AST of the scalar functors, ~2 s)
python3 tools/gen_ntt_ast.py > build/gen_ntt_ast.log     # C02/C01: Generated/NttAst.lean (clang AST of the scalar NTT butterfly blocks, ~2 s)
python3 tools/gen_simd_ast.py > build/gen_simd_ast.log   # C05: Generated/SimdAst.lean (clang AST of the SSE/AVX2 kernels, ~5 s)
python3 tools/gen_crt_ast.py > build/gen_crt_ast.log     # C04: Generated/CrtAst.lean (clang AST of gmp.hpp's GMP constructor / poly2mpz / mpz2poly, ~2 s)
python3 tools/gen_set_ast.py > build/gen_set_ast.log     # C09/C12/C15: Generated/SetAst.lean (clang AST of the setters / samplers, per-coefficient pieces, ~3 s)
python3 tools/gen_prng_ast.py > build/gen_prng_ast.log     # C19/C13/C18: Generated/PrngAst.lean (clang AST of randombytes.cpp / fastrandombytes.cpp as step functions, <1 s)
python3 tools/gen_gauss_ast.py > build/gen_gauss_ast.log   # C10/C11: Generated/GaussAst.lean (clang AST of FastGaussianNoise.hpp: cmp + sampling path of getNoise, <2 s)
python3 tools/gen_init_ast.py > build/gen_init_ast.log   # C06/C02/C01: Generated/InitAst.lean (clang AST of core::initialize() / core::prep_wtab; after gen_ops_ast + gen_crt_ast, ~2 s)
python3 tools/gen_bool_ast.py > build/gen_bool_ast.log   # C08: Generated/BoolAst.lean (clang AST of expr::operator bool, ~3 s)
python3 tools/gen_cow_ast.py > build/gen_cow_ast.log     # C14: Generated/CowAst.lean (clang AST of the copy-on-write handle class poly_p, ~2 s)
python3 tools/gen_permut_ast.py > build/gen_permut_ast.log && python3 tools/gen_nttloop_ast.py > build/gen_nttloop_ast.log   # C02/C01: Generated/PermutAst.lean + NttLoopAst.lean (permut.hpp; loop structure of ntt_loop::run / core::ntt / core::inv_ntt, ~6 s)
python3 tools/gen_ser_ast.py > build/gen_ser_ast.log     # C16: Generated/SerAst.lean (clang AST of the serialisers of poly: raw, cereal binary, operator<<, ~2 s)
python3 tools/gen_smp_ast.py > build/gen_smp_ast.log     # C09/C12/C15: Generated/SmpAst.lean (clang AST of the WHOLE samplers / setters: loops, request sizes, library calls; after gen_set_ast, ~4 s)
python3 tools/gen_expr_ast.py > build/gen_expr_ast.log   # C07/C08/C09: Generated/ExprAst.lean (clang AST of the expression-template evaluation machinery; after gen_ops_ast + gen_simd_ast, ~5 s)
python3 tools/gen_vloop_ast.py > build/gen_vloop_ast.log   # C05/C02/C01: Generated/VLoopAst.lean (clang AST, two vector configurations: loop structure of ntt_loop_sse_unrolled / ntt_loop_avx2_unrolled::run + core::ntt; after gen_simd_ast, gen_ntt_ast, gen_nttloop_ast, ~13 s)
python3 tools/gen_setmpz_ast.py > build/gen_setmpz_ast.log   # C04/C15: Generated/SetMpzAst.lean (clang AST of poly::set_mpz<It>(It,It) + forwarding overloads / mpz constructors; after gen_crt_ast, ~3 s)
python3 tools/gen_lut_ast.py > build/gen_lut_ast.log       # C10: Generated/LutAst.lean (clang AST of FastGaussianNoise.hpp: buildLookupTables, 4 instantiations, <3 s)
python3 tools/gen_entry_ast.py > build/gen_entry_ast.log   # C01/C02: Generated/EntryAst.lean (clang AST of core::ntt_pow_phi / core::invntt_pow_invphi: glue over ExprAst + NttLoopAst + InitAst; after gen_expr_ast, gen_nttloop_ast, gen_init_ast, ~3 s)
python3 tools/gen_footprint.py > build/gen_footprint.log   # C17: Generated/Footprint.lean (valgrind-lackey, ~15 s)
cd lean
lake build NflVerif driver
