#!/usr/bin/env python3
"""Translator: clang's typed AST of NFLlib's setters / samplers (include/nfl/core.hpp) -> lean/NflVerif/Generated/SetAst.lean

Reuses gen_ops_ast.py / gen_ntt_ast.py (AST loading, per-node translation with the helpers of Model/CSem.lean) and adds,
in Model/CSemSet.lean (namespace Nfl.CSet), the node kinds these functions need (`&`, `~`, `&&`, shifts by a variable,
`int % int`, signed -> unsigned conversions, the integer-valued `double` arithmetic around `floor(log2(.))`).

For T = uint16_t, uint32_t, uint64_t the members `set(...)` of nfl::poly<T,8,2> are instantiated (poly<T,16,1> too: the
text must be the same) and the following STRAIGHT-LINE PIECES are translated, each as a pure function of the values it
reads (free variables of the piece, memory cells read, `get_modulus(cm)` = `p`) to the value it computes:

  set(uniform)        uni_mask (flog2, p)                       the declaration of `mask`
                      uni_body (p, mask, data)                  body of the loop over i            -> _data[i+degree*cm]
  set(non_uniform)    bnd_throw (p, upper_bound) : Bool         condition of the throw
                      bnd_mask (upper_bound)                    mask_bits = 0; the bit-length loop; the declaration of `mask`
                      bnd_is1 (amplifier) : Bool                `amplifier == 1`
                      bnd_amp1 (p, upper_bound, mask, rnd_i)    body of the loop over i, amplifier == 1 -> _data[degree*cm+i]
                      bnd_ampg (p, upper_bound, amplifier, mask, rnd_i)   the general body
  set(gaussian)       gau_amp (amplifier, rnd_i)                `if (amplifier != 1) ... rnd[i] *= amplifier`   -> rnd[i]
                      gau_store (p, rnd_i)                      the store loop                     -> _data[degree*cm+i]
  set(ZO_dist)        zo_coef (p, rho, rnd_i)                   `pm` and the store                 -> *ptr++
  set(hwt_dist)       hwt_accept (k, pos) : Bool                `reject_sample` and the rejection test
                      hwt_index (k, pos)                        `pos %= (k + 1)`
                      hwt_res (hwt, k, pos, hitted_pos)         `if (pos < mode.hwt) hitted[pos] = k`  -> hitted[pos]
                      hwt_sign (p, rnd_ptr_cell)                `pm` and the store of +-1          -> _data[pos+offset]
  set(v, reduce)      set_iszero (v) : Bool                     `v == 0`
  set(It,It,reduce)   set_badsize (degree, nmoduli, size) : Bool   condition of the throw
                      set_rewind (degree, nmoduli, size) : Bool    `size != degree * nmoduli`
                      set_store (p, reduce_coeffs, viter_cell)  body of the copy loop              -> *iter
                      set_pad                                   body of the padding loop           -> *iter

Slice convention (TRUSTED): the loops `for (i ...)`, `for (cm ...)`, `for (cm, offset ...)` and the range-for over `hitted`
are NOT translated: a piece is the computation of ONE iteration; inside a piece such loops are transparent and their
variables may appear only in array indices and as the argument of get_modulus (checked).  Every memory cell of a piece
is named by its lvalue text (`rnd[i]` -> rnd_i, `_data[...]` -> data, `*ptr++` -> ptr_cell, ...); its index expression is
checked against the expected one (`cm*degree + i`, `i`, `pos`, `offset + pos`) and a cell written inside a transparent loop
must depend on that loop's variable, so different iterations touch different cells.  `*ptr++` / `*rnd_ptr++` are read as
"the cell the walking pointer designates now" (the walk itself is hand-modelled).  fastrandombytes, getNoise, memset,
std::iota/sort/fill/distance, vector construction, the buffer refill and all loop headers are NOT translated; the JSON
summary lists, per function, the source lines translated and the source lines skipped.
`floor(log2((double) x))` is emitted as `flog2 x` with `flog2 : Nat -> Nat` a parameter (floating point: contract, not
translated); the `+ 1` on that integer-valued double and the conversion to `int` are CSet.addD / CSet.d2i.
Real loops (the bit-length loop) become CSem.whileFuel; the fuel `width + 1` is accepted only for the shape
`for (...; v != 0; v >>= c)` with c >= 1 constant and v not assigned in the body (at most `width` iterations).

Unknown node kind / callee / type / index => non-zero exit naming it and file:line.  Last line of stdout: JSON summary.
Usage: gen_set_ast.py [--repo DIR] [--out FILE] [--keep]
"""
import hashlib, json, os, re, sys

HERE = os.path.dirname(os.path.abspath(__file__))
sys.path.insert(0, HERE)
import gen_ops_ast as g
import gen_ntt_ast as nt
from gen_ops_ast import Unsupported, Val, Var, fail, ctype

OUT = os.path.join(g.VERIF, "lean", "NflVerif", "Generated", "SetAst.lean")
SHAPES = [(8, 2), (16, 1)]            # (Degree, NbModuli): the first is written out, the others must give the same text
g.CANON.update({"unsigned char": ("U", 8), "unsigned long long": ("U", 64)})

SYMBOLIC = ("i", "cm", "offset")       # loop variables of the transparent loops
INDEX_OK = {"_data": ("cm*degree + i", "offset + pos"), "rnd": ("i",), "hitted": ("pos",)}
PRIORITY = ["flog2", "p", "degree", "nmoduli", "size", "hwt", "upper_bound", "amplifier", "rho", "reduce_coeffs", "mask", "k", "pos", "v"]


def unwrap(n):
    while n.get("kind") in ("ParenExpr", "ExprWithCleanups"):
        n = n["inner"][0]
    return n


def strip_casts(n, kinds=("NoOp", "LValueToRValue", "IntegralCast")):
    while n.get("kind") in ("ParenExpr", "ExprWithCleanups", "MaterializeTemporaryExpr") or \
            (n.get("kind") in ("ImplicitCastExpr", "CStyleCastExpr") and n.get("castKind") in kinds):
        n = n["inner"][0]
    return n


def callee_name(n):
    c = n["inner"][0]
    while c.get("kind") in ("ImplicitCastExpr", "ParenExpr"):
        c = c["inner"][0]
    if c.get("kind") == "DeclRefExpr":
        return c.get("referencedDecl", {}).get("name"), c.get("referencedDecl", {})
    if c.get("kind") == "MemberExpr":
        return c.get("name"), {}
    return None, {}


class Piece(nt.Block):
    def __init__(self, tr, name, suf, w, where, method):
        nt.Block.__init__(self, tr, name, suf, w, where)
        self.method = method
        self.pp = []                  # (lean name, ctype or "F") in order of first use
        self.cellv = {}               # cell key -> Var
        self.cellinfo = {}            # cell key -> dict(name, lvalue, written, read_first)
        self.sym = {}                 # decl id -> name: variables of the transparent loops
        self.loop_stack = []          # names of the variables of the enclosing transparent loops
        self.scopes = [[]]            # decl ids declared per open scope
        self.lines_done = []          # (line, text, what)
        self.structure = []           # loop headers / pointer walks passed over
        self.inner = {}               # decl id -> decl node, for every variable declared inside the method
        self.result_t = None

        def walk(n):
            if n.get("kind") in ("VarDecl", "ParmVarDecl") and "id" in n:
                self.inner[n["id"]] = n
            for c in n.get("inner", []):
                if isinstance(c, dict):
                    walk(c)
        walk(method)

    # ---------- parameters
    def add_param(self, name, t):
        if name in [p for p, _ in self.pp]:
            return
        if name in self.names and self.names[name] not in ("param", "cell"):
            raise Unsupported("%s: parameter name %s clashes with a C++ variable" % (self.lean_name, name))
        self.names[name] = "param"
        self.pp.append((name, t))

    def adopt(self, rd, at):
        """a variable declared in the method but outside the piece: a parameter of the piece"""
        d = self.inner[rd["id"]]
        t = ctype(d)
        name = d.get("name")
        if not name or not re.fullmatch(r"[A-Za-z_][A-Za-z0-9_]*", name) or name in g.LEAN_KEYWORDS:
            fail(at, "unusable identifier %r" % name)
        self.add_param(name, t)
        self.names[name] = rd["id"]
        self.env[rd["id"]] = Var(name, t, True, None, False)

    def declare(self, decl, init, const=None):
        v = g.Fn.declare(self, decl, init, const)
        self.scopes[-1].append(decl["id"])
        return v

    def open_scope(self):
        self.scopes.append([])

    def close_scope(self):
        for i in self.scopes.pop():
            v = self.env.pop(i)
            self.names.pop(v.name, None)

    # ---------- index polynomials
    def poly(self, n):
        """index expression -> {sorted tuple of variable names: coefficient}"""
        n = strip_casts(n)
        k = n.get("kind")
        if k == "IntegerLiteral":
            c = int(n["value"])
            return {(): c} if c else {}
        if k == "DeclRefExpr":
            return {(n["referencedDecl"].get("name"),): 1}
        if k == "BinaryOperator" and n.get("opcode") in ("+", "*"):
            a, b = self.poly(n["inner"][0]), self.poly(n["inner"][1])
            r = {}
            if n["opcode"] == "+":
                for d in (a, b):
                    for m, c in d.items():
                        r[m] = r.get(m, 0) + c
            else:
                for m1, c1 in a.items():
                    for m2, c2 in b.items():
                        m = tuple(sorted(m1 + m2))
                        r[m] = r.get(m, 0) + c1 * c2
            return {m: c for m, c in r.items() if c}
        fail(n, "index expression")

    def poly_str(self, n):
        p = self.poly(n)
        ts = []
        for m in sorted(p, key=lambda m: (-len(m), m)):
            c = p[m]
            body = "*".join(m)
            ts.append(body if c == 1 and m else (str(c) if not m else "%d*%s" % (c, body)))
        return " + ".join(ts) if ts else "0"

    # ---------- memory cells
    def cell_key(self, n):
        """(base, index text) if n is one of the recognised memory lvalues, else None"""
        k = n.get("kind")
        if k == "ArraySubscriptExpr":
            base, idx = n["inner"]
            if not (base.get("kind") == "ImplicitCastExpr" and base.get("castKind") == "ArrayToPointerDecay"):
                return None
            b = unwrap(base["inner"][0])
            if b.get("kind") == "MemberExpr" and b.get("isArrow") and b["inner"][0].get("kind") == "CXXThisExpr":
                name = b.get("name")
            elif b.get("kind") == "DeclRefExpr" and b["referencedDecl"].get("id") in self.inner:
                name = b["referencedDecl"]["name"]
            else:
                return None
            if name not in INDEX_OK:
                fail(n, "array %r is not one of %s" % (name, sorted(INDEX_OK)))
            s = self.poly_str(idx)
            if s not in INDEX_OK[name]:
                fail(n, "index `%s` of %s is not one of the expected %s" % (s, name, list(INDEX_OK[name])))
            return (name, s)
        if k == "UnaryOperator" and n.get("opcode") == "*":
            o = n["inner"][0]
            if o.get("kind") == "UnaryOperator" and o.get("opcode") == "++" and o.get("isPostfix"):
                r = unwrap(o["inner"][0])
                if r.get("kind") == "DeclRefExpr" and r["referencedDecl"].get("id") in self.inner:
                    return (r["referencedDecl"]["name"], "*++")
                fail(n, "post-incremented pointer")
            r = strip_casts(o, ("LValueToRValue",))
            if r.get("kind") == "DeclRefExpr" and r["referencedDecl"].get("id") in self.inner:
                return (r["referencedDecl"]["name"], "*")
            fail(n, "dereference of something that is not a local pointer variable")
        if k == "CXXOperatorCallExpr":
            nm, _ = callee_name(n)
            if nm == "operator[]":
                v = unwrap(n["inner"][1])
                if v.get("kind") != "DeclRefExpr" or v["referencedDecl"].get("id") not in self.inner:
                    fail(n, "operator[] on something that is not a local container")
                name = v["referencedDecl"]["name"]
                if name not in INDEX_OK:
                    fail(n, "container %r is not one of %s" % (name, sorted(INDEX_OK)))
                s = self.poly_str(n["inner"][2])
                if s not in INDEX_OK[name]:
                    fail(n, "index `%s` of %s is not one of the expected %s" % (s, name, list(INDEX_OK[name])))
                return (name, s)
            if nm == "operator*":
                o = strip_casts(n["inner"][1], ("NoOp",))
                if o.get("kind") == "DeclRefExpr" and o["referencedDecl"].get("id") in self.inner:
                    return (o["referencedDecl"]["name"], "*")
                if o.get("kind") == "CXXOperatorCallExpr" and callee_name(o)[0] == "operator++" and len(o["inner"]) == 3:
                    r = unwrap(o["inner"][1])
                    if r.get("kind") == "DeclRefExpr" and r["referencedDecl"].get("id") in self.inner:
                        return (r["referencedDecl"]["name"], "*++")
                fail(n, "operator* on something that is not a local iterator (possibly post-incremented)")
            fail(n, "overloaded operator %r" % nm)
        return None

    def cell_var(self, n, key):
        if key not in self.cellv:
            base, idx = key
            if idx in ("*", "*++"):
                name = base + "_cell"
            elif re.fullmatch(r"[a-z]+", idx):
                name = "%s_%s" % (base.lstrip("_"), idx)
            else:
                name = base.lstrip("_")
            if name in self.names:
                fail(n, "cell name %s clashes with a C++ variable" % name)
            self.names[name] = "cell"
            lv = {"*": "*%s" % base, "*++": "*%s++" % base}.get(idx, "%s[%s]" % (base, idx))
            self.cellv[key] = Var(name, ctype(n), False, None, False)
            self.cellinfo[key] = {"name": name, "lvalue": lv, "written": False, "read_first": False, "loops": list(self.loop_stack)}
            if idx == "*++":
                self.structure.append("%s: the walk of `%s` (post-increment) is hand-modelled" % (self.lean_name, base))
        v = self.cellv[key]
        if ctype(n) != v.t:
            fail(n, "cell %s accessed at two types" % v.name)
        return v

    def cell_read(self, n, key=None):
        key = key or self.cell_key(n)
        v = self.cell_var(n, key)
        if not v.init:
            self.add_param(v.name, v.t)
            self.names[v.name] = "cell"
            v.init = True
            self.cellinfo[key]["read_first"] = True
        return Val(v.name, v.t, atom=True)

    def cell_write(self, n, key):
        v = self.cell_var(n, key)
        for lv in self.loop_stack:
            names = re.split(r"[^A-Za-z_]+", key[1])
            if key[1] not in ("*", "*++") and lv not in names and not (lv == "cm" and "offset" in names):
                fail(n, "cell %s is written inside the transparent loop over `%s` but its index does not depend on it" % (self.cellinfo[key]["lvalue"], lv))
        v.init = True
        self.cellinfo[key]["written"] = True
        return v

    # ---------- lvalues
    def load(self, n):
        n = self.strip_paren(n)
        k = n.get("kind")
        key = self.cell_key(n)
        if key:
            self.count(n)
            return self.cell_read(n, key)
        if k == "ArraySubscriptExpr":
            b = strip_casts(n["inner"][0], ("ArrayToPointerDecay",))
            dd = self.tr.byid.get(b.get("referencedDecl", {}).get("id")) or {}
            if b.get("kind") == "DeclRefExpr" and b["referencedDecl"].get("name") == "P" and (dd.get("_parent") or {}).get("name") == "params":
                self.count(n)
                return self.modulus(n, n["inner"][1])
            fail(n, "array that is neither a known cell nor params<T>::P")
        if k == "MemberExpr":
            self.count(n)
            o = n["inner"][0] if n.get("inner") else {}
            if o.get("kind") == "DeclRefExpr" and o["referencedDecl"].get("kind") == "ParmVarDecl" and o["referencedDecl"].get("name") == "mode" \
                    and not n.get("isArrow"):
                t = ctype(n)
                self.add_param(n["name"], t)
                return Val(n["name"], t, atom=True)
            fail(n, "member access that is not mode.<member>")
        if k == "DeclRefExpr":
            rd = n.get("referencedDecl", {})
            i = rd.get("id")
            if i in self.sym:
                fail(n, "loop variable `%s` used as a value (only array indices and get_modulus may use it)" % self.sym[i])
            if i not in self.env and i in self.inner:
                self.adopt(rd, n)
            if i not in self.env and rd.get("kind") == "VarDecl" and rd.get("name") in ("degree", "nmoduli"):
                d = self.tr.byid.get(i) or {}
                own = d.get("_parent") or {}
                if own.get("name") != "poly":
                    fail(n, "`%s` is not the static member of nfl::poly" % rd.get("name"))
                self.count(n)
                t = ctype(n)
                self.add_param(rd["name"], t)
                return Val(rd["name"], t, atom=True)
        return g.Fn.load(self, n)

    def target(self, n):
        n = self.strip_paren(n)
        if n.get("kind") == "DeclRefExpr":
            rd = n["referencedDecl"]
            if rd.get("id") in self.sym:
                fail(n, "assignment to the loop variable `%s`" % self.sym[rd["id"]])
            if rd.get("id") not in self.env and rd.get("id") in self.inner:
                self.adopt(rd, n)
        return g.Fn.target(self, n)

    # ---------- expressions
    def modulus(self, n, arg):
        if self.poly_str(arg) != "cm":
            fail(n, "modulus index is not the loop variable `cm`")
        t = ctype(n)
        if t != ("U", self.w):
            fail(n, "type of the modulus")
        self.add_param("p", t)
        return Val("p", t, atom=True)

    def convert(self, v, to, n):
        fr = v.t
        if fr[0] == "S" and fr[1] != 32 and to[0] == "U":
            c = None if v.const is None else v.const % 2 ** to[1]
            return Val("CSet.castSwU %d %d %s" % (fr[1], to[1], v.p()), to, None, c)
        return nt.Block.convert(self, v, to, n)

    def expr(self, n):
        k = n.get("kind")
        if k == "MaterializeTemporaryExpr":
            self.count(n)
            return self.expr(n["inner"][0])
        if k in ("ImplicitCastExpr", "CStyleCastExpr") and n.get("castKind") == "FloatingToIntegral":
            self.count(n)
            return self.flog(n)
        if k == "ImplicitCastExpr" and n.get("castKind") == "IntegralToBoolean":
            self.count(n)
            v = self.expr(n["inner"][0])
            if v.t[0] == "U":
                return Val("CSem.neU %s 0" % v.p(), ("B", 1))
            if v.t == ("S", 32):
                return Val("CSem.neS32 %s 0" % v.p(), ("B", 1))
            fail(n, "conversion to bool of %s" % nt.tyname(v.t))
        if k == "CallExpr":
            self.count(n)
            nm, rd = callee_name(n)
            if nm == "get_modulus" and rd.get("kind") == "CXXMethodDecl" and len(n["inner"]) == 2:
                self.tr.check_get_modulus(rd, n)
                return self.modulus(n, n["inner"][1])
            if nm == "max" and len(n["inner"]) == 1 and rd.get("kind") == "CXXMethodDecl" and ctype(n) == ("U", 64) and \
                    "std::numeric_limits<size_t>::max()" in self.tr.source_line(n.get("_file"), n.get("_line")):
                # library contract (std decls are outside the dump): numeric_limits<unsigned long>::max() = 2^64 - 1 (LP64)
                c = 2 ** 64 - 1
                return Val(str(c), ("U", 64), const=c, atom=True)
            fail(n, "call of %r" % nm)
        if k == "UnaryOperator":
            self.count(n)
            op = n.get("opcode")
            if op == "~":
                v = self.expr(n["inner"][0])
                t = ctype(n)
                if t[0] != "U" or v.t != t:
                    fail(n, "~ on a non-unsigned value")
                c = None if v.const is None else 2 ** t[1] - 1 - v.const
                return Val("CSet.notU %d %s" % (t[1], v.p()), t, None, c)
            fail(n, "unary operator %r in an expression" % op)
        if k == "BinaryOperator" and n.get("opcode") in ("&&", "||"):
            self.count(n)
            a, b = self.expr(n["inner"][0]), self.expr(n["inner"][1])
            if a.t[0] != "B" or b.t[0] != "B":
                fail(n, "operands of %s" % n["opcode"])
            return Val("%s %s %s" % (a.p(), n["opcode"], b.p()), ("B", 1))
        if k == "ArraySubscriptExpr" and n.get("valueCategory") == "lvalue":
            fail(n, "array element used without lvalue-to-rvalue conversion")
        return nt.Block.expr(self, n)

    def flog(self, n):
        """(int)(floor(log2((double) X)) + c)"""
        s = unwrap(n["inner"][0])
        ok = s.get("kind") == "BinaryOperator" and s.get("opcode") == "+" and s["type"]["qualType"] == "double"
        if ok:
            a, b = s["inner"]
            ok = a.get("kind") == "CallExpr" and callee_name(a)[0] == "floor" and callee_name(a)[1].get("kind") == "FunctionDecl" and len(a["inner"]) == 2
        if ok:
            l = a["inner"][1]
            ok = l.get("kind") == "CallExpr" and callee_name(l)[0] == "log2" and callee_name(l)[1].get("kind") == "FunctionDecl" and len(l["inner"]) == 2 \
                and l["inner"][1].get("kind") == "ImplicitCastExpr" and l["inner"][1].get("castKind") == "IntegralToFloating" \
                and l["type"]["qualType"] == "double" and a["type"]["qualType"] == "double"
        if ok:
            ok = b.get("kind") == "ImplicitCastExpr" and b.get("castKind") == "IntegralToFloating" and b["inner"][0].get("kind") == "IntegerLiteral"
        if not ok or ctype(n) != ("S", 32):
            fail(n, "floating-point expression that is not (int)(floor(log2((double) x)) + literal)")
        for x in (s, a, l, b, b["inner"][0], l["inner"][1]):
            self.count(x)
        x = self.expr(l["inner"][1]["inner"][0])
        if x.t[0] != "U":
            fail(n, "argument of log2 is not unsigned")
        c = int(b["inner"][0]["value"])
        self.add_param("flog2", "F")
        self.tr.float_sites.append({"piece": self.lean_name, "line": n.get("_line"), "source": self.tr.source_line(n.get("_file"), n.get("_line")),
                                    "contract": "flog2 x = floor(log2((double) x)) as computed by the machine, an integer-valued double >= 0"})
        return Val("CSet.d2i (CSet.addD (flog2 %s) %d)" % (x.p(), c), ("S", 32))

    BITOPS = {"&": "and", "|": "or", "^": "xor"}

    def binop(self, n, op, a, b, t):
        if op in self.BITOPS:
            if a.t != t or b.t != t:
                fail(n, "operand types of %s" % op)
            if t[0] == "U":
                return Val("CSet.%sU %d %s %s" % (self.BITOPS[op], t[1], a.p(), b.p()), t)
            if t == ("S", 32) and op == "&":
                rng = (0, b.rng[1]) if b.rng[0] >= 0 else ((0, a.rng[1]) if a.rng[0] >= 0 else None)
                return Val("CSet.andS32 %s %s" % (a.p(), b.p()), t, rng)
            fail(n, "bit operator %r in type %s" % (op, nt.tyname(t)))
        if op in ("<<", ">>") and t[0] == "U" and a.t == t and not (b.const is not None and 0 <= b.const < t[1]):
            if b.t[0] not in "US" or (b.t[0] == "S" and b.t[1] != 32):
                fail(n, "type of the shift count")
            self.tr.shift_sites.append({"piece": self.lean_name, "file": self.tr.short(n.get("_file")), "line": n.get("_line"),
                                        "source": self.tr.source_line(n.get("_file"), n.get("_line")),
                                        "note": "variable shift count: C++ undefined for count >= %d (or negative); CSet.%s is the mathematical shift mod 2^%d" % (
                                            t[1], "shlV" if op == "<<" else "shrV", t[1])})
            return Val("CSet.%s %d %s %s" % ("shlV" if op == "<<" else "shrV", t[1], a.p(), b.p()), t)
        if op == "%" and t == ("S", 32) and a.t == t and b.t == t:
            if not (b.const is not None and b.const != 0):
                self.tr.div_sites.append({"functor": self.lean_name, "line": n.get("_line"), "file": self.tr.short(n.get("_file")), "op": op,
                                          "note": "divisor not a non-zero constant: C++ undefined for 0"})
            rng = (0, a.rng[1]) if a.rng[0] >= 0 else None
            return Val("CSet.modS32 %s %s" % (a.p(), b.p()), t, rng)
        return nt.Block.binop(self, n, op, a, b, t)

    # ---------- statements
    def note(self, s, what="statement"):
        self.lines_done.append((s.get("_line"), self.tr.source_line(s.get("_file"), s.get("_line")), what))

    def local_decl_ids(self, n, acc):
        if n.get("kind") == "VarDecl" and "id" in n:
            acc.add(n["id"])
        for c in n.get("inner", []):
            if isinstance(c, dict):
                self.local_decl_ids(c, acc)
        return acc

    def scan_assigned(self, n, acc, skip):
        """targets ("v", decl id) / ("c", cell key) assigned anywhere below n, in order of appearance"""
        k = n.get("kind")
        tgt = None
        if k == "CompoundAssignOperator" or (k == "BinaryOperator" and n.get("opcode") == "=") or \
                (k == "UnaryOperator" and n.get("opcode") in ("++", "--")):
            tgt = unwrap(n["inner"][0])
        if k == "CXXOperatorCallExpr" and callee_name(n)[0] in ("operator=", "operator+=", "operator++", "operator--") and \
                not (callee_name(n)[0] == "operator++" and len(n["inner"]) == 3):      # `*it++`: the walk, see cell_key
            fail(n, "assignment to an object of class type inside a translated piece")
        if tgt is not None and k == "UnaryOperator" and nt.is_ptr_type(n):
            tgt = None          # `*p++`: the walk of the pointer (noted by cell_var); any other use fails when it is translated
        if tgt is not None:
            key = self.cell_key(tgt) if tgt.get("kind") != "DeclRefExpr" else None
            if key:
                if ("c", key) not in acc:
                    acc.append(("c", key))
            elif tgt.get("kind") == "DeclRefExpr":
                i = tgt["referencedDecl"].get("id")
                if i in self.sym:
                    fail(n, "assignment to the loop variable `%s`" % self.sym[i])
                if i not in skip and ("v", i) not in acc:
                    if nt.is_ptr_type(tgt):
                        fail(n, "assignment to a pointer inside a translated piece")
                    acc.append(("v", i))
            else:
                fail(n, "assignment target")
        for c in n.get("inner", []):
            if isinstance(c, dict):
                self.scan_assigned(c, acc, skip)
        return acc

    def tvar(self, tg, at):
        if tg[0] == "c":
            return self.cellv.get(tg[1])
        if tg[1] not in self.env:
            if tg[1] in self.inner:
                self.adopt({"id": tg[1]}, at)
            else:
                fail(at, "assignment to a variable that is not local")
        return self.env[tg[1]]

    def tuple_of(self, names):
        return names[0] if len(names) == 1 else "(" + ", ".join(names) + ")"

    def fresh_state(self):
        """name of a tuple-valued temporary.  Tuples are taken apart with projections, never with a pattern-matching `let`:
        the kernel must not have to evaluate a loop / conditional to reduce a `match` on its result"""
        self.nstate = getattr(self, "nstate", 0) + 1
        nm = "st%d" % self.nstate
        if nm in self.names:
            raise Unsupported("%s: name %s clashes" % (self.lean_name, nm))
        self.names[nm] = "state"
        return nm

    def unpack(self, st, names, pad):
        n = len(names)
        out = []
        for i, nm in enumerate(names):
            proj = ".2" * i + (".1" if i < n - 1 else "")
            out.append("%slet %s := %s%s" % (pad, nm, st, proj))
        return out

    def body_list(self, n):
        n = unwrap(n)
        if n.get("kind") == "CompoundStmt":
            self.count(n)
            return n.get("inner", [])
        return [n]

    def stmts(self, lst, ind, final=None):
        out = []
        for s in lst:
            out += self.stmt(s, ind)
        if final is not None:
            out.append("%s%s" % ("  " * ind, final))
        return out

    def assign_lines(self, s, lhs, ind, rhs_fn):
        """`lhs = value` where lhs is a scalar variable or a cell; rhs_fn(current Val or None) -> Val in the type of lhs"""
        pad = "  " * ind
        lhs = unwrap(lhs)
        key = self.cell_key(lhs) if lhs.get("kind") != "DeclRefExpr" else None
        if key:
            self.count(lhs)
            cur = lambda: self.cell_read(lhs, key)
            tv = self.cell_var(lhs, key)
        else:
            tv = self.target(lhs)
            cur = lambda: (Val(tv.name, tv.t, atom=True) if tv.init else fail(s, "read of the uninitialised variable %s" % tv.name))
        v = rhs_fn(cur, tv.t)
        if v.t != tv.t:
            fail(s, "type of the assigned value (%s to %s)" % (nt.tyname(v.t), nt.tyname(tv.t)))
        if key:
            self.cell_write(lhs, key)
        tv.init = True
        self.note(s)
        return ["%s-- %s" % (pad, self.src(s)), "%slet %s := %s" % (pad, tv.name, v.s)]

    def stmt(self, s, ind):
        s = unwrap(s)
        k = s.get("kind")
        pad = "  " * ind
        self.count(s)
        if k == "NullStmt":
            return []
        if k == "CompoundStmt":
            self.open_scope()
            r = self.stmts(s.get("inner", []), ind)
            self.close_scope()
            return r
        if k == "DeclStmt":
            out = []
            for d in s["inner"]:
                self.count(d)
                dk = d.get("kind")
                if dk in ("TypeAliasDecl", "TypedefDecl", "StaticAssertDecl"):
                    continue
                if dk != "VarDecl" or d.get("storageClass"):
                    fail(d, "declaration")
                e = [c for c in d.get("inner", []) if "kind" in c]
                if d.get("init") != "c" or len(e) != 1:
                    fail(d, "declaration without a plain `= value` initialiser")
                v = self.expr(e[0])
                nm = d.get("name")
                if self.names.get(nm) in ("param", "cell"):
                    # `auto const p = get_modulus(cm);`: the variable IS the parameter of the same name
                    if v.s != nm or self.names.get(nm) != "param":
                        fail(d, "C++ variable %r declared while a parameter / cell of the piece has that name" % nm)
                    del self.names[nm]
                var = self.declare(d, True)
                if v.t != var.t:
                    fail(d, "initialiser type")
                if var.is_const:
                    var.const = v.const
                out += ["%s-- %s" % (pad, self.src(s)), "%slet %s := %s" % (pad, var.name, v.s)]
            self.note(s)
            return out
        if k == "BinaryOperator" and s.get("opcode") == ",":
            return self.stmt(s["inner"][0], ind) + self.stmt(s["inner"][1], ind)
        if k == "BinaryOperator" and s.get("opcode") == "=":
            if nt.is_ptr_type(s):
                fail(s, "assignment to a pointer inside a translated piece")
            return self.assign_lines(s, s["inner"][0], ind, lambda cur, t: self.expr(s["inner"][1]))
        if k == "CompoundAssignOperator":
            op = s.get("opcode", "")[:-1]
            if op not in ("+", "-", "*", "/", "%", ">>", "<<", "&", "|", "^"):
                fail(s, "compound assignment %r" % s.get("opcode"))
            lt = g.ctype_of_str(s.get("computeLHSType", {}).get("desugaredQualType", s.get("computeLHSType", {}).get("qualType", "")))
            rt = g.ctype_of_str(s.get("computeResultType", {}).get("desugaredQualType", s.get("computeResultType", {}).get("qualType", "")))
            if not lt or not rt or lt != rt:
                fail(s, "computation types of the compound assignment")

            def rhs(cur, t):
                a = self.convert(cur(), lt, s)
                b = self.expr(s["inner"][1])
                if op in ("<<", ">>") and b.t != lt:
                    pass                       # the count keeps its own (promoted) type
                return self.convert(self.binop(s, op, a, b, rt), t, s)
            return self.assign_lines(s, s["inner"][0], ind, rhs)
        if k == "UnaryOperator" and s.get("opcode") in ("++", "--"):
            def rhs(cur, t):
                a = cur()
                if t[0] == "U" and t[1] >= 32:
                    return Val("CSem.%s %d %s 1" % ("addU" if s["opcode"] == "++" else "subU", t[1], a.p()), t)
                fail(s, "%s on a value of type %s" % (s["opcode"], nt.tyname(t)))
            return self.assign_lines(s, s["inner"][0], ind, rhs)
        if k == "IfStmt":
            return self.if_stmt(s, ind)
        if k == "ForStmt":
            return self.for_stmt(s, ind)
        if k == "CXXForRangeStmt":
            return self.range_for(s, ind)
        fail(s, "statement that is not translated")

    def if_stmt(self, s, ind):
        pad = "  " * ind
        parts = s["inner"]
        if s.get("hasInit") or s.get("hasVar") or s.get("isConstexpr") or len(parts) not in (2, 3):
            fail(s, "if statement shape")
        c = self.expr(parts[0])
        if c.t[0] != "B":
            fail(parts[0], "condition type")
        skip = set()
        for b in parts[1:]:
            self.local_decl_ids(b, skip)
        per = [self.scan_assigned(b, [], skip) for b in parts[1:]]
        tgs = []
        for l in per:
            for t in l:
                if t not in tgs:
                    tgs.append(t)
        if not tgs:
            fail(s, "if statement assigning nothing")
        # a cell that one path leaves untouched keeps its old content: that content is an input
        for t in tgs:
            if t[0] == "c" and (len(per) == 1 or any(t not in l for l in per)):
                node = self.find_cell_node(s, t[1])
                self.cell_read(node, t[1])
        tvs = []
        for t in tgs:
            if t[0] == "c" and t[1] not in self.cellv:
                self.cell_var(self.find_cell_node(s, t[1]), t[1])
            tvs.append(self.tvar(t, s))
        names = [v.name for v in tvs]
        before = [v.init for v in tvs]
        self.note(s, "if (%s)" % "condition")
        st = names[0] if len(names) == 1 else self.fresh_state()
        out = ["%s-- %s" % (pad, self.src(s)), "%slet %s :=" % (pad, st), "%s  if %s then" % (pad, c.s)]
        after = []
        for bi in range(2):
            for v, b0 in zip(tvs, before):
                v.init = b0
            if bi == 1:
                out.append("%s  else" % pad)
            if bi < len(parts) - 1:
                self.open_scope()
                out += self.stmts(self.body_list(parts[1 + bi]), ind + 2)
                self.close_scope()
            for v in tvs:
                if not v.init:
                    fail(s, "variable %s may be unassigned after one branch of the if" % v.name)
            out.append("%s    %s" % (pad, self.tuple_of(names)))
            after.append([v.init for v in tvs])
        for v in tvs:
            v.init = True
            if isinstance(v, Var):
                v.const = None
        if len(names) > 1:
            out += self.unpack(st, names, pad)
        return out

    def find_cell_node(self, n, key):
        if n.get("kind") in ("ArraySubscriptExpr", "UnaryOperator", "CXXOperatorCallExpr"):
            try:
                if self.cell_key(n) == key:
                    return n
            except Unsupported:
                pass
        for c in n.get("inner", []):
            if isinstance(c, dict):
                r = self.find_cell_node(c, key)
                if r is not None:
                    return r
        return None

    def header_text(self, s):
        return "%s:%s  %s" % (self.tr.short(s.get("_file")), s.get("_line"), self.tr.source_line(s.get("_file"), s.get("_line")))

    def transparent(self, s, loopvars, body, ind):
        """a loop whose iterations are independent slices: only its body is translated, for one symbolic iteration"""
        for d in loopvars:
            if d.get("name") in self.names:
                fail(d, "loop variable name %r clashes" % d.get("name"))
            self.sym[d["id"]] = d["name"]
        names = [d["name"] for d in loopvars]
        self.structure.append("%s: loop header not translated (one iteration is): %s" % (self.lean_name, self.header_text(s)))
        skip = self.local_decl_ids(body, set())
        for t in self.scan_assigned(body, [], skip):
            if t[0] == "v":
                fail(s, "the loop over `%s` assigns the variable %s declared outside it (loop-carried state is not translated)" % (
                    ", ".join(names), (self.inner.get(t[1]) or {}).get("name")))
        self.loop_stack += [n for n in names if n != "offset"]
        self.open_scope()
        out = self.stmts(self.body_list(body), ind)
        self.close_scope()
        for n in names:
            if n != "offset":
                self.loop_stack.remove(n)
        for d in loopvars:
            del self.sym[d["id"]]
        return out

    def for_stmt(self, s, ind):
        init, var, cond, inc, body = [x if x.get("kind") else None for x in s["inner"]]
        if var:
            fail(s, "for statement with a condition variable")
        decls = [d for d in init.get("inner", []) if d.get("kind") == "VarDecl"] if init and init.get("kind") == "DeclStmt" else []
        if decls and all(d.get("name") in SYMBOLIC for d in decls) and cond and inc:
            return self.transparent(s, decls, body, ind)
        return self.real_loop(s, ind)

    def range_for(self, s, ind):
        inner = s["inner"]
        if len(inner) != 8 or inner[0].get("kind"):
            fail(s, "range-for shape")
        lv = [d for d in inner[6].get("inner", []) if d.get("kind") == "VarDecl"]
        rng = [d for d in inner[1].get("inner", []) if d.get("kind") == "VarDecl"]
        if len(lv) != 1 or len(rng) != 1 or not nt.is_ptr_type(rng[0]) and "&" not in rng[0]["type"]["qualType"]:
            fail(s, "range-for shape")
        src = [c for c in rng[0].get("inner", []) if "kind" in c]
        if len(src) != 1 or src[0].get("kind") != "DeclRefExpr" or src[0]["referencedDecl"].get("name") != "hitted":
            fail(s, "range-for over something that is not `hitted`")
        return self.transparent(s, lv, inner[7], ind)

    def real_loop(self, s, ind):
        pad = "  " * ind
        init, var, cond, inc, body = [x if x.get("kind") else None for x in s["inner"]]
        out = []
        self.open_scope()
        if init:
            out += self.stmt(init, ind)
        if not cond or not inc:
            fail(s, "loop without condition or increment")
        skip = self.local_decl_ids(body, set())
        tgs = self.scan_assigned(body, [], skip)
        self.scan_assigned(inc, tgs, skip)
        if any(t[0] == "c" for t in tgs) or not tgs:
            fail(s, "loop state")
        tvs = [self.tvar(t, s) for t in tgs]
        for v in tvs:
            if not v.init or v.t[0] != "U":
                fail(s, "loop state variable %s" % v.name)
            v.const = None
        # termination bound: for (...; v != 0; v >>= c), v not assigned in the body
        fuel = None
        cn = unwrap(cond)
        if cn.get("kind") == "BinaryOperator" and cn.get("opcode") == "!=" and nt.literal_value(cn["inner"][1]) == 0:
            r = strip_casts(cn["inner"][0], ("LValueToRValue",))
            i0 = r.get("referencedDecl", {}).get("id") if r.get("kind") == "DeclRefExpr" else None
            ic = unwrap(inc)
            if i0 in self.env and ic.get("kind") == "CompoundAssignOperator" and ic.get("opcode") == ">>=" and \
                    unwrap(ic["inner"][0]).get("referencedDecl", {}).get("id") == i0 and (nt.literal_value(ic["inner"][1]) or 0) >= 1 and \
                    ("v", i0) not in self.scan_assigned(body, [], skip):
                fuel = self.env[i0].t[1] + 1
                why = "`%s` (%d bits) is shifted right by >= 1 per iteration and the loop stops at 0: at most %d iterations" % (
                    self.env[i0].name, self.env[i0].t[1], self.env[i0].t[1])
        if fuel is None:
            fail(s, "loop for which no iteration bound is known (only `for (...; v != 0; v >>= c)` is translated)")
        names = [v.name for v in tvs]
        st = names[0] if len(names) == 1 else self.fresh_state()
        tup = self.tuple_of(names)
        ty = " × ".join(["Nat"] * len(names))
        c = self.expr(cond)
        if c.t[0] != "B":
            fail(cond, "condition type")
        self.note(s, "loop")
        out.append("%s-- %s" % (pad, self.src(s)))
        out.append("%s--   fuel %d: %s" % (pad, fuel, why))
        if len(names) == 1:
            out.append("%slet %s := CSem.whileFuel (fun %s => %s) (fun %s =>" % (pad, st, st, c.s, st))
        else:
            cl = " ".join(l.strip().replace("let ", "let ", 1) + ";" for l in self.unpack(st, names, ""))
            out.append("%slet %s := CSem.whileFuel (fun (%s : %s) => %s %s) (fun %s =>" % (pad, st, st, ty, cl, c.s, st))
            out += self.unpack(st, names, pad + "    ")
        self.open_scope()
        out += self.stmts(self.body_list(body), ind + 2)
        self.close_scope()
        out += self.stmt(inc, ind + 2)
        out.append("%s    %s) %d %s" % (pad, tup, fuel, tup))
        if len(names) > 1:
            out += self.unpack(st, names, pad)
        # the loop's own variables go out of scope, the others keep their names
        self.close_scope()
        return out

    # ---------- whole piece
    def run(self, lst, result, drop_break=False):
        """result: ("var", name) | ("cell", base) | ("cond", expr node)"""
        lst = list(lst)
        if drop_break:
            if not lst or unwrap(lst[-1]).get("kind") != "BreakStmt":
                fail(lst[-1] if lst else self.method, "expected a trailing `break;`")
            self.structure.append("%s: `break;` (loop exit) not translated: %s" % (self.lean_name, self.header_text(lst[-1])))
            lst = lst[:-1]
        body = self.stmts(lst, 1)
        if result[0] == "cond":
            v = self.expr(result[1])
            if v.t[0] != "B":
                fail(result[1], "condition type")
            self.lines_done.append((result[1].get("_line"), self.tr.source_line(result[1].get("_file"), result[1].get("_line")), "condition"))
            body.append("  -- %s   (the condition)" % self.src(result[1]))
            body.append("  " + v.s)
            self.result_t = ("B", 1)
            self.result_doc = "the value of the condition"
        elif result[0] == "var":
            vs = [v for v in self.env.values() if v.name == result[1]]
            if len(vs) != 1 or not vs[0].init:
                raise Unsupported("%s: the piece does not define the variable %s" % (self.lean_name, result[1]))
            body.append("  " + vs[0].name)
            self.result_t = vs[0].t
            self.result_doc = "the final value of `%s`" % result[1]
        else:
            ws = [(k, v) for k, v in self.cellv.items() if self.cellinfo[k]["written"]]
            if len(ws) != 1 or ws[0][0][0] != result[1]:
                raise Unsupported("%s: the piece writes the cells %s, expected exactly one cell of `%s`" % (
                    self.lean_name, [self.cellinfo[k]["lvalue"] for k, _ in ws], result[1]))
            body.append("  " + ws[0][1].name)
            self.result_t = ws[0][1].t
            self.result_doc = "the value stored in `%s`" % self.cellinfo[ws[0][0]]["lvalue"]
        for k, info in self.cellinfo.items():
            if info["written"] and k != (ws[0][0] if result[0] == "cell" else None):
                raise Unsupported("%s: the piece also writes %s" % (self.lean_name, info["lvalue"]))
        self.body_lines = body
        return self

    def ordered_params(self):
        pr = lambda nm: PRIORITY.index(nm) if nm in PRIORITY else len(PRIORITY)
        return sorted(self.pp, key=lambda x: (pr(x[0]), [p for p, _ in self.pp].index(x[0])))

    def render(self):
        ps = self.ordered_params()
        lt = lambda t: "Nat → Nat" if t == "F" else ("Bool" if t[0] == "B" else "Nat")
        sig = " ".join("(%s : %s)" % (n, lt(t)) for n, t in ps)
        tn = lambda t: "double -> double, see header" if t == "F" else nt.tyname(t)
        cells = ["`%s` = %s" % (i["name"], i["lvalue"]) for i in self.cellinfo.values()]
        doc = ["/-- %s." % self.where,
               "C types: %s; result (%s): %s.%s -/" % (", ".join("%s : %s" % (n, tn(t)) for n, t in ps) or "no parameter", nt.tyname(self.result_t),
                                                      self.result_doc, ("  Cells: " + ", ".join(cells) + ".") if cells else "")]
        return "\n".join(doc + ["def %s %s%s: %s :=" % (self.lean_name, sig, " " if sig else "", lt(self.result_t))] + self.body_lines)


# ------------------------------------------------------------------------------------------------ finding the code
KINDS = [("uniform", r"^void \(const nfl::uniform &\)$"), ("non_uniform", r"^void \(const nfl::non_uniform &\)$"),
         ("gaussian", r"^void \(const gaussian<"), ("ZO_dist", r"^void \(const nfl::ZO_dist &\)$"),
         ("hwt_dist", r"^void \(const nfl::hwt_dist &\)$"), ("value", r"^void \(nfl::poly<[^>]*>::value_type, bool\)$"),
         ("range", r"^void \(const [a-z ]+ \*, const [a-z ]+ \*, bool\)$")]


def is_assert(s):
    s = unwrap(s)
    if s.get("kind") != "ConditionalOperator" or s.get("type", {}).get("qualType") != "void":
        return False
    c = s["inner"][2]
    return c.get("kind") == "CallExpr" and callee_name(c)[0] == "__assert_fail"


def is_call(s, names):
    s = unwrap(s)
    return s.get("kind") in ("CallExpr", "CXXMemberCallExpr") and callee_name(s)[0] in names


def is_throw_block(b):
    l = b.get("inner", []) if b.get("kind") == "CompoundStmt" else [b]
    return len(l) == 1 and unwrap(l[0]).get("kind") == "CXXThrowExpr"


class SetTranslator(g.Translator):
    def load(self, txt):
        self.byid = g.annotate(g.parse_objects(txt))
        self.typedefs = {}
        self.float_sites, self.shift_sites = [], []
        self.gm_checked = set()

    def check_get_modulus(self, rd, at):
        """static value_type get_modulus(size_t n) { return params<T>::P[n]; }"""
        if rd.get("id") in self.gm_checked:
            return
        d = self.byid.get(rd.get("id")) or {}
        body = [c for c in d.get("inner", []) if c.get("kind") == "CompoundStmt"]
        prm = [c for c in d.get("inner", []) if c.get("kind") == "ParmVarDecl"]
        ok = len(body) == 1 and len(prm) == 1 and len(body[0].get("inner", [])) == 1 and body[0]["inner"][0].get("kind") == "ReturnStmt"
        if ok:
            e = strip_casts(body[0]["inner"][0]["inner"][0])
            ok = e.get("kind") == "ArraySubscriptExpr"
        if ok:
            b = strip_casts(e["inner"][0], ("ArrayToPointerDecay",))
            i = strip_casts(e["inner"][1])
            dd = self.byid.get(b.get("referencedDecl", {}).get("id")) or {}
            ok = b.get("kind") == "DeclRefExpr" and b["referencedDecl"].get("name") == "P" and (dd.get("_parent") or {}).get("name") == "params" \
                and i.get("kind") == "DeclRefExpr" and i["referencedDecl"].get("id") == prm[0]["id"]
        if not ok:
            fail(at, "get_modulus is not `return params<T>::P[n];`")
        self.gm_checked.add(rd.get("id"))

    def find(self, cname, shape):
        found = {}
        for n in self.byid.values():
            if n.get("kind") != "ClassTemplateSpecializationDecl" or n.get("name") != "poly" or nt.targs(n) != [cname, shape[0], shape[1]]:
                continue
            for m in n.get("inner", []):
                ms = [m]
                if m.get("kind") == "FunctionTemplateDecl" and m.get("name") == "set":
                    ms = [c for c in m.get("inner", []) if c.get("kind") == "CXXMethodDecl"]
                for mm in ms:
                    if mm.get("kind") == "CXXMethodDecl" and mm.get("name") == "set" and nt.has_body(mm):
                        q = mm["type"]["qualType"]
                        for kind, rx in KINDS:
                            if re.match(rx, q):
                                if kind in found and found[kind]["id"] != mm["id"]:
                                    raise Unsupported("two instantiated bodies of poly<%s,%d,%d>::set(%s)" % (cname, shape[0], shape[1], kind))
                                found[kind] = mm
        for kind, _ in KINDS:
            if kind not in found:
                raise Unsupported("no instantiated body of poly<%s,%d,%d>::set(%s) found" % (cname, shape[0], shape[1], kind))
        return found

    # ---------- per function
    def pieces_of(self, found, suf, w):
        cname = self.cname[suf]
        P = []
        report = {}

        def new(name, m, what):
            return Piece(self, name, suf, w, "%s of `nfl::poly<%s, Degree, NbModuli>::set(%s)`  (%s:%s)" % (
                what, cname, self.sig[m["id"]], self.short(m.get("_file")), m.get("_line")), m)

        def top(m):
            return nt.body_of(m).get("inner", [])

        def expect(c, at, why):
            if not c:
                fail(at, why)

        self.sig = {found[k]["id"]: k for k in found}
        # ---- set(uniform)
        m = found["uniform"]
        t = [s for s in top(m) if not is_assert(s)]
        expect(len(t) == 2 and is_call(t[0], ("fastrandombytes",)) and t[1].get("kind") == "ForStmt", m, "shape of set(uniform)")
        fb = self_body = t[1]["inner"][4].get("inner", [])
        expect(len(fb) == 2 and fb[0].get("kind") == "DeclStmt" and fb[1].get("kind") == "ForStmt", t[1], "body of the loop over cm in set(uniform)")
        pc = new("uni_mask", m, "the declaration of `mask`")
        pc.sym = {d["id"]: d["name"] for d in t[1]["inner"][0]["inner"]}
        P.append(pc.run([fb[0]], ("var", "mask")))
        pc = new("uni_body", m, "the body of the loop over i")
        pc.sym = {d["id"]: d["name"] for d in t[1]["inner"][0]["inner"] + fb[1]["inner"][0]["inner"]}
        pc.loop_stack = ["cm", "i"]
        P.append(pc.run(pc.body_list(fb[1]["inner"][4]), ("cell", "_data")))
        # ---- set(non_uniform)
        m = found["non_uniform"]
        t = [s for s in top(m) if not is_assert(s)]
        expect(len(t) == 9 and t[2].get("kind") == "ForStmt" and is_call(t[4], ("fastrandombytes",)) and t[5].get("kind") == "DeclStmt"
               and t[6].get("kind") == "ForStmt" and t[7].get("kind") == "DeclStmt" and t[8].get("kind") == "IfStmt", m, "shape of set(non_uniform)")
        thr = t[2]["inner"][4].get("inner", [])
        expect(len(thr) == 1 and thr[0].get("kind") == "IfStmt" and len(thr[0]["inner"]) == 2 and is_throw_block(thr[0]["inner"][1]), t[2], "the throw loop of set(non_uniform)")
        pc = new("bnd_throw", m, "the condition under which the function throws")
        pc.sym = {d["id"]: d["name"] for d in t[2]["inner"][0]["inner"]}
        P.append(pc.run([], ("cond", thr[0]["inner"][0])))
        pc = new("bnd_mask", m, "`mask_bits = 0`, the bit-length loop and the declaration of `mask`")
        P.append(pc.run(t[5:8], ("var", "mask")))
        pc = new("bnd_is1", m, "the test `amplifier == 1`")
        P.append(pc.run([], ("cond", t[8]["inner"][0])))
        expect(len(t[8]["inner"]) == 3, t[8], "if (amplifier == 1) ... else ...")
        for nm, br, what in (("bnd_amp1", t[8]["inner"][1], "amplifier == 1"), ("bnd_ampg", t[8]["inner"][2], "amplifier != 1")):
            l = br.get("inner", []) if br.get("kind") == "CompoundStmt" else [br]
            expect(len(l) == 1 and l[0].get("kind") == "ForStmt" and [d.get("name") for d in l[0]["inner"][0]["inner"]] == ["i"], br, "loop over i of set(non_uniform)")
            pc = new(nm, m, "the body of the loop over i, branch %s" % what)
            pc.sym = {d["id"]: d["name"] for d in l[0]["inner"][0]["inner"]}
            pc.loop_stack = ["i"]
            pc.structure.append("%s: loop header not translated (one iteration is): %s" % (pc.lean_name, pc.header_text(l[0])))
            P.append(pc.run(pc.body_list(l[0]["inner"][4]), ("cell", "_data")))
        # ---- set(gaussian)
        m = found["gaussian"]
        t = [s for s in top(m) if not is_assert(s)]
        expect(len(t) == 5 and is_call(t[2], ("getNoise",)) and t[3].get("kind") == "IfStmt" and t[4].get("kind") == "ForStmt", m, "shape of set(gaussian)")
        pc = new("gau_amp", m, "`if (amplifier != 1) for (i ...) rnd[i] *= amplifier;` for one i")
        P.append(pc.run([t[3]], ("cell", "rnd")))
        pc = new("gau_store", m, "the store loops, for one (cm, i)")
        P.append(pc.run([t[4]], ("cell", "_data")))
        # ---- set(ZO_dist)
        m = found["ZO_dist"]
        t = top(m)
        expect(len(t) == 4 and is_call(t[1], ("fastrandombytes",)) and t[3].get("kind") == "ForStmt", m, "shape of set(ZO_dist)")
        pc = new("zo_coef", m, "`pm` and the store, for one (cm, i)")
        P.append(pc.run([t[3]], ("cell", "ptr")))
        # ---- set(hwt_dist)
        m = found["hwt_dist"]
        t = [s for s in top(m) if not is_assert(s)]
        expect(len(t) == 11 and t[5].get("kind") == "ForStmt" and is_call(t[6], ("sort",)) and is_call(t[7], ("memset",)) and is_call(t[8], ("fastrandombytes",))
               and t[9].get("kind") == "ForStmt" and is_call(t[10], ("memset",)), m, "shape of set(hwt_dist)")
        kb = t[5]["inner"][4].get("inner", [])
        expect(len(kb) == 4 and kb[1].get("kind") == "DeclStmt" and kb[2].get("kind") == "ForStmt" and not any(x.get("kind") for x in kb[2]["inner"][:4]) and kb[3].get("kind") == "IfStmt",
               t[5], "body of the reservoir loop")
        rb = kb[2]["inner"][4].get("inner", [])
        expect(len(rb) == 3 and rb[0].get("kind") == "IfStmt" and unwrap(rb[1]).get("kind") == "BinaryOperator" and rb[2].get("kind") == "IfStmt"
               and len(rb[2]["inner"]) == 2, kb[2], "body of the rejection loop")
        pc = new("hwt_accept", m, "`reject_sample` and the acceptance test of the rejection loop")
        P.append(pc.run([kb[1]], ("cond", rb[2]["inner"][0])))
        pc = new("hwt_index", m, "the reduction of an accepted word")
        P.append(pc.run(pc.body_list(rb[2]["inner"][1]), ("var", "pos"), drop_break=True))
        pc = new("hwt_res", m, "the reservoir update")
        P.append(pc.run([kb[3]], ("cell", "hitted")))
        sb = t[9]["inner"][4].get("inner", [])
        expect(len(sb) == 3 and sb[0].get("kind") == "DeclStmt" and unwrap(sb[1]).get("kind") == "CXXOperatorCallExpr" and sb[2].get("kind") == "CXXForRangeStmt",
               t[9], "body of the sign loop")
        pc = new("hwt_sign", m, "`pm` and the store of the sign, for one (cm, position)")
        pc.sym = {d["id"]: d["name"] for d in t[9]["inner"][0]["inner"]}
        pc.loop_stack = ["cm"]
        pc.structure.append("%s: loop header not translated (one iteration is): %s" % (pc.lean_name, pc.header_text(t[9])))
        P.append(pc.run([sb[0], sb[2]], ("cell", "_data")))
        # ---- set(value_type, bool)
        m = found["value"]
        t = top(m)
        expect(len(t) == 1 and t[0].get("kind") == "IfStmt", m, "shape of set(value_type, bool)")
        pc = new("set_iszero", m, "the test `v == 0`")
        P.append(pc.run([], ("cond", t[0]["inner"][0])))
        # ---- set(It, It, bool)
        m = found["range"]
        t = [s for s in top(m) if not is_assert(s)]
        expect(len(t) == 5 and t[0].get("kind") == "DeclStmt" and t[1].get("kind") == "IfStmt" and is_throw_block(t[1]["inner"][1]) and t[4].get("kind") == "ForStmt",
               m, "shape of set(It, It, bool)")
        pc = new("set_badsize", m, "the condition under which the function throws")
        P.append(pc.run([], ("cond", t[1]["inner"][0])))
        cb = t[4]["inner"][4].get("inner", [])
        expect(len(cb) == 5 and cb[0].get("kind") == "DeclStmt" and cb[1].get("kind") == "IfStmt" and cb[3].get("kind") == "ForStmt" and cb[4].get("kind") == "ForStmt",
               t[4], "body of the loop over cm of set(It, It, bool)")
        pc = new("set_rewind", m, "the condition under which `viter` is rewound")
        P.append(pc.run([], ("cond", cb[1]["inner"][0])))
        pc = new("set_store", m, "`p` and the body of the copy loop")
        pc.sym = {d["id"]: d["name"] for d in t[4]["inner"][0]["inner"]}
        pc.structure.append("%s: loop headers not translated: %s | %s" % (pc.lean_name, pc.header_text(t[4]), pc.header_text(cb[3])))
        P.append(pc.run([cb[0]] + pc.body_list(cb[3]["inner"][4]), ("cell", "iter")))
        pc = new("set_pad", m, "the body of the padding loop")
        pc.structure.append("%s: loop header not translated: %s" % (pc.lean_name, pc.header_text(cb[4])))
        P.append(pc.run(pc.body_list(cb[4]["inner"][4]), ("cell", "iter")))
        # ---- per-function report: source lines translated / skipped
        for kind, _ in KINDS:
            m = found[kind]
            lines = {}

            def mark(c):
                if c.get("kind") != "CompoundStmt" and c.get("_line"):
                    lines.setdefault(c["_line"], self.source_line(c.get("_file"), c["_line"]))

            def walk(n):
                k = n.get("kind")
                ch = [c for c in n.get("inner", []) if isinstance(c, dict) and c.get("kind")]
                if k == "CompoundStmt":
                    sub = ch
                elif k == "IfStmt":
                    sub = ch[1:]
                elif k in ("ForStmt", "CXXForRangeStmt"):
                    sub = ch[-1:]
                else:
                    return
                for c in sub:
                    mark(c)
                    walk(c)
            walk(nt.body_of(m))
            done = {}
            for pc in P:
                if pc.method is m:
                    for l, txt, what in pc.lines_done:
                        done.setdefault(l, []).append(pc.lean_name)
            report["set(%s)" % kind] = {
                "at": "%s:%s" % (self.short(m.get("_file")), m.get("_line")),
                "translated": ["%s  %s  -> %s" % (l, lines.get(l, self.source_line(m.get("_file"), l)), ",".join(sorted(set(done[l])))) for l in sorted(done)],
                "skipped": ["%s  %s" % (l, lines[l]) for l in sorted(lines) if l not in done]}
        return P, report


def translate_all(repo, txt, shape):
    tr = SetTranslator(repo)
    tr.load(txt)
    out, rep = [], None
    by = {}
    for _, cname, suf in g.TYPES:
        found = tr.find(cname, shape)
        P, r = tr.pieces_of(found, suf, int(suf[1:]))
        rep = rep or r
        for pc in P:
            by[(pc.fname, suf)] = pc
    names = []
    for (f, s) in by:
        if f not in names:
            names.append(f)
    order = [by[(f, suf)] for f in names for _, _, suf in g.TYPES]
    return tr, order, rep


def make_tu():
    os.makedirs(g.BUILD, exist_ok=True)
    tu = os.path.join(g.BUILD, "set_ast_tu.cpp")
    lines = ['#include "nfl.hpp"']
    for d, nm in SHAPES:
        for t, _, _ in g.TYPES:
            P = "nfl::poly<%s, %d, %d>" % (t, d, nm)
            lines += ["template void %s::set(nfl::uniform const&);" % P,
                      "template void %s::set(nfl::non_uniform const&);" % P,
                      "template void %s::set<uint8_t, 2>(nfl::gaussian<uint8_t, %s, 2> const&);" % (P, t),
                      "template void %s::set(nfl::ZO_dist const&);" % P,
                      "template void %s::set(nfl::hwt_dist const&);" % P,
                      "template void %s::set(%s, bool);" % (P, t),
                      "template void %s::set<const %s*>(const %s*, const %s*, bool);" % (P, t, t, t)]
    open(tu, "w").write("\n".join(lines) + "\n")
    return tu


def clang_ast(repo, tu):
    import subprocess
    inc = os.path.join(repo, "include")
    cmd = [g.CLANG, "-std=gnu++17", "-fsyntax-only", "-DNFL_OPTIMIZED", "-Wno-instantiation-after-specialization", "-Wno-constant-conversion",
           "-I" + inc, "-I" + os.path.join(inc, "nfl"), "-I" + os.path.join(inc, "nfl", "prng"),
           "-Xclang", "-ast-dump=json", "-Xclang", "-ast-dump-filter=nfl::", tu]
    r = subprocess.run(cmd, capture_output=True, text=True)
    if r.returncode != 0:
        raise SystemExit("gen_set_ast: clang failed (rc=%d):\n%s" % (r.returncode, r.stderr[-3000:]))
    return r.stdout


def main():
    repo = os.environ.get("VERIF_REPO", "/repo")
    out = OUT
    if "--repo" in sys.argv:
        repo = sys.argv[sys.argv.index("--repo") + 1]
    if "--out" in sys.argv:
        out = sys.argv[sys.argv.index("--out") + 1]
    repo = os.path.abspath(repo)
    txt = clang_ast(repo, make_tu())
    if "--keep" in sys.argv:
        open(os.path.join(g.BUILD, "set_ast_dump.json"), "w").write(txt)
    try:
        texts = {}
        for sh in SHAPES:
            tr_d, fns_d, rep_d = translate_all(repo, txt, sh)
            texts[sh] = "\n\n".join(f.render() for f in fns_d)
            if sh == SHAPES[0]:
                tr, fns, rep = tr_d, fns_d, rep_d
        for sh in SHAPES[1:]:
            if texts[sh] != texts[SHAPES[0]]:
                raise Unsupported("the translated pieces of poly<T,%d,%d> differ from those of poly<T,%d,%d> (the pieces were assumed not to "
                                  "depend on Degree / NbModuli)" % (sh + SHAPES[0]))
    except Unsupported as e:
        msg = "gen_set_ast: UNSUPPORTED C++ construct, nothing translated: %s" % e
        sys.stderr.write(msg + "\n")
        print(json.dumps({"ok": False, "err": msg}))
        sys.exit(3)
    head = [
        "-- GENERATED by tools/gen_set_ast.py from clang++-14's typed AST of include/nfl/core.hpp: the members set(uniform), set(non_uniform),",
        "-- set(gaussian), set(ZO_dist), set(hwt_dist), set(value_type,bool), set(It,It,bool) of nfl::poly<T,%d,%d>, T = uint16_t / uint32_t / uint64_t" % SHAPES[0],
        "-- (%s give%s the same text: checked on every run), -DNFL_OPTIMIZED, no CHECK_STRICTMOD.  Do not edit." % (
            ", ".join("poly<T,%d,%d>" % s for s in SHAPES[1:]), "s" if len(SHAPES) == 2 else ""),
        "-- Each definition is ONE STRAIGHT-LINE PIECE (one iteration of the loops over i / cm) read as a pure function of the values it reads:",
        "-- `p` = get_modulus(cm) = params<T>::P[cm], variables defined before the piece, memory cells read (`rnd_i` = rnd[i], `data` = _data[...],",
        "-- `ptr_cell` = *ptr++, ...); one `let` per C++ statement, one CSem / CSet helper per typed expression node.",
        "-- `flog2 x` stands for floor(log2((double) x)) (floating point: a parameter with a contract, see Proofs/SetAstEq.lean).",
        "-- NOT translated (hand-modelled in Model/Samplers.lean, Model/Setters.lean): loop headers and which cell each iteration touches, fastrandombytes /",
        "-- getNoise / memset / std::sort / iota / fill / distance, buffer refills, pointer walks (see the summary printed by the generator).",
        "import NflVerif.Model.CSem",
        "import NflVerif.Model.CSemSet",
        "set_option linter.unusedVariables false",
        "namespace Nfl.Gen",
        "open Nfl",
        "",
    ]
    text = "\n".join(head) + "\n" + texts[SHAPES[0]] + "\n\nend Nfl.Gen\n"
    changed = g.write_if_changed(out, text)
    structure = []
    for f in fns:
        if f.suffix == "u16":
            structure += f.structure
    print(json.dumps({
        "ok": True, "pieces": [f.lean_name for f in fns], "nodes": sum(f.nodes for f in fns),
        "node_kinds": dict(sorted(tr.kinds.items())),
        "shapes_compared": ["poly<T,%d,%d>" % s for s in SHAPES],
        "configuration": "-DNFL_OPTIMIZED, no CHECK_STRICTMOD",
        "functions": rep,
        "not_translated_structure": structure,
        "float_contract_sites": [s for s in tr.float_sites if s["piece"].endswith("u16")],
        "ub_wrap_assumed": tr.ub_sites, "ub_div_sites": tr.div_sites, "ub_shift_sites": tr.shift_sites,
        "sha": hashlib.sha256(text.encode()).hexdigest()[:16], "changed": changed,
        "out": os.path.relpath(out, g.VERIF), "repo": repo}))


if __name__ == "__main__":
    main()
