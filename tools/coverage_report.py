#!/usr/bin/env python3
"""coverage_report.py <build dir of a VERIF_COVERAGE=1 run> [--repo /repo] [--out file.json]

Which lines of NFLlib do the correspondence harnesses execute at all?  The differential tie between the
hand-written Lean models and the C++ can only speak about code the harnesses run, so this report lists, per
source file of /repo (include/ and lib/), the lines that were compiled into at least one harness
(instrumented) and never executed by any stream — i.e. code that is *modelled or proved about at most on
paper, not tied*.  Produced from gcov's JSON output; used for DESIGN.md §13.5, not by any check.

usage:   VERIF_COVERAGE=1 ./check Cxx   (for every property, in a scratch copy of /verif)
         python3 tools/coverage_report.py <copy>/build --out build/coverage.json
"""
import glob, gzip, json, os, subprocess, sys, tempfile


def main():
    args = sys.argv[1:]
    build = args[0]
    repo = "/repo"
    out = None
    if "--repo" in args:
        repo = args[args.index("--repo") + 1]
    if "--out" in args:
        out = args[args.index("--out") + 1]
    repo = os.path.realpath(repo)
    gcdas = sorted(glob.glob(os.path.join(build, "*.gcda")))
    per_file = {}      # path -> {line: max count}
    per_fn = {}        # path -> {demangled fn: (start_line, executed?)}
    with tempfile.TemporaryDirectory() as td:
        for g in gcdas:
            r = subprocess.run(["gcov", "-j", "-t", "-m", g], cwd=td, capture_output=True)
            # -t: JSON to stdout (one document per input)
            txt = r.stdout.decode("utf-8", "replace")
            for doc in txt.splitlines():
                doc = doc.strip()
                if not doc.startswith("{"):
                    continue
                try:
                    j = json.loads(doc)
                except Exception:
                    continue
                for f in j.get("files", []):
                    path = os.path.realpath(f["file"]) if os.path.isabs(f["file"]) else f["file"]
                    if not path.startswith(repo + "/"):
                        continue
                    rel = path[len(repo) + 1:]
                    d = per_file.setdefault(rel, {})
                    for ln in f.get("lines", []):
                        n = ln["line_number"]
                        d[n] = max(d.get(n, 0), ln["count"])
                    fd = per_fn.setdefault(rel, {})
                    for fn in f.get("functions", []):
                        name = fn.get("demangled_name") or fn["name"]
                        prev = fd.get(name, (fn["start_line"], 0))
                        fd[name] = (fn["start_line"], max(prev[1], fn["execution_count"]))
    report = {"harness_objects": len(gcdas), "files": {}}
    tot_i = tot_e = 0
    for rel in sorted(per_file):
        d = per_file[rel]
        inst = len(d)
        exe = sum(1 for c in d.values() if c > 0)
        tot_i += inst
        tot_e += exe
        missing = sorted(n for n, c in d.items() if c == 0)
        # compress into ranges
        ranges = []
        for n in missing:
            if ranges and n == ranges[-1][1] + 1:
                ranges[-1][1] = n
            else:
                ranges.append([n, n])
        fns_never = sorted({(s, nm[:160]) for nm, (s, c) in per_fn.get(rel, {}).items() if c == 0})
        report["files"][rel] = {"instrumented_lines": inst, "executed_lines": exe,
                                "never_executed": ["%d-%d" % (a, b) if a != b else str(a) for a, b in ranges],
                                "functions_never_called": ["%d: %s" % x for x in fns_never][:60]}
    report["total_instrumented"] = tot_i
    report["total_executed"] = tot_e
    # source files of the library that no harness compiled at all
    allsrc = []
    for root in ("include", "lib"):
        for dp, _, fs in os.walk(os.path.join(repo, root)):
            for f in fs:
                if f.endswith((".hpp", ".h", ".cpp", ".s")):
                    allsrc.append(os.path.relpath(os.path.join(dp, f), repo))
    report["files_without_any_instrumented_line"] = sorted(set(allsrc) - set(per_file))
    txt = json.dumps(report, indent=1)
    if out:
        open(out, "w").write(txt)
    for rel, r in report["files"].items():
        print("%-52s %5d/%5d  never: %s" % (rel, r["executed_lines"], r["instrumented_lines"], " ".join(r["never_executed"])[:200]))
    print("TOTAL %d/%d executed; files with no instrumented line: %s" % (tot_e, tot_i, report["files_without_any_instrumented_line"]))


if __name__ == "__main__":
    main()
