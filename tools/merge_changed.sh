#!/bin/bash
# merge_changed.sh <agent copy> <base commit>: copy the files the AGENT changed or added relative to <base commit>
# (the commit its copy was taken from). A file changed on both sides is reported as CONFLICT and left alone.
A=$1; BASE=$2
cd $A || exit 1
rsync -a --dry-run --itemize-changes --checksum --exclude /build --exclude .lake --exclude /evidence --exclude /MANIFEST.json --exclude __pycache__ --exclude /lean/NflVerif/Generated --exclude /lean/lake-manifest.json --exclude /DESIGN.md --exclude /seeded ./ /verif/ | grep "^>f" | cut -c13- | while read f; do
  if git -C /verif cat-file -e "$BASE:$f" 2>/dev/null; then
    if git -C /verif show "$BASE:$f" | cmp -s - "$A/$f"; then continue; fi          # agent did not touch it
    if git -C /verif show "$BASE:$f" | cmp -s - "/verif/$f"; then cp "$A/$f" "/verif/$f"; echo "copied $f";
    else echo "CONFLICT (changed on both sides) $f"; fi
  else
    if [ -e "/verif/$f" ]; then echo "CONFLICT (new on both sides) $f"; else mkdir -p "/verif/$(dirname "$f")"; cp "$A/$f" "/verif/$f"; echo "added $f"; fi
  fi
done
