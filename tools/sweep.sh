#!/bin/bash
# all checks on the clean tree at several seeds (false-alarm hunt); leaves evidence from the last seed=1 run
cd "$(dirname "$0")/.."
for s in ${SWEEP_SEEDS:-2 3 1}; do
  for c in $(python3 -c "import json; print(' '.join(x['property_id'] for x in json.load(open('MANIFEST.json'))['checks']))"); do
    out=$(VERIF_SEED=$s ./check $c --tier quick 2>&1 | grep "^check\|^VIOLATION\|^KNOWN" | tr '\n' ' ')
    echo "seed=$s $out"
  done
done
