#!/usr/bin/env python3
"""Translator: clang's typed AST of lib/prng/randombytes.cpp and lib/prng/fastrandombytes.cpp
-> lean/NflVerif/Generated/PrngAst.lean, each function as STEP FUNCTIONS.

Reuses gen_ops_ast.py (AST loading, per-node translation with lean/NflVerif/Model/CSem.lean) and gen_ntt_ast.py
(`short` / `long` conversions); the additional node helpers and the call vocabulary are in
lean/NflVerif/Model/CSemPrng.lean (`CSemX`).  The existing generators and CSem.lean are not modified.

Segment-cutting convention (TRUSTED).  `nfl::randombytes` / `nfl::fastrandombytes` are control flow around external
calls.  Each function is cut
  * at every external call (open / read / sleep / nfl::randombytes / the Salsa20 routine; the constructor of a
    `std::lock_guard<std::mutex>` local = `lock`, the end of the block that declares it = `unlock`),
  * at the head of every loop that contains an external call,
  * after every `if` that contains an external call (join point),
into pieces; every piece is a pure Lean function   state [x value returned by the call] -> state x Next   where the
state is the record of the function's statics, parameters and locals (arrays = lists of cells, pointers = offsets
from their entry value) and `Next` = `.call site args` | `.ret`.  Inside a piece the control flow is followed
symbolically (if/break/continue fork the piece into an if-tree); loops WITHOUT external call must have conditions the
translator can evaluate (constant bounds): they are unrolled, and every condition it evaluated is re-checked by the
Lean kernel (`*_unroll_ok : … := by decide`).  A call may only occur as a whole statement or as `v = [casts] f(...)`.
An external call is assumed not to touch the function's locals other than through the pointers it is given.
Also emitted as DATA: for every occurrence of a static variable whether it is read/written, how, and whether it lies
inside the block guarded by the lock_guard (after its declaration).

Unknown node kind / cast / opcode / type / callee / pointer expression => non-zero exit naming it and file:line.
The last line of stdout is a JSON summary.  The output file is rewritten only when its content changes.
Usage: gen_prng_ast.py [--repo DIR] [--out FILE] [--keep]
"""
import copy, hashlib, json, os, re, sys

HERE = os.path.dirname(os.path.abspath(__file__))
sys.path.insert(0, HERE)
import gen_ops_ast as g
import gen_ntt_ast as gn          # registers `short` / `long`, full_range / tyname for them
from gen_ops_ast import Unsupported, Val, Var, fail, ctype

OUT = os.path.join(g.VERIF, "lean", "NflVerif", "Generated", "PrngAst.lean")
g.CANON.update({"unsigned long long": ("U", 64), "unsigned char": ("U", 8)})
full_range, tyname = gn.full_range, gn.tyname

CALLEES = {   # C++ callee -> (CSemX.Callee constructor, type of the declaration as clang prints it)
    "open": ("open", "int (const char *, int, ...)"),
    "read": ("read", "ssize_t (int, void *, size_t)"),
    "sleep": ("sleep", "unsigned int (unsigned int)"),
    "randombytes": ("randombytes", "void (unsigned char *, unsigned long long)"),
    "nfl_crypto_stream_salsa20_amd64_xmm6": ("salsa20", "int (unsigned char *, unsigned long long, const unsigned char *, const unsigned char *)"),
}
MAX_UNROLL = 256


def qual(node):
    t = node.get("type") or {}
    return t.get("desugaredQualType", t.get("qualType", "")).strip()


def unparen(n):
    while n.get("kind") == "ParenExpr":
        n = n["inner"][0]
    return n


def kids(n):
    return [c for c in n.get("inner", []) if isinstance(c, dict)]


class ArrVar:
    def __init__(self, name, elem_t, size):
        self.name, self.elem_t, self.size, self.init = name, elem_t, size, True


class PtrVar:
    def __init__(self, name, esize):
        self.name, self.esize, self.init = name, esize, True


def lit(c, t):
    if t[0] == "B":
        return "true" if c else "false"
    return str(c % 2 ** t[1])


def is_lock_decl(d):
    return d.get("kind") == "VarDecl" and qual(d).startswith("std::lock_guard<")


def has_call(n):
    if not isinstance(n, dict):
        return False
    if n.get("kind") in ("CallExpr", "CXXMemberCallExpr", "CXXOperatorCallExpr") or is_lock_decl(n):
        return True
    return any(has_call(c) for c in n.get("inner", []))


class CFn(g.Fn):
    """one C++ function -> state record, call sites, pieces"""

    def __init__(self, tr, prefix, cap, fdecl):
        g.Fn.__init__(self, tr, prefix, "", None, {})
        self.lean_name = prefix
        self.prefix, self.cap, self.fdecl = prefix, cap, fdecl
        self.seen, self.kinds = set(), {}
        self.state = []            # [(lean name, kind text, decl id, comment)]
        self.base_env = {}
        self.sites = []            # [{"name","callee","node","line","ret_t","kind"}]
        self.site_of = {}          # node id -> site index ; ("end", block id) -> site index
        self.loops, self.ifs = {}, {}     # node id -> ordinal (only those containing calls)
        self.objs = []             # pointer objects (names)
        self.statics = {}          # decl id -> name  (all statics referenced, incl. the mutex)
        self.mutexes = {}
        self.accesses = []
        self.cut_flags = {}        # function name -> frozenset of initialised decl ids on arrival
        self.flags_changed = False
        self.fns = {}              # name -> {"lines","refs","doc","sig"}
        self.pending = []
        self.unroll_checks = []    # (lean text, bool)
        self.ret_param = None
        self.cur = None
        self.body = [c for c in fdecl["inner"] if c.get("kind") == "CompoundStmt"][0]
        self.prepass()

    # ------------------------------------------------------------------ bookkeeping
    def count(self, n):
        if id(n) in self.seen:
            return
        self.seen.add(id(n))
        self.nodes += 1
        self.kinds[n.get("kind")] = self.kinds.get(n.get("kind"), 0) + 1

    def add_state(self, decl, static):
        name = decl.get("name")
        q = qual(decl)
        where = "static" if static else ("parameter" if decl.get("kind") == "ParmVarDecl" else "local")
        m = re.fullmatch(r"(.*)\[(\d+)\]", q)
        if m:
            et = g.ctype_of_str(m.group(1))
            if not et or et[0] != "U":
                fail(decl, "array of element type %r" % m.group(1))
            v = self.declare_name(decl)
            self.env[decl["id"]] = ArrVar(v, et, int(m.group(2)))
            self.state.append((v, "List Nat", decl["id"], "%s %s  (cells: %s)" % (where, q + " " + name, tyname(et))))
            self.objs.append(v)
        elif q.endswith("*"):
            pt = g.ctype_of_str(q[:-1])
            if pt != ("U", 8):
                fail(decl, "pointer to %r (only pointers to unsigned char: element size 1)" % q[:-1].strip())
            v = self.declare_name(decl)
            self.env[decl["id"]] = PtrVar(v, 1)
            self.state.append((v, "Nat", decl["id"], "%s %s: OFFSET from its value on entry" % (where, q + " " + name)))
            self.objs.append(v)
        else:
            var = self.declare(decl, static or decl.get("kind") == "ParmVarDecl")
            self.state.append((var.name, "Nat", decl["id"], "%s %s %s" % (where, q, name)))

    def declare_name(self, decl):
        name = decl.get("name")
        if not name or not re.fullmatch(r"[A-Za-z_][A-Za-z0-9_]*", name):
            fail(decl, "unusable identifier %r" % name)
        lname = name + "_" if name in g.LEAN_KEYWORDS else name
        if lname in self.names and self.names[lname] != decl["id"]:
            fail(decl, "two C++ variables named %r in one function" % name)
        self.names[lname] = decl["id"]
        return lname

    def prepass(self):
        """state variables, call sites (source order), loops / ifs that contain calls, accesses to the statics"""
        locals_, refs = [], []
        self._refs = refs

        def walk(n, guarded_blocks):
            k = n.get("kind")
            if k == "VarDecl":
                if is_lock_decl(n):
                    return self.lock_site(n)
                locals_.append(n)
            if k in ("CXXMemberCallExpr", "CXXOperatorCallExpr", "CXXConstructExpr", "CXXNewExpr", "CXXDeleteExpr", "LambdaExpr"):
                fail(n, "call-like node that is not translated")
            if k == "CallExpr":
                self.call_site(n)
            if k == "DeclRefExpr":
                rd = n.get("referencedDecl", {})
                d = self.tr.byid.get(rd.get("id"))
                if rd.get("kind") == "VarDecl" and d is not None and d.get("storageClass") == "static" and d.get("_parent") is None:
                    refs.append((n, d))
            if k in ("ForStmt", "WhileStmt") and has_call(n):
                self.loops[n["id"]] = ("for_%d" if k == "ForStmt" else "while_%d") % sum(
                    1 for v in self.loops.values() if v.startswith("for_" if k == "ForStmt" else "while_"))
            if k == "IfStmt" and has_call(n):
                self.ifs[n["id"]] = "join_%d" % len(self.ifs)
            for c in kids(n):
                walk(c, guarded_blocks)
            if k == "CompoundStmt":
                for c in kids(n):
                    if c.get("kind") == "DeclStmt" and any(is_lock_decl(d) for d in kids(c)):
                        self.unlock_site(n, [d for d in kids(c) if is_lock_decl(d)][0])

        walk(self.body, [])
        # statics first (in order of first reference), then parameters, then locals
        for n, d in refs:
            if d["id"] in self.statics:
                continue
            q = qual(d)
            if q == "std::mutex":
                self.statics[d["id"]] = self.declare_name(d)
                self.mutexes[d["id"]] = self.statics[d["id"]]
                self.objs.append(self.statics[d["id"]])
                continue
            if d.get("constexpr") or g.is_const(d):
                continue                       # compile-time constants: folded by gen_ops_ast.Translator.global_const
            self.add_state(d, True)
            self.statics[d["id"]] = self.state[-1][0]
        for p in [c for c in self.fdecl["inner"] if c.get("kind") == "ParmVarDecl"]:
            self.add_state(p, False)
        for d in locals_:
            if d.get("storageClass"):
                fail(d, "storage class %r of a local" % d.get("storageClass"))
            self.add_state(d, False)
        self.base_env = self.env
        for n, d in refs:
            if d["id"] in self.statics:
                self.accesses.append(self.classify(n, d))

    def call_site(self, n):
        callee = n["inner"][0]
        if not (callee.get("kind") == "ImplicitCastExpr" and callee.get("castKind") == "FunctionToPointerDecay"
                and callee["inner"][0].get("kind") == "DeclRefExpr"):
            fail(n, "callee expression")
        rd = callee["inner"][0].get("referencedDecl", {})
        name = rd.get("name")
        if name not in CALLEES:
            fail(n, "call of the unknown function %r" % name)
        cal, sig = CALLEES[name]
        got = callee["inner"][0]["type"]["qualType"]
        if got != sig:
            fail(n, "declaration of %s is %r, expected %r" % (name, got, sig))
        self.new_site(cal, n, n["id"], None if qual(n) == "void" else ctype(n))

    def lock_site(self, d):
        ce = [c for c in kids(d) if c.get("kind") == "CXXConstructExpr"]
        if d.get("init") != "call" or len(ce) != 1 or len(kids(ce[0])) != 1 or kids(ce[0])[0].get("kind") != "DeclRefExpr" \
                or qual(kids(ce[0])[0]) != "std::mutex" or qual(d) != "std::lock_guard<std::mutex>":
            fail(d, "lock_guard that is not `std::lock_guard<std::mutex> l(<static mutex>)`")
        self.new_site("lock", d, d["id"], None)
        # the DeclRefExpr of the mutex is visited by the caller's walk? no: walk returns here, so record it now
        ref = kids(ce[0])[0]
        m = self.tr.byid.get(ref.get("referencedDecl", {}).get("id"))
        if m is None or m.get("storageClass") != "static":
            fail(ref, "mutex that is not a static variable")
        self._refs.append((ref, m))

    def unlock_site(self, block, d):
        lock = self.sites[self.site_of[d["id"]]]
        self.new_site("unlock", block, ("end", block["id"]), None, line=None, partner=lock)

    def new_site(self, cal, node, key, ret_t, line=None, partner=None):
        idx = sum(1 for s in self.sites if s["callee"] == cal)
        self.site_of[key] = len(self.sites)
        self.sites.append({"name": "%s_%d" % (cal, idx), "callee": cal, "node": node, "ret_t": ret_t, "partner": partner,
                           "line": node.get("_line"), "takes_ret": False, "reached": False})

    # ------------------------------------------------------------------ accesses to statics
    def classify(self, ref, d):
        name = self.statics[d["id"]]

        def up(n):
            p = n.get("_parent")
            while p is not None and p.get("kind") == "ParenExpr":
                n, p = p, p.get("_parent")
            return n, p

        def lvalue_use(n):
            n, p = up(n)
            pk = p.get("kind") if p else None
            if pk == "ImplicitCastExpr" and p.get("castKind") == "LValueToRValue":
                return (True, False, "direct")
            if pk == "BinaryOperator" and p.get("opcode") == "=" and p["inner"][0] is n:
                return (False, True, "direct")
            if pk == "CompoundAssignOperator" and p["inner"][0] is n:
                return (True, True, "direct")
            if pk == "UnaryOperator" and p.get("opcode") in ("++", "--"):
                return (True, True, "direct")
            return None

        r = lvalue_use(ref)
        if r is None:
            n, p = up(ref)
            if p is not None and p.get("kind") == "ImplicitCastExpr" and p.get("castKind") == "ArrayToPointerDecay":
                n2, q = up(p)
                if q is not None and q.get("kind") == "ArraySubscriptExpr" and q["inner"][0] is n2:
                    r = lvalue_use(q)
                else:
                    top = n2
                    while q is not None and q.get("kind") == "ImplicitCastExpr" and q.get("castKind") in ("NoOp", "BitCast"):
                        top, q = up(q)
                    if q is not None and q.get("kind") == "CallExpr" and q.get("id") in self.site_of:
                        const = qual(top).startswith("const ")
                        r = (True, not const, "passedTo ." + self.sites[self.site_of[q["id"]]]["callee"])
            elif p is not None and p.get("kind") == "CXXConstructExpr" and d["id"] in self.mutexes:
                r = (True, True, "lockGuard")
        if r is None:
            fail(ref, "use of the static variable %r in a context that is not understood" % name)
        return {"var": name, "read": r[0], "write": r[1], "how": r[2], "guarded": self.guarded(ref), "line": ref.get("_line")}

    def guarded(self, n):
        c, p = n, n.get("_parent")
        while p is not None:
            if p.get("kind") == "CompoundStmt":
                for s in kids(p):
                    if s.get("kind") == "DeclStmt" and any(is_lock_decl(d) for d in kids(s)):
                        return True
                    if s is c:
                        break
            c, p = p, p.get("_parent")
        return False

    # ------------------------------------------------------------------ values
    def curval(self, var, at):
        if not var.init:
            fail(at, "read of the uninitialised variable %s" % var.name)
        if var.const is not None:
            return Val(lit(var.const, var.t), var.t, const=var.const, atom=True)
        return Val(var.name, var.t, atom=True)

    def cell(self, n):
        base, idx = n["inner"]
        if not (base.get("kind") == "ImplicitCastExpr" and base.get("castKind") == "ArrayToPointerDecay"):
            fail(base, "subscript of something that is not an array variable (pointer arithmetic is not translated)")
        self.count(base)
        ref = unparen(base["inner"][0])
        arr = self.env.get(ref.get("referencedDecl", {}).get("id")) if ref.get("kind") == "DeclRefExpr" else None
        if not isinstance(arr, ArrVar):
            fail(ref, "subscript of something that is not an array variable")
        self.count(ref)
        i = self.expr(idx)
        if i.t[0] not in "US" or i.const is None:
            fail(idx, "array index that is not a compile-time constant (after unrolling)")
        if not (0 <= i.const < arr.size):
            fail(idx, "array index %d outside %s[%d]" % (i.const, arr.name, arr.size))
        if ctype(n) != arr.elem_t:
            fail(n, "type of the array cell")
        return arr, i.const

    def load(self, n):
        n = self.strip_paren(n)
        k = n.get("kind")
        if k == "ArraySubscriptExpr":
            self.count(n)
            arr, i = self.cell(n)
            return Val("CSemX.arrGet %s %d" % (arr.name, i), arr.elem_t)
        if k == "DeclRefExpr" and n.get("referencedDecl", {}).get("id") in self.env:
            v = self.env[n["referencedDecl"]["id"]]
            if not isinstance(v, Var):
                fail(n, "use of the %s %s as a value (pointer arithmetic is not translated)" % (
                    "array" if isinstance(v, ArrVar) else "pointer", v.name))
            val = g.Fn.load(self, n)
            return self.curval(v, n) if v.const is not None else val
        return g.Fn.load(self, n)

    def convert(self, v, to, n):
        if v.t != to:
            self.tr.convs.add("%s -> %s" % (tyname(v.t), tyname(to)))
        if v.t != to and v.t[0] == "S" and v.t[1] != 32 and to[0] == "U":
            c = None if v.const is None else v.const % 2 ** to[1]
            return Val("CSemX.castSwU %d %d %s" % (v.t[1], to[1], v.p()), to, None, c)
        r = gn.Block.convert(self, v, to, n)
        if r is not v and r.const is None and v.const is not None and to[0] == "S":
            lo, hi = full_range(to)
            if lo <= v.const <= hi:
                r.const, r.rng = v.const, (v.const, v.const)
        return r

    def expr(self, n):
        k = n.get("kind")
        if k == "UnaryOperator":
            self.count(n)
            op, t = n.get("opcode"), ctype(n)
            if op == "-":
                v = self.expr(n["inner"][0])
                if v.t != t or t != ("S", 32):
                    fail(n, "unary minus in type %s" % tyname(t))
                lo, hi = -v.rng[1], -v.rng[0]
                if hi > g.INT_MAX:
                    self.tr.ub_sites.append({"functor": self.prefix, "file": self.tr.short(n.get("_file")), "line": n.get("_line"), "op": "int unary -"})
                    return Val("CSemX.negS32 %s" % v.p(), t)
                return Val("CSemX.negS32 %s" % v.p(), t, (lo, hi), None if v.const is None else -v.const)
            if op == "!":
                v = self.expr(n["inner"][0])
                if v.t[0] != "B" or t[0] != "B":
                    fail(n, "operand of !")
                return Val("CSemX.notB %s" % v.p(), t, const=None if v.const is None else (not v.const))
            fail(n, "unary operator %r inside an expression" % op)
        if k == "ImplicitCastExpr" and n.get("castKind") == "IntegralToBoolean":
            self.count(n)
            v = self.expr(n["inner"][0])
            if ctype(n)[0] != "B" or v.t[0] not in "US" or (v.t[0] == "S" and v.t[1] != 32):
                fail(n, "conversion to bool from %s" % tyname(v.t))
            return Val("CSemX.%s %s" % ("toBoolS32" if v.t[0] == "S" else "toBoolU", v.p()), ("B", 1),
                       const=None if v.const is None else (v.const != 0))
        if k == "CallExpr":
            fail(n, "call in a position that is neither a whole statement nor the right-hand side of an assignment")
        return g.Fn.expr(self, n)

    BITOPS = {"^": "xorU", "&": "andU", "|": "orU"}

    def binop(self, n, op, a, b, t):
        if op in self.BITOPS:
            if t[0] != "U" or a.t != t or b.t != t:
                fail(n, "operator %r in type %s (only unsigned)" % (op, tyname(t)))
            v = Val("CSemX.%s %d %s %s" % (self.BITOPS[op], t[1], a.p(), b.p()), t)
        else:
            v = gn.Block.binop(self, n, op, a, b, t)
        if a.const is not None and b.const is not None and v.const is None:
            x, y, c = a.const, b.const, None
            if op in self.CMP:
                c = {">=": x >= y, ">": x > y, "<=": x <= y, "<": x < y, "==": x == y, "!=": x != y}[op]
            elif op in ("+", "-", "*", "^", "&", "|", "<<", ">>") or (op in ("/", "%") and y != 0 and t[0] == "U"):
                c = {"+": x + y, "-": x - y, "*": x * y, "^": x ^ y, "&": x & y, "|": x | y, "<<": x << y, ">>": x >> y,
                     "/": x // y if y else 0, "%": x % y if y else 0}[op]
                if t[0] == "U":
                    c %= 2 ** t[1]
                elif not (full_range(t)[0] <= c <= full_range(t)[1]):
                    c = None
            if c is not None:
                v.const = c
                if t[0] != "B":
                    v.rng = (c, c)
        return v

    # ------------------------------------------------------------------ leaves
    def state_text(self):
        return "{ " + ", ".join("%s := %s" % (nm, nm) for nm, _, _, _ in self.state) + " }"

    def flags(self):
        return frozenset(i for i, v in self.env.items() if v.init)

    def arrive(self, name):
        f = self.flags()
        old = self.cut_flags.get(name)
        new = f if old is None else (old & f)
        if new != old:
            self.cut_flags[name] = new
            self.flags_changed = True

    def goto(self, name, items, doc, pad):
        """leaf: continue in the named piece `name` (loop head / join point), whose code is `items`"""
        self.arrive(name)
        self.cur["refs"].add(name)
        if name not in self.fns and name not in [p[0] for p in self.pending]:
            self.pending.append((name, items, None, doc))
        return ["%s%s_%s %s" % (pad, self.prefix, name, self.state_text())]

    def arg(self, a):
        q = qual(a)
        if q.endswith("*"):
            n = a
            while n.get("kind") == "ImplicitCastExpr" and n.get("castKind") in ("NoOp", "BitCast"):
                self.count(n)
                n = n["inner"][0]
            if n.get("kind") == "ImplicitCastExpr" and n.get("castKind") == "ArrayToPointerDecay":
                self.count(n)
                m = unparen(n["inner"][0])
                self.count(m)
                if m.get("kind") == "StringLiteral":
                    s = m.get("value", "")
                    if not re.fullmatch(r'"[ !#-\[\]-~]*"', s):
                        fail(m, "string literal with characters that are not translated")
                    return ".str %s" % s
                v = self.env.get(m.get("referencedDecl", {}).get("id")) if m.get("kind") == "DeclRefExpr" else None
                if isinstance(v, ArrVar):
                    return ".ptr .%s 0" % v.name
                fail(m, "pointer argument that is not an array variable")
            if n.get("kind") == "ImplicitCastExpr" and n.get("castKind") == "LValueToRValue":
                self.count(n)
                m = unparen(n["inner"][0])
                self.count(m)
                v = self.env.get(m.get("referencedDecl", {}).get("id")) if m.get("kind") == "DeclRefExpr" else None
                if isinstance(v, PtrVar):
                    return ".ptr .%s %s" % (v.name, v.name)
            fail(n, "pointer argument that is not the plain value of a pointer variable, an array or a string literal (pointer arithmetic is not translated)")
        v = self.expr(a)
        if v.t[0] not in "US":
            fail(a, "argument of type %s" % tyname(v.t))
        return ".int %s" % v.p()

    def call_leaf(self, site, args, items, pad, ret_stmt=None):
        """leaf: the external call `site`; the rest of the function (`items`) becomes the piece after_<site>"""
        name = "after_" + site["name"]
        site["reached"] = True
        site["takes_ret"] = ret_stmt is not None
        self.arrive(name)
        if name not in self.fns and name not in [p[0] for p in self.pending]:
            cont = ([("ASSIGN_RET", ret_stmt, site)] if ret_stmt is not None else []) + items
            what = {"lock": "the mutex has been acquired", "unlock": "the mutex has been released"}.get(site["callee"], "`%s` has returned" % site["callee"])
            self.pending.append((name, cont, site if ret_stmt is not None else None,
                                 "resumes after call site `%s` (%s:%s): %s%s" % (
                                     site["name"], self.tr.short(site["node"].get("_file")), site["line"] if site["callee"] != "unlock" else self.end_line(site["node"]), what,
                                     "; `ret` is the value it returned (%s)" % tyname(site["ret_t"]) if ret_stmt is not None else
                                     ("; its value is discarded by the code" if site["ret_t"] else ""))))
        return ["%s(%s, .call .%s [%s])" % (pad, self.state_text(), site["name"], ", ".join(args))]

    def do_call(self, call, items, pad, ret_stmt=None):
        site = self.sites[self.site_of[call["id"]]]
        self.count(call)
        self.count(call["inner"][0])
        self.count(call["inner"][0]["inner"][0])
        args = [self.arg(a) for a in call["inner"][1:]]
        return self.call_leaf(site, args, items, pad, ret_stmt)

    def call_under_casts(self, n):
        while n.get("kind") in ("ParenExpr", "ImplicitCastExpr", "CStyleCastExpr", "CXXStaticCastExpr") and \
                (n.get("kind") == "ParenExpr" or n.get("castKind") in ("IntegralCast", "NoOp")):
            n = n["inner"][0]
        return n if n.get("kind") == "CallExpr" else None

    # ------------------------------------------------------------------ statements
    def assign(self, var, v, s, out, pad):
        if v.t != var.t:
            fail(s, "assignment type")
        if var.is_const:
            fail(s, "assignment to a const object")
        var.init, var.const = True, v.const
        out.append("%s-- %s" % (pad, self.src(s)))
        out.append("%slet %s := %s" % (pad, var.name, v.s))

    def scalar_target(self, n):
        n = self.strip_paren(n)
        v = self.env.get(n.get("referencedDecl", {}).get("id")) if n.get("kind") == "DeclRefExpr" else None
        if v is None:
            fail(n, "assignment target is not a variable of the function")
        self.count(n)
        return v

    def run(self, items, ind):
        out, pad = [], "  " * ind
        while True:
            if not items:
                raise Unsupported("%s: internal: ran out of continuation" % self.prefix)
            it, items = items[0], items[1:]
            tag = it[0]
            if tag == "FNEND":
                return out + ["%s(%s, .ret)" % (pad, self.state_text())]
            if tag == "POP":
                continue
            if tag == "END":
                key = ("end", it[1]["id"])
                if key in self.site_of:
                    site = self.sites[self.site_of[key]]
                    out.append("%s-- %s:%s  end of the block: `%s` is destroyed" % (pad, self.tr.short(it[1].get("_file")), it[2], site["partner"]["node"].get("name")))
                    return out + self.call_leaf(site, [self.lock_arg(site["partner"])], items, pad)
                continue
            if tag == "JOIN":
                return out + self.goto(self.ifs[it[1]["id"]], items, "join point after the `if` at %s:%s" % (self.tr.short(it[1].get("_file")), it[1].get("_line")), pad)
            if tag == "GOTOHEAD":
                loop = it[1]
                if loop["id"] in self.loops:
                    return out + self.goto(self.loops[loop["id"]], [("HEAD", loop, 0)] + items,
                                           "head of the loop at %s:%s (`%s`)" % (self.tr.short(loop.get("_file")), loop.get("_line"), self.tr.source_line(loop.get("_file"), loop.get("_line"))), pad)
                items = [("HEAD", loop, it[2])] + items
                continue
            if tag == "HEAD":
                loop, iters = it[1], it[2]
                cond, body = self.loop_parts(loop)[1], self.loop_parts(loop)[3]
                named = loop["id"] in self.loops
                inside = [("S", body), ("BACK", loop, iters + 1)] + items
                if cond is None:
                    c = None
                    out.append("%s-- %s   (no condition)" % (pad, self.src(loop)))
                else:
                    c = self.expr(cond)
                    if c.t[0] != "B":
                        fail(cond, "condition type")
                if cond is None or c.const is True:
                    if cond is not None:
                        self.unroll_checks.append((c.s, True))
                    if not named and iters >= MAX_UNROLL:
                        fail(loop, "loop without external call not finished after %d iterations" % MAX_UNROLL)
                    if not named and cond is None:
                        fail(loop, "endless loop without external call")
                    items = inside
                    continue
                if c.const is False:
                    self.unroll_checks.append((c.s, False))
                    if not named:
                        out.append("%s-- %s   (unrolled: %d iterations, every evaluation of the condition re-checked in `%s_unroll_ok`)" % (pad, self.src(loop), iters, self.prefix))
                    continue
                if not named:
                    fail(loop, "loop without external call whose condition the translator cannot evaluate (only constant bounds are unrolled)")
                out.append("%s-- %s" % (pad, self.src(loop)))
                out.append("%sif %s then" % (pad, c.s))
                saved = self.fork()
                a = self.run(inside, ind + 1)
                self.env = saved
                b = self.run(items, ind + 1)
                return out + a + ["%selse" % pad] + b
            if tag == "BACK":
                loop = it[1]
                inc = self.loop_parts(loop)[2]
                items = ([("S", inc)] if inc else []) + [("GOTOHEAD", loop, it[2])] + items
                continue
            if tag == "ASSIGN_RET":
                s, site = it[1], it[2]
                self.count(s)
                var = self.scalar_target(s["inner"][0])
                if not isinstance(var, Var):
                    fail(s, "result of a call assigned to a non-scalar")
                chain, n = [], s["inner"][1]
                while n.get("kind") != "CallExpr":
                    chain.append(n)
                    n = n["inner"][0]
                v = Val("ret", site["ret_t"], atom=True)
                if ctype(n) != site["ret_t"]:
                    fail(n, "type of the call")
                for c in reversed(chain):
                    self.count(c)
                    if c.get("kind") != "ParenExpr":
                        v = self.convert(v, ctype(c), c)
                if ctype(s) != var.t:
                    fail(s, "assignment type")
                self.assign(var, v, s, out, pad)
                continue
            assert tag == "S"
            s = it[1]
            k = s.get("kind")
            self.count(s)
            if k == "NullStmt":
                continue
            if k == "CompoundStmt":
                items = [("S", c) for c in kids(s)] + [("END", s, self.end_line(s))] + items
                continue
            if k == "DeclStmt":
                ds = kids(s)
                if any(is_lock_decl(d) for d in ds):
                    if len(ds) != 1:
                        fail(s, "lock_guard declared together with other variables")
                    d = ds[0]
                    self.count(d)
                    for c in kids(d):
                        self.count(c)
                        for c2 in kids(c):
                            self.count(c2)
                    site = self.sites[self.site_of[d["id"]]]
                    out.append("%s-- %s" % (pad, self.src(s)))
                    return out + self.call_leaf(site, [self.lock_arg(site)], items, pad)
                for d in ds:
                    self.count(d)
                    if d.get("kind") in ("TypeAliasDecl", "TypedefDecl", "StaticAssertDecl"):
                        continue
                    if d.get("kind") != "VarDecl":
                        fail(d, "declaration")
                    v = self.env.get(d["id"])
                    if v is None:
                        fail(d, "internal: undeclared local")
                    e = kids(d)
                    if "init" in d:
                        if d["init"] != "c" or len(e) != 1 or not isinstance(v, Var):
                            fail(d, "initialisation style %r" % d["init"])
                        if self.call_under_casts(e[0]):
                            fail(d, "call in an initialiser")
                        self.assign(v, self.expr(e[0]), s, out, pad)
                    else:
                        if e:
                            fail(d, "declaration without init but with children")
                        if isinstance(v, Var):
                            v.init, v.const = False, None
                        out.append("%s-- %s   (declared, no value yet: the state keeps whatever it held)" % (pad, self.src(s)))
                continue
            if k == "CallExpr":
                out.append("%s-- %s" % (pad, self.src(s)))
                return out + self.do_call(s, items, pad)
            if k == "BinaryOperator" and s.get("opcode") == "=":
                lhs = self.strip_paren(s["inner"][0])
                call = self.call_under_casts(s["inner"][1])
                if call is not None:
                    if lhs.get("kind") != "DeclRefExpr":
                        fail(s, "result of a call stored in something that is not a plain variable")
                    out.append("%s-- %s" % (pad, self.src(s)))
                    return out + self.do_call(call, items, pad, ret_stmt=s)
                if lhs.get("kind") == "ArraySubscriptExpr":
                    v = self.expr(s["inner"][1])
                    self.count(lhs)
                    arr, i = self.cell(lhs)
                    if v.t != arr.elem_t or ctype(s) != v.t:
                        fail(s, "type of the stored value")
                    out.append("%s-- %s   [index %d]" % (pad, self.src(s), i))
                    out.append("%slet %s := CSemX.arrSet %s %d %s" % (pad, arr.name, arr.name, i, v.p()))
                    continue
                var = self.scalar_target(lhs)
                if not isinstance(var, Var):
                    fail(s, "assignment to a pointer / array (pointer arithmetic is not translated)")
                v = self.expr(s["inner"][1])
                if ctype(s) != var.t:
                    fail(s, "assignment type")
                self.assign(var, v, s, out, pad)
                continue
            if k == "CompoundAssignOperator":
                var = self.scalar_target(s["inner"][0])
                op = s.get("opcode", "")
                if isinstance(var, PtrVar):
                    if op != "+=":
                        fail(s, "pointer arithmetic %r (only `p += integer` is translated)" % op)
                    b = self.expr(s["inner"][1])
                    if b.t == ("S", 32):
                        r = "CSemX.ptrAddS32 %d %s %s" % (var.esize, var.name, b.p())
                    elif b.t[0] == "U":
                        r = "CSemX.ptrAddU %d %s %s" % (var.esize, var.name, self.convert(b, ("U", 64), s).p())
                    else:
                        fail(s, "pointer += %s" % tyname(b.t))
                    self.tr.ptr_sites.append({"function": self.prefix, "line": s.get("_line"), "source": self.tr.source_line(s.get("_file"), s.get("_line"))})
                    out.append("%s-- %s   (pointer = offset; element size %d)" % (pad, self.src(s), var.esize))
                    out.append("%slet %s := %s" % (pad, var.name, r))
                    continue
                if not isinstance(var, Var):
                    fail(s, "compound assignment to an array")
                if not op.endswith("=") or op[:-1] not in ("+", "-", "*", "/", "%", "^", "&", "|"):
                    fail(s, "compound assignment %r" % op)
                lt = g.ctype_of_str(s.get("computeLHSType", {}).get("qualType", ""))
                rt = g.ctype_of_str(s.get("computeResultType", {}).get("qualType", ""))
                if not lt or not rt or lt != rt:
                    fail(s, "computation types of the compound assignment")
                a = self.convert(self.curval(var, s), lt, s)
                b = self.expr(s["inner"][1])
                r = self.convert(self.binop(s, op[:-1], a, b, rt), var.t, s)
                self.assign(var, r, s, out, pad)
                continue
            if k == "UnaryOperator" and s.get("opcode") in ("++", "--"):
                var = self.scalar_target(s["inner"][0])
                if not isinstance(var, Var) or ctype(s) != var.t or var.t[0] not in "US":
                    fail(s, "%s on something that is not an integer variable" % s.get("opcode"))
                one = Val("1", var.t, const=1, atom=True)
                r = self.binop(s, "+" if s["opcode"] == "++" else "-", self.curval(var, s), one, var.t)
                self.assign(var, r, s, out, pad)
                continue
            if k == "IfStmt":
                parts = s["inner"]
                if s.get("hasInit") or s.get("hasVar") or s.get("isConstexpr") or len(parts) not in (2, 3):
                    fail(s, "if statement shape")
                c = self.expr(parts[0])
                if c.t[0] != "B":
                    fail(parts[0], "condition type")
                after = ([("JOIN", s)] if s["id"] in self.ifs else []) + items
                th = [("S", parts[1])] + after
                el = ([("S", parts[2])] if len(parts) == 3 else []) + after
                out.append("%s-- %s" % (pad, self.src(s)))
                if c.const is not None:
                    self.unroll_checks.append((c.s, c.const))
                    items = th if c.const else el
                    continue
                out.append("%sif %s then" % (pad, c.s))
                saved = self.fork()
                a = self.run(th, ind + 1)
                self.env = saved
                b = self.run(el, ind + 1)
                return out + a + ["%selse" % pad] + b
            if k in ("ForStmt", "WhileStmt"):
                init = self.loop_parts(s)[0]
                items = ([("S", init)] if init else []) + [("GOTOHEAD", s, 0), ("POP", s)] + items
                continue
            if k == "BreakStmt":
                items = self.unwind(s, items, "POP", 1)
                continue
            if k == "ContinueStmt":
                items = self.unwind(s, items, "BACK", 0)
                continue
            if k == "ReturnStmt":
                if kids(s):
                    fail(s, "return with a value")
                items = self.unwind(s, items, "FNEND", 0)
                continue
            fail(s, "unknown statement")

    def lock_arg(self, lock_site):
        ref = kids(kids(lock_site["node"])[0])[0]
        return ".ptr .%s 0" % self.statics[ref["referencedDecl"]["id"]]

    def end_line(self, block):
        e = (block.get("range") or {}).get("end") or {}
        return e.get("line") or e.get("expansionLoc", {}).get("line") or "?"

    def unwind(self, s, items, tag, skip):
        for j, it in enumerate(items):
            if it[0] == "END" and ("end", it[1]["id"]) in self.site_of:
                fail(s, "jump out of the block guarded by a lock_guard")
            if it[0] == tag:
                return items[j + skip:]
        fail(s, "jump without target")

    def loop_parts(self, loop):
        """(init, cond, inc, body)"""
        p = loop["inner"]
        nz = lambda x: x if isinstance(x, dict) and x.get("kind") else None
        if loop["kind"] == "WhileStmt":
            if loop.get("hasVar") or len(p) != 2:
                fail(loop, "while statement shape")
            return None, nz(p[0]), None, p[1]
        if len(p) != 5 or nz(p[1]):
            fail(loop, "for statement shape")
        return nz(p[0]), nz(p[2]), nz(p[3]), p[4]

    def fork(self):
        saved = {k: copy.copy(v) for k, v in self.env.items()}
        return saved

    # ------------------------------------------------------------------ pieces
    def gen_piece(self, name, items, site, doc):
        self.env = {k: copy.copy(v) for k, v in self.base_env.items()}
        fl = self.cut_flags.get(name)
        for i, v in self.env.items():
            if isinstance(v, Var):
                v.const = None
                v.init = True if fl is None else (i in fl)
        self.cur = {"refs": set(), "doc": doc, "ret": site is not None}
        sig = "def %s_%s (s : %sSt)%s : %sSt × %sNext :=" % (self.prefix, name, self.cap, " (ret : Nat)" if site is not None else "", self.cap, self.cap)
        lines = ["  let %s := s.%s" % (nm, nm) for nm, _, _, _ in self.state]
        lines += self.run(items, 1)
        self.cur["lines"] = ["/-- %s -/" % doc, sig] + lines
        self.fns[name] = self.cur

    def translate(self):
        for rnd in range(20):
            self.flags_changed = False
            self.fns, self.pending, self.unroll_checks = {}, [], []
            self.seen, self.nodes, self.kinds = set(), 0, {}
            for s in self.sites:
                s["reached"] = False
            self.count(self.fdecl)
            for p in [c for c in self.fdecl["inner"] if c.get("kind") == "ParmVarDecl"]:
                self.count(p)
            self.cut_flags.setdefault("entry", frozenset(i for i, v in self.base_env.items() if v.init))
            self.pending.append(("entry", [("S", self.body), ("FNEND",)], None,
                                 "entry of `%s` (%s:%s)" % (self.fdecl.get("name"), self.tr.short(self.fdecl.get("_file")), self.fdecl.get("_line"))))
            while self.pending:
                name, items, site, doc = self.pending.pop(0)
                if name not in self.fns:
                    self.gen_piece(name, items, site, doc)
            if not self.flags_changed:
                break
        else:
            raise Unsupported("%s: initialisation flags did not stabilise" % self.prefix)
        for s in self.sites:
            if not s["reached"]:
                fail(s["node"], "call site %s is never reached by the translation" % s["name"])
        # order: callees (heads / joins) before their users
        order, mark = [], {}

        def visit(nm, stack):
            if mark.get(nm) == 2:
                return
            if mark.get(nm) == 1:
                raise Unsupported("%s: pieces %s refer to each other without an external call in between (a loop without call that is not unrolled)" % (self.prefix, " -> ".join(stack + [nm])))
            mark[nm] = 1
            for r in sorted(self.fns[nm]["refs"]):
                visit(r, stack + [nm])
            mark[nm] = 2
            order.append(nm)
        for nm in self.fns:
            visit(nm, [])
        self.order = order
        return self

    def render(self):
        P, C = self.prefix, self.cap
        L = ["/-! ## `nfl::%s`  (%s:%s) -/" % (self.fdecl.get("name"), self.tr.short(self.fdecl.get("_file")), self.fdecl.get("_line")), ""]
        L += ["/-- state of `%s`: its statics, parameters and locals -/" % self.fdecl.get("name"), "structure %sSt where" % C]
        L += ["  %s : %s   -- %s" % (nm, ty, cm) for nm, ty, _, cm in self.state]
        L += ["  deriving DecidableEq, Repr", ""]
        L += ["/-- the objects pointers of `%s` point into -/" % self.fdecl.get("name"), "inductive %sObj" % C]
        L += ["  | %s" % o for o in self.objs] + ["  deriving DecidableEq, Repr", ""]
        L += ["/-- the external call sites of `%s`, in source order -/" % self.fdecl.get("name"), "inductive %sSite" % C]
        for s in self.sites:
            L.append("  | %s   -- %s:%s  %s" % (s["name"], self.tr.short(s["node"].get("_file")),
                                                s["line"] if s["callee"] != "unlock" else self.end_line(s["node"]),
                                                self.tr.source_line(s["node"].get("_file"), s["line"]) if s["callee"] != "unlock" else "}  (end of the block of `%s`)" % s["partner"]["node"].get("name")))
        L += ["  deriving DecidableEq, Repr", "", "abbrev %sNext := CSemX.Next %sSite %sObj" % (C, C, C), ""]
        L += ["/-- which external function a site calls -/", "def %s_callee : %sSite → CSemX.Callee" % (P, C)]
        L += ["  | .%s => .%s" % (s["name"], s["callee"]) for s in self.sites] + [""]
        for nm in self.order:
            L += self.fns[nm]["lines"] + [""]
        L += ["/-- continuation table: the piece that resumes after each site (`ret` = the call's value where the code uses it) -/",
              "def %s_resume : %sSite → %sSt → Nat → %sSt × %sNext" % (P, C, C, C, C)]
        for s in self.sites:
            L.append("  | .%s, s, %s => %s_after_%s s%s" % (s["name"], "ret" if s["takes_ret"] else "_", P, s["name"], " ret" if s["takes_ret"] else ""))
        L.append("")
        vs = list(dict.fromkeys(a["var"] for a in self.accesses))
        if vs:
            L += ["/-- the static variables `%s` touches -/" % self.fdecl.get("name"), "inductive %sVar" % C]
            L += ["  | %s" % v for v in vs] + ["  deriving DecidableEq, Repr", ""]
            L += ["/-- every occurrence of a static variable in the text of `%s` (source order): read / written, how, and whether it" % self.fdecl.get("name"),
                  "lies in the block of a `std::lock_guard` local after its declaration -/",
                  "def %s_accesses : List (CSemX.Access %sVar) := [" % (P, C)]
            L += ["  { var := .%s, read := %s, write := %s, guarded := %s, line := %s, how := .%s }%s" % (
                a["var"], str(a["read"]).lower(), str(a["write"]).lower(), str(a["guarded"]).lower(), a["line"], a["how"],
                "," if j + 1 < len(self.accesses) else "") for j, a in enumerate(self.accesses)]
            L += ["]", ""]
        ch = list(dict.fromkeys(self.unroll_checks))
        L += ["/-- every condition the translator evaluated itself (unrolled loops, constant `if`s), re-checked by the kernel -/",
              "theorem %s_unroll_ok : [%s].all (fun c => c.1 == c.2) = true := by decide" % (
                  P, ", ".join("(%s, %s)" % (t, "true" if b else "false") for t, b in ch) if ch else "((true, true) : Bool × Bool)"), ""]
        return "\n".join(L)


class PrngTranslator(g.Translator):
    def __init__(self, repo):
        g.Translator.__init__(self, repo)
        self.convs, self.ptr_sites = set(), []

    def load(self, txt):
        self.byid = g.annotate(g.parse_objects(txt))
        self.typedefs = {}

    def function(self, name, fname):
        c = [n for n in self.byid.values() if n.get("kind") == "FunctionDecl" and n.get("name") == name and n.get("_parent") is None
             and any(k.get("kind") == "CompoundStmt" for k in kids(n)) and os.path.basename(str(n.get("_file"))) == fname]
        c = list({n["id"]: n for n in c}.values())
        if len(c) != 1:
            raise Unsupported("%d definitions of nfl::%s found in %s" % (len(c), name, fname))
        if qual(c[0]) != "void (unsigned char *, unsigned long long)":
            fail(c[0], "signature %r" % qual(c[0]))
        return c[0]


def make_tu(repo):
    os.makedirs(g.BUILD, exist_ok=True)
    tu = os.path.join(g.BUILD, "prng_ast_tu.cpp")
    open(tu, "w").write('#include "%s"\n#include "%s"\n' % (os.path.join(repo, "lib", "prng", "randombytes.cpp"),
                                                         os.path.join(repo, "lib", "prng", "fastrandombytes.cpp")))
    return tu


def main():
    repo = os.environ.get("VERIF_REPO", "/repo")
    out = OUT
    if "--repo" in sys.argv:
        repo = sys.argv[sys.argv.index("--repo") + 1]
    if "--out" in sys.argv:
        out = sys.argv[sys.argv.index("--out") + 1]
    repo = os.path.abspath(repo)
    txt = g.clang_ast(repo, make_tu(repo))
    if "--keep" in sys.argv:
        open(os.path.join(g.BUILD, "prng_ast_dump.json"), "w").write(txt)
    tr = PrngTranslator(repo)
    try:
        tr.load(txt)
        fns = [CFn(tr, "rb", "Rb", tr.function("randombytes", "randombytes.cpp")).translate(),
               CFn(tr, "frb", "Frb", tr.function("fastrandombytes", "fastrandombytes.cpp")).translate()]
    except Unsupported as e:
        msg = "gen_prng_ast: UNSUPPORTED C++ construct, nothing translated: %s" % e
        sys.stderr.write(msg + "\n")
        print(json.dumps({"ok": False, "err": msg}))
        sys.exit(3)
    head = [
        "-- GENERATED by tools/gen_prng_ast.py from clang++-14's typed AST of lib/prng/randombytes.cpp and lib/prng/fastrandombytes.cpp.",
        "-- Do not edit.  Each function is cut at its external calls (and at the heads of loops / after `if`s that contain one) into pieces;",
        "-- a piece is a pure function  state [× value returned by the call] → state × (next call with its arguments | return).",
        "-- One `let` per C++ statement, one CSem / CSemX helper per typed expression node; loops without external call are unrolled.",
        "-- NOT translated: what the external functions do (libc open/read/sleep, std::mutex, the Salsa20 assembly routine).",
        "import NflVerif.Model.CSemPrng",
        "set_option linter.unusedVariables false",
        "namespace Nfl.Gen",
        "open Nfl",
        "",
    ]
    text = "\n".join(head) + "\n" + "\n".join(f.render() for f in fns) + "\nend Nfl.Gen\n"
    changed = g.write_if_changed(out, text)
    acc = lambda f, gd: ["%s %s%s @%s%s" % (a["var"], "R" if a["read"] else "", "W" if a["write"] else "", a["line"],
                                           "" if a["how"] == "direct" else " (" + a["how"] + ")") for a in f.accesses if a["guarded"] == gd]
    print(json.dumps({
        "ok": True,
        "pieces": {f.prefix: ["%s_%s" % (f.prefix, n) for n in f.order] for f in fns},
        "sites": {f.prefix: ["%s=%s@%s" % (s["name"], s["callee"], s["line"]) for s in f.sites] for f in fns},
        "nodes": sum(f.nodes for f in fns),
        "node_kinds": dict(sorted({k: sum(f.kinds.get(k, 0) for f in fns) for f2 in fns for k in f2.kinds}.items())),
        "static_accesses_guarded": {f.prefix: acc(f, True) for f in fns},
        "static_accesses_unguarded": {f.prefix: acc(f, False) for f in fns},
        "conversions_assumed": sorted(tr.convs) + ["pointer = offset mod 2^64 (element size 1)", "signed conversions modular (two's complement)"],
        "pointer_arithmetic": tr.ptr_sites,
        "unrolled_conditions_rechecked": {f.prefix: len(set(f.unroll_checks)) for f in fns},
        "ub_wrap_assumed": tr.ub_sites, "ub_div_sites": tr.div_sites,
        "sha": hashlib.sha256(text.encode()).hexdigest()[:16], "changed": changed,
        "out": os.path.relpath(out, g.VERIF), "repo": repo}))


if __name__ == "__main__":
    main()
