#!/usr/bin/env python3
"""Translator: clang's typed AST of include/nfl/permut.hpp -> lean/NflVerif/Generated/PermutAst.lean

  nfl::permut<degree>::compute(y, x)  (the bit-reversal copy), both variants:
  * UNROLLED  details::permut<degree,true>::compute -> r_set<0,1,degree>{}(y,x) -> ... -> y[r_loop<1,degree,0,I>::value] = x[I]
    clang's JSON does not print dependent template arguments, so the recursion is read off ALL instantiated
    specialisations for degree 16 and 64 (every r_set<I,J,d>::operator() body, every r_loop<H,d,R,I>::value initialiser)
    and compared with the generic step that is emitted; any deviation stops the translation.
  * TABLE     details::permut<degree,false>::compute, permut_compute<degree>::permut_compute(), ::operator()(i):
    translated statement by statement / node by node at degree 2048 and 4096 with `degree` kept as a parameter
    (the SubstNonTypeTemplateParmExpr nodes); both texts must agree.
  * the dispatch nfl::permut<N> : details::permut<N, N <= LIMIT> is read from the `bases` entry of the instantiated
    nfl::permut<16>, <1024>, <1025>, <2048> (the limit is NOT hard-coded here).
Pointers are (base array : List Nat, offset : Nat) pairs.  Anything unknown stops with a non-zero exit naming the node
kind / callee and file:line.  Last stdout line = one JSON summary.  Output rewritten only when changed.
Usage: gen_permut_ast.py [--repo DIR] [--out FILE] [--keep]
"""
import hashlib, json, os, re, sys

HERE = os.path.dirname(os.path.abspath(__file__))
sys.path.insert(0, HERE)
import gen_ops_ast as g
from gen_ops_ast import Unsupported, fail, Val, ctype, write_if_changed

VERIF = os.path.dirname(HERE)
OUT = os.path.join(VERIF, "lean", "NflVerif", "Generated", "PermutAst.lean")
U16, U32, U64, S32, BOOL = ("U", 16), ("U", 32), ("U", 64), ("S", 32), ("B", 1)
VTYPES = [("uint16_t", "unsigned short"), ("uint32_t", "unsigned int"), ("uint64_t", "unsigned long")]
UNROLL_DEGREES = [16, 64]
TABLE_DEGREES = [2048, 4096]
DISPATCH_PROBES = [16, 1024, 1025, 2048]
M64 = 2 ** 64


def make_tu(repo):
    os.makedirs(g.BUILD, exist_ok=True)
    tu = os.path.join(g.BUILD, "permut_ast_tu.cpp")
    L = ['#include "nfl.hpp"']
    for d in UNROLL_DEGREES:
        for v, _ in (VTYPES if d == UNROLL_DEGREES[0] else VTYPES[:1]):
            L.append("template void nfl::details::permut<%d,true>::compute<%s>(%s*, %s const*);" % (d, v, v, v))
    for d in TABLE_DEGREES:
        for v, _ in (VTYPES if d == TABLE_DEGREES[0] else VTYPES[:1]):
            L.append("template void nfl::details::permut<%d,false>::compute<%s>(%s*, %s const*);" % (d, v, v, v))
        L.append("template struct nfl::details::permut_compute<%d>;" % d)
    L.append("namespace nfl { namespace verif_permut_probe {")
    for d in DISPATCH_PROBES:
        L.append('static_assert(sizeof(nfl::permut<%d>) > 0, "");' % d)
    L.append("} }")
    open(tu, "w").write("\n".join(L) + "\n")
    return tu


def targs(n):
    out = []
    for a in n.get("inner", []):
        if a.get("kind") == "TemplateArgument":
            out.append(a["type"]["qualType"] if "type" in a else a.get("value"))
    return out


def kids(n):
    return [c for c in n.get("inner", []) if isinstance(c, dict) and "kind" in c]


def body_of(m):
    b = [c for c in m.get("inner", []) if c.get("kind") == "CompoundStmt"]
    return b[0] if len(b) == 1 else None


def at(n):
    return "%s:%s" % (os.path.basename(str(n.get("_file"))), n.get("_line"))


class T:
    def __init__(self, repo, txt):
        self.repo = repo
        self.files = {}
        self.kinds = {}
        self.nodes = 0
        objs = g.parse_objects(txt)
        self.byid = g.annotate(objs)
        self.specs = {}
        for n in self.byid.values():
            if n.get("kind") == "ClassTemplateSpecializationDecl" and "inner" in n and \
                    n.get("name") in ("r_loop", "r_set", "permut", "permut_compute", "uint_value_t"):
                par = n.get("_parent")
                if par is not None and par.get("kind") not in ("ClassTemplateDecl", "NamespaceDecl"):
                    continue
                a = tuple(targs(n))
                if not all(isinstance(x, int) for x in a):
                    fail(n, "non-integral template argument of %s" % n.get("name"))
                self.specs.setdefault(n["name"], {})[a] = n

    def count(self, n):
        self.nodes += 1
        k = n.get("kind")
        self.kinds[k] = self.kinds.get(k, 0) + 1

    def short(self, f):
        f = str(f)
        inc = os.path.join(self.repo, "include") + os.sep
        return f[len(inc):] if f.startswith(inc) else os.path.basename(f)

    def source_line(self, n):
        f, l = n.get("_file"), n.get("_line")
        try:
            if f not in self.files:
                self.files[f] = open(f, errors="replace").read().splitlines()
            return self.files[f][int(l) - 1].strip()
        except Exception:
            return "?"

    def src(self, n):
        return "%s:%s  %s" % (self.short(n.get("_file")), n.get("_line"), self.source_line(n))

    def check_file(self, n):
        # an explicitly instantiated class is located at its instantiation point: look at its injected class name
        inj = [c for c in kids(n) if c.get("kind") == "CXXRecordDecl" and c.get("isImplicit")]
        if n.get("kind") == "ClassTemplateSpecializationDecl" and len(inj) == 1:
            n = inj[0]
        if self.short(n.get("_file")) != "nfl/permut.hpp":
            fail(n, "declaration is not in nfl/permut.hpp (%s)" % self.short(n.get("_file")))

    # ------------------------------------------------------------------------------------------ r_loop
    def read_r_loop(self):
        specs = {tuple(x % M64 for x in a): n for a, n in self.specs.get("r_loop", {}).items()}
        owner, var = {}, {}
        for a, n in specs.items():
            if len(a) != 4:
                fail(n, "r_loop with %d template arguments" % len(a))
            self.check_file(n)
            vs = [c for c in kids(n) if c.get("kind") == "VarDecl" and c.get("name") == "value"]
            others = [c for c in kids(n) if c.get("kind") not in ("TemplateArgument", "CXXRecordDecl", "VarDecl")]
            if len(vs) != 1 or others:
                fail(n, "members of r_loop<%s>" % (a,))
            v = vs[0]
            if ctype(v) != U64 or not v.get("constexpr") or v.get("storageClass") != "static":
                fail(v, "r_loop::value is not `static constexpr size_t`")
            owner[v["id"]] = a
            var[a] = v
        step, base = {}, {}
        for a, v in var.items():
            self.count(v)
            e = kids(v)
            if len(e) != 1:
                fail(v, "initialiser of r_loop::value")
            e = e[0]
            while e.get("kind") in ("ImplicitCastExpr", "ParenExpr", "ConstantExpr") and e.get("castKind", "NoOp") in ("LValueToRValue", "NoOp"):
                self.count(e)
                e = kids(e)[0]
            self.count(e)
            if e.get("kind") == "DeclRefExpr":
                rid = e.get("referencedDecl", {}).get("id")
                if rid not in owner:
                    fail(e, "r_loop::value initialised from something that is not another r_loop::value")
                step[a] = owner[rid]
            elif e.get("kind") == "SubstNonTypeTemplateParmExpr":
                p, lit = kids(e)
                if p.get("kind") != "NonTypeTemplateParmDecl" or lit.get("kind") != "IntegerLiteral" or ctype(lit) != U64:
                    fail(e, "base case of r_loop")
                base[a] = (p.get("name"), int(lit["value"]))
            else:
                fail(e, "initialiser of r_loop<%s>::value" % (a,))
        # the generic step that is emitted (all in size_t = 64-bit unsigned):
        #   r_loop<H,d,R,I>::value = r_loop<(H << 1), d, (R << 1) | (I & 1), (I >> 1)>::value ;  r_loop<d,d,R,I>::value = R
        for a, (pn, val) in base.items():
            H, d, R, I = a
            if H != d or pn != "R" or val != R:
                fail(var[a], "r_loop<%d,%d,%d,%d>::value is the base case `%s` = %d (expected: H == degree, value R)" % (H, d, R, I, pn, val))
        for a, b in step.items():
            H, d, R, I = a
            exp = ((H << 1) % M64, d, ((R << 1) % M64) | (I & 1), I >> 1)
            if H == d:
                fail(var[a], "r_loop<%d,%d,%d,%d> with H == degree is not the base case" % a)
            if b != exp:
                fail(var[a], "r_loop<%d,%d,%d,%d>::value refers to r_loop<%d,%d,%d,%d>::value, expected r_loop<(H<<1),degree,(R<<1)|(I&1),(I>>1)> = <%d,%d,%d,%d>"
                     % (a + b + exp))
        self.r_var, self.r_step, self.r_base = var, step, base
        return len(step), len(base)

    def r_loop_value(self, a, atn):
        seen = 0
        while a in self.r_step:
            a = self.r_step[a]
            seen += 1
            if seen > 100:
                fail(atn, "r_loop chain does not end")
        if a not in self.r_base:
            fail(atn, "r_loop<%d,%d,%d,%d> not instantiated" % a)
        return self.r_base[a][1]

    # ------------------------------------------------------------------------------------------ calls of stateless functors
    def spec_of_method(self, mid, atn):
        m = self.byid.get(mid)
        if m is None or m.get("kind") != "CXXMethodDecl":
            fail(atn, "callee is not a known method")
        p = m.get("_parent") or {}
        if p.get("kind") == "FunctionTemplateDecl":
            p = p.get("_parent") or {}
        if p.get("kind") != "ClassTemplateSpecializationDecl":
            fail(atn, "callee %r is not a member of a class template specialisation" % m.get("name"))
        return m, p

    def temp_object(self, obj, spec):
        """`r_set<..>{}`: a value-initialised temporary of the (empty) class `spec`"""
        want = "nfl::details::%s<%s>" % (spec["name"], ", ".join(str(x) for x in targs(spec)))
        allowed = ("MaterializeTemporaryExpr", "CXXFunctionalCastExpr", "InitListExpr", "CXXTemporaryObjectExpr", "CXXBindTemporaryExpr")
        while True:
            if obj.get("kind") not in allowed or (obj.get("kind") == "CXXFunctionalCastExpr" and obj.get("castKind") != "NoOp"):
                fail(obj, "functor object of the call")
            t = obj.get("type", {})
            if t.get("desugaredQualType", t.get("qualType")) != want:
                fail(obj, "functor object has type %r, callee belongs to %s" % (t, want))
            self.count(obj)
            sub = kids(obj)
            if not sub:
                break
            if len(sub) != 1:
                fail(obj, "functor object with initialisers")
            obj = sub[0]
        if any(c.get("kind") == "FieldDecl" for c in kids(spec)) or spec.get("bases"):
            fail(spec, "functor class %s has state" % want)

    def param_ref(self, n, parms):
        """n = LValueToRValue(DeclRefExpr -> one of the method's own pointer parameters); returns its index"""
        if not (n.get("kind") == "ImplicitCastExpr" and n.get("castKind") == "LValueToRValue"):
            fail(n, "pointer argument is not a plain parameter")
        self.count(n)
        r = kids(n)[0]
        if r.get("kind") != "DeclRefExpr":
            fail(r, "pointer argument is not a plain parameter")
        self.count(r)
        ids = [p["id"] for p in parms]
        rid = r.get("referencedDecl", {}).get("id")
        if rid not in ids:
            fail(r, "pointer argument refers to %r, not to a parameter of the function" % r.get("referencedDecl", {}).get("name"))
        return ids.index(rid)

    def functor_call(self, s, parms, mtype, want_name):
        """statement `C<...>{}(y, x);` -> template arguments of C; (y, x) must be the caller's own (y, x) in that order"""
        if s.get("kind") == "ExprWithCleanups":
            self.count(s)
            s = kids(s)[0]
        if s.get("kind") != "CXXOperatorCallExpr":
            fail(s, "statement is not a functor call")
        self.count(s)
        inner = kids(s)
        callee = inner[0]
        if not (callee.get("kind") == "ImplicitCastExpr" and callee.get("castKind") == "FunctionToPointerDecay" and kids(callee)[0].get("kind") == "DeclRefExpr"):
            fail(callee, "callee of the functor call")
        self.count(callee)
        self.count(kids(callee)[0])
        rd = kids(callee)[0].get("referencedDecl", {})
        m, spec = self.spec_of_method(rd.get("id"), s)
        if spec.get("name") != want_name or m.get("name") != "operator()":
            fail(s, "call of %s::%s (expected %s::operator())" % (spec.get("name"), m.get("name"), want_name))
        if m.get("type", {}).get("qualType") != mtype:
            fail(s, "callee %s::operator() instantiated at %r inside a function of type %r" % (want_name, m.get("type", {}).get("qualType"), mtype))
        self.temp_object(inner[1], spec)
        if len(inner) != 4:
            fail(s, "functor call with %d arguments" % (len(inner) - 2))
        got = [self.param_ref(a, parms) for a in inner[2:]]
        if got != [0, 1]:
            fail(s, "arguments of the call are not (y, x) passed through in that order")
        return tuple(x % M64 for x in targs(spec)), m

    def methods(self, spec, name):
        """instantiated member-template functions `name` of `spec`: [(value type, method)]"""
        out = []
        for ft in kids(spec):
            if ft.get("kind") == "FunctionTemplateDecl" and ft.get("name") == name:
                for m in kids(ft):
                    if m.get("kind") == "CXXMethodDecl" and body_of(m) is not None:
                        ta = [c for c in m.get("inner", []) if c.get("kind") == "TemplateArgument"]
                        if len(ta) != 1:
                            fail(m, "template arguments of %s" % name)
                        out.append((ta[0]["type"]["qualType"], m))
        return out

    def pointer_parms(self, m, V):
        parms = [c for c in kids(m) if c.get("kind") == "ParmVarDecl"]
        if [p.get("name") for p in parms] != ["y", "x"] or parms[0]["type"]["qualType"] != V + " *" or parms[1]["type"]["qualType"] != "const " + V + " *":
            fail(m, "parameters are not (V* y, V const* x)")
        for p in parms:
            self.count(p)
        return parms

    def subscript(self, n, parms, which):
        """n = ArraySubscriptExpr(parameter `which`, index) -> index node"""
        if n.get("kind") != "ArraySubscriptExpr":
            fail(n, "expected %s[...]" % "yx"[which])
        self.count(n)
        b, i = kids(n)
        if self.param_ref(b, parms) != which:
            fail(b, "subscripted pointer is not the parameter %s" % "yx"[which])
        return i

    # ------------------------------------------------------------------------------------------ r_set
    def read_r_set(self):
        specs = {tuple(x % M64 for x in a): n for a, n in self.specs.get("r_set", {}).items()}
        shape = {}
        per_v = {}
        for a, spec in specs.items():
            if len(a) != 3:
                fail(spec, "r_set with %d template arguments" % len(a))
            self.check_file(spec)
            I, J, d = a
            ms = self.methods(spec, "operator()")
            if not ms:
                continue
            shapes = []
            for V, m in ms:
                self.count(m)
                parms = self.pointer_parms(m, V)
                body = body_of(m)
                self.count(body)
                st = kids(body)
                mtype = m["type"]["qualType"]
                if J == d:      # partial specialisation r_set<I, degree, degree>
                    if len(st) != 2 or st[0].get("kind") != "DeclStmt" or len(kids(st[0])) != 1:
                        fail(body, "leaf r_set<%d,%d,%d>::operator() is not `constexpr size_t r = ...; y[r] = x[I];`" % a)
                    self.count(st[0])
                    rv = kids(st[0])[0]
                    self.count(rv)
                    if rv.get("kind") != "VarDecl" or ctype(rv) != U64 or not rv.get("constexpr"):
                        fail(rv, "leaf r_set: `r` is not a constexpr size_t")
                    e = kids(rv)[0]
                    while e.get("kind") in ("ImplicitCastExpr", "ConstantExpr") and e.get("castKind", "NoOp") in ("LValueToRValue", "NoOp"):
                        self.count(e)
                        e = kids(e)[0]
                    self.count(e)
                    rl = None
                    if e.get("kind") == "DeclRefExpr":
                        rid = e.get("referencedDecl", {}).get("id")
                        rl = [k for k, v in self.r_var.items() if v["id"] == rid]
                    if not rl:
                        fail(e, "leaf r_set: `r` is not initialised from an r_loop<..>::value")
                    rl = rl[0]
                    if rl != (1, d, 0, I):
                        fail(rv, "leaf r_set<%d,%d,%d>: r = r_loop<%d,%d,%d,%d>::value, expected r_loop<1,degree,0,I>" % (a + rl))
                    asg = st[1]
                    if not (asg.get("kind") == "BinaryOperator" and asg.get("opcode") == "="):
                        fail(asg, "leaf r_set: second statement is not an assignment")
                    self.count(asg)
                    lhs, rhs = kids(asg)
                    li = self.subscript(lhs, parms, 0)
                    if not (li.get("kind") == "ImplicitCastExpr" and li.get("castKind") == "LValueToRValue" and
                            kids(li)[0].get("kind") == "DeclRefExpr" and kids(li)[0].get("referencedDecl", {}).get("id") == rv["id"]):
                        fail(li, "leaf r_set: index of y is not `r`")
                    self.count(li)
                    self.count(kids(li)[0])
                    if not (rhs.get("kind") == "ImplicitCastExpr" and rhs.get("castKind") == "LValueToRValue"):
                        fail(rhs, "leaf r_set: right-hand side is not a load")
                    self.count(rhs)
                    xi = self.subscript(kids(rhs)[0], parms, 1)
                    if xi.get("kind") != "SubstNonTypeTemplateParmExpr":
                        fail(xi, "leaf r_set: index of x is not the template parameter I")
                    self.count(xi)
                    p, lit = kids(xi)
                    if p.get("name") != "I" or lit.get("kind") != "IntegerLiteral" or int(lit["value"]) != I or ctype(lit) != U64:
                        fail(xi, "leaf r_set<%d,%d,%d>: index of x is %s = %s, expected I" % (a + (p.get("name"), lit.get("value"))))
                    shapes.append(("leaf", self.r_loop_value(rl, rv), I))
                else:
                    if len(st) != 2:
                        fail(body, "r_set<%d,%d,%d>::operator() has %d statements (expected the two recursive calls)" % (a + (len(st),)))
                    c0, _ = self.functor_call(st[0], parms, mtype, "r_set")
                    c1, _ = self.functor_call(st[1], parms, mtype, "r_set")
                    exp0 = ((2 * I) % M64, (2 * J) % M64, d)
                    exp1 = (((2 * I) % M64 + 1) % M64, (2 * J) % M64, d)
                    if c0 != exp0 or c1 != exp1:
                        fail(body, "r_set<%d,%d,%d>::operator() calls r_set<%d,%d,%d> then r_set<%d,%d,%d>; expected r_set<2*I,2*J,degree> = <%d,%d,%d> then r_set<2*I+1,2*J,degree> = <%d,%d,%d>"
                             % (a + c0 + c1 + exp0 + exp1))
                    shapes.append(("node", c0, c1))
                per_v.setdefault(V, 0)
                per_v[V] += 1
            if any(s != shapes[0] for s in shapes):
                fail(spec, "r_set<%d,%d,%d>::operator() differs between value types" % a)
            shape[a] = shapes[0]
        self.r_set_shape = shape
        return per_v

    def exec_r_set(self, a, out, depth=0):
        if a not in self.r_set_shape:
            raise Unsupported("r_set<%d,%d,%d>::operator() is called but not instantiated" % a)
        if depth > 70:
            raise Unsupported("r_set recursion does not end")
        s = self.r_set_shape[a]
        if s[0] == "leaf":
            out.append((s[1], s[2]))
        else:
            self.exec_r_set(s[1], out, depth + 1)
            self.exec_r_set(s[2], out, depth + 1)

    def read_unrolled_compute(self, d):
        spec = [n for a, n in self.specs.get("permut", {}).items() if len(a) == 2 and a[0] == d and a[1] != 0]
        if len(spec) != 1:
            raise Unsupported("details::permut<%d,true> not instantiated" % d)
        spec = spec[0]
        self.check_file(spec)
        ms = self.methods(spec, "compute")
        if not ms:
            fail(spec, "permut<%d,true>::compute not instantiated" % d)
        vts = []
        for V, m in ms:
            self.count(m)
            if m.get("storageClass") != "static":
                fail(m, "compute is not static")
            parms = self.pointer_parms(m, V)
            body = body_of(m)
            self.count(body)
            st = kids(body)
            if len(st) != 1:
                fail(body, "permut<degree,true>::compute is not the single call r_set<0,1,degree>{}(y, x)")
            c, _ = self.functor_call(st[0], parms, m["type"]["qualType"].replace("static ", ""), "r_set")
            if c != (0, 1, d):
                fail(body, "permut<%d,true>::compute calls r_set<%d,%d,%d>, expected r_set<0,1,degree>" % ((d,) + c))
            vts.append(V)
        pairs = []
        self.exec_r_set((0, 1, d), pairs)
        return pairs, vts, spec

    # ------------------------------------------------------------------------------------------ dispatch
    def read_dispatch(self):
        lim = None
        seen = {}
        for a, n in self.specs.get("permut", {}).items():
            if len(a) != 1:
                continue
            self.check_file(n)
            N = a[0]
            b = n.get("bases") or []
            if len(b) != 1 or b[0].get("access") != "public":
                fail(n, "nfl::permut<%d> does not have exactly one public base" % N)
            t = b[0]["type"]
            m = re.fullmatch(r"(?:nfl::)?(?:details::)?permut<(\d+)UL?, (\d+)UL? <= (\d+)>", t.get("qualType", ""))
            m2 = re.fullmatch(r"nfl::details::permut<(\d+), (true|false)>", t.get("desugaredQualType", ""))
            if not m or not m2:
                fail(n, "base class of nfl::permut<%d> is %r (expected details::permut<degree, degree <= LIMIT>)" % (N, t))
            if int(m.group(1)) != N or int(m.group(2)) != N or int(m2.group(1)) != N:
                fail(n, "base class of nfl::permut<%d> is %r" % (N, t))
            L = int(m.group(3))
            if lim is not None and L != lim:
                fail(n, "two different unroll limits %d, %d" % (lim, L))
            lim = L
            if (m2.group(2) == "true") != (N <= L):
                fail(n, "nfl::permut<%d>: clang evaluated `%d <= %d` to %s" % (N, N, L, m2.group(2)))
            seen[N] = m2.group(2) == "true"
            self.count(n)
        if lim is None or not any(seen.values()) or all(seen.values()):
            raise Unsupported("dispatch nfl::permut<N> : details::permut<N, N <= LIMIT> not observed on both sides (%r)" % seen)
        macro = None
        for ln in open(os.path.join(self.repo, "include", "nfl", "permut.hpp"), errors="replace"):
            mm = re.match(r"\s*#\s*define\s+PERMUT_LIMIT_UNROLL\s+(\d+)\s*$", ln)
            if mm:
                macro = int(mm.group(1))
        return lim, seen, macro

    # ------------------------------------------------------------------------------------------ table variant
    def table(self, N):
        return TableFn(self, N).run()


def proj(i, m):
    return "s" + ".2" * i + (".1" if i < m - 1 else "")


class TableFn:
    """permut_compute<N>::permut_compute(), ::operator()(size_t) const, permut<N,false>::compute<V> with `degree` a parameter"""

    def __init__(self, tr, N):
        self.tr, self.N = tr, N
        self.env = {}
        self.shl_sites = []

    def count(self, n):
        self.tr.count(n)

    def declare(self, d, t=None):
        name = d.get("name")
        if not name or not re.fullmatch(r"[A-Za-z_][A-Za-z0-9_]*", name) or name in g.LEAN_KEYWORDS or name in ("degree", "s", "data_", "P"):
            fail(d, "unusable identifier %r" % name)
        if name in [v[0] for v in self.env.values()]:
            fail(d, "two variables named %r (shadowing is not translated)" % name)
        self.env[d["id"]] = (name, t or ctype(d))
        return name

    def convert(self, v, to, n):
        return g.Fn.convert(None, v, to, n)

    def expr(self, n):
        k = n.get("kind")
        self.count(n)
        if k == "ParenExpr":
            return self.expr(kids(n)[0])
        if k == "IntegerLiteral":
            c = int(n["value"])
            return Val(str(c), ctype(n), const=c, atom=True)
        if k == "SubstNonTypeTemplateParmExpr":
            p, lit = kids(n)
            self.count(p)
            self.count(lit)
            if p.get("kind") != "NonTypeTemplateParmDecl" or p.get("name") != "degree" or lit.get("kind") != "IntegerLiteral" or \
                    int(lit["value"]) != self.N or ctype(lit) != U64 or ctype(n) != U64:
                fail(n, "substituted template parameter is not `degree` = %d" % self.N)
            return Val("degree", U64, rng=(self.N, self.N), atom=True)
        if k == "ImplicitCastExpr":
            ck = n.get("castKind")
            if ck == "LValueToRValue":
                r = kids(n)[0]
                self.count(r)
                if r.get("kind") != "DeclRefExpr" or r.get("referencedDecl", {}).get("id") not in self.env:
                    fail(r, "load of something that is not a local variable")
                name, t = self.env[r["referencedDecl"]["id"]]
                if ctype(n) != t:
                    fail(n, "load changes the type")
                return Val(name, t, atom=True)
            if ck == "IntegralCast":
                return self.convert(self.expr(kids(n)[0]), ctype(n), n)
            fail(n, "cast kind %r" % ck)
        if k == "BinaryOperator":
            op = n.get("opcode")
            a, b = [self.expr(x) for x in kids(n)]
            t = ctype(n)
            return self.binop(n, op, a, b, t)
        if k == "CXXOperatorCallExpr":
            return self.table_call(n)
        fail(n, "unknown expression")

    def binop(self, n, op, a, b, t):
        if op == "<":
            if t != BOOL or a.t != b.t or a.t[0] != "U":
                fail(n, "operand types of <")
            return Val("CSem.ltU %s %s" % (a.p(), b.p()), t)
        if t != S32 or a.t != S32 or b.t != S32:
            fail(n, "binary operator %r outside `int` (operand types %s, %s)" % (op, a.t, b.t))
        if op in ("<<", ">>"):
            if b.const is None or not (0 <= b.const < 32):
                fail(n, "shift count is not a constant below 32")
            lo, hi = a.rng
            if lo < 0:
                fail(n, "shift of a possibly negative int")
            if op == "<<":
                if hi * 2 ** b.const > g.INT_MAX:
                    fail(n, "int << may overflow (operand up to %d)" % hi)
                self.shl_sites.append((n.get("_line"), hi))
                return Val("CSemPermut.shlS32 %s %s" % (a.p(), b.p()), t, rng=(lo * 2 ** b.const, hi * 2 ** b.const))
            return Val("CSemPermut.shrS32 %s %s" % (a.p(), b.p()), t, rng=(lo >> b.const, hi >> b.const))
        if op in ("|", "&"):
            if a.rng[0] < 0 or b.rng[0] < 0:
                rng = None
            elif op == "&":
                rng = (0, min(a.rng[1], b.rng[1]))
            else:
                rng = (0, 2 ** max(a.rng[1].bit_length(), b.rng[1].bit_length()) - 1)
            return Val("CSemPermut.%s %s %s" % ("orS32" if op == "|" else "andS32", a.p(), b.p()), t, rng)
        fail(n, "binary operator %r" % op)

    def local_target(self, n):
        if n.get("kind") != "DeclRefExpr" or n.get("referencedDecl", {}).get("id") not in self.env:
            fail(n, "assignment target is not a local variable")
        self.count(n)
        return self.env[n["referencedDecl"]["id"]]

    def simple_stmt(self, s, out, pad):
        """declaration with initialiser / assignment / compound shift-assignment of local integer variables -> one `let`"""
        k = s.get("kind")
        self.count(s)
        if k == "DeclStmt":
            for d in kids(s):
                self.count(d)
                if d.get("kind") != "VarDecl" or d.get("init") != "c" or d.get("storageClass") or len(kids(d)) != 1:
                    fail(d, "declaration")
                v = self.expr(kids(d)[0])
                name = self.declare(d)
                if v.t != ctype(d):
                    fail(d, "initialiser type")
                out.append("%s-- %s" % (pad, self.tr.src(s)))
                out.append("%slet %s := %s" % (pad, name, v.s))
            return [self.env[d["id"]][0] for d in kids(s)]
        if k == "BinaryOperator" and s.get("opcode") == "=":
            name, t = self.local_target(kids(s)[0])
            v = self.expr(kids(s)[1])
            if v.t != t or ctype(s) != t:
                fail(s, "assignment type")
            out.append("%s-- %s" % (pad, self.tr.src(s)))
            out.append("%slet %s := %s" % (pad, name, v.s))
            return [name]
        if k == "CompoundAssignOperator":
            name, t = self.local_target(kids(s)[0])
            op = s.get("opcode", "")
            if op not in ("<<=", ">>=", "|=", "&="):
                fail(s, "compound assignment %r" % op)
            lt = g.ctype_of_str(s.get("computeLHSType", {}).get("qualType", ""))
            rt = g.ctype_of_str(s.get("computeResultType", {}).get("qualType", ""))
            if lt != S32 or rt != S32 or ctype(s) != t:
                fail(s, "computation types of the compound assignment")
            a = self.convert(Val(name, t, atom=True), lt, s)
            b = self.expr(kids(s)[1])
            r = self.convert(self.binop(s, op[:-1], a, b, rt), t, s)
            out.append("%s-- %s" % (pad, self.tr.src(s)))
            out.append("%slet %s := %s" % (pad, name, r.s))
            return [name]
        fail(s, "unknown statement")

    def for_parts(self, s):
        if s.get("kind") != "ForStmt" or len(s.get("inner", [])) != 5 or s["inner"][1] not in ({}, None) and "kind" in s["inner"][1]:
            fail(s, "for statement shape")
        self.count(s)
        init, _, cond, inc, body = s["inner"]
        return init, cond, inc, body

    def counting_for(self, s, out, pad):
        """`for (T i = 0; i < degree; ++i)` -> the loop variable; the caller folds over List.range degree"""
        init, cond, inc, body = self.for_parts(s)
        self.count(init)
        d = kids(init)
        if init.get("kind") != "DeclStmt" or len(d) != 1 or d[0].get("kind") != "VarDecl" or d[0].get("init") != "c":
            fail(init, "loop initialisation")
        self.count(d[0])
        v0 = self.expr(kids(d[0])[0])
        if v0.const != 0:
            fail(init, "loop does not start at 0")
        name = self.declare(d[0])
        t = ctype(d[0])
        c = self.expr(cond)
        if c.s != "CSem.ltU %s degree" % (name if t == U64 else "(CSem.castU 64 %s)" % name):
            fail(cond, "loop condition is not `%s < degree` (got %s)" % (name, c.s))
        self.count(inc)
        if not (inc.get("kind") == "UnaryOperator" and inc.get("opcode") == "++" and ctype(inc) == t and
                kids(inc)[0].get("kind") == "DeclRefExpr" and kids(inc)[0].get("referencedDecl", {}).get("id") == d[0]["id"]):
            fail(inc, "loop increment is not ++%s" % name)
        self.count(kids(inc)[0])
        if body.get("kind") != "CompoundStmt":
            fail(body, "loop body is not a block")
        self.count(body)
        return name, t, kids(body)

    def general_for(self, s, out, pad, fn_prefix, defs):
        """`for (T h = e0; cond; h = e1) { simple statements }`: not affine -> CSem.whileFuel over the tuple of the loop
        variable and the variables the body assigns; fuel 2^width(h) (the loop variable's update and the condition
        must depend on h only: then the loop either ends within that many iterations or never)"""
        init, cond, inc, body = self.for_parts(s)
        pre = []
        self.count(init)
        if init.get("kind") != "DeclStmt" or len(kids(init)) != 1:
            fail(init, "loop initialisation")
        hname = self.simple_stmt(init, pre, pad)[0]
        self.nodes_fix = True
        ht = [t for (nm, t) in self.env.values() if nm == hname][0]
        if ht[0] != "U":
            fail(init, "loop variable type")
        c = self.expr(cond)
        if c.t != BOOL:
            fail(cond, "condition type")
        blines = []
        if body.get("kind") != "CompoundStmt":
            fail(body, "loop body is not a block")
        self.count(body)
        assigned = []
        for b in kids(body):
            if b.get("kind") == "DeclStmt":
                fail(b, "declaration inside the loop body")
            for nm in self.simple_stmt(b, blines, "  "):
                if nm not in assigned:
                    assigned.append(nm)
        if hname in assigned:
            fail(body, "loop body assigns the loop variable")
        inc_lines = []
        if self.simple_stmt(inc, inc_lines, "  ") != [hname]:
            fail(inc, "loop increment does not assign the loop variable")
        # autonomy of h: condition and increment mention no other loop-carried variable
        for txt in [c.s] + [l for l in inc_lines if not l.strip().startswith("--")]:
            for nm in assigned:
                if re.search(r"\b%s\b" % re.escape(nm), txt):
                    fail(s, "loop condition / increment depends on %s (fuel argument needs an autonomous loop variable)" % nm)
        state = [hname] + assigned
        m = len(state)
        ty = " × ".join(["Nat"] * m)
        unpack = ["  let %s := %s" % (nm, proj(i, m)) for i, nm in enumerate(state)]
        defs.append("\n".join([
            "/-- condition of the loop  %s ;  state (%s) -/" % (self.tr.src(s), ", ".join(state)),
            "def %s_cond (degree : Nat) (s : %s) : Bool :=" % (fn_prefix, ty)] + unpack + ["  " + c.s]))
        defs.append("\n".join([
            "/-- one iteration (body, then the increment) of the loop  %s -/" % self.tr.src(s),
            "def %s_body (s : %s) : %s :=" % (fn_prefix, ty, ty)] + unpack + blines + inc_lines + ["  (%s)" % ", ".join(state)]))
        out += pre
        out.append("%s-- %s" % (pad, self.tr.src(s)))
        out.append("%s--   not affine: CSem.whileFuel; fuel 2^%d = number of states of `%s`, whose update and test depend on `%s` only" % (pad, ht[1], hname, hname))
        out.append("%slet s := CSem.whileFuel (%s_cond degree) %s_body (2 ^ %d) (%s)" % (pad, fn_prefix, fn_prefix, ht[1], ", ".join(state)))
        for i, nm in enumerate(state[1:], 1):
            out.append("%slet %s := %s" % (pad, nm, proj(i, m)))
        return ht[1]

    def member_array(self, n, spec):
        """n = ArrayToPointerDecay(this->data_) -> field"""
        if not (n.get("kind") == "ImplicitCastExpr" and n.get("castKind") == "ArrayToPointerDecay"):
            fail(n, "array base")
        self.count(n)
        me = kids(n)[0]
        if me.get("kind") != "MemberExpr" or not me.get("isArrow") or kids(me)[0].get("kind") != "CXXThisExpr":
            fail(me, "array base is not a member of *this")
        self.count(me)
        self.count(kids(me)[0])
        fld = [c for c in kids(spec) if c.get("kind") == "FieldDecl"]
        if len(fld) != 1 or fld[0]["id"] != me.get("referencedMemberDecl") or fld[0].get("name") != "data_":
            fail(me, "member is not the only field data_")
        return fld[0]

    def run(self):
        tr, N = self.tr, self.N
        pc = tr.specs.get("permut_compute", {}).get((N,))
        if pc is None:
            raise Unsupported("permut_compute<%d> not instantiated" % N)
        tr.check_file(pc)
        # idx_type
        al = [c for c in kids(pc) if c.get("kind") == "TypeAliasDecl" and c.get("name") == "idx_type"]
        if len(al) != 1:
            fail(pc, "idx_type")
        it = ctype(al[0])
        fld = [c for c in kids(pc) if c.get("kind") == "FieldDecl"]
        if len(fld) != 1 or fld[0].get("name") != "data_" or fld[0]["type"]["qualType"] != "nfl::details::permut_compute<%d>::idx_type[%d]" % (N, N):
            fail(pc, "fields of permut_compute<%d> (expected idx_type data_[degree])" % N)
        if pc.get("bases"):
            fail(pc, "permut_compute has base classes")
        self.count(fld[0])
        defs = []
        # ---- constructor
        ctors = [c for c in kids(pc) if c.get("kind") == "CXXConstructorDecl" and not c.get("isImplicit")]
        if len(ctors) != 1 or body_of(ctors[0]) is None or len(kids(ctors[0])) != 1:
            fail(pc, "constructors of permut_compute<%d> (expected one, without member initialisers)" % N)
        ctor = ctors[0]
        self.count(ctor)
        cb = body_of(ctor)
        self.count(cb)
        if len(kids(cb)) != 1:
            fail(cb, "constructor body is not a single for loop")
        lines = []
        iname, itype, stmts = self.counting_for(kids(cb)[0], lines, "  ")
        if itype != it:
            fail(kids(cb)[0], "outer loop variable is not an idx_type")
        if not stmts:
            fail(cb, "empty loop body")
        hw = None
        for s in stmts[:-1]:
            if s.get("kind") == "ForStmt":
                hw = self.general_for(s, lines, "  ", "permut_ctor_inner", defs)
            else:
                self.simple_stmt(s, lines, "  ")
        st = stmts[-1]
        if not (st.get("kind") == "BinaryOperator" and st.get("opcode") == "="):
            fail(st, "last statement of the loop body is not the store data_[i] = ...")
        self.count(st)
        lhs, rhs = kids(st)
        if lhs.get("kind") != "ArraySubscriptExpr":
            fail(lhs, "store target")
        self.count(lhs)
        self.member_array(kids(lhs)[0], pc)
        idx = self.expr(kids(lhs)[1])
        val = self.expr(rhs)
        if idx.t[0] != "U" or val.t != it or idx.s != iname:
            fail(st, "store is not data_[%s] = <idx_type value>" % iname)
        lines.append("  -- %s" % tr.src(st))
        lines.append("  CSemPermut.wr data_ %s %s" % (idx.p(), val.p()))
        defs.append("\n".join([
            "/-- body of the loop  %s  of `permut_compute<degree>::permut_compute()`:" % tr.src(kids(cb)[0]),
            "`%s` (an idx_type = unsigned %d-bit value) is the loop counter, the result is the new content of `data_`. -/" % (iname, it[1]),
            "def permut_ctor_body (degree : Nat) (data_ : List Nat) (%s : Nat) : List Nat :=" % iname] + lines))
        defs.append("\n".join([
            "/-- `permut_compute<degree>::permut_compute()` (%s): `for (idx_type %s = 0; %s < degree; ++%s)` as a fold over" % (tr.short(ctor.get("_file")) + ":" + str(ctor.get("_line")), iname, iname, iname),
            "`List.range degree` (degree ≤ max(idx_type) by the choice of idx_type: the counter does not wrap). -/",
            "def permut_compute_ctor (degree : Nat) (data_ : List Nat) : List Nat :=",
            "  (List.range degree).foldl (fun data_ %s => permut_ctor_body degree data_ %s) data_" % (iname, iname)]))
        # ---- operator()
        ops = [c for c in kids(pc) if c.get("kind") == "CXXMethodDecl" and c.get("name") == "operator()"]
        if len(ops) != 1 or body_of(ops[0]) is None:
            fail(pc, "operator() of permut_compute")
        op = ops[0]
        self.count(op)
        self.env = {}
        pp = [c for c in kids(op) if c.get("kind") == "ParmVarDecl"]
        if len(pp) != 1 or ctype(pp[0]) != U64 or not op["type"]["qualType"].endswith("(size_t) const"):
            fail(op, "operator() is not `idx_type operator()(size_t) const`")
        pname = self.declare(pp[0])
        ob = kids(body_of(op))
        self.count(body_of(op))
        if len(ob) != 2 or ob[1].get("kind") != "ReturnStmt":
            fail(op, "operator() body is not `assert(...); return data_[i];`")
        a = ob[0]
        self.count(a)
        while a.get("kind") == "ParenExpr":
            a = kids(a)[0]
            self.count(a)
        if a.get("kind") != "ConditionalOperator":
            fail(a, "first statement of operator() is not an (expanded) assert")
        c, yes, no = kids(a)
        while c.get("kind") in ("CXXStaticCastExpr", "ImplicitCastExpr", "ParenExpr") and c.get("castKind", "NoOp") == "NoOp":
            self.count(c)
            c = kids(c)[0]
        cond = self.expr(c)
        callee = None
        if no.get("kind") == "CallExpr":
            r = kids(kids(no)[0])[0] if kids(no) and kids(kids(no)[0]) else {}
            callee = r.get("referencedDecl", {}).get("name")
        if callee != "__assert_fail" or yes.get("kind") != "CXXFunctionalCastExpr" or yes.get("castKind") != "ToVoid":
            fail(a, "assert expansion: failing branch calls %r" % callee)
        ret = kids(ob[1])[0]
        self.count(ob[1])
        if not (ret.get("kind") == "ImplicitCastExpr" and ret.get("castKind") == "LValueToRValue" and ctype(ret) == it):
            fail(ret, "returned expression")
        self.count(ret)
        sub = kids(ret)[0]
        if sub.get("kind") != "ArraySubscriptExpr":
            fail(sub, "returned expression is not data_[...]")
        self.count(sub)
        self.member_array(kids(sub)[0], pc)
        ridx = self.expr(kids(sub)[1])
        if ridx.t != U64:
            fail(sub, "index type")
        defs.append("\n".join([
            "/-- the `assert` of `permut_compute<degree>::operator()`  (%s) -/" % tr.src(ob[0]),
            "def permut_compute_call_assert (degree : Nat) (%s : Nat) : Bool :=" % pname,
            "  " + cond.s]))
        defs.append("\n".join([
            "/-- `permut_compute<degree>::operator()(size_t %s) const`  (%s); the assert above is a proof obligation at every call -/" % (pname, tr.src(ob[1])),
            "def permut_compute_call (data_ : List Nat) (%s : Nat) : Nat :=" % pname,
            "  CSemPermut.rd data_ %s" % ridx.p()]))
        # ---- permut<N,false>::compute
        spec = [n for a_, n in tr.specs.get("permut", {}).items() if len(a_) == 2 and a_[0] == N and a_[1] == 0]
        if len(spec) != 1:
            raise Unsupported("details::permut<%d,false> not instantiated" % N)
        spec = spec[0]
        tr.check_file(spec)
        Ps = [c for c in kids(spec) if c.get("kind") == "VarDecl"]
        if len(Ps) != 1 or Ps[0].get("name") != "P" or Ps[0].get("storageClass") != "static" or \
                Ps[0]["type"].get("desugaredQualType") != "nfl::details::permut_compute<%d>" % N:
            fail(spec, "static member P of permut<%d,false>" % N)
        self.P, self.pc_op = Ps[0], op
        texts, vts = [], []
        for V, m in tr.methods(spec, "compute"):
            self.count(m)
            if m.get("storageClass") != "static":
                fail(m, "compute is not static")
            self.env = {}
            parms = tr.pointer_parms(m, V)
            self.parms = parms
            b = kids(body_of(m))
            self.count(body_of(m))
            if len(b) != 1:
                fail(m, "compute body is not a single for loop")
            l2 = []
            jn, jt, st2 = self.counting_for(b[0], l2, "  ")
            if jt != U64 or len(st2) != 1:
                fail(b[0], "compute loop shape")
            s0 = st2[0]
            if not (s0.get("kind") == "BinaryOperator" and s0.get("opcode") == "="):
                fail(s0, "loop body is not y[..] = x[..]")
            self.count(s0)
            lhs, rhs = kids(s0)
            yi = self.expr(tr.subscript(lhs, parms, 0))
            if not (rhs.get("kind") == "ImplicitCastExpr" and rhs.get("castKind") == "LValueToRValue"):
                fail(rhs, "right-hand side is not a load")
            self.count(rhs)
            xi = self.expr(tr.subscript(kids(rhs)[0], parms, 1))
            if yi.t[0] != "U" or xi.t[0] != "U":
                fail(s0, "index types")
            texts.append("\n".join([
                "/-- `details::permut<degree,false>::compute(y, x)`  (%s), `P` = content of the static member P.data_ -/" % tr.src(b[0]),
                "def permut_table_compute (degree : Nat) (P : List Nat) (y : List Nat) (y_o : Nat) (x : List Nat) (x_o : Nat) : List Nat :=",
                "  -- %s" % tr.src(s0),
                "  (List.range degree).foldl (fun y %s => CSemPermut.wr y (y_o + %s) (CSemPermut.rd x (x_o + %s))) y" % (jn, yi.p(), xi.p())]))
            vts.append(V)
        if not texts or any(t != texts[0] for t in texts):
            fail(spec, "permut<%d,false>::compute differs between value types (index computation depends on V)" % N)
        defs.append(texts[0])
        return {"defs": defs, "idx_bits": it[1], "h_bits": hw, "value_types": vts, "shl_sites": self.shl_sites}

    def table_call(self, n):
        """P(i) inside permut<N,false>::compute"""
        inner = kids(n)
        callee = inner[0]
        if not (callee.get("kind") == "ImplicitCastExpr" and callee.get("castKind") == "FunctionToPointerDecay" and kids(callee)[0].get("kind") == "DeclRefExpr"):
            fail(callee, "callee of operator call")
        self.count(callee)
        self.count(kids(callee)[0])
        rd = kids(callee)[0].get("referencedDecl", {})
        if not hasattr(self, "pc_op") or rd.get("id") != self.pc_op["id"]:
            fail(n, "call of %r which is not permut_compute<%d>::operator()" % (rd.get("name"), self.N))
        obj = inner[1]
        while obj.get("kind") == "ImplicitCastExpr" and obj.get("castKind") == "NoOp":
            self.count(obj)
            obj = kids(obj)[0]
        self.count(obj)
        if obj.get("kind") != "DeclRefExpr" or obj.get("referencedDecl", {}).get("id") != self.P["id"]:
            fail(obj, "object of the call is not the static member P")
        if len(inner) != 3:
            fail(n, "argument count")
        a = self.expr(inner[2])
        if a.t != U64:
            fail(n, "argument type")
        self.asserted = a.s
        return Val("permut_compute_call P %s" % a.p(), ctype(n))


def lean_pairs(pairs):
    return "[" + ", ".join("(%d, %d)" % p for p in pairs) + "]"


def main():
    repo = os.environ.get("VERIF_REPO", "/repo")
    out = OUT
    if "--repo" in sys.argv:
        repo = sys.argv[sys.argv.index("--repo") + 1]
    if "--out" in sys.argv:
        out = sys.argv[sys.argv.index("--out") + 1]
    repo = os.path.abspath(repo)
    tu = make_tu(repo)
    txt = g.clang_ast(repo, tu)
    if "--keep" in sys.argv:
        open(os.path.join(g.BUILD, "permut_ast_dump.json"), "w").write(txt)
    try:
        tr = T(repo, txt)
        n_step, n_base = tr.read_r_loop()
        per_v = tr.read_r_set()
        unrolled = {}
        for d in UNROLL_DEGREES:
            pairs, vts, spec = tr.read_unrolled_compute(d)
            if sorted(p[1] for p in pairs) != list(range(d)) or sorted(p[0] for p in pairs) != list(range(d)):
                raise Unsupported("unrolled degree %d: the (dst, src) pairs read from the AST are not a permutation of 0..%d" % (d, d - 1))
            unrolled[d] = (pairs, vts)
        limit, seen, macro = tr.read_dispatch()
        if macro is not None and macro != limit:
            raise Unsupported("PERMUT_LIMIT_UNROLL is %d in the text but %d in the instantiated base class" % (macro, limit))
        tabs = {N: tr.table(N) for N in TABLE_DEGREES}
        t0 = tabs[TABLE_DEGREES[0]]
        for N in TABLE_DEGREES[1:]:
            if tabs[N]["defs"] != t0["defs"] or tabs[N]["idx_bits"] != t0["idx_bits"]:
                raise Unsupported("table variant: the translation at degree %d differs from the one at %d beyond the constant `degree`" % (N, TABLE_DEGREES[0]))
        ib = t0["idx_bits"]
        # validity of the table text: idx_type must be the `ib`-bit type, i.e. 2^(ib/2) <= degree <= 2^ib - 1 for ib = 16
        lo_valid = {8: 1, 16: 2 ** 8, 32: 2 ** 16, 64: 2 ** 32}[ib]
        hi_valid = 2 ** ib - 1
        if limit + 1 < lo_valid:
            raise Unsupported("unroll limit %d: table-variant degrees below %d have a narrower idx_type than the translated one (%d bits)" % (limit, lo_valid, ib))
        if any(N <= limit for N in TABLE_DEGREES) or any(d > limit for d in UNROLL_DEGREES):
            raise Unsupported("unroll limit %d is inconsistent with the instantiated variants" % limit)
    except Unsupported as e:
        msg = "gen_permut_ast: UNSUPPORTED / UNEXPECTED C++ construct, nothing translated: %s" % e
        sys.stderr.write(msg + "\n")
        print(json.dumps({"ok": False, "err": msg}))
        sys.exit(3)

    L = []
    L += [
        "-- GENERATED by tools/gen_permut_ast.py from clang++-14's typed AST of include/nfl/permut.hpp (-DNFL_OPTIMIZED).  Do not edit.",
        "-- Pointers are (array : List Nat, offset : Nat) pairs; one CSem / CSemPermut helper per typed expression node.",
        "import NflVerif.Model.CSem",
        "import NflVerif.Model.CSemPermut",
        "set_option linter.unusedVariables false",
        "namespace Nfl.Gen",
        "open Nfl",
        "",
        "/-! ### unrolled variant (`details::permut<degree, true>`) -/",
        "",
        "/-- `r_loop<H, degree, R, I>::value`  (nfl/permut.hpp:%s  %s ;  base `r_loop<degree, degree, R, I>::value = R`)." % (
            tr.r_var[(1, UNROLL_DEGREES[0], 0, 1)].get("_line"), tr.source_line(tr.r_var[(1, UNROLL_DEGREES[0], 0, 1)])),
        "clang's JSON does not print the dependent template arguments: the step is the one that ALL %d instantiated non-base" % n_step,
        "specialisations (degree %s) follow (%d base cases), checked by the translator; arithmetic in size_t (64 bit)." % (" and ".join(map(str, UNROLL_DEGREES)), n_base),
        "`fuel`: H doubles, so H = degree is reached within 64 steps or never (then C++ does not compile). -/",
        "def permut_r_loop : Nat → Nat → Nat → Nat → Nat → Nat",
        "  | 0, _, _, R, _ => R",
        "  | fuel + 1, H, degree, R, I =>",
        "    if CSem.eqU H degree then R",
        "    else permut_r_loop fuel (CSem.shlU 64 H 1) degree (CSemPermut.orU 64 (CSem.shlU 64 R 1) (CSemPermut.andU 64 I 1)) (CSem.shrU 64 I 1)",
        "",
        "/-- `r_set<I, J, degree>::operator()(y, x)`: `r_set<2*I, 2*J, degree>{}(y, x); r_set<2*I + 1, 2*J, degree>{}(y, x);`,",
        "leaf `r_set<I, degree, degree>`: `constexpr size_t r = r_loop<1, degree, 0u, I>::value; y[r] = x[I];`",
        "(read off the %d instantiated specialisations; identical for the value types %s).  Returns the new content of `y`. -/" % (
            len(tr.r_set_shape), ", ".join(sorted(per_v))),
        "def permut_r_set : Nat → Nat → Nat → Nat → List Nat → Nat → List Nat → Nat → List Nat",
        "  | 0, _, _, _, y, _, _, _ => y",
        "  | fuel + 1, I, J, degree, y, y_o, x, x_o =>",
        "    if CSem.eqU J degree then",
        "      let r := permut_r_loop 64 1 degree 0 I",
        "      CSemPermut.wr y (y_o + r) (CSemPermut.rd x (x_o + I))",
        "    else",
        "      let y := permut_r_set fuel (CSem.mulU 64 2 I) (CSem.mulU 64 2 J) degree y y_o x x_o",
        "      permut_r_set fuel (CSem.addU 64 (CSem.mulU 64 2 I) 1) (CSem.mulU 64 2 J) degree y y_o x x_o",
        "",
        "/-- `details::permut<degree, true>::compute(y, x)`: `r_set<0, 1, degree>{}(y, x);`  (fuel: J doubles from 1) -/",
        "def permut_unrolled (degree : Nat) (y : List Nat) (y_o : Nat) (x : List Nat) (x_o : Nat) : List Nat :=",
        "  permut_r_set 65 0 1 degree y y_o x x_o",
        "",
        "/-- the (destination r, source I) pairs of the stores `y[r] = x[I]` of `permut_r_set` in execution order -/",
        "def permut_pairs_of (fuel I J degree : Nat) : List (Nat × Nat) :=",
        "  match fuel with",
        "  | 0 => []",
        "  | fuel + 1 =>",
        "    if CSem.eqU J degree then [(permut_r_loop 64 1 degree 0 I, I)]",
        "    else permut_pairs_of fuel (CSem.mulU 64 2 I) (CSem.mulU 64 2 J) degree ++",
        "      permut_pairs_of fuel (CSem.addU 64 (CSem.mulU 64 2 I) 1) (CSem.mulU 64 2 J) degree",
        "",
    ]
    for d in UNROLL_DEGREES:
        L += ["/-- degree %d: the (destination r, source I) pairs of the stores in execution order, read from the AST by following the" % d,
              "instantiated calls from `permut<%d,true>::compute` down to the leaves (`r` = the literal at the end of the r_loop chain) -/" % d,
              "def permut_ast_pairs_%d : List (Nat × Nat) :=" % d, "  " + lean_pairs(unrolled[d][0]),
              "/-- the generic recursion reproduces the instantiated call tree of degree %d -/" % d,
              "example : permut_pairs_of 65 0 1 %d = permut_ast_pairs_%d := by decide" % (d, d), ""]
    L += ["/-! ### table variant (`details::permut<degree, false>`, `permut_compute<degree>`)",
          "",
          "Translated at degree %s with `degree` kept symbolic; idx_type = unsigned %d-bit, so the text is valid for" % (" and ".join(map(str, TABLE_DEGREES)), ib),
          "%d ≤ degree ≤ %d (other degrees select another idx_type). -/" % (lo_valid, hi_valid), ""]
    L += ["\n\n".join(t0["defs"]), ""]
    L += [
        "/-- `permut<degree,false>::compute` with the static member `P` constructed (static storage: zero-initialised, then the",
        "constructor) before the call -/",
        "def permut_table (degree : Nat) (y : List Nat) (y_o : Nat) (x : List Nat) (x_o : Nat) : List Nat :=",
        "  permut_table_compute degree (permut_compute_ctor degree (List.replicate degree 0)) y y_o x x_o",
        "",
        "/-! ### `nfl::permut<degree>` -/",
        "",
        "/-- PERMUT_LIMIT_UNROLL as it appears in the instantiated base classes (%s) -/" % ", ".join(
            "permut<%d> : details::permut<%d, %s>" % (N, N, "true" if f else "false") for N, f in sorted(seen.items())),
        "def permut_limit_unroll : Nat := %d" % limit,
        "",
        "/-- `nfl::permut<degree>::compute(y, x)`: the base class `details::permut<degree, degree <= %d>` selects the variant." % limit,
        "Returns the new content of `y`.  Valid for degree ≤ %d (table variant: idx_type = unsigned %d-bit). -/" % (hi_valid, ib),
        "def permut_compute (degree : Nat) (y : List Nat) (y_o : Nat) (x : List Nat) (x_o : Nat) : List Nat :=",
        "  if CSem.leU degree permut_limit_unroll then permut_unrolled degree y y_o x x_o",
        "  else permut_table degree y y_o x x_o",
        "",
        "end Nfl.Gen",
        "",
    ]
    text = "\n".join(L)
    changed = write_if_changed(out, text)
    print(json.dumps({
        "ok": True, "limit_unroll": limit, "dispatch_seen": {str(k): v for k, v in sorted(seen.items())},
        "r_loop_steps_checked": n_step, "r_loop_bases_checked": n_base, "r_set_specialisations_checked": len(tr.r_set_shape),
        "r_set_methods_per_value_type": per_v,
        "unrolled_degrees": UNROLL_DEGREES, "unrolled_value_types": {str(d): unrolled[d][1] for d in UNROLL_DEGREES},
        "table_degrees": TABLE_DEGREES, "table_value_types": t0["value_types"], "idx_type_bits": ib,
        "table_valid_degrees": [max(lo_valid, limit + 1), hi_valid],
        "inner_loop": "CSem.whileFuel, fuel 2^%s (states of the autonomous loop variable h)" % t0["h_bits"],
        "outer_loops": "folds over List.range degree (counter starts at 0, < degree, ++)",
        "int_shl_sites_in_range": t0["shl_sites"],
        "nodes": tr.nodes, "node_kinds": dict(sorted(tr.kinds.items())),
        "sha": hashlib.sha256(text.encode()).hexdigest()[:16], "changed": changed,
        "out": os.path.relpath(out, VERIF), "repo": repo}))


if __name__ == "__main__":
    main()
