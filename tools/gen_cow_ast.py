#!/usr/bin/env python3
"""Translator: clang's typed AST of the copy-on-write handle class nfl::poly_p -> lean/NflVerif/Generated/CowAst.lean

Every member of nfl::poly_p<T,N,M> that the translation unit below instantiates (constructors, poly_obj() const / non-const,
the assignments, detach(), make_pointer<…>, operator()(cm,i), the forwarding setters, the transforms, the arithmetic and
comparison helpers, the manual (de)serialisers, the implicit destructor) becomes ONE Lean step function

    heap x value of this->_p x value of o._p (for a poly_p parameter) x arguments -> Option (heap x _p values x result)

in the vocabulary of lean/NflVerif/Model/SharedPtrSem.lean.  Library calls are accepted BY NAME only:
    std::allocate_shared / std::make_shared -> Sp.allocShared      shared_ptr copy construction   -> Sp.copy
    shared_ptr move construction / std::move -> Sp.move            operator=(const&) / operator=(&&) -> Sp.assignCopy / Sp.assignMove
    unique() / use_count() / get() / reset() -> Sp.unique / Sp.useCount / Sp.get / Sp.reset
    operator* / operator->                   -> Sp.deref           destruction of a member / temporary -> Sp.destroy
    std::forward                             -> identity
Calls into the underlying nfl::poly (copy construction of the pointee = same value; set / set_mpz / mpz2poly / operator= /
transforms / (de)serialize_manually / poly2mpz -> Sp.modify with an abstract VALUE-level function; operator()(cm,i) -> element
reference with an abstract index function; free operators + - * == != and expr::operator bool -> abstract functions of the
operand values) become parameters of the generated function.  Arguments that are only forwarded (scalars, tags, lists,
iterators, streams) are absorbed into these parameters; the translator checks that they ARE plain forwards of the member's own
parameters.  Anything else (node kind, callee, field, storage class, …) stops the translation with a non-zero exit naming it.
Two instantiations (poly_p<uint64_t,8,2>, poly_p<uint32_t,16,1>) must give the same text.
The last line of stdout is a JSON summary.  The output file is rewritten only when its content changes.
Usage: gen_cow_ast.py [--repo DIR] [--out FILE] [--keep]
"""
import hashlib, json, os, re, subprocess, sys

HERE = os.path.dirname(os.path.abspath(__file__))
sys.path.insert(0, HERE)
import gen_ops_ast as G
from gen_ops_ast import Unsupported, fail, parse_objects, annotate, write_if_changed

VERIF = os.path.dirname(HERE)
BUILD = os.path.join(VERIF, "build")
OUT = os.path.join(VERIF, "lean", "NflVerif", "Generated", "CowAst.lean")
CLANG = "clang++-14"
INSTANCES = [("uint64_t", "unsigned long", 8, 2), ("uint32_t", "unsigned int", 16, 1)]

TU = r'''#include "nfl.hpp"
#include <sstream>
#include <vector>
// one use of every member of the handle class that the translator covers (never executed: -fsyntax-only)
template<class P, class G> void nflverif_cow_use(G const* gauss) {
  using T = typename P::value_type;
  using Q = nfl::poly<T, P::degree, P::nmoduli>;
  P d0;                                   // forwarding constructor, no argument
  P d1(T(3));                             // forwarding constructor, scalar
  P d2(nfl::uniform{});                   // forwarding constructor, sampler tag
  Q q;
  P d6(q);                                // forwarding constructor, plain polynomial lvalue
  const P& c0 = d0;
  P d3(c0);                               // poly_p(poly_p const&)
  P d4(d0);                               // poly_p(poly_p&)
  P d5(std::move(d1));                    // poly_p(poly_p&&)
  d3 = c0;                                // copy assignment
  d4 = std::move(d5);                     // move assignment
  d0 = T(5);                              // operator=(O&&), scalar
  d0 = {T(1), T(2)};                      // operator=(initializer_list)
  d0 = c0 + c0;                           // operator=(O&&), expression; operator+(poly_p const&)
  d0 = c0 - c0;
  d0 = c0 * c0;
  d0 = c0 + q;
  d0 = c0 - q;
  d0 = c0 * q;
  (void)d0.poly_obj();
  (void)c0.poly_obj();
  d0(0, 0) = T(1);
  (void)c0(0, 0);
  d0.ntt_pow_phi();
  d0.invntt_pow_invphi();
  std::stringstream ss;
  d0.serialize_manually(ss);
  d0.deserialize_manually(ss);
  d0.set(T(1), true);
  d0.set(nfl::uniform{});
  d0.set(nfl::non_uniform(2));
  d0.set(*gauss);
  d0.set({T(1)}, true);
  std::vector<T> v(1);
  d0.set(v.begin(), v.end(), true);
  d0.set_mpz(mpz_class(1));
  std::array<mpz_t, P::degree> arr;
  d0.poly2mpz(arr);
  d0.mpz2poly(arr);
  (void)(c0 == c0);
  (void)(c0 != c0);
  (void)(c0 == q);
  (void)(c0 != q);
}
'''

# name part of the generated definition for a member
MEMBER_NAMES = {"operator=": "assign", "operator()": "call", "operator==": "eq", "operator!=": "ne", "operator+": "add",
                "operator-": "sub", "operator*": "mul"}
# nfl::poly members called on the pointee: all become Sp.modify with an abstract value-level function of this name
POLY_MODIFY = {"set": "poly_set", "set_mpz": "poly_set_mpz", "mpz2poly": "poly_mpz2poly", "operator=": "poly_assign",
               "ntt_pow_phi": "poly_ntt_pow_phi", "invntt_pow_invphi": "poly_invntt_pow_invphi",
               "serialize_manually": "poly_serialize_manually", "deserialize_manually": "poly_deserialize_manually",
               "poly2mpz": "poly_poly2mpz"}
POLY_FREE = {"operator+": "poly_add", "operator-": "poly_sub", "operator*": "poly_mul", "operator==": "poly_eq",
             "operator!=": "poly_ne"}
PASS_KINDS = ("ParenExpr",)


ALIASES = {}     # class-local typedef name -> desugared type, read from the TypedefDecl / TypeAliasDecl children of the instantiation


def qt(n):
    t = n.get("type") or {}
    s = t.get("desugaredQualType", t.get("qualType", ""))
    # a class-local alias that clang left unresolved (e.g. `const nfl::poly_p<unsigned long, 8, 2>::poly_type &`)
    return re.sub(r"nfl::poly_p<[^<>]*>::([A-Za-z_]\w*)", lambda m: ALIASES.get(m.group(1), m.group(0)), s)


def strip_cv_ref(s):
    s = s.strip()
    s = re.sub(r"\s*&&?$", "", s).strip()
    s = re.sub(r"^const\s+", "", s)
    s = re.sub(r"\s+const$", "", s)
    return s.strip()


class Fn:
    """one member function of one instantiation"""

    def __init__(self, tr, decl, name):
        self.tr, self.decl, self.name = tr, decl, name
        self.lines = []
        self.abstract = []          # (lean name, lean type, doc)
        self.tyvars = []
        self.handles = []           # state variables after `h`: "this", then poly_p parameters
        self.vparams = []           # (lean name, lean type)
        self.env = {}               # decl id -> python value
        self.ntmp = 0
        self.temps = []             # shared_ptr temporaries materialised in the current full-expression
        self.distinct = False       # inside `if (this != &o)`
        self.result_ty = None
        self.nodes = 0
        self.is_ctor = decl.get("kind") == "CXXConstructorDecl"
        self.is_dtor = decl.get("kind") == "CXXDestructorDecl"
        self.is_static = decl.get("storageClass") == "static"
        self.done = False
        self.in_progress = False
        self.is_const = "const" in decl.get("type", {}).get("qualType", "").rsplit(")", 1)[-1].split("->")[0]
        self.mutates = not self.is_const

    # ------------------------------------------------------------------ helpers
    def count(self, n):
        self.nodes += 1
        self.tr.kinds[n.get("kind")] = self.tr.kinds.get(n.get("kind"), 0) + 1

    def fresh(self, p):
        self.ntmp += 1
        return "%s%d" % (p, self.ntmp)

    def emit(self, s, ind):
        self.lines.append("  " * ind + s)

    def src(self, n, ind):
        f, l = n.get("_file"), n.get("_line")
        self.emit("-- %s:%s  %s" % (self.tr.short(f), l, self.tr.source_line(f, l)), ind)

    def add_abstract(self, name, ty, doc, tyvar=None):
        for a in self.abstract:
            if a[0] == name:
                if a[1] != ty:
                    raise Unsupported("abstract parameter %s used at two types in %s" % (name, self.name))
                return name
        if tyvar and tyvar not in self.tyvars:
            self.tyvars.append(tyvar)
        self.abstract.append((name, ty, doc))
        return name

    def state(self):
        return ["h"] + [x + "_p" for x in self.handles]

    def state_tuple(self, extra=None):
        parts = self.state() + ([extra] if extra else [])
        return "(" + ", ".join(parts) + ")" if len(parts) > 1 else parts[0]

    # ------------------------------------------------------------------ classification of types
    def is_sp_type(self, s):
        s = strip_cv_ref(s)
        return (s.startswith("std::shared_ptr<") or s.startswith("std::__shared_ptr<") or s.startswith("std::__shared_ptr_access<")
                or s.startswith("shared_ptr<")) and "nfl::poly<" in s

    def is_handle_type(self, s):
        return strip_cv_ref(s).startswith("nfl::poly_p<")

    def is_poly_type(self, s):
        return strip_cv_ref(s).startswith("nfl::poly<")

    # ------------------------------------------------------------------ expressions
    # python values: (kind, payload)
    #   handle name | handleptr name | sp name (the lvalue `<name>._p`) | sptmp var (materialised temporary, lvalue/xvalue)
    #   spx (kind,payload) (xvalue made by std::move) | sppr var (prvalue) | cell leanNat | polyref leanPolyRef
    #   opaque text | nat lean | bool lean | addr lean | elem lean | res lean | alloc
    def expr(self, n, ind):
        k = n.get("kind")
        self.count(n)
        if k in PASS_KINDS:
            return self.expr(n["inner"][0], ind)
        if k == "ExprWithCleanups":
            # temporaries are destroyed by the enclosing full-expression (see full_expr)
            return self.expr(n["inner"][0], ind)
        if k == "CXXBindTemporaryExpr":
            return self.expr(n["inner"][0], ind)
        if k == "MaterializeTemporaryExpr":
            v = self.expr(n["inner"][0], ind)
            if v[0] == "sppr":
                self.temps.append(v[1])
                return ("sptmp", v[1])
            if v[0] in ("res", "opaque"):
                return v
            fail(n, "materialised temporary of kind %s" % v[0])
        if k == "CXXThisExpr":
            if self.is_static:
                fail(n, "`this` in a static member")
            return ("handleptr", "this")
        if k == "DeclRefExpr":
            rd = n.get("referencedDecl", {})
            if rd.get("id") in self.env:
                return self.env[rd["id"]]
            fail(n, "reference to %s %r" % (rd.get("kind"), rd.get("name")))
        if k == "CXXBoolLiteralExpr":
            return ("bool", "true" if n.get("value") else "false")
        if k == "UnaryOperator":
            op = n.get("opcode")
            v = self.expr(n["inner"][0], ind)
            if op == "*" and v[0] == "handleptr":
                return ("handle", v[1])
            if op == "&" and v[0] == "handle":
                return ("handleptr", v[1])
            if op == "!" and v[0] == "bool":
                return ("bool", "!(%s)" % v[1])
            fail(n, "unary operator %r on %s" % (op, v[0]))
        if k == "BinaryOperator":
            op = n.get("opcode")
            a = self.expr(n["inner"][0], ind)
            b = self.expr(n["inner"][1], ind)
            if op in ("==", "!=") and a[0] == "handleptr" and b[0] == "handleptr":
                names = {a[1], b[1]}
                if "this" not in names or len(names) != 2:
                    fail(n, "address comparison of handles")
                other = [x for x in (a[1], b[1]) if x != "this"][0]
                flag = "%s_is_this" % other
                self.need_alias_flag(other)
                return ("bool", flag if op == "==" else "!%s" % flag, ("distinct", other, op == "!="))
            if op in ("==", "!=") and a[0] == "addr" and b[0] == "addr":
                return ("bool", "(%s %s %s)" % (a[1], op, b[1]))
            fail(n, "binary operator %r on %s, %s" % (op, a[0], b[0]))
        if k in ("ImplicitCastExpr", "CXXConstCastExpr", "CXXStaticCastExpr"):
            ck = n.get("castKind")
            if ck in ("NoOp", "UncheckedDerivedToBase", "DerivedToBase"):
                return self.expr(n["inner"][0], ind)
            if ck == "LValueToRValue":
                v = self.expr(n["inner"][0], ind)
                if v[0] in ("nat", "opaque", "bool"):
                    return v
                fail(n, "LValueToRValue of %s" % v[0])
            if ck == "UserDefinedConversion":
                return self.expr(n["inner"][0], ind)
            fail(n, "cast kind %r" % ck)
        if k == "MemberExpr":
            v = self.expr(n["inner"][0], ind)
            if n.get("name") == "_p" and v[0] in ("handle", "handleptr") and bool(n.get("isArrow")) == (v[0] == "handleptr"):
                if not self.is_sp_type(qt(n)):
                    fail(n, "member _p is not a std::shared_ptr<nfl::poly<…>>")
                return ("sp", v[1])
            fail(n, "member %r of %s" % (n.get("name"), v[0]))
        if k == "CXXConstructExpr":
            return self.construct(n, ind)
        if k == "CallExpr":
            return self.call(n, ind)
        if k == "CXXMemberCallExpr":
            return self.member_call(n, ind)
        if k == "CXXOperatorCallExpr":
            return self.op_call(n, ind)
        fail(n, "unknown expression")

    def need_alias_flag(self, other):
        if ("%s_is_this" % other, "Bool") not in self.vparams:
            self.vparams.append(("%s_is_this" % other, "Bool"))

    def check_mutable(self, n, name):
        """a write to `<name>._p`: the other handle of the function must be known to be a different object"""
        others = [x for x in self.handles if x != name]
        if others and not (self.distinct or self.is_ctor):
            fail(n, "write to %s._p where %s may be the same object (only translated under `this != &o` or in a constructor)" % (name, others[0]))

    def read_val(self, v, n, ind):
        """Lean variable holding the current value of the polynomial a poly lvalue designates"""
        x = self.fresh("v")
        if v[0] == "cell":
            self.emit("let %s ← Sp.cellVal h %s" % (x, v[1]), ind)
        elif v[0] == "polyref":
            self.emit("let %s ← Sp.readRef h %s" % (x, v[1]), ind)
        else:
            fail(n, "value of %s" % v[0])
        return x

    def construct(self, n, ind):
        t = qt(n)
        args = [c for c in n.get("inner", []) if c.get("kind")]
        if self.is_sp_type(t):
            ct = n.get("ctorType", {}).get("qualType", "")
            if len(args) != 1:
                fail(n, "std::shared_ptr constructor with %d arguments (%s)" % (len(args), ct))
            a = self.expr(args[0], ind)
            if a[0] in ("sp",) and "const std::shared_ptr<" in ct and "&&" not in ct:
                x = self.fresh("t")
                self.emit("let (h, %s) ← Sp.copy h %s_p" % (x, a[1]), ind)
                return ("sppr", x)
            if a[0] == "spx" and "&&" in ct:
                return self.move_from(a, n, ind)
            fail(n, "std::shared_ptr constructor %s from %s" % (ct, a[0]))
        if strip_cv_ref(t).startswith("aligned_allocator<") or strip_cv_ref(t).startswith("nfl::aligned_allocator<"):
            if args:
                fail(n, "allocator constructed with arguments")
            return ("alloc", None)
        # copies of forwarded arguments (initializer_list, iterators)
        if len(args) == 1:
            a = self.expr(args[0], ind)
            if a[0] == "opaque":
                return a
        fail(n, "construction of %s" % t)

    def move_from(self, a, n, ind):
        """new shared_ptr object move-constructed from the xvalue a"""
        src = a[1]
        x = self.fresh("t")
        if src[0] == "sp":
            self.check_mutable(n, src[1])
            self.emit("let (%s, %s_p) := Sp.move %s_p" % (x, src[1], src[1]), ind)
        elif src[0] == "sptmp":
            self.emit("let (%s, %s) := Sp.move %s" % (x, src[1], src[1]), ind)
        else:
            fail(n, "move from %s" % src[0])
        return ("sppr", x)

    def callee_ref(self, n):
        c = n["inner"][0]
        if not (c.get("kind") == "ImplicitCastExpr" and c.get("castKind") == "FunctionToPointerDecay" and c["inner"][0].get("kind") == "DeclRefExpr"):
            fail(c, "callee")
        self.count(c)
        self.count(c["inner"][0])
        return c["inner"][0]

    def fwd_args(self, args, ind, what):
        """arguments that are only forwarded into an abstract poly-level operation"""
        names = []
        for a in args:
            v = self.expr(a, ind)
            if v[0] not in ("opaque", "nat", "bool"):
                fail(a, "argument of %s is %s, not a forwarded parameter" % (what, v[0]))
            names.append(v[1])
        return names

    def call(self, n, ind):
        ref = self.callee_ref(n)
        rd = ref.get("referencedDecl", {})
        name = rd.get("name")
        args = n["inner"][1:]
        rtype = ref.get("type", {}).get("qualType", "")
        if name in ("move", "forward") and rd.get("kind") == "FunctionDecl":
            if "std::remove_reference" not in rtype or len(args) != 1:
                fail(n, "call of %s that is not std::%s" % (name, name))
            v = self.expr(args[0], ind)
            if name == "forward":
                return v
            if v[0] in ("sp", "sptmp"):
                return ("spx", v)
            if v[0] in ("opaque", "handle"):
                if v[0] == "handle":
                    fail(n, "std::move of a handle")
                return v
            fail(n, "std::move of %s" % v[0])
        if name in ("allocate_shared", "make_shared") and rd.get("kind") == "FunctionDecl":
            if "nfl::poly<" not in qt(n) or "shared_ptr<" not in qt(n):
                fail(n, "std::%s of something that is not nfl::poly" % name)
            if name == "allocate_shared":
                if not args:
                    fail(n, "allocate_shared without allocator")
                a0 = self.expr(args[0], ind)
                if a0[0] != "alloc":
                    fail(args[0], "first argument of allocate_shared is not the aligned_allocator object")
                args = args[1:]
            vals = [self.expr(a, ind) for a in args]
            x = self.fresh("t")
            if len(vals) == 1 and vals[0][0] in ("cell", "polyref"):
                v = self.read_val(vals[0], n, ind)
                self.emit("-- copy construction of the pointee: same value", ind)
            else:
                for a, vv in zip(args, vals):
                    if vv[0] not in ("opaque", "nat", "bool"):
                        fail(a, "constructor argument of the pointee is %s" % vv[0])
                v = self.add_abstract("poly_ctor", "Val", "value of `poly(args…)` built by std::%s" % name)
                self.emit("-- pointee constructed as poly(%s)" % ", ".join(vv[1] for vv in vals), ind)
            self.emit("let (h, %s) := Sp.allocShared h %s" % (x, v), ind)
            return ("sppr", x)
        if rd.get("id") in self.tr.fn_by_id:
            return self.internal_call(n, self.tr.fn_by_id[rd["id"]], None, args, ind)
        fail(n, "call of %s %r (not in the table)" % (rd.get("kind"), name))

    def internal_call(self, n, callee, obj, args, ind):
        callee.translate()
        vals = [self.expr(a, ind) for a in args]
        if obj is None and not callee.is_static:
            fail(n, "non-static member called without object")
        for a in callee.abstract:
            self.add_abstract(a[0], a[1], a[2])
        for tv in callee.tyvars:
            if tv not in self.tyvars:
                self.tyvars.append(tv)
        if len(callee.handles) > (0 if callee.is_static else 1):
            fail(n, "internal call of a member with a poly_p parameter")
        largs = ["h"]
        if not callee.is_static:
            if obj not in self.handles:
                fail(n, "object of the call")
            largs.append(obj + "_p")
        if len(vals) != len(callee.vparams):
            fail(n, "argument count of internal call to %s" % callee.name)
        for v, (pn, pt) in zip(vals, callee.vparams):
            if pt == "Sp.PolyRef" and v[0] == "cell":
                largs.append("(.cell %s)" % v[1])
            elif pt == "Sp.PolyRef" and v[0] == "polyref":
                largs.append(v[1])
            elif pt == "Nat" and v[0] == "nat":
                largs.append(v[1])
            elif pt == "Unit" and v[0] in ("opaque", "bool", "nat"):
                largs.append("()")
            else:
                fail(n, "argument %s for parameter %s : %s of %s" % (v[0], pn, pt, callee.name))
        outs = ["h"] + ([] if callee.is_static else [obj + "_p" if callee.mutates else "_"])
        if obj is not None and callee.mutates:
            self.check_mutable(n, obj)
        res = None
        if callee.result_ty:
            res = self.fresh({"Nat": "q", "Sp.Ptr": "t", "Bool": "b", "Sp.ElemRef": "r"}.get(callee.result_ty, "x"))
            outs.append(res)
        call = " ".join([callee.name] + [a[0] for a in callee.abstract] + largs)
        self.emit("let %s ← %s" % ("(" + ", ".join(outs) + ")" if len(outs) > 1 else outs[0], call), ind)
        if res is None:
            return ("void", None)
        return {"Nat": ("cell", res), "Sp.Ptr": ("sppr", res), "Bool": ("bool", res), "Sp.ElemRef": ("elem", res)}.get(callee.result_ty, ("res", res))

    def member_call(self, n, ind):
        me = n["inner"][0]
        if me.get("kind") != "MemberExpr":
            fail(me, "callee of member call")
        self.count(me)
        mname = me.get("name")
        base = self.expr(me["inner"][0], ind)
        args = n["inner"][1:]
        mid = me.get("referencedMemberDecl")
        if base[0] in ("handle", "handleptr"):
            if bool(me.get("isArrow")) != (base[0] == "handleptr"):
                fail(me, "arrow / dot on handle")
            callee = self.tr.fn_by_id.get(mid)
            if callee is None:
                fail(n, "call of poly_p member %r that is not among the translated members" % mname)
            return self.internal_call(n, callee, base[1], args, ind)
        if base[0] in ("sp", "sptmp"):
            var = base[1] + "_p" if base[0] == "sp" else base[1]
            if not self.is_sp_type(qt(me["inner"][0])):
                fail(me, "object of shared_ptr member call")
            if mname == "unique" and not args:
                return ("bool", "Sp.unique h %s" % var)
            if mname == "use_count" and not args:
                return ("nat", "Sp.useCount h %s" % var)
            if mname == "get" and not args:
                return ("addr", "Sp.get %s" % var)
            if mname == "reset" and not args and base[0] == "sp":
                self.check_mutable(n, base[1])
                self.emit("let (h, %s) ← Sp.reset h %s" % (var, var), ind)
                return ("void", None)
            fail(n, "std::shared_ptr member %r (not in the table)" % mname)
        if base[0] == "cellptr":
            # `_p->member(…)`: the pointer returned by shared_ptr::operator-> (`_p` was checked to be a shared_ptr<nfl::poly<…>>)
            if not me.get("isArrow"):
                fail(me, "pointer used without ->")
            base = ("cell", base[1])
        elif base[0] in ("cell", "polyref") and (me.get("isArrow") or not self.is_poly_type(qt(me["inner"][0]))):
            fail(me, "object of the call is not an nfl::poly lvalue")
        if base[0] in ("cell", "polyref"):
            if mname in POLY_MODIFY:
                if base[0] != "cell":
                    fail(n, "non-const poly member on a polynomial outside the heap")
                fw = self.fwd_args(args, ind, "poly::" + mname)
                f = self.add_abstract(POLY_MODIFY[mname], "Val → Val", "value-level meaning of `poly::%s(…)`" % mname)
                self.emit("-- poly::%s(%s) on the pointee" % (mname, ", ".join(fw)), ind)
                self.emit("let h ← Sp.modify h %s %s" % (base[1], f), ind)
                return ("void", None)
            fail(n, "nfl::poly member %r (not in the table)" % mname)
        if base[0] == "res" and mname == "operator bool" and not args:
            if "nfl::ops::expr<" not in qt(me["inner"][0]):
                fail(me, "operator bool of something that is not an nfl::ops::expr")
            f = self.add_abstract("expr_bool", "R → Bool", "`nfl::ops::expr<…>::operator bool()` of the expression object", "R")
            return ("bool", "%s %s" % (f, base[1]))
        fail(n, "member call %r on %s" % (mname, base[0]))

    def op_call(self, n, ind):
        ref = self.callee_ref(n)
        rd = ref.get("referencedDecl", {})
        name = rd.get("name")
        args = n["inner"][1:]
        a0 = self.expr(args[0], ind)
        if a0[0] == "sp":
            if name == "operator=" and len(args) == 2:
                ct = ref.get("type", {}).get("qualType", "")
                b = self.expr(args[1], ind)
                self.check_mutable(n, a0[1])
                dst = a0[1] + "_p"
                if b[0] == "sp" and "(const std::shared_ptr<" in ct:
                    self.emit("let (h, %s) ← Sp.assignCopy h %s %s_p" % (dst, dst, b[1]), ind)
                    return ("sp", a0[1])
                if b[0] in ("spx", "sptmp") and "&&)" in ct:
                    s = b[1] if b[0] == "spx" else b
                    if s[0] == "sp":
                        self.check_mutable(n, s[1])
                        sv = s[1] + "_p"
                    else:
                        sv = s[1]
                    self.emit("let (h, %s, %s) ← Sp.assignMove h %s %s" % (dst, sv, dst, sv), ind)
                    return ("sp", a0[1])
                fail(n, "std::shared_ptr assignment %s from %s" % (ct, b[0]))
            if name in ("operator*", "operator->") and len(args) == 1:
                q = self.fresh("q")
                self.emit("let %s ← Sp.deref %s_p" % (q, a0[1]), ind)
                return ("cell", q) if name == "operator*" else ("cellptr", q)
            fail(n, "std::shared_ptr operator %r (not in the table)" % name)
        if a0[0] in ("cell", "polyref"):
            if not self.is_poly_type(qt(args[0])):
                fail(args[0], "operand is not an nfl::poly")
            if rd.get("kind") == "CXXMethodDecl" and name == "operator=" and len(args) == 2:
                if a0[0] != "cell":
                    fail(n, "assignment to a polynomial outside the heap")
                b = self.expr(args[1], ind)
                if b[0] == "res":
                    self.emit("-- poly::operator=(expression): the operands were read when the expression was built", ind)
                    f = self.add_abstract("poly_assign_expr", "R → Val → Val", "value-level meaning of `poly::operator=(expr)`", "R")
                    self.emit("let h ← Sp.modify h %s (%s %s)" % (a0[1], f, b[1]), ind)
                    return ("void", None)
                if b[0] not in ("opaque", "nat", "bool"):
                    fail(args[1], "right-hand side of poly::operator= is %s" % b[0])
                f = self.add_abstract("poly_assign", "Val → Val", "value-level meaning of `poly::operator=(…)`")
                self.emit("-- poly::operator=(%s) on the pointee" % b[1], ind)
                self.emit("let h ← Sp.modify h %s %s" % (a0[1], f), ind)
                return ("void", None)
            if rd.get("kind") == "CXXMethodDecl" and name == "operator()" and len(args) == 3:
                if a0[0] != "cell":
                    fail(n, "element access on a polynomial outside the heap")
                cm, i = self.expr(args[1], ind), self.expr(args[2], ind)
                if cm[0] != "nat" or i[0] != "nat":
                    fail(n, "indices of poly::operator()")
                f = self.add_abstract("poly_index", "Nat → Nat → Nat", "flat index of `poly::operator()(cm, i)`")
                return ("elem", "(⟨%s, %s %s %s⟩ : Sp.ElemRef)" % (a0[1], f, cm[1], i[1]))
            if rd.get("kind") == "FunctionDecl" and name in POLY_FREE and len(args) == 2:
                b = self.expr(args[1], ind)
                if b[0] not in ("cell", "polyref") or not self.is_poly_type(qt(args[1])):
                    fail(args[1], "second operand of %s" % name)
                va = self.read_val(a0, n, ind)
                vb = self.read_val(b, n, ind)
                f = self.add_abstract(POLY_FREE[name], "Val → Val → R", "`nfl::%s(poly const&, poly const&)` (expression object) as a function of the operand values" % name, "R")
                return ("res", "(%s %s %s)" % (f, va, vb))
            fail(n, "operator %r on an nfl::poly (not in the table)" % name)
        if a0[0] == "handle":
            callee = self.tr.fn_by_id.get(rd.get("id"))
            if callee is None:
                fail(n, "poly_p operator %r that is not among the translated members" % name)
            return self.internal_call(n, callee, a0[1], args[1:], ind)
        fail(n, "operator call %r on %s" % (name, a0[0]))

    # ------------------------------------------------------------------ statements
    def end_full_expr(self, ind):
        for t in reversed(self.temps):
            self.emit("let h ← Sp.destroy h %s   -- end of the full-expression: the temporary is destroyed" % t, ind)
        self.temps = []

    def returns(self, s):
        k = s.get("kind")
        if k == "ReturnStmt":
            return True
        if k == "CompoundStmt":
            inner = s.get("inner", [])
            return bool(inner) and self.returns(inner[-1])
        return False

    def finish(self, ind, res=None):
        self.emit("pure %s" % self.state_tuple(res), ind)

    def stmts(self, lst, ind, tail):
        """tail: True = falling off the end ends the function (emit the final `pure`)"""
        for i, s in enumerate(lst):
            k = s.get("kind")
            self.count(s)
            rest = lst[i + 1:]
            if k == "NullStmt":
                continue
            if k == "CompoundStmt":
                if any(c.get("kind") == "DeclStmt" for c in s.get("inner", [])):
                    fail(s, "nested block with declarations")
                self.stmts(s.get("inner", []) + rest, ind, tail)
                return
            if k == "DeclStmt":
                self.src(s, ind)
                for d in s["inner"]:
                    self.count(d)
                    if d.get("kind") != "VarDecl" or d.get("storageClass"):
                        fail(d, "declaration (storage class %r)" % d.get("storageClass"))
                    init = [c for c in d.get("inner", []) if c.get("kind")]
                    if len(init) != 1:
                        fail(d, "declaration shape")
                    v = self.expr(init[0], ind)
                    if v[0] != "alloc":
                        fail(d, "local variable of type %s (only the aligned_allocator object is translated)" % qt(d))
                    self.env[d["id"]] = v
                continue
            if k == "ReturnStmt":
                if rest:
                    fail(s, "statements after return")
                self.src(s, ind)
                inner = [c for c in s.get("inner", []) if c.get("kind")]
                if not inner:
                    self.end_full_expr(ind)
                    self.set_result(None, s)
                    self.finish(ind)
                    return
                v = self.expr(inner[0], ind)
                self.end_full_expr(ind)
                self.ret_value(v, s, ind)
                return
            if k == "IfStmt":
                parts = s["inner"]
                if s.get("hasInit") or s.get("hasVar") or s.get("isConstexpr") or len(parts) not in (2, 3):
                    fail(s, "if statement shape")
                self.src(s, ind)
                c = self.expr(parts[0], ind)
                if c[0] != "bool" or self.temps:
                    fail(parts[0], "condition")
                dist = len(c) > 2 and c[2][0] == "distinct" and c[2][2]
                if self.returns(parts[1]) and len(parts) == 2:
                    self.emit("if %s then" % c[1], ind)
                    self.branch(parts[1], ind + 1, True, dist)
                    self.emit("else", ind)
                    self.stmts(rest, ind + 1, tail)
                    return
                if any(self.returns(p) for p in parts[1:]):
                    fail(s, "return inside an if/else")
                self.emit("let %s ← (if %s then do" % (self.state_tuple(), c[1]), ind)
                self.branch(parts[1], ind + 2, False, dist)
                self.emit("else do", ind + 1)
                if len(parts) == 3:
                    self.branch(parts[2], ind + 2, False, False)
                else:
                    self.emit("pure %s)" % self.state_tuple(), ind + 2)
                if len(parts) == 3:
                    self.lines[-1] += ")"
                continue
            # expression statement
            self.src(s, ind)
            v = self.expr(s, ind)
            self.nodes -= 1
            if v[0] == "sppr":
                # discarded-value expression: the returned shared_ptr is a temporary of this full-expression
                self.temps.append(v[1])
                v = ("void", None)
            self.end_full_expr(ind)
            if v[0] not in ("void", "sp"):
                fail(s, "expression statement of kind %s" % v[0])
        if tail:
            self.set_result(None, self.decl)
            self.implicit_end(ind)
            self.finish(ind)
        else:
            self.finish(ind)

    def branch(self, s, ind, tail, dist):
        old = self.distinct
        self.distinct = old or bool(dist)
        lst = s.get("inner", []) if s.get("kind") == "CompoundStmt" else [s]
        if s.get("kind") == "CompoundStmt":
            self.count(s)
        self.stmts(lst, ind, tail) if tail else self.stmts_join(lst, ind)
        self.distinct = old

    def stmts_join(self, lst, ind):
        self.stmts(lst, ind, False)

    def implicit_end(self, ind):
        pass

    def set_result(self, ty, n):
        if self.result_ty is None and not getattr(self, "result_set", False):
            self.result_ty, self.result_set = ty, True
        elif self.result_ty != ty:
            fail(n, "two returns of different kinds (%s / %s)" % (self.result_ty, ty))

    def ret_value(self, v, s, ind):
        if v[0] == "handle" and v[1] == "this":
            self.set_result(None, s)
            self.finish(ind)
        elif v[0] == "cell":
            self.set_result("Nat", s)
            self.finish(ind, v[1])
        elif v[0] == "bool":
            self.set_result("Bool", s)
            self.finish(ind, "(%s)" % v[1] if " " in v[1] else v[1])
        elif v[0] == "elem":
            self.set_result("Sp.ElemRef", s)
            self.finish(ind, v[1])
        elif v[0] == "sppr":
            self.set_result("Sp.Ptr", s)
            self.finish(ind, v[1])
        elif v[0] == "res":
            self.set_result("R", s)
            self.finish(ind, v[1])
        else:
            fail(s, "returned value of kind %s" % v[0])

    # ------------------------------------------------------------------ whole member
    def translate(self):
        if self.done:
            return self
        if self.in_progress:
            fail(self.decl, "recursive member")
        self.in_progress = True
        d = self.decl
        self.count(d)
        if d.get("virtual"):
            fail(d, "virtual member")
        if not self.is_static:
            self.handles.append("this")
        seen = set()
        for p in [c for c in d.get("inner", []) if c.get("kind") == "ParmVarDecl"]:
            self.count(p)
            nm = p.get("name")
            if not nm or nm in seen or not re.fullmatch(r"[A-Za-z_][A-Za-z0-9_]*", nm):
                fail(p, "parameter name %r (unnamed or repeated)" % nm)
            seen.add(nm)
            if nm in G.LEAN_KEYWORDS or nm in ("h", "this_p", "o_p", "pure"):
                fail(p, "parameter name %r clashes with a name of the generated Lean text" % nm)
            t = qt(p)
            if self.is_handle_type(t):
                if nm != "o" or len(self.handles) > 1:
                    fail(p, "poly_p parameter (one parameter named `o` is translated)")
                self.handles.append("o")
                self.env[p["id"]] = ("handle", "o")
            elif self.is_poly_type(t):
                if not t.strip().endswith("&"):
                    fail(p, "polynomial passed by value")
                self.vparams.append((nm, "Sp.PolyRef"))
                self.env[p["id"]] = ("polyref", nm)
            elif strip_cv_ref(t) in ("unsigned long", "size_t") and nm in ("cm", "i"):
                self.vparams.append((nm, "Nat"))
                self.env[p["id"]] = ("nat", nm)
            elif self.is_sp_type(t):
                fail(p, "std::shared_ptr parameter")
            else:
                self.vparams.append((nm, "Unit"))
                self.env[p["id"]] = ("opaque", nm)
        body = [c for c in d.get("inner", []) if c.get("kind") == "CompoundStmt"]
        if len(body) != 1:
            fail(d, "member without a body")
        for c in d.get("inner", []):
            if c.get("kind") not in ("ParmVarDecl", "CompoundStmt", "CXXCtorInitializer", "TemplateArgument", "FullComment", "OverrideAttr"):
                fail(c, "unexpected child of the member")
        if self.is_ctor:
            inits = [c for c in d.get("inner", []) if c.get("kind") == "CXXCtorInitializer"]
            done = False
            for ci in inits:
                self.count(ci)
                fld = (ci.get("anyInit") or {}).get("name")
                if fld != "_p" or done:
                    fail(ci, "constructor initialiser for %r" % fld)
                self.src(ci, 1)
                e = [c for c in ci.get("inner", []) if c.get("kind")]
                if len(e) != 1:
                    fail(ci, "initialiser shape")
                v = self.expr(e[0], 1)
                if v[0] != "sppr":
                    fail(ci, "initialiser of _p is %s" % v[0])
                self.emit("let this_p := %s" % v[1], 1)
                self.end_full_expr(1)
                done = True
            if not done:
                self.emit("let this_p := Sp.Ptr.null   -- _p default-initialised", 1)
        self.count(body[0])
        if self.is_dtor:
            self.implicit_end = self.destroy_members
        self.stmts(body[0].get("inner", []), 1, True)
        self.done = True
        self.in_progress = False
        self.tr.fin += 1
        self.finished = self.tr.fin
        return self

    def destroy_members(self, ind):
        self.emit("-- implicit: the members are destroyed in reverse order of declaration", ind)
        for f in reversed(self.tr.fields):
            self.emit("let h ← Sp.destroy h this_p   -- ~shared_ptr() of %s" % f, ind)

    def render(self):
        ins = ["(h : Sp.Heap)"]
        for x in self.handles:
            if x == "this" and self.is_ctor:
                continue
            ins.append("(%s_p : Sp.Ptr)" % x)
        for pn, pt in self.vparams:
            ins.append("(%s : %s)" % (pn, pt))
        outs = ["Sp.Heap"]
        for x in self.handles:
            if x == "this" and self.is_dtor:
                continue
            outs.append("Sp.Ptr")
        if self.result_ty:
            outs.append(self.result_ty)
        ab = ["{%s : Type}" % tv for tv in self.tyvars] + ["(%s : %s)" % (a[0], a[1]) for a in self.abstract]
        doc = ["/-- `nfl::poly_p<T,N,M>::%s`  (%s:%s)." % (self.sig, self.tr.short(self.decl.get("_file")), self.decl.get("_line"))]
        doc.append("    state: " + ", ".join(self.state()) + ("; result: " + self.result_ty if self.result_ty else "") +
                   ("; forwarded only: " + ", ".join(p for p, t in self.vparams if t == "Unit") if any(t == "Unit" for _, t in self.vparams) else ""))
        for a in self.abstract:
            doc.append("    %s : %s" % (a[0], a[2]))
        doc[-1] += " -/"
        lines = list(self.lines)
        if self.is_dtor:
            lines = [l.replace("pure (h, this_p)", "pure h") for l in lines]
        return "\n".join(doc + ["def %s %s :\n    Option (%s) := do" % (self.name, " ".join(ab + ins), " × ".join(outs))] + lines)


class Translator:
    def __init__(self, repo):
        self.repo = repo
        self.kinds = {}
        self.files = {}
        self.fn_by_id = {}
        self.fields = []
        self.fin = 0

    short = G.Translator.short
    source_line = G.Translator.source_line

    def tag(self, p, tname):
        """short, instantiation-independent tag of a parameter type"""
        t = qt(p)
        core = strip_cv_ref(t)
        if core.startswith("nfl::poly_p<"):
            return "rref" if t.endswith("&&") else ("cref" if "const" in t else "ref")
        if core.startswith("nfl::poly<"):
            return "poly"
        if core == tname:
            return "T"
        if core.startswith("nfl::ops::expr<"):
            return "expr"
        if core.startswith("std::initializer_list<"):
            return "list"
        if core.startswith("__gnu_cxx::__normal_iterator<"):
            return "it"
        if core.startswith("nfl::gaussian<"):
            return "gaussian"
        if core.startswith("std::array<"):
            return "array"
        if core.startswith("std::basic_ostream") or core.startswith("std::basic_istream"):
            return "stream"
        core = re.sub(r"<.*", "", core).split("::")[-1]
        core = re.sub(r"[^A-Za-z0-9]", "", core)
        return core or "x"

    def members(self, cls, tname):
        out = []

        def add(m):
            if m.get("isImplicit") and m.get("kind") != "CXXDestructorDecl":
                return
            if not any(x.get("kind") == "CompoundStmt" for x in m.get("inner", [])):
                return
            k = m.get("kind")
            ps = [c for c in m.get("inner", []) if c.get("kind") == "ParmVarDecl"]
            if k == "CXXConstructorDecl":
                base = "ctor"
            elif k == "CXXDestructorDecl":
                base = "dtor"
            else:
                base = MEMBER_NAMES.get(m["name"], m["name"])
                if not re.fullmatch(r"[A-Za-z_][A-Za-z0-9_]*", base):
                    raise Unsupported("member %r has no Lean name (line %s)" % (m["name"], m.get("_line")))
            tags = [self.tag(p, tname) for p in ps if p.get("name") not in ("cm", "i", "reduce_coeffs")]
            name = "_".join([base] + tags)
            if "const" in m.get("type", {}).get("qualType", "").split(")")[-1] and base == "poly_obj":
                name += "_const"
            if base == "call" and "const" in m.get("type", {}).get("qualType", "").split(")")[-1]:
                name += "_const"
            out.append((name, m))
        for m in cls.get("inner", []):
            k = m.get("kind")
            if k in ("CXXMethodDecl", "CXXConstructorDecl", "CXXDestructorDecl"):
                add(m)
            elif k == "FunctionTemplateDecl":
                for s in m.get("inner", []):
                    if s.get("kind") in ("CXXMethodDecl", "CXXConstructorDecl") and any(x.get("kind") == "TemplateArgument" for x in s.get("inner", [])):
                        add(s)
            elif k == "FieldDecl":
                if m.get("name") != "_p" or "shared_ptr<" not in qt(m) or "nfl::poly<" not in qt(m):
                    raise Unsupported("data member %r : %s of poly_p at %s:%s (the handle is translated as exactly one std::shared_ptr<poly> `_p`)"
                                      % (m.get("name"), qt(m), self.short(m.get("_file")), m.get("_line")))
                self.fields.append(m["name"])
            elif k == "VarDecl" and not (m.get("constexpr") or G.is_const(m)):
                raise Unsupported("static data member %r of poly_p at line %s" % (m.get("name"), m.get("_line")))
        return out

    def run(self, cls, tname):
        self.fields = []
        ALIASES.clear()
        for c in cls.get("inner", []):
            if c.get("kind") in ("TypedefDecl", "TypeAliasDecl") and c.get("name"):
                t = c.get("type", {})
                ALIASES[c["name"]] = t.get("desugaredQualType", t.get("qualType", ""))
        ms = self.members(cls, tname)
        if self.fields != ["_p"]:
            raise Unsupported("poly_p has data members %r, expected exactly [_p]" % (self.fields,))
        names = {}
        fns = []
        for name, m in ms:
            fn = Fn(self, m, name)
            if name in names:
                # several instantiations of one member template with the same tag (e.g. operator=(O&&) for different
                # expression types): they must translate to the same text, one copy is kept
                if names[name].decl.get("_line") != m.get("_line"):
                    raise Unsupported("two members map to the Lean name %s (lines %s, %s)" % (name, names[name].decl.get("_line"), m.get("_line")))
                fn.dup_of = names[name]
            else:
                names[name] = fn
            written = m.get("type", {}).get("qualType", "")
            fn.sig = "%s : %s" % (m.get("name"), collapse(re.sub(r"\s+", " ", written)))
            self.fn_by_id[m["id"]] = fn
            fns.append(fn)
        for fn in fns:
            fn.translate()
        keep = []
        for fn in fns:
            d = getattr(fn, "dup_of", None)
            if d is None:
                keep.append(fn)
            elif d.lines != fn.lines or d.abstract != fn.abstract or d.vparams != fn.vparams:
                raise Unsupported("instantiations of the member template at line %s named %s translate differently" % (fn.decl.get("_line"), fn.name))
        return keep


def collapse(s):
    """shorten the template arguments of expression / iterator types in a signature comment"""
    for pre in ("nfl::ops::expr<", "__gnu_cxx::__normal_iterator<", "decltype("):
        i = s.find(pre)
        while i >= 0:
            j, depth = i + len(pre), 1
            op, cl = ("(", ")") if pre.endswith("(") else ("<", ">")
            while j < len(s) and depth:
                depth += (s[j] == op) - (s[j] == cl)
                j += 1
            s = s[:i + len(pre)] + "…" + s[j - 1:]
            i = s.find(pre, i + len(pre))
    return s


def normalise(text, cname, n, m):
    """instantiation-independent form of the signature comments"""
    text = text.replace("nfl::poly_p<%s, %d, %d>" % (cname, n, m), "nfl::poly_p<T, N, M>")
    text = text.replace("nfl::poly<%s, %d, %d>" % (cname, n, m), "nfl::poly<T, N, M>")
    text = text.replace("poly<%s, %d, %d>" % (cname, n, m), "poly<T, N, M>")
    text = text.replace("nfl::poly<%s, %dUL, %dUL>" % (cname, n, m), "nfl::poly<T, N, M>")
    text = re.sub(r"\b%s\b" % re.escape(cname), "T", text)
    text = text.replace("%dUL" % n, "N")
    return text


def clang_ast(repo, tu):
    inc = os.path.join(repo, "include")
    cmd = [CLANG, "-std=gnu++17", "-fsyntax-only", "-DNFL_OPTIMIZED", "-w",
           "-I" + inc, "-I" + os.path.join(inc, "nfl"), "-I" + os.path.join(inc, "nfl", "prng"),
           "-Xclang", "-ast-dump=json", "-Xclang", "-ast-dump-filter=nfl::poly_p", tu]
    r = subprocess.run(cmd, capture_output=True, text=True)
    if r.returncode != 0:
        errs = [l for l in r.stderr.splitlines() if "error:" in l][:6]
        raise SystemExit("gen_cow_ast: clang cannot compile the uses of nfl::poly_p (rc=%d):\n%s" % (r.returncode, "\n".join(errs) or r.stderr[-2000:]))
    return r.stdout


def main():
    repo = os.environ.get("VERIF_REPO", "/repo")
    out = OUT
    if "--repo" in sys.argv:
        repo = sys.argv[sys.argv.index("--repo") + 1]
    if "--out" in sys.argv:
        out = sys.argv[sys.argv.index("--out") + 1]
    repo = os.path.abspath(repo)
    os.makedirs(BUILD, exist_ok=True)
    tu = os.path.join(BUILD, "cow_ast_tu.cpp")
    lines = [TU]
    for t, cn, n, m in INSTANCES:
        lines.append("template void nflverif_cow_use<nfl::poly_p<%s, %d, %d>, nfl::gaussian<uint8_t, %s, 2>>(nfl::gaussian<uint8_t, %s, 2> const*);" % (t, n, m, t, t))
    open(tu, "w").write("\n".join(lines) + "\n")
    txt = clang_ast(repo, tu)
    if "--keep" in sys.argv:
        open(os.path.join(BUILD, "cow_ast_dump.json"), "w").write(txt)
    try:
        objs = parse_objects(txt)
        annotate(objs)
        specs = {}
        for o in objs:
            if o.get("kind") != "ClassTemplateDecl" or o.get("name") != "poly_p":
                continue
            for c in o.get("inner", []):
                if c.get("kind") == "ClassTemplateSpecializationDecl":
                    targs = [a.get("type", {}).get("qualType") or a.get("value") for a in c.get("inner", []) if a.get("kind") == "TemplateArgument"]
                    specs[tuple(str(x) for x in targs)] = c
        texts, summaries = [], []
        for t, cn, n, m in INSTANCES:
            cls = specs.get((cn, str(n), str(m)))
            if cls is None:
                raise Unsupported("no instantiation nfl::poly_p<%s, %d, %d> in the AST" % (cn, n, m))
            tr = Translator(repo)
            fns = tr.run(cls, cn)
            # definition order: as translated (callees complete first)
            fns.sort(key=lambda f: f.finished)
            text = "\n\n".join(normalise(f.render(), cn, n, m) for f in fns)
            texts.append(text)
            summaries.append({"instance": "poly_p<%s,%d,%d>" % (t, n, m), "members": [f.name for f in fns], "nodes": sum(f.nodes for f in fns), "kinds": tr.kinds})
        if texts[0] != texts[1]:
            a, b = texts[0].splitlines(), texts[1].splitlines()
            diff = [(x, y) for x, y in zip(a, b) if x != y][:3]
            raise Unsupported("the two instantiations translate to different text (first differences: %r; %d vs %d lines)" % (diff, len(a), len(b)))
    except Unsupported as e:
        msg = "gen_cow_ast: UNSUPPORTED C++ construct, nothing translated: %s" % e
        sys.stderr.write(msg + "\n")
        print(json.dumps({"ok": False, "err": msg}))
        sys.exit(3)
    head = [
        "-- GENERATED by tools/gen_cow_ast.py from clang++-14's typed AST of include/nfl/poly_p.hpp (members of nfl::poly_p<uint64_t,8,2>,",
        "-- checked to give the same text for nfl::poly_p<uint32_t,16,1>).  Do not edit.",
        "-- One step function per member: heap x `_p` values x arguments -> Option (heap x `_p` values x result); `none` = undefined behaviour.",
        "-- std::shared_ptr / allocate_shared calls are mapped by name to NflVerif/Model/SharedPtrSem.lean; calls into nfl::poly are parameters.",
        "import NflVerif.Model.SharedPtrSem",
        "namespace Nfl.Gen.Cow",
        "open Nfl",
        "open Nfl.Cow (Val)",
        "set_option linter.unusedVariables false   -- parameters that are only forwarded stay in the signatures",
        "",
    ]
    text = "\n".join(head) + "\n" + texts[0] + "\n\nend Nfl.Gen.Cow\n"
    changed = write_if_changed(out, text)
    print(json.dumps({"ok": True, "members": summaries[0]["members"], "n_members": len(summaries[0]["members"]),
                      "nodes": [s["nodes"] for s in summaries], "instances": [s["instance"] for s in summaries],
                      "instances_agree": True, "node_kinds": dict(sorted(summaries[0]["kinds"].items())),
                      "sha": hashlib.sha256(text.encode()).hexdigest()[:16], "changed": changed,
                      "out": os.path.relpath(out, VERIF), "repo": repo}))


if __name__ == "__main__":
    main()
