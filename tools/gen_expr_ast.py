#!/usr/bin/env python3
"""Translator: clang's typed AST of the expression-template EVALUATION machinery of NFLlib ->
lean/NflVerif/Generated/ExprAst.lean

Template machinery is type-level, so it is translated through INSTANTIATIONS: the translation unit contains, per
configuration (serial build: -DNFL_OPTIMIZED; SSE build: -DNFL_OPTIMIZED -msse4.2 -DNTT_SSE; AVX2 build: -DNFL_OPTIMIZED -mavx2 -DNTT_AVX2)
one function `nflverif_<shape>_<k>(d, a0, a1, ...) { d = <expression>; }` per expression shape and polynomial type, `poly c(<expr>)` for the
constructor, `bool(a)` for `poly::operator bool` and `bool(<comparison>)` (a == b, a != b, (a + b) == c) for `expr::operator bool`
THROUGH the expression machinery: `eqmod::operator()<A>` / `neqmod::operator()<A>` are translated from their instantiated bodies (scalar A: the
`bool` converted to A; A = __m128i on uint64_t: GCC's vector compare of 64-bit lanes, Simd.vecEq64 / vecNeq64); the instantiated body of
`operator bool` is translated again with tools/gen_bool_ast.py's translator, must be character for character the definition of
Generated/BoolAst.lean, and that definition is bound to what THIS instantiation resolves (nmoduli / degree through `first_of`,
`simd_mode::elt_count<T>::value`, `is_eqmod<Op>::value` through the base class of the instantiated trait, the `store` and `load<simd_mode>` called;
the local array `tmp` is an object of its own with indeterminate initial contents).  Starting from each such function every callee is translated ON DEMAND
from its instantiated body (the AST gives the resolved callee of every call):
  the operator overloads / `shoup` / `compute_shoup` (poly.hpp, macros of ops.hpp), `ops::make_op`, `_make_op<…>::operator()` (generic and the
  `shoup(mulmod(a,b),c)` specialisation), the `expr` constructor (member-initialiser `args{args...}`), `poly::operator=(expr const&)`,
  `poly::poly(expr const&)`, `poly::operator()(cm,i)`, `poly::load<M>`, `expr::load<M>`, `expr::_load<M,I...>`, `simd::serial/sse::load/store`,
  `poly::operator bool`, `poly::begin/end`.
An `expr` object is the value of its `args` tuple (right-nested product of the operands' values, a `poly` reference = object number), the heap
is explicit (CSemExpr.Mem) — so aliasing of the destination with the leaves is in the translated semantics.
`poly::operator=` is emitted ONCE as `poly_assign` with the callees `E::simd_mode::store` and `expr.load<simd_mode>` as parameters
(every instantiation must give the same text) plus, per instantiation, the binding of these parameters to the resolved callees.
BY NAME (not translated): `std::get<I>` on `expr::args` (I resolved by clang: the translation unit instantiates
`nfl::nflverif_get<I>` wrappers whose bodies refer to the same `std::get` instantiations), the `std::tuple` constructor of references,
`Op{}(x..., cm)` -> the functor already generated in Generated/OpsAst.lean / SimdAst.lean (matched by the C++ qualified name AND source line
in its doc comment), `_mm_load_si128` / `_mm_store_si128`, `std::begin/end` of the member array, `std::find_if(...) != end()`.
DATA: per assignment the expression as written, the resolved type tree with `tag::mode` / `simd_mode::mode` of every node, how many `_make_op`
calls took the fusion specialisation, the mode whose `store` is called and `vector_size`.
Anything else stops the translation (exit 3, node kind / callee and file:line).  Every definition is produced by two instantiations
(two Degree/NbModuli pairs) and the texts must agree.  Last stdout line: JSON summary.
Usage: gen_expr_ast.py [--repo DIR] [--out FILE] [--keep]
"""
import hashlib, json, os, re, subprocess, sys

HERE = os.path.dirname(os.path.abspath(__file__))
sys.path.insert(0, HERE)
import gen_ops_ast as G
from gen_ops_ast import Unsupported, fail, parse_objects, annotate, write_if_changed

VERIF = os.path.dirname(HERE)
BUILD = os.path.join(VERIF, "build")
GEN = os.path.join(VERIF, "lean", "NflVerif", "Generated")
OUT = os.path.join(GEN, "ExprAst.lean")
CLANG = "clang++-14"

# expression shapes: leaves are numbers (parameter a<i>)
SHAPES = [
    ("add", ("add", 0, 1)), ("sub", ("sub", 0, 1)), ("mul", ("mul", 0, 1)),
    ("shoup", ("shoup", ("mul", 0, 1), 2)), ("addmul", ("mul", ("add", 0, 1), 2)),
    ("fma", ("add", 0, ("shoup", ("mul", 1, 2), 3))), ("cs", ("compute_shoup", 0)),
]
# comparison shapes: only converted to bool (`bool(<expr>)` -> expr::operator bool), never assigned
BOOL_SHAPES = [("eq", ("eq", 0, 1)), ("neq", ("neq", 0, 1)), ("addeq", ("eq", ("add", 0, 1), 2))]
ASSIGN_SHAPES = [s[0] for s in SHAPES]
SHAPES = SHAPES + BOOL_SHAPES
POLYS = {"u16": [("uint16_t", 16, 1), ("uint16_t", 32, 2)], "u32": [("uint32_t", 16, 2), ("uint32_t", 32, 1)], "u64": [("uint64_t", 8, 1), ("uint64_t", 16, 3)]}
# (name, flags, assignments, constructions, poly -> bool, expression -> bool)
CONFIGS = [
    ("serial", ["-DNFL_OPTIMIZED"], {"u32": ASSIGN_SHAPES, "u64": ASSIGN_SHAPES}, {"u32": ["add"], "u64": ["add"]}, ["u32", "u64"],
     {"u32": [b[0] for b in BOOL_SHAPES], "u64": [b[0] for b in BOOL_SHAPES]}),
    ("sse", ["-DNFL_OPTIMIZED", "-msse4.2", "-DNTT_SSE"], {"u32": ["add", "sub", "fma"], "u64": ["addmul"]}, {}, [], {"u64": [b[0] for b in BOOL_SHAPES]}),
    ("avx2", ["-DNFL_OPTIMIZED", "-mavx2", "-DNTT_AVX2"], {"u16": ["fma"]}, {}, [], {}),
]
BOOL_AST = os.path.join(GEN, "BoolAst.lean")
CPP_OP = {"add": "(%s + %s)", "sub": "(%s - %s)", "mul": "(%s * %s)", "shoup": "nfl::shoup(%s, %s)", "compute_shoup": "nfl::compute_shoup(%s)",
          "eq": "(%s == %s)", "neq": "(%s != %s)"}
CALLEE_SRC = {"operator+": "add", "operator-": "sub", "operator*": "mul", "shoup": "shoup", "compute_shoup": "compute_shoup",
              "operator==": "eq", "operator!=": "neq"}
TBITS = {"unsigned short": 16, "unsigned int": 32, "unsigned long": 64}
FN_NAMES = ("addmod", "submod", "mulmod", "mulmod_shoup", "shoup", "compute_shoup", "eqmod", "neqmod")
KPARAMS = "(degree nmoduli : Nat) (P Pn : Nat → Nat)"
KARGS = "degree nmoduli P Pn"


def leaves(t):
    return [t] if isinstance(t, int) else sum((leaves(x) for x in t[1:]), [])


def cpp_of(t):
    return "a%d" % t if isinstance(t, int) else CPP_OP[t[0]] % tuple(cpp_of(x) for x in t[1:])


def subexprs(t):
    return [] if isinstance(t, int) else sum((subexprs(x) for x in t[1:]), []) + [t]


def make_tu(cfg):
    name, _, assigns, ctors, pbools, ebools = cfg
    L = ['#include "nfl.hpp"', "#include <utility>", "namespace nfl {",
         "template<size_t I, class Tup> auto nflverif_get(Tup const& t) -> decltype(std::get<I>(t)) { return std::get<I>(t); }",
         "template<class Tup, size_t... I> void nflverif_gets(Tup const& t, std::index_sequence<I...>) { int x[] = { ((void)nflverif_get<I>(t), 0)... }; (void)x; }",
         "template<class E> void nflverif_getall(E const& e) { nflverif_gets(e.args, std::make_index_sequence<std::tuple_size<decltype(e.args)>::value>{}); }",
         "}"]
    shapes = dict(SHAPES)
    for tk, plist in POLYS.items():
        for k, (t, deg, nm) in enumerate(plist):
            p = "nfl::poly<%s, %d, %d>" % (t, deg, nm)
            for sh in assigns.get(tk, []):
                tree = shapes[sh]
                n = len(set(leaves(tree)))
                ps = ", ".join("%s const& a%d" % (p, i) for i in range(n))
                L.append("void nflverif_assign_%s_%s_%d(%s& d, %s) { d = %s; }" % (sh, tk, k, p, ps, cpp_of(tree)))
                L.append("void nflverif_gets_%s_%s_%d(%s) { %s }" % (sh, tk, k, ps, " ".join("nfl::nflverif_getall(%s);" % cpp_of(s) for s in subexprs(tree))))
            for sh in ctors.get(tk, []):
                tree = shapes[sh]
                n = len(set(leaves(tree)))
                ps = ", ".join("%s const& a%d" % (p, i) for i in range(n))
                L.append("void nflverif_construct_%s_%s_%d(%s) { %s c(%s); }" % (sh, tk, k, ps, p, cpp_of(tree)))
            if tk in pbools:
                L.append("bool nflverif_tobool_%s_%d(%s const& a0) { return bool(a0); }" % (tk, k, p))
            for sh in ebools.get(tk, []):
                tree = shapes[sh]
                n = len(set(leaves(tree)))
                ps = ", ".join("%s const& a%d" % (p, i) for i in range(n))
                L.append("bool nflverif_tobool_%s_%s_%d(%s) { return bool(%s); }" % (sh, tk, k, ps, cpp_of(tree)))
                # class constants of the expression = those of the polynomial type (checked by the compiler; the translator also resolves them from the AST)
                L.append("void nflverif_gets_tobool_%s_%s_%d(%s) { %s static_assert(decltype(%s)::degree == %d && decltype(%s)::nmoduli == %d, \"shape\"); }" % (
                    sh, tk, k, ps, " ".join("nfl::nflverif_getall(%s);" % cpp_of(x) for x in subexprs(tree)), cpp_of(tree), deg, cpp_of(tree), nm))
    return "\n".join(L) + "\n"


# ------------------------------------------------------------------------------------------------ C++ type strings
def split_targs(s):
    out, depth, cur = [], 0, ""
    for ch in s:
        if ch == "<":
            depth += 1
        elif ch == ">":
            depth -= 1
        if ch == "," and depth == 0:
            out.append(cur.strip()); cur = ""
        else:
            cur += ch
    if cur.strip():
        out.append(cur.strip())
    return out


def parse_type(s):
    s = s.strip()
    s = re.sub(r"^(const|struct|class)\s+", "", s)
    s = re.sub(r"\s*(const)?\s*[&*]*\s*(const)?$", "", s).strip()
    s = re.sub(r"^(const)\s+", "", s)
    if "<" in s:
        i = s.index("<")
        if not s.endswith(">"):
            raise Unsupported("type string %r" % s)
        return (s[:i].split("::")[-1], [parse_type(a) for a in split_targs(s[i + 1:-1])])
    m = re.fullmatch(r"(\d+)(UL|L|U)?", s)
    if m:
        return (m.group(1), [])
    s = {"uint16_t": "unsigned short", "uint32_t": "unsigned int", "uint64_t": "unsigned long"}.get(s, s)
    return (s if s in TBITS else s.split("::")[-1], [])


class OT:
    """object type: poly<T,deg,nm> or expr<Op<T,tag>,args...>"""

    def __init__(self, p, where):
        name, args = p
        if name == "poly" and len(args) == 3 and args[0][0] in TBITS:
            self.kind, self.T, self.deg, self.nm, self.args = "poly", args[0][0], int(args[1][0]), int(args[2][0]), []
        elif name == "expr" and len(args) >= 2 and args[0][0] in FN_NAMES and len(args[0][1]) == 2 and args[0][1][0][0] in TBITS:
            self.kind, self.op, self.T, self.tag = "expr", args[0][0], args[0][1][0][0], args[0][1][1][0]
            self.args = [OT(a, where) for a in args[1:]]
            if not 1 <= len(self.args) <= 3:
                fail(where, "expr with %d operands" % len(self.args))
        else:
            fail(where, "object type %r" % (p,))

    def lean(self):
        if self.kind == "poly":
            return "Nat"
        if len(self.args) == 1:
            return self.args[0].lean()
        return "(" + " × ".join(a.lean() for a in self.args) + ")"

    def key(self, top=True):
        if self.kind == "poly":
            return "P"
        k = "%s_%s_of_%s" % (self.op, self.tag, "_".join(a.key(False) for a in self.args))
        return k if top else "L" + k + "R"

    def polys(self):
        return [(self.T, self.deg, self.nm)] if self.kind == "poly" else sum((a.polys() for a in self.args), [])

    def proj(self, v, i):
        n = len(self.args)
        if n == 1:
            return v
        return "%s%s" % (v, ".2" * i + (".1" if i < n - 1 else ""))


def dq(n):
    t = n.get("type") or {}
    return t.get("desugaredQualType", t.get("qualType", ""))


def tsuf(T):
    return "u%d" % TBITS[T]


class Val:
    def __init__(self, kind, text, ot=None, bits=None):
        self.kind, self.text, self.ot, self.bits = kind, text, ot, bits   # kind: nat obj ptr val reg bool this mem


def paren(s):
    return s if re.fullmatch(r"[\w.]+", s) else "(" + s + ")"


class Tr:
    short = G.Translator.short
    source_line = G.Translator.source_line

    def __init__(self, repo, cfg, byid, defs, functors):
        self.repo, self.cfg, self.byid, self.defs, self.functors = repo, cfg, byid, defs, functors
        self.files = {}
        self.memo = {}           # decl id -> info dict
        self.nodes, self.kinds = 0, {}
        self.getidx = {}
        self.align_sites = set()
        self.generic_assign = None
        self.fc = 0
        self.modes = {}
        self.scan()

    # ------------------------------------------------------------------ helpers
    def count(self, n):
        self.nodes += 1
        self.kinds[n.get("kind")] = self.kinds.get(n.get("kind"), 0) + 1

    def src(self, n):
        f, l = n.get("_file"), n.get("_line")
        return "%s:%s  %s" % (self.short(f), l, self.source_line(f, l))

    def emit(self, name, text):
        old = self.defs.get(name)
        if old is not None and old[0] != text:
            a, b = old[0].splitlines(), text.splitlines()
            d = [(x, y) for x, y in zip(a, b) if x != y][:2]
            raise Unsupported("two instantiations translate `%s` to different text (%s vs %s): %r" % (name, old[1], self.cfg[0], d or (len(a), len(b))))
        if old is None:
            self.defs[name] = (text, self.cfg[0], 1)
        else:
            self.defs[name] = (old[0], old[1], old[2] + 1)

    def scan(self):
        """std::get instantiations (through the nflverif_get wrappers); simd::X::mode constants"""
        for n in self.byid.values():
            if n.get("kind") == "FunctionDecl" and n.get("name") == "nflverif_get" and (n.get("_parent") or {}).get("kind") == "FunctionTemplateDecl":
                targs = [c for c in n.get("inner", []) if c.get("kind") == "TemplateArgument"]
                body = [c for c in n.get("inner", []) if c.get("kind") == "CompoundStmt"]
                if not body or not targs or "value" not in targs[0]:
                    continue
                refs = []
                def walk(x):
                    if x.get("kind") == "DeclRefExpr" and x.get("referencedDecl", {}).get("name") == "get":
                        refs.append(x["referencedDecl"]["id"])
                    for c in x.get("inner", []):
                        if isinstance(c, dict):
                            walk(c)
                walk(body[0])
                if len(refs) != 1:
                    fail(n, "nflverif_get wrapper does not contain exactly one std::get")
                i = int(targs[0]["value"])
                if self.getidx.get(refs[0], i) != i:
                    fail(n, "one std::get instantiation with two indices")
                self.getidx[refs[0]] = i
            if n.get("kind") == "VarDecl" and n.get("name") == "mode" and (n.get("_parent") or {}).get("kind") == "CXXRecordDecl":
                init = [c for c in n.get("inner", []) if c.get("kind") == "IntegerLiteral"]
                if init:
                    self.modes[n["_parent"].get("name")] = int(init[0]["value"])

    def body_of(self, d):
        b = [c for c in d.get("inner", []) if c.get("kind") == "CompoundStmt"]
        if len(b) != 1:
            fail(d, "function %r has no body in the AST" % d.get("name"))
        self.count(d); self.count(b[0])
        return b[0]

    def params_of(self, d):
        ps = [c for c in d.get("inner", []) if c.get("kind") == "ParmVarDecl"]
        for p in ps:
            self.count(p)
        return ps

    def single_return(self, d):
        b = self.body_of(d)
        st = b.get("inner", [])
        if len(st) != 1 or st[0].get("kind") != "ReturnStmt" or len(st[0].get("inner", [])) != 1:
            fail(b, "body of %r is not a single `return e;`" % d.get("name"))
        self.count(st[0])
        return st[0]["inner"][0]

    def owner(self, d):
        """(class/namespace kind, name, node) owning a function decl (through its FunctionTemplateDecl if any)"""
        p = d.get("_parent") or {}
        if p.get("kind") == "FunctionTemplateDecl":
            p = p.get("_parent") or {}
        return p

    def class_ot(self, cls, where):
        """object type of a ClassTemplateSpecializationDecl of poly / expr from its template arguments"""
        def targ(a):
            if "value" in a:
                return str(a["value"])
            inner = [c for c in a.get("inner", []) if c.get("kind") == "TemplateArgument"]
            if inner and not a.get("type"):
                return [targ(x) for x in inner]
            return a.get("type", {}).get("qualType", "")
        flat = []
        for a in cls.get("inner", []):
            if a.get("kind") == "TemplateArgument":
                v = targ(a)
                flat += v if isinstance(v, list) else [v]
        return OT(parse_type("%s<%s>" % (cls.get("name"), ", ".join(flat))), where)

    def skip(self, n):
        """look through wrappers that do not change the value"""
        while True:
            k = n.get("kind")
            if k in ("ExprWithCleanups", "MaterializeTemporaryExpr", "CXXBindTemporaryExpr", "ParenExpr", "ConstantExpr") or \
                    (k == "ImplicitCastExpr" and n.get("castKind") == "NoOp") or (k == "CXXFunctionalCastExpr" and n.get("castKind") == "NoOp" and False):
                self.count(n)
                n = n["inner"][0]
            else:
                return n

    def callee(self, n):
        """referenced function of a CallExpr / CXXOperatorCallExpr (first child: FunctionToPointerDecay of a DeclRefExpr)"""
        c = n["inner"][0]
        if c.get("kind") != "ImplicitCastExpr" or c.get("castKind") != "FunctionToPointerDecay" or c["inner"][0].get("kind") != "DeclRefExpr":
            fail(n, "callee is not a direct function reference")
        self.count(c); self.count(c["inner"][0])
        return c["inner"][0]["referencedDecl"]

    def decl(self, rid, where, what):
        d = self.byid.get(rid)
        if d is None or not any(c.get("kind") == "CompoundStmt" for c in d.get("inner", [])):
            fail(where, "callee %s has no instantiated body in the AST" % what)
        return d

    # ------------------------------------------------------------------ size_t expressions
    def nat(self, n, env):
        k = n.get("kind")
        self.count(n)
        if k in ("ParenExpr", "ConstantExpr"):
            return self.nat(n["inner"][0], env)
        if k == "IntegerLiteral":
            return n["value"]
        if k == "ImplicitCastExpr" and n.get("castKind") in ("LValueToRValue", "IntegralCast"):
            if n.get("castKind") == "IntegralCast" and not (dq(n) in ("unsigned long", "const unsigned long") and n["inner"][0].get("kind") in ("IntegerLiteral",)):
                fail(n, "integral cast to %s of a non-literal" % dq(n))
            return self.nat(n["inner"][0], env)
        if k == "DeclRefExpr":
            rd = n["referencedDecl"]
            if rd["id"] in env:
                v = env[rd["id"]]
                if v.kind != "nat":
                    fail(n, "%r is not a size_t here" % rd.get("name"))
                return v.text
            if rd.get("kind") == "VarDecl" and rd.get("name") in ("degree", "nmoduli") and rd.get("type", {}).get("qualType", "").startswith("const "):
                own = (self.byid.get(rd["id"]) or {}).get("_parent") or {}
                if own.get("name") != "poly":
                    fail(n, "constant %s of class %r" % (rd.get("name"), own.get("name")))
                return rd["name"]
            fail(n, "reference to %s %r" % (rd.get("kind"), rd.get("name")))
        if k == "BinaryOperator" and n.get("opcode") in ("*", "/", "+") and dq(n) == "unsigned long":
            a, b = self.nat(n["inner"][0], env), self.nat(n["inner"][1], env)
            return "CSem.%s 64 %s %s" % ({"*": "mulU", "/": "divU", "+": "addU"}[n["opcode"]], paren(a), paren(b))
        if k == "UnaryExprOrTypeTraitExpr" and n.get("name") == "sizeof":
            t = (n.get("argType") or {}).get("desugaredQualType", (n.get("argType") or {}).get("qualType", ""))
            if t not in TBITS:
                fail(n, "sizeof(%s)" % t)
            return str(TBITS[t] // 8)
        fail(n, "unknown size_t expression")

    def cond(self, n, env):
        self.count(n)
        if n.get("kind") == "BinaryOperator" and n.get("opcode") in ("<", "==") and dq(n["inner"][0]) == "unsigned long" and dq(n["inner"][1]) == "unsigned long":
            return "CSem.%s %s %s" % ({"<": "ltU", "==": "eqU"}[n["opcode"]], paren(self.nat(n["inner"][0], env)), paren(self.nat(n["inner"][1], env)))
        fail(n, "unknown condition")

    # ------------------------------------------------------------------ object-building functions
    def obj(self, n, env):
        """expression of class type poly / expr -> Val(obj)"""
        n = self.skip(n)
        k = n.get("kind")
        self.count(n)
        if k == "DeclRefExpr":
            v = env.get(n["referencedDecl"]["id"])
            if v is None or v.kind != "obj":
                fail(n, "reference to %r is not a known object" % n["referencedDecl"].get("name"))
            return v
        if k in ("CallExpr", "CXXOperatorCallExpr"):
            rd = self.callee(n)
            args = n["inner"][1:]
            if rd.get("name") == "get":
                if rd["id"] not in self.getidx:
                    fail(n, "std::get instantiation whose index the nflverif_get wrappers did not resolve")
                if len(args) != 1:
                    fail(n, "std::get arity")
                m = args[0]
                self.count(m)
                if m.get("kind") != "MemberExpr" or m.get("name") != "args":
                    fail(m, "std::get of something that is not `.args`")
                base = self.obj_or_this(m["inner"][0], env)
                if base.ot.kind != "expr":
                    fail(m, ".args of a non-expression")
                i = self.getidx[rd["id"]]
                if i >= len(base.ot.args):
                    fail(n, "std::get<%d> on %d operands" % (i, len(base.ot.args)))
                return Val("obj", base.ot.proj(base.text, i), base.ot.args[i])
            d = self.decl(rd["id"], n, rd.get("name"))
            own = self.owner(d)
            if rd.get("name") == "operator()" and own.get("name") == "_make_op":
                tmp = self.skip(args[0])
                while tmp.get("kind") in ("CXXFunctionalCastExpr", "InitListExpr", "ImplicitCastExpr"):
                    self.count(tmp)
                    if not tmp.get("inner"):
                        break
                    tmp = self.skip(tmp["inner"][0])
                args = args[1:]
                info = self.fn_makeop_impl(d, own)
            elif rd.get("name") == "make_op" and own.get("kind") == "NamespaceDecl" and own.get("name") == "ops":
                info = self.fn_obj(d, "make_op")
            elif rd.get("name") in CALLEE_SRC and own.get("kind") == "NamespaceDecl" and own.get("name") == "nfl":
                info = self.fn_obj(d, rd["name"])
            else:
                fail(n, "call of %r (owner %s %r) in an object expression" % (rd.get("name"), own.get("kind"), own.get("name")))
            self.fc += info.get("fc", 0)
            vs = [self.obj(a, env) for a in args]
            if [v.ot.key() for v in vs] != info["argkeys"]:
                fail(n, "argument types of %s" % rd.get("name"))
            return Val("obj", "%s %s" % (info["name"], " ".join(paren(v.text) for v in vs)), info["ret"])
        if k in ("CXXTemporaryObjectExpr", "CXXConstructExpr"):
            ot = OT(parse_type(dq(n)), n)
            if ot.kind != "expr":
                fail(n, "construction of %s" % dq(n))
            self.check_expr_ctor(ot, n)
            vs = [self.obj(a, env) for a in n.get("inner", [])]
            if [v.ot.key() for v in vs] != [a.key() for a in ot.args]:
                fail(n, "constructor arguments of %s" % dq(n))
            return Val("obj", vs[0].text if len(vs) == 1 else "(" + ", ".join(v.text for v in vs) + ")", ot)
        fail(n, "unknown object expression")

    def obj_or_this(self, n, env):
        n = self.skip(n)
        if n.get("kind") == "CXXThisExpr":
            self.count(n)
            return env["this"]
        return self.obj(n, env)

    def check_expr_ctor(self, ot, where):
        """expr(Args const&... args) : args{args...} {}  — the tuple of references, in order"""
        key = ("ctor", ot.key(), tuple(ot.polys()))
        if key in self.memo:
            return
        for c in self.byid.values():
            if c.get("kind") == "CXXConstructorDecl" and c.get("name") == "expr" and not c.get("isImplicit") and \
                    (c.get("_parent") or {}).get("kind") == "ClassTemplateSpecializationDecl" and any(x.get("kind") == "CXXCtorInitializer" for x in c.get("inner", [])):
                try:
                    cot = self.class_ot(c["_parent"], where)
                except Unsupported:
                    continue
                if cot.key() != ot.key() or cot.polys() != ot.polys():
                    continue
                ps = self.params_of(c)
                inits = [x for x in c["inner"] if x.get("kind") == "CXXCtorInitializer"]
                body = self.body_of(c)
                ce = inits[0]["inner"][0] if len(inits) == 1 and inits[0].get("inner") else {}
                self.count(inits[0]); self.count(ce)
                refs = [self.skip(x) for x in ce.get("inner", [])]
                ok = (len(inits) == 1 and (inits[0].get("anyInit") or {}).get("name") == "args" and ce.get("kind") == "CXXConstructExpr" and
                      dq(ce).startswith("std::tuple<") and not body.get("inner") and len(refs) == len(ps) == len(ot.args) and
                      all(r.get("kind") == "DeclRefExpr" and r["referencedDecl"]["id"] == p["id"] for r, p in zip(refs, ps)))
                if not ok:
                    fail(c, "constructor of expr is not `args{args...}` with an empty body")
                self.memo[key] = True
                return
        fail(where, "no instantiated constructor of %s in the AST" % ot.key())

    def fn_obj(self, d, cname):
        """operator overloads / shoup / compute_shoup / make_op: `return <object expression>;`"""
        if d["id"] in self.memo:
            return self.memo[d["id"]]
        ps = self.params_of(d)
        env, sig, argkeys = {}, [], []
        for i, p in enumerate(ps):
            ot = OT(parse_type(dq(p)), p)
            nm = "x%d" % i
            env[p["id"]] = Val("obj", nm, ot)
            sig.append("(%s : %s)" % (nm, ot.lean()))
            argkeys.append(ot.key())
        e = self.single_return(d)
        saved, self.fc = self.fc, 0
        v = self.obj(e, env)
        fc, self.fc = self.fc, saved
        nice = {"operator+": "op_plus", "operator-": "op_minus", "operator*": "op_times", "operator==": "op_eq", "operator!=": "op_ne"}.get(cname, cname)
        T = tsuf((v.ot.polys() or [("unsigned int",)])[0][0])
        name = "%s_%s_%s_tag_%s" % (nice, T, "_".join(("L%sR" % k if k != "P" else k) for k in argkeys), v.ot.tag)
        if cname == "make_op":
            name = "make_op_%s_%s_from_%s" % (self.first_targ_fn(d), T, "_".join(("L%sR" % k if k != "P" else k) for k in argkeys))
        text = "/-- `%s`  (%s:%s): %s -/\n@[reducible] def %s %s : %s :=\n  -- %s\n  %s" % (
            d.get("name"), self.short(d.get("_file")), d.get("_line"), "arguments " + ", ".join(argkeys) + " -> " + v.ot.key(),
            name, " ".join(sig), v.ot.lean(), self.src(e), v.text)
        self.emit(name, text)
        info = {"name": name, "argkeys": argkeys, "ret": v.ot, "fc": fc}
        self.memo[d["id"]] = info
        return info

    def first_targ_fn(self, d):
        for a in d.get("inner", []):
            if a.get("kind") == "TemplateArgument" and a.get("type"):
                p = parse_type(a["type"]["qualType"])
                if p[0] in FN_NAMES and len(p[1]) == 2:
                    return "%s_%s" % (p[0], p[1][1][0])
        fail(d, "first template argument is not a functor")

    def fn_makeop_impl(self, d, cls):
        if d["id"] in self.memo:
            return self.memo[d["id"]]
        targs = [a.get("type", {}).get("qualType", "") for a in cls.get("inner", []) if a.get("kind") == "TemplateArgument" and a.get("type")]
        op = parse_type(targs[0]) if targs else ("?", [])
        if op[0] not in FN_NAMES:
            fail(d, "_make_op specialisation for %r" % (op,))
        ps = self.params_of(d)
        env, sig, argkeys = {}, [], []
        for i, p in enumerate(ps):
            ot = OT(parse_type(dq(p)), p)
            nm = p.get("name") if p.get("name") and len(set(q.get("name") for q in ps)) == len(ps) else "x%d" % i
            env[p["id"]] = Val("obj", nm, ot)
            sig.append("(%s : %s)" % (nm, ot.lean()))
            argkeys.append(ot.key())
        e = self.single_return(d)
        saved, self.fc = self.fc, 0
        v = self.obj(e, env)
        fc, self.fc = self.fc, saved
        fused = v.ot.op != op[0]
        if fused and not (op[0] == "shoup" and v.ot.op == "mulmod_shoup" and len(v.ot.args) == 3):
            fail(d, "_make_op<%s> returns expr<%s>" % (op[0], v.ot.op))
        T = tsuf(v.ot.T)
        name = "make_op_impl_%s_%s_%s_from_%s" % (op[0], op[1][1][0], T, "_".join(("L%sR" % k if k != "P" else k) for k in argkeys))
        text = "/-- `_make_op<%s<T, %s>, …>::operator()`  (%s:%s)%s: arguments %s -> %s -/\n@[reducible] def %s %s : %s :=\n  -- %s\n  %s" % (
            op[0], op[1][1][0], self.short(d.get("_file")), d.get("_line"),
            " — the PARTIAL SPECIALISATION `shoup(mulmod(a,b), c)` -> `mulmod_shoup(a,b,c)`" if fused else " — primary template",
            ", ".join(argkeys), v.ot.key(), name, " ".join(sig), v.ot.lean(), self.src(e), v.text)
        self.emit(name, text)
        info = {"name": name, "argkeys": argkeys, "ret": v.ot, "fused": fused, "fc": fc + (1 if fused else 0)}
        self.memo[d["id"]] = info
        return info

    # ------------------------------------------------------------------ value-level functions (take the heap)
    def valty(self, n_or_str):
        t = n_or_str if isinstance(n_or_str, str) else dq(n_or_str)
        t = re.sub(r"^const\s+|\s+const$", "", t.strip())
        if t in TBITS:
            return ("val", "Nat", TBITS[t])
        if "__vector_size__(2 * sizeof(long long))" in t:
            return ("reg", "List Nat", None)
        raise Unsupported("value type %r" % t)

    def member_call(self, n):
        """CXXMemberCallExpr -> (member decl, object expression node, argument nodes)"""
        me = n["inner"][0]
        if n.get("kind") != "CXXMemberCallExpr" or me.get("kind") != "MemberExpr" or "referencedMemberDecl" not in me:
            fail(n, "not a direct member call")
        self.count(n); self.count(me)
        d = self.decl(me["referencedMemberDecl"], n, me.get("name"))
        return d, me["inner"][0], n["inner"][1:]

    def cm_i(self, args, env, where):
        if len(args) < 2:
            fail(where, "expected (cm, i) arguments")
        return [self.nat(a, env) for a in args[:2]]

    def fn_poly_at(self, d):
        if d["id"] in self.memo:
            return self.memo[d["id"]]
        ps = self.params_of(d)
        if [p.get("name") for p in ps] != ["cm", "i"] or any(dq(p) != "unsigned long" for p in ps):
            fail(d, "poly::operator() parameters")
        env = {ps[0]["id"]: Val("nat", "cm"), ps[1]["id"]: Val("nat", "i")}
        e = self.single_return(d)
        self.count(e)
        base = e["inner"][0] if e.get("kind") == "ArraySubscriptExpr" else {}
        mem = base.get("inner", [{}])[0]
        if not (base.get("kind") == "ImplicitCastExpr" and base.get("castKind") == "ArrayToPointerDecay" and mem.get("kind") == "MemberExpr" and
                mem.get("name") == "_data" and mem["inner"][0].get("kind") == "CXXThisExpr"):
            fail(e, "poly::operator() does not return this->_data[…]")
        for x in (base, mem, mem["inner"][0]):
            self.count(x)
        idx = self.nat(e["inner"][1], env)
        name = "poly_at_const" if d.get("type", {}).get("qualType", "").rstrip().endswith("const") else "poly_at"
        self.emit(name, "/-- `poly<T,Degree,NbModuli>::operator()(size_t cm, size_t i)`  (%s:%s): the lvalue `_data[…]` -/\n"
                        "@[reducible] def %s %s (this : Nat) (cm i : Nat) : CSemExpr.Ptr :=\n  -- %s\n  CSemExpr.elemPtr this (%s)" % (
                            self.short(d.get("_file")), d.get("_line"), name, KPARAMS, self.src(e), idx))
        info = {"name": name}
        self.memo[d["id"]] = info
        return info

    def fn_simd(self, d, own):
        if d["id"] in self.memo:
            return self.memo[d["id"]]
        mode, fn = own.get("name"), d.get("name")
        if mode not in ("serial", "sse") or fn not in ("load", "store"):
            fail(d, "simd::%s::%s" % (mode, fn))
        ps = self.params_of(d)
        T = re.sub(r"^const\s+|\s*\*$|\s+const$", "", dq(ps[0]).replace("const ", "")).strip()
        if T not in TBITS:
            fail(d, "element type %r" % dq(ps[0]))
        b = self.body_of(d)
        st = b.get("inner", [])
        if len(st) != 1:
            fail(b, "body of simd::%s::%s" % (mode, fn))
        s = st[0]
        self.count(s)
        def is_p(x, k):
            x = self.skip(x)
            if x.get("kind") == "ImplicitCastExpr" and x.get("castKind") == "LValueToRValue":
                self.count(x); x = x["inner"][0]
            self.count(x)
            return x.get("kind") == "DeclRefExpr" and x["referencedDecl"]["id"] == ps[k]["id"]
        if mode == "serial" and fn == "load":
            e = s["inner"][0] if s.get("kind") == "ReturnStmt" else {}
            ok = e.get("kind") == "ImplicitCastExpr" and e.get("castKind") == "LValueToRValue" and e["inner"][0].get("kind") == "UnaryOperator" and \
                e["inner"][0].get("opcode") == "*" and is_p(e["inner"][0]["inner"][0], 0)
            body, name, sig, ret = "CSemExpr.loadCell m p", "simd_serial_load", "(m : CSemExpr.Mem) (p : CSemExpr.Ptr)", "Nat"
        elif mode == "serial":
            ok = s.get("kind") == "BinaryOperator" and s.get("opcode") == "=" and s["inner"][0].get("kind") == "UnaryOperator" and s["inner"][0].get("opcode") == "*" and \
                is_p(s["inner"][0]["inner"][0], 0) and is_p(s["inner"][1], 1) and len(ps) == 2
            body, name, sig, ret = "CSemExpr.storeCell m p v", "simd_serial_store", "(m : CSemExpr.Mem) (p : CSemExpr.Ptr) (v : Nat)", "CSemExpr.Mem"
        else:
            c = s["inner"][0] if fn == "load" and s.get("kind") == "ReturnStmt" else s
            self.count(c)
            rd = self.callee(c) if c.get("kind") == "CallExpr" else {}
            args = c.get("inner", [])[1:]
            intr = {"load": "_mm_load_si128", "store": "_mm_store_si128"}[fn]
            cast = args[0] if args else {}
            ok = rd.get("name") == intr and cast.get("kind") == "CStyleCastExpr" and cast.get("castKind") == "BitCast" and is_p(cast["inner"][0], 0) and \
                (fn == "load" or (len(args) == 2 and is_p(args[1], 1)))
            self.count(cast)
            self.align_sites.add("%s:%s %s" % (self.short(d.get("_file")), d.get("_line"), intr))
            bits = TBITS[T]
            if fn == "load":
                body, name, sig, ret = "CSemExpr.mm_load_si128 %d m p" % bits, "simd_sse_load_%s" % tsuf(T), "(m : CSemExpr.Mem) (p : CSemExpr.Ptr)", "List Nat"
            else:
                body, name, sig, ret = "CSemExpr.mm_store_si128 %d m p v" % bits, "simd_sse_store_%s" % tsuf(T), "(m : CSemExpr.Mem) (p : CSemExpr.Ptr) (v : List Nat)", "CSemExpr.Mem"
        if not ok:
            fail(s, "unexpected body of simd::%s::%s" % (mode, fn))
        self.emit(name, "/-- `simd::%s::%s<T>`  (%s:%s) -/\n@[reducible] def %s %s : %s :=\n  -- %s\n  %s" % (
            mode, fn, self.short(d.get("_file")), d.get("_line"), name, sig, ret, self.src(s), body))
        info = {"name": name, "mode": mode, "ret": ret}
        self.memo[d["id"]] = info
        return info

    def ptr_of_at(self, n, env):
        """`&(*this)(cm, i)` -> Ptr text"""
        n = self.skip(n)
        self.count(n)
        if n.get("kind") != "UnaryOperator" or n.get("opcode") != "&":
            fail(n, "expected &(*this)(cm, i)")
        c = self.skip(n["inner"][0])
        self.count(c)
        if c.get("kind") != "CXXOperatorCallExpr":
            fail(c, "expected (*this)(cm, i)")
        rd = self.callee(c)
        d = self.decl(rd["id"], c, rd.get("name"))
        if rd.get("name") != "operator()" or self.owner(d).get("name") != "poly":
            fail(c, "call of %r" % rd.get("name"))
        o = self.skip(c["inner"][1])
        self.count(o)
        if not (o.get("kind") == "UnaryOperator" and o.get("opcode") == "*" and o["inner"][0].get("kind") == "CXXThisExpr"):
            fail(o, "object of operator() is not *this")
        self.count(o["inner"][0])
        if env["this"].ot.kind != "poly":
            fail(o, "*this is not a poly")
        a = self.cm_i(c["inner"][2:], env, c)
        info = self.fn_poly_at(d)
        return "%s %s %s %s %s" % (info["name"], KARGS, env["this"].text, paren(a[0]), paren(a[1]))

    def fn_poly_load(self, d, own):
        if d["id"] in self.memo:
            return self.memo[d["id"]]
        ot = self.class_ot(own, d)
        ps = self.params_of(d)
        env = {ps[0]["id"]: Val("nat", "cm"), ps[1]["id"]: Val("nat", "i"), "this": Val("obj", "this", ot)}
        e = self.single_return(d)
        self.count(e)
        if e.get("kind") != "CallExpr":
            fail(e, "poly::load does not return M::load(…)")
        rd = self.callee(e)
        sd = self.decl(rd["id"], e, rd.get("name"))
        if rd.get("name") != "load":
            fail(e, "call of %r" % rd.get("name"))
        si = self.fn_simd(sd, self.owner(sd))
        p = self.ptr_of_at(e["inner"][1], env)
        name = "poly_load_%s" % si["name"].replace("simd_", "").replace("_load", "")
        self.emit(name, "/-- `poly<T,Degree,NbModuli>::load<simd::%s>(cm, i)`  (%s:%s) -/\n@[reducible] def %s %s (m : CSemExpr.Mem) (this : Nat) (cm i : Nat) : %s :=\n  -- %s\n  %s m (%s)" % (
            si["mode"], self.short(d.get("_file")), d.get("_line"), name, KPARAMS, si["ret"], self.src(e), si["name"], p))
        info = {"name": name, "ret": si["ret"], "mode": si["mode"]}
        self.memo[d["id"]] = info
        return info

    def mode_targ(self, d):
        for a in d.get("inner", []):
            if a.get("kind") == "TemplateArgument" and a.get("type"):
                return parse_type(a["type"]["qualType"])[0]
        fail(d, "no mode template argument")

    def load_call(self, n, env):
        """`<object>.load<M>(cm, i)` -> Val"""
        n = self.skip(n)
        d, o, args = self.member_call(n)
        if d.get("name") != "load":
            fail(n, "member call of %r" % d.get("name"))
        ov = self.obj_or_this(o, env)
        own = self.owner(d)
        info = self.fn_poly_load(d, own) if own.get("name") == "poly" else self.fn_expr_load(d, own) if own.get("name") == "expr" else fail(n, "load of class %r" % own.get("name"))
        a = self.cm_i(args, env, n)
        return Val("reg" if info["ret"] == "List Nat" else "val", "%s %s m %s %s %s" % (info["name"], KARGS, paren(ov.text), paren(a[0]), paren(a[1])), None), info

    def fn_expr_load(self, d, own):
        if d["id"] in self.memo:
            return self.memo[d["id"]]
        ot = self.class_ot(own, d)
        M = self.mode_targ(d)
        ps = self.params_of(d)
        env = {ps[0]["id"]: Val("nat", "cm"), ps[1]["id"]: Val("nat", "i"), "this": Val("obj", "this", ot)}
        e = self.skip(self.single_return(d))
        d2, o, args = self.member_call(e)
        if d2.get("name") != "_load" or self.skip(o).get("kind") != "CXXThisExpr" or len(args) != 3:
            fail(e, "expr::load does not return this->_load<M>(cm, i, seq{})")
        self.count(self.skip(o))
        own2 = self.owner(d2)
        if own2.get("id") != own.get("id") or self.mode_targ(d2) != M:
            fail(e, "_load of another class / mode")
        a = self.cm_i(args, env, e)
        sq = self.skip(args[2])
        if not dq(sq).startswith("nfl::seq<"):
            fail(sq, "third argument of _load")
        # ---- _load
        ps2 = self.params_of(d2)
        env2 = {ps2[0]["id"]: Val("nat", "cm"), ps2[1]["id"]: Val("nat", "i"), "this": Val("obj", "this", ot)}
        e2 = self.skip(self.single_return(d2))
        self.count(e2)
        if e2.get("kind") != "CXXOperatorCallExpr":
            fail(e2, "_load does not return Op{}(…)")
        rd = self.callee(e2)
        fd = self.byid.get(rd["id"]) or fail(e2, "functor operator() not in the AST")
        fown = self.owner(fd)
        fot = parse_type("%s<%s>" % (fown.get("name"), ", ".join(x.get("type", {}).get("qualType", "?") for x in fown.get("inner", []) if x.get("kind") == "TemplateArgument")))
        if rd.get("name") != "operator()" or fot[0] not in FN_NAMES or len(fot[1]) != 2:
            fail(e2, "callee %r of class %r" % (rd.get("name"), fown.get("name")))
        fargs = e2["inner"][1:]
        tmp = self.skip(fargs[0])
        if ot.op not in dq(tmp):
            fail(tmp, "functor object is not Op{}")
        vals = []
        for x in fargs[1:-1]:
            v, li = self.load_call(x, env2)
            if li.get("mode") != M:
                fail(x, "operand loaded in mode %s inside load<%s>" % (li.get("mode"), M))
            vals.append(v)
        cmv = self.nat(fargs[-1], env2)
        if len(vals) != len(ot.args):
            fail(e2, "functor applied to %d loads for %d operands" % (len(vals), len(ot.args)))
        ftext, ret = self.functor(fot, fd, [v.text for v in vals], cmv, e2)
        T = tsuf(ot.T)
        n2 = "load_impl_%s_%s_%s" % (M, T, ot.key())
        self.emit(n2, "/-- `expr<%s<T,%s>, …>::_load<simd::%s, I...>(cm, i, seq<I...>)`  (%s:%s); the functor called is `%s<%s, %s>::operator()` -/\n"
                      "@[reducible] def %s %s (m : CSemExpr.Mem) (this : %s) (cm i : Nat) : %s :=\n  -- %s\n  %s" % (
                          ot.op, ot.tag, M, self.short(d2.get("_file")), d2.get("_line"), fot[0], fot[1][0][0], fot[1][1][0], n2, KPARAMS, ot.lean(), ret, self.src(e2), ftext))
        n1 = "load_%s_%s_%s" % (M, T, ot.key())
        self.emit(n1, "/-- `expr<%s<T,%s>, …>::load<simd::%s>(cm, i)`  (%s:%s) -/\n@[reducible] def %s %s (m : CSemExpr.Mem) (this : %s) (cm i : Nat) : %s :=\n  -- %s\n  %s %s m this %s %s" % (
            ot.op, ot.tag, M, self.short(d.get("_file")), d.get("_line"), n1, KPARAMS, ot.lean(), ret, self.src(e), n2, KARGS, paren(a[0]), paren(a[1])))
        info = {"name": n1, "ret": ret, "mode": M, "functor_mode": fot[1][1][0]}
        self.memo[d["id"]] = info
        return info

    def functor(self, fot, fd, vals, cmv, where):
        """Op{}(x..., cm) -> the generated functor of OpsAst / SimdAst, matched by qualified name and source line"""
        T, tag = fot[1][0][0], fot[1][1][0]
        if fot[0] in ("eqmod", "neqmod"):
            return self.fn_cmp_functor(fot, fd, vals, where)
        q = "nfl::ops::%s<%s, nfl::simd::%s>::operator()" % (fot[0], T, tag)
        f = self.functors.get(q)
        if f is None:
            fail(where, "functor %s has no generated definition in Generated/OpsAst.lean / SimdAst.lean" % q)
        if f["line"] != "%s:%s" % (self.short(fd.get("_file")), fd.get("_line")):
            fail(where, "functor %s is at %s:%s but the generated definition %s was translated from %s" % (q, self.short(fd.get("_file")), fd.get("_line"), f["name"], f["line"]))
        ks = [p for p in f["params"] if p in ("P_cm", "Pn_cm")]
        rest = [p for p in f["params"] if p not in ("P_cm", "Pn_cm")]
        if f["params"][:len(ks)] != ks or len(rest) != len(vals):
            fail(where, "parameters %r of %s for %d operands" % (f["params"], f["name"], len(vals)))
        args = ["(%s (%s))" % ({"P_cm": "P", "Pn_cm": "Pn"}[k], cmv) for k in ks] + [paren(v) for v in vals]
        return "%s %s" % (f["name"], " ".join(args)), f["ret"]

    # ------------------------------------------------------------------ poly::operator=(expr const&), poly::poly(expr const&)
    def fn_assign(self, d, own):
        if d["id"] in self.memo:
            return self.memo[d["id"]]
        pot = self.class_ot(own, d)
        ps = self.params_of(d)
        eot = OT(parse_type(dq(ps[0])), ps[0])
        env = {ps[0]["id"]: Val("obj", "expr", eot), "this": Val("obj", "this", pot)}
        b = self.body_of(d)
        out, asserts, bind = [], [], {}
        resolved = {}
        def stmts(lst, ind, top):
            pad = "  " * ind
            res = []
            for k, s in enumerate(lst):
                self.count(s)
                kind = s.get("kind")
                if kind == "DeclStmt":
                    for x in s["inner"]:
                        self.count(x)
                        if x.get("kind") == "TypeAliasDecl":
                            res.append("%s-- %s" % (pad, self.src(s)))
                        elif x.get("kind") == "StaticAssertDecl":
                            c = self.cond([c for c in x["inner"] if c.get("kind") != "StringLiteral"][0], env)
                            asserts.append((self.src(s), c))
                            res.append("%s-- %s   (see poly_assign_static_assert)" % (pad, self.src(s)))
                        elif x.get("kind") == "VarDecl" and x.get("constexpr") and dq(x) == "const unsigned long" and x.get("name") not in G.LEAN_KEYWORDS:
                            init = [c for c in x["inner"] if c.get("kind")][0]
                            ref = init["inner"][0] if init.get("kind") == "ImplicitCastExpr" else {}
                            rd = ref.get("referencedDecl", {})
                            if ref.get("kind") == "DeclRefExpr" and rd.get("name") == "value":
                                vd = self.byid.get(rd["id"]) or fail(x, "elt_count::value not in the AST")
                                ec = vd.get("_parent") or {}
                                if ec.get("name") != "elt_count":
                                    fail(x, "`value` of class %r" % ec.get("name"))
                                self.count(init); self.count(ref)
                                vi = [c for c in vd["inner"] if c.get("kind")][0]
                                bind["elt_count_value"] = self.nat(vi, {}) if vi.get("kind") != "ImplicitCastExpr" or vi.get("castKind") != "IntegralCast" or vi["inner"][0].get("kind") != "BinaryOperator" else self.nat(vi["inner"][0], {})
                                resolved["elt_count_owner"] = ((ec.get("_parent") or {}).get("_parent") or {}).get("name")
                                e = "elt_count_value"
                            else:
                                e = self.nat(init, env)
                            env[x["id"]] = Val("nat", x["name"])
                            res.append("%s-- %s" % (pad, self.src(s)))
                            res.append("%slet %s := %s" % (pad, x["name"], e))
                        else:
                            fail(x, "declaration in operator=")
                    continue
                if kind == "ForStmt":
                    parts = s.get("inner", [])
                    if len(parts) != 5 or parts[1].get("kind"):
                        fail(s, "for statement shape")
                    init, _, cnd, inc, body = parts
                    self.count(init)
                    var = init["inner"][0] if init.get("kind") == "DeclStmt" and len(init.get("inner", [])) == 1 else {}
                    if var.get("kind") != "VarDecl" or dq(var) != "unsigned long" or var.get("name") in G.LEAN_KEYWORDS:
                        fail(init, "loop variable is not one size_t")
                    self.count(var)
                    v0 = self.nat([c for c in var["inner"] if c.get("kind")][0], env)
                    nm = var["name"]
                    env[var["id"]] = Val("nat", nm)
                    c = self.cond(cnd, env)
                    self.count(inc)
                    tgt = inc["inner"][0]
                    if tgt.get("kind") != "DeclRefExpr" or tgt["referencedDecl"]["id"] != var["id"]:
                        fail(inc, "increment of something that is not the loop variable")
                    self.count(tgt)
                    if inc.get("kind") == "UnaryOperator" and inc.get("opcode") == "++":
                        step = "CSem.addU 64 %s 1" % nm
                    elif inc.get("kind") == "CompoundAssignOperator" and inc.get("opcode") == "+=":
                        step = "CSem.addU 64 %s %s" % (nm, paren(self.nat(inc["inner"][1], env)))
                    else:
                        fail(inc, "loop increment")
                    self.count(body)
                    inner = stmts(body.get("inner", []) if body.get("kind") == "CompoundStmt" else [body], ind + 2, False)
                    res.append("%s-- %s" % (pad, self.src(s)))
                    res.append("%slet m := CSemExpr.forSt (fun %s => %s) (fun %s => %s) (fun m %s =>" % (pad, nm, c, nm, step, nm))
                    res += inner
                    res[-1] += ") (2 ^ 64) (%s) m" % v0
                    continue
                if kind == "CallExpr":
                    rd = self.callee(s)
                    sd = self.decl(rd["id"], s, rd.get("name"))
                    si = self.fn_simd(sd, self.owner(sd))
                    if rd.get("name") != "store" or len(s["inner"]) != 3:
                        fail(s, "call of %r in operator=" % rd.get("name"))
                    p = self.ptr_of_at(s["inner"][1], env)
                    ld = self.skip(s["inner"][2])
                    d3, o, args = self.member_call(ld)
                    oo = self.skip(o)
                    if d3.get("name") != "load" or oo.get("kind") != "DeclRefExpr" or oo["referencedDecl"]["id"] != ps[0]["id"]:
                        fail(ld, "second argument of store is not expr.load<simd_mode>(cm, j)")
                    self.count(oo)
                    li = self.fn_expr_load(d3, self.owner(d3))
                    a = self.cm_i(args, env, ld)
                    if li["mode"] != si["mode"]:
                        fail(s, "store of mode %s applied to load<%s>" % (si["mode"], li["mode"]))
                    resolved.update(store=si["name"], load=li["name"], mode=si["mode"], ret=li["ret"])
                    res.append("%s-- %s" % (pad, self.src(s)))
                    res.append("%sstore m (%s) (load m %s %s)" % (pad, p, paren(a[0]), paren(a[1])))
                    if k != len(lst) - 1:
                        fail(s, "statements after the store")
                    return res
                if kind == "ReturnStmt" and top and k == len(lst) - 1:
                    r = self.skip(s["inner"][0])
                    if not (r.get("kind") == "UnaryOperator" and r.get("opcode") == "*" and r["inner"][0].get("kind") == "CXXThisExpr"):
                        fail(s, "operator= does not return *this")
                    self.count(r); self.count(r["inner"][0])
                    res.append("%s-- %s" % (pad, self.src(s)))
                    res.append("%sm" % pad)
                    return res
                fail(s, "unknown statement in operator=")
            if top:
                fail(b, "operator= does not end in return *this")
            if not lst or lst[-1].get("kind") != "ForStmt":
                fail(b, "loop body shape")
            res.append("%sm" % pad)
            return res
        lines = stmts(b.get("inner", []), 1, True)
        if set(bind) != {"elt_count_value"} or "store" not in resolved:
            fail(d, "operator= without vector_size / store")
        gen = ("/-- `poly<T,Degree,NbModuli>::operator=(ops::expr<Op, Args...> const& expr)`  (%s:%s), translated from every instantiation (all give this text).\n"
               "    `elt_count_value` : `E::simd_mode::elt_count<T>::value`; `store m p v` : `E::simd_mode::store(p, v)`; `load m cm j` : `expr.load<E::simd_mode>(cm, j)` -/\n"
               "def poly_assign {V : Type} %s (elt_count_value : Nat) (store : CSemExpr.Mem → CSemExpr.Ptr → V → CSemExpr.Mem) (load : CSemExpr.Mem → Nat → Nat → V) (this : Nat) (m : CSemExpr.Mem) : CSemExpr.Mem :=\n%s" % (
                   self.short(d.get("_file")), d.get("_line"), KPARAMS, "\n".join(lines)))
        lets = [l.strip() for l in lines if l.strip().startswith("let ") and not l.strip().startswith("let m :=")]
        gen += ("\n\n/-- the `static_assert` of the body (checked by the compiler for every instantiation) -/\n"
                "def poly_assign_static_assert %s (elt_count_value : Nat) : Bool :=\n%s\n%s\n  %s" % (
                    KPARAMS, "\n".join("  " + l for l in lets), "\n".join("  -- %s" % a[0] for a in asserts), " && ".join("(%s)" % a[1] for a in asserts) or "true"))
        self.emit("poly_assign", gen)
        T = tsuf(pot.T)
        name = "assign_%s_%s_%s" % (resolved["mode"], T, eot.key())
        self.emit(name, "/-- `poly::operator=` instantiated for `%s` (T = %s): `E::simd_mode` = simd::%s (class of the `store` called; `elt_count` of simd::%s) -/\n"
                        "@[reducible] def %s %s (m : CSemExpr.Mem) (this : Nat) (expr : %s) : CSemExpr.Mem :=\n  poly_assign %s (%s) %s (fun m cm j => %s %s m expr cm j) this m" % (
                            eot.key(), pot.T, resolved["mode"], resolved["elt_count_owner"], name, KPARAMS, eot.lean(), KARGS, bind["elt_count_value"], resolved["store"], resolved["load"], KARGS))
        info = {"name": name, "eot": eot, "mode": resolved["mode"], "vs": bind["elt_count_value"], "ec_owner": resolved["elt_count_owner"]}
        self.memo[d["id"]] = info
        return info

    def assign_call(self, n, env):
        """`<poly lvalue> = <expr object>` -> (heap text, info)"""
        n = self.skip(n)
        self.count(n)
        if n.get("kind") != "CXXOperatorCallExpr":
            fail(n, "expected an assignment")
        rd = self.callee(n)
        d = self.decl(rd["id"], n, rd.get("name"))
        own = self.owner(d)
        if rd.get("name") != "operator=" or own.get("name") != "poly":
            fail(n, "call of %r" % rd.get("name"))
        lhs = self.skip(n["inner"][1])
        if lhs.get("kind") == "UnaryOperator" and lhs.get("opcode") == "*" and lhs["inner"][0].get("kind") == "CXXThisExpr":
            self.count(lhs); self.count(lhs["inner"][0])
            lv = env["this"]
        else:
            lv = self.obj(lhs, env)
        if lv.ot.kind != "poly":
            fail(lhs, "assignment to a non-poly")
        saved, self.fc = self.fc, 0
        rv = self.obj(n["inner"][2], env)
        fc, self.fc = self.fc, saved
        info = self.fn_assign(d, own)
        if info["eot"].key() != rv.ot.key() or set(rv.ot.polys()) != {(lv.ot.T, lv.ot.deg, lv.ot.nm)}:
            fail(n, "operator= instantiated for another expression / mixed polynomial types")
        return "%s %s m %s %s" % (info["name"], KARGS, paren(lv.text), paren(rv.text)), info, rv, fc

    def fn_ctor(self, pot, eot, where):
        for c in self.byid.values():
            if c.get("kind") == "CXXConstructorDecl" and c.get("name") == "poly" and (c.get("_parent") or {}).get("kind") == "FunctionTemplateDecl" and \
                    any(x.get("kind") == "CompoundStmt" for x in c.get("inner", [])):
                ps = [x for x in c["inner"] if x.get("kind") == "ParmVarDecl"]
                if len(ps) != 1 or "expr<" not in dq(ps[0]):
                    continue
                try:
                    cot, peot = self.class_ot(self.owner(c), c), OT(parse_type(dq(ps[0])), c)
                except Unsupported:
                    continue
                if (cot.T, cot.deg, cot.nm) != (pot.T, pot.deg, pot.nm) or peot.key() != eot.key():
                    continue
                if c["id"] in self.memo:
                    return self.memo[c["id"]]
                self.params_of(c)
                if any(x.get("kind") == "CXXCtorInitializer" for x in c["inner"]):
                    fail(c, "constructor with member initialisers")
                b = self.body_of(c)
                if len(b.get("inner", [])) != 1:
                    fail(b, "constructor body is not `*this = expr;`")
                env = {ps[0]["id"]: Val("obj", "expr", peot), "this": Val("obj", "this", cot)}
                text, info, rv, _ = self.assign_call(b["inner"][0], env)
                name = "construct_%s_%s_%s" % (info["mode"], tsuf(pot.T), eot.key())
                self.emit(name, "/-- `poly<T,Degree,NbModuli>::poly(ops::expr<Op, Args...> const& expr)`  (%s:%s) for `%s`; `this` = the object under construction -/\n"
                                "@[reducible] def %s %s (m : CSemExpr.Mem) (this : Nat) (expr : %s) : CSemExpr.Mem :=\n  -- %s\n  %s" % (
                                    self.short(c.get("_file")), c.get("_line"), eot.key(), name, KPARAMS, eot.lean(), self.src(b["inner"][0]), text))
                r = {"name": name, "info": info}
                self.memo[c["id"]] = r
                return r
        fail(where, "no instantiated poly(expr const&) for %s" % eot.key())

    # ------------------------------------------------------------------ poly::operator bool
    def fn_tobool(self, d, own):
        if d["id"] in self.memo:
            return self.memo[d["id"]]
        pot = self.class_ot(own, d)
        e = self.single_return(d)
        self.count(e)
        if not (e.get("kind") == "BinaryOperator" and e.get("opcode") == "!="):
            fail(e, "operator bool is not `std::find_if(...) != end()`")
        call = self.skip(e["inner"][0])
        self.count(call)
        rd = self.callee(call) if call.get("kind") == "CallExpr" else {}
        if rd.get("name") != "find_if" or "std::find_if" not in self.source_line(e.get("_file"), e.get("_line")) or len(call["inner"]) != 4:
            fail(call, "left operand is not std::find_if(first, last, pred)")
        ext = {}
        def it(x, which):
            d2, o, args = self.member_call(self.skip(x))
            if d2.get("name") != which or self.skip(o).get("kind") != "CXXThisExpr" or args:
                fail(x, "expected this->%s()" % which)
            self.count(self.skip(o))
            r = self.single_return(d2)
            self.count(r)
            rd2 = self.callee(r) if r.get("kind") == "CallExpr" else {}
            mem = r["inner"][1] if len(r.get("inner", [])) == 2 else {}
            mt = re.fullmatch(r"const (unsigned \w+)\[(\d+)\]", dq(mem))
            if rd2.get("name") != which or mem.get("kind") != "MemberExpr" or mem.get("name") != "_data" or mem["inner"][0].get("kind") != "CXXThisExpr" or not mt or \
                    ("std::%s(_data)" % which) not in self.source_line(r.get("_file"), r.get("_line")):
                fail(r, "%s() is not std::%s(_data)" % (which, which))
            self.count(mem); self.count(mem["inner"][0])
            ext[which] = int(mt.group(2))
            return "CSemExpr.elemPtr this %s" % ("0" if which == "begin" else "data_extent")
        first, last = it(call["inner"][1], "begin"), it(call["inner"][2], "end")
        last2 = it(e["inner"][1], "end")
        lam = self.skip(call["inner"][3])
        self.count(lam)
        if lam.get("kind") != "LambdaExpr":
            fail(lam, "predicate is not a lambda")
        meth = [m for m in lam["inner"][0].get("inner", []) if m.get("kind") == "CXXMethodDecl" and m.get("name") == "operator()"]
        if len(meth) != 1:
            fail(lam, "lambda call operator")
        lp = self.params_of(meth[0])
        r = self.single_return(meth[0])
        self.count(r)
        a, b2 = r.get("inner", [{}, {}])
        ok = (r.get("kind") == "BinaryOperator" and r.get("opcode") == "!=" and len(lp) == 1 and dq(lp[0]) == pot.T and a.get("kind") == "ImplicitCastExpr" and
              a.get("castKind") == "LValueToRValue" and a["inner"][0].get("referencedDecl", {}).get("id") == lp[0]["id"] and b2.get("kind") == "ImplicitCastExpr" and
              b2.get("castKind") == "IntegralCast" and dq(b2) == pot.T and b2["inner"][0].get("kind") == "IntegerLiteral" and dq(b2["inner"][0]) == "int")
        if not ok:
            fail(r, "lambda body is not `v != <int literal>`")
        for x in (a, a["inner"][0], b2, b2["inner"][0]):
            self.count(x)
        pred = "fun v => CSem.neU v (CSem.castSU %d %s)" % (TBITS[pot.T], b2["inner"][0]["value"])
        name = "poly_to_bool_%s" % tsuf(pot.T)
        self.emit(name, "/-- `poly<T,Degree,NbModuli>::operator bool() const`  (%s:%s); `data_extent` : extent of the member array `_data` (`std::end(_data)`) -/\n"
                        "@[reducible] def %s (data_extent : Nat) (m : CSemExpr.Mem) (this : Nat) : Bool :=\n  -- %s\n  CSemExpr.find_if_ne_last m (%s) (%s) (%s)" % (
                            self.short(d.get("_file")), d.get("_line"), name, self.src(e), first, last, pred))
        info = {"name": name, "extent": ext["end"], "pot": pot}
        self.memo[d["id"]] = info
        return info


    # ------------------------------------------------------------------ eqmod / neqmod, expr::operator bool
    def fn_cmp_functor(self, fot, fd, vals, where):
        """`eqmod<T,tag>::operator()<A>(A x, A y, size_t)` / `neqmod<T,tag>::…`: `return x == y;` / `return x != y;`, translated from the
        instantiated body.  A an unsigned integer type: the `bool` converted to A (`CSemExpr.ofBool`); A = `__m128i` (GCC vector of 2 `long long`):
        the lane-wise compare of 64-bit lanes (`Simd.vecEq64` / `Simd.vecNeq64`) — only when the lanes of T are those lanes (T = uint64_t)."""
        if fd["id"] not in self.memo:
            T = fot[1][0][0]
            ps = self.params_of(fd)
            if len(ps) != 3 or dq(ps[2]) != "unsigned long" or dq(ps[0]) != dq(ps[1]) or len(vals) != 2:
                fail(fd, "parameters of %s::operator()" % fot[0])
            kind, lty, bits = self.valty(dq(ps[0]))
            e = self.single_return(fd)
            self.count(e)
            def operand(x, k):
                self.count(x)
                r = x["inner"][0] if x.get("kind") == "ImplicitCastExpr" and x.get("castKind") == "LValueToRValue" and dq(x) == dq(ps[k]) else {}
                self.count(r)
                return r.get("kind") == "DeclRefExpr" and r["referencedDecl"]["id"] == ps[k]["id"]
            if kind == "val":
                b = e["inner"][0] if e.get("kind") == "ImplicitCastExpr" and e.get("castKind") == "IntegralCast" and dq(e) == dq(ps[0]) else {}
                self.count(b)
                if dq(ps[0]) != T or not (b.get("kind") == "BinaryOperator" and b.get("opcode") in ("==", "!=") and dq(b) == "bool" and
                                          operand(b["inner"][0], 0) and operand(b["inner"][1], 1)):
                    fail(e, "body of %s<%s,…>::operator()<%s> is not `return x == y;` on values of T" % (fot[0], T, dq(ps[0])))
                body = "CSemExpr.ofBool (CSem.%s x y)" % {"==": "eqU", "!=": "neU"}[b["opcode"]]
                suffix, ret = "u%d" % bits, "Nat"
            else:
                if not (e.get("kind") == "BinaryOperator" and e.get("opcode") in ("==", "!=") and dq(e) == dq(ps[0]) and
                        operand(e["inner"][0], 0) and operand(e["inner"][1], 1)):
                    fail(e, "body of %s<%s,…>::operator()<__m128i> is not `return x == y;`" % (fot[0], T))
                if TBITS.get(T) != 64:
                    fail(e, "vector compare (64-bit lanes) of a register seen as lanes of %s: change of lane view not translated" % T)
                body = "Simd.%s x y" % {"==": "vecEq64", "!=": "vecNeq64"}[e["opcode"]]
                suffix, ret = "v2u64", "List Nat"
            name = "cmp_%s_%s" % (fot[0], suffix)
            self.emit(name, "/-- `nfl::ops::%s<T, tag>::operator()<A>(A x, A y, size_t)`  (%s:%s), A = `%s`%s -/\n@[reducible] def %s (x y : %s) : %s :=\n  -- %s\n  %s" % (
                fot[0], self.short(fd.get("_file")), fd.get("_line"), dq(ps[0]),
                "" if kind == "val" else ": GCC's vector `==`/`!=` — each 64-bit lane all-ones or 0", name, ret, ret, self.src(e), body))
            self.memo[fd["id"]] = {"name": name, "ret": ret}
        info = self.memo[fd["id"]]
        return "%s %s %s" % (info["name"], paren(vals[0]), paren(vals[1])), info["ret"]

    def class_const(self, rd, where):
        """`degree` / `nmoduli` of a `poly`, or of an `expr` (`static constexpr size_t degree = first_of(Args::degree...)`, through the
        instantiated initialiser and the body of `first_of`)"""
        name = rd.get("name")
        d = self.byid.get(rd["id"])
        if d is None or d.get("kind") != "VarDecl" or name not in ("degree", "nmoduli") or not d.get("type", {}).get("qualType", "").startswith("const "):
            fail(where, "class constant %r" % name)
        own = d.get("_parent") or {}
        if own.get("name") == "poly":
            return name
        init = [c for c in d.get("inner", []) if c.get("kind")]
        if own.get("name") != "expr" or len(init) != 1 or init[0].get("kind") != "CallExpr" or len(init[0].get("inner", [])) < 2:
            fail(d, "constant %s of class %r is not `first_of(Args::%s...)`" % (name, own.get("name"), name))
        call = init[0]
        self.count(d); self.count(call)
        crd = self.callee(call)
        fd = self.decl(crd["id"], call, crd.get("name"))
        key = ("first_of", fd["id"])
        if key not in self.memo:
            ps = self.params_of(fd)
            r = self.single_return(fd)
            self.count(r)
            x = r["inner"][0] if r.get("kind") == "ImplicitCastExpr" and r.get("castKind") == "LValueToRValue" else {}
            self.count(x)
            if crd.get("name") != "first_of" or not ps or x.get("kind") != "DeclRefExpr" or x["referencedDecl"]["id"] != ps[0]["id"]:
                fail(fd, "`%s` does not return its first argument" % crd.get("name"))
            self.memo[key] = True
        a = call["inner"][1]
        self.count(a)
        x = a["inner"][0] if a.get("kind") == "ImplicitCastExpr" and a.get("castKind") == "LValueToRValue" else {}
        self.count(x)
        if x.get("kind") != "DeclRefExpr" or x["referencedDecl"].get("name") != name:
            fail(a, "first argument of first_of is not `Arg::%s`" % name)
        return self.class_const(x["referencedDecl"], x)

    def bool_ast_text(self):
        """the definitions of Generated/BoolAst.lean (tools/gen_bool_ast.py)"""
        if Tr._bool_ast is None:
            try:
                txt = open(BOOL_AST).read()
            except OSError:
                raise Unsupported("Generated/BoolAst.lean not found (run gen_bool_ast.py first)")
            m = re.search(r"\n(/-- `nfl::ops::expr<Op, Args\.\.\.>::operator bool\(\) const`.*)\n\nend Nfl\.Gen\.BoolAst\n", txt, re.S)
            sig = re.search(r"\ndef expr_to_bool ([^\n]*) : Bool :=\n", txt)
            if not m or not sig:
                raise Unsupported("Generated/BoolAst.lean has no definition `expr_to_bool`")
            Tr._bool_ast = (m.group(1), [g.group(1) for g in re.finditer(r"\((\w+) : [^()]*\)", sig.group(1))])
        return Tr._bool_ast

    _bool_ast = None
    NAME = "expr_to_bool"      # name of the definition tools/gen_bool_ast.py's translation produces

    def fn_expr_tobool(self, d, own):
        """`expr<Op, Args...>::operator bool()` of ONE instantiated expression class: the instantiated body is translated again with the
        translator of tools/gen_bool_ast.py and must give, character for character, the definition `expr_to_bool` of Generated/BoolAst.lean; the
        parameters of that definition are then bound to what clang resolved in THIS instantiation: `nmoduli`, `degree` (through `first_of`),
        `simd_mode::elt_count<value_type>::value`, `is_eqmod<Op>::value` (base class of the instantiated trait), and
        `stored cm j k` = `tmp[k]` after the resolved `simd_mode::store(tmp, this->load<simd_mode>(cm, j))` on the local array `tmp`
        (an object of its own: a one-object heap `[tmp]`, pointer `(0, 0)`)."""
        if d["id"] in self.memo:
            return self.memo[d["id"]]
        import gen_bool_ast as B
        ot = self.class_ot(own, d)
        if ot.kind != "expr":
            fail(d, "operator bool of a non-expression")
        fn = B.Fn(self, d).translate()
        ref_text, ref_params = self.bool_ast_text()
        if fn.render() != ref_text:
            a, b = fn.render().splitlines(), ref_text.splitlines()
            diff = [(x, y) for x, y in zip(a, b) if x != y][:2]
            raise Unsupported("operator bool of %s translates to a text different from Generated/BoolAst.lean (regenerate it with gen_bool_ast.py): %r" % (ot.key(), diff or (len(a), len(b))))
        if [p[0] for p in fn.params] != ref_params:
            raise Unsupported("parameters %r of the translated operator bool, %r in Generated/BoolAst.lean" % ([p[0] for p in fn.params], ref_params))
        self.nodes += fn.nodes
        for k, v in fn.kinds.items():
            self.kinds[k] = self.kinds.get(k, 0) + v
        # ---- the store / load this instantiation calls
        calls = []
        def walk(x):
            if isinstance(x, dict):
                c = (x.get("inner") or [{}])[0]
                if x.get("kind") == "CallExpr" and c.get("kind") == "ImplicitCastExpr" and c.get("inner", [{}])[0].get("kind") == "DeclRefExpr" and \
                        c["inner"][0]["referencedDecl"].get("name") == "store":
                    calls.append(x)
                for y in x.get("inner", []):
                    walk(y)
        walk(d)
        if len(calls) != 1 or len(calls[0]["inner"]) != 3:
            fail(d, "%d calls of `store` in operator bool" % len(calls))
        st = calls[0]
        rd = self.callee(st)
        sd = self.decl(rd["id"], st, rd.get("name"))
        si = self.fn_simd(sd, self.owner(sd))
        ld = self.skip(st["inner"][2])
        d3, o, args = self.member_call(ld)
        if d3.get("name") != "load" or self.skip(o).get("kind") != "CXXThisExpr" or self.owner(d3).get("id") != own.get("id") or len(args) != 2:
            fail(ld, "second argument of store is not this->load<simd_mode>(cm, j)")
        li = self.fn_expr_load(d3, own)
        if li["mode"] != si["mode"]:
            fail(st, "store of mode %s applied to load<%s>" % (si["mode"], li["mode"]))
        # ---- the constants
        bind = {"stored": "(fun cm j k => CSemExpr.loadCell (%s [tmp] (CSemExpr.elemPtr 0 0) (%s %s m this cm j)) (CSemExpr.elemPtr 0 k))" % (si["name"], li["name"], KARGS)}
        names = dict((v[1], k) for k, v in fn.env.items() if v[1] in ref_params)
        iseq = None
        for pn in ref_params:
            if pn == "stored":
                continue
            if pn not in names:
                fail(d, "parameter %r of expr_to_bool is not a constant referenced by this instantiation" % pn)
            vd = self.byid.get(names[pn])
            if pn in ("nmoduli", "degree"):
                if vd is None or (vd.get("_parent") or {}).get("id") != own.get("id"):
                    fail(d, "`%s` is not a member of the expression class" % pn)
                if self.class_const({"id": vd["id"], "name": vd.get("name")}, vd) != pn:
                    fail(vd, "expr::%s does not resolve to poly::%s" % (pn, pn))
                bind[pn] = pn
            elif pn == "elt_count_value":
                ec = (vd or {}).get("_parent") or {}
                mo = ((ec.get("_parent") or {}).get("_parent") or {}).get("name")
                if vd is None or vd.get("name") != "value" or ec.get("name") != "elt_count" or mo != si["mode"]:
                    fail(d, "vector_size is not simd::%s::elt_count<T>::value" % si["mode"])
                vi = [c for c in vd["inner"] if c.get("kind")][0]
                vs = self.nat(vi["inner"][0] if vi.get("kind") == "ImplicitCastExpr" and vi.get("castKind") == "IntegralCast" and vi["inner"][0].get("kind") == "BinaryOperator" else vi, {})
                bind[pn] = "(%s)" % vs
            elif pn == "is_eqmod_value":
                # `value` is a member of std::integral_constant (outside the dumped namespace): resolved through the base of the instantiated trait is_eqmod<Op>
                op = [a.get("type", {}).get("qualType", "") for a in own.get("inner", []) if a.get("kind") == "TemplateArgument"][0]
                found = []
                for c in self.byid.values():
                    if c.get("kind") == "ClassTemplateSpecializationDecl" and c.get("name") == "is_eqmod" and c.get("completeDefinition"):
                        ta = [a.get("type", {}).get("qualType", "") for a in c.get("inner", []) if a.get("kind") == "TemplateArgument"]
                        if len(ta) == 1 and parse_type(ta[0]) == parse_type(op):
                            found.append(c)
                bases = [b.get("type", {}).get("desugaredQualType", "") for c in found for b in c.get("bases", [])]
                vals = {"std::integral_constant<bool, true>": True, "std::integral_constant<bool, false>": False}
                if len(found) != 1 or len(bases) != 1 or bases[0] not in vals:
                    fail(d, "is_eqmod<%s> not resolved (%d instantiations, bases %r)" % (op, len(found), bases))
                iseq = vals[bases[0]]
                bind[pn] = "true" if iseq else "false"
            else:
                fail(d, "parameter %r of expr_to_bool has no binding rule" % pn)
        T = tsuf(ot.T)
        name = "expr_to_bool_%s_%s_%s" % (si["mode"], T, ot.key())
        self.emit(name, "/-- `expr<%s<T,%s>, …>::operator bool()`  (%s:%s) = `Gen.BoolAst.expr_to_bool` (same translated text) with what this instantiation resolves:\n"
                        "    `simd_mode` = simd::%s, `is_eqmod<Op>::value` = %s; `tmp` : indeterminate initial contents of the local array `tmp[vector_size]` -/\n"
                        "@[reducible] def %s %s (m : CSemExpr.Mem) (tmp : List Nat) (this : %s) : Bool :=\n  Gen.BoolAst.expr_to_bool %s" % (
                            ot.op, ot.tag, self.short(d.get("_file")), d.get("_line"), si["mode"], bind["is_eqmod_value"], name, KPARAMS, ot.lean(),
                            " ".join(bind[pn] for pn in ref_params)))
        info = {"name": name, "ot": ot, "mode": si["mode"], "vs": bind["elt_count_value"][1:-1], "iseq": iseq}
        self.memo[d["id"]] = info
        return info

    # ------------------------------------------------------------------ the functions of the translation unit
    def src_tree(self, n, leafno):
        n = self.skip(n)
        if n.get("kind") == "DeclRefExpr":
            return ".leaf %d" % leafno[n["referencedDecl"]["id"]]
        rd = n["inner"][0]["inner"][0]["referencedDecl"]
        nm = CALLEE_SRC.get(rd.get("name")) or fail(n, "callee %r" % rd.get("name"))
        return ".%s %s" % (nm, " ".join("(%s)" % self.src_tree(a, leafno) for a in n["inner"][1:]))

    def ty_data(self, ot):
        if ot.kind == "poly":
            return ".poly"
        cls = None
        for c in self.byid.values():
            if c.get("kind") == "ClassTemplateSpecializationDecl" and c.get("name") == "expr" and any(x.get("kind") == "TypeAliasDecl" and x.get("name") == "simd_mode" for x in c.get("inner", [])):
                try:
                    cot = self.class_ot(c, c)
                except Unsupported:
                    continue
                if cot.key() == ot.key() and cot.polys() == ot.polys():
                    cls = c
                    break
        if cls is None:
            raise Unsupported("no instantiated class for %s" % ot.key())
        al = [x for x in cls["inner"] if x.get("kind") == "TypeAliasDecl" and x.get("name") == "simd_mode"][0]
        sm = parse_type(dq(al))[0]
        if sm not in self.modes or ot.tag not in self.modes:
            fail(al, "simd_mode %r / tag %r without a `mode` constant" % (sm, ot.tag))
        return ".node%d .%s %d %d %s" % (len(ot.args), ot.op, self.modes[ot.tag], self.modes[sm], " ".join("(%s)" % self.ty_data(a) for a in ot.args))

    def toplevel(self, f):
        nm = f["name"]
        m = re.fullmatch(r"nflverif_(assign|construct|tobool)_(?:(\w+?)_)?(u\d+)_(\d)", nm)
        if not m:
            return None
        kind, shape, T, k = m.groups()
        ps = self.params_of(f)
        b = self.body_of(f)
        if len(b.get("inner", [])) != 1:
            fail(b, "test function body")
        s = b["inner"][0]
        env, sig, leafno = {}, [], {}
        for p in ps:
            ot = OT(parse_type(dq(p)), p)
            env[p["id"]] = Val("obj", p["name"], ot)
            sig.append(p["name"])
            if p["name"] != "d":
                leafno[p["id"]] = int(p["name"][1:])
        cfg = self.cfg[0]
        self.fc = 0
        if kind == "assign":
            text, info, rv, fc = self.assign_call(s, env)
            rhs = self.skip(self.skip(s)["inner"][2])
            name = "assign_%s_%s_%s" % (shape, cfg, T)
            self.emit(name, "/-- `d = %s;` for `poly<%s, Degree, NbModuli>` in the %s build (`E::simd_mode` = simd::%s) -/\n@[reducible] def %s %s (m : CSemExpr.Mem) (%s : Nat) : CSemExpr.Mem :=\n  %s" % (
                cpp_of(dict(SHAPES)[shape]), env[ps[0]["id"]].ot.T, cfg, info["mode"], name, KPARAMS, " ".join(sig), text))
            pot = env[ps[0]["id"]].ot
            data = "{ backend := %d, limbBits := %d, src := %s, ty := %s, fused := %d, storeMode := %d, vectorSize := %s }" % (
                self.modes[cfg], TBITS[pot.T], self.src_tree(rhs, leafno), self.ty_data(rv.ot), fc, self.modes[info["mode"]], info["vs"])
            if self.modes.get(info["ec_owner"]) != self.modes[info["mode"]]:
                fail(f, "elt_count of %s but store of %s" % (info["ec_owner"], info["mode"]))
            self.emit("resolved_%s_%s_%s" % (shape, cfg, T), "/-- what clang resolved for `d = %s;` (%s build, %s) -/\ndef resolved_%s_%s_%s : CSemExpr.Resolved :=\n  %s" % (
                cpp_of(dict(SHAPES)[shape]), cfg, pot.T, shape, cfg, T, data))
            return name
        if kind == "construct":
            self.count(s)
            vd = s["inner"][0] if s.get("kind") == "DeclStmt" and len(s.get("inner", [])) == 1 else {}
            ce = self.skip([c for c in vd.get("inner", []) if c.get("kind")][0]) if vd.get("kind") == "VarDecl" else {}
            if ce.get("kind") != "CXXConstructExpr" or len(ce.get("inner", [])) != 1:
                fail(s, "expected `poly c(<expr>);`")
            self.count(vd); self.count(ce)
            pot = OT(parse_type(dq(vd)), vd)
            rv = self.obj(ce["inner"][0], env)
            r = self.fn_ctor(pot, rv.ot, s)
            name = "construct_%s_%s_%s" % (shape, cfg, T)
            self.emit(name, "/-- `poly<%s, Degree, NbModuli> c(%s);` in the %s build: the heap after the definition (`c` is the new last object, `junk` its indeterminate initial contents) -/\n"
                            "@[reducible] def %s %s (m : CSemExpr.Mem) (junk : List Nat) (%s : Nat) : CSemExpr.Mem :=\n  let mc := CSemExpr.alloc m junk\n  let m := mc.1\n  let c := mc.2\n  %s %s m c %s" % (
                                pot.T, cpp_of(dict(SHAPES)[shape]), cfg, name, KPARAMS, " ".join(sig), r["name"], KARGS, paren(rv.text)))
            return name
        # tobool
        self.count(s)
        e = s["inner"][0] if s.get("kind") == "ReturnStmt" else {}
        if e.get("kind") == "ExprWithCleanups":
            self.count(e)
            e = e["inner"][0]
        while e.get("kind") in ("CXXFunctionalCastExpr", "ImplicitCastExpr") and e.get("castKind") in ("NoOp", "UserDefinedConversion"):
            self.count(e)
            e = e["inner"][0]
        d, o, args = self.member_call(e)
        if shape:
            # bool(<expression>): expr::operator bool through the expression machinery
            own = self.owner(d)
            if d.get("name") != "operator bool" or args or own.get("name") != "expr":
                fail(e, "expected bool(<expression>)")
            self.fc = 0
            rv = self.obj(o, env)
            fc = self.fc
            info = self.fn_expr_tobool(d, own)
            pot = env[ps[0]["id"]].ot
            if info["ot"].key() != rv.ot.key() or set(rv.ot.polys()) != {(pot.T, pot.deg, pot.nm)}:
                fail(e, "operator bool instantiated for another expression / mixed polynomial types")
            name = "tobool_%s_%s_%s" % (shape, cfg, T)
            self.emit(name, "/-- `bool(%s)` for `poly<%s, Degree, NbModuli>` in the %s build (`simd_mode` = simd::%s); `tmp` = the indeterminate initial contents of the local array -/\n"
                            "@[reducible] def %s %s (m : CSemExpr.Mem) (tmp : List Nat) (%s : Nat) : Bool :=\n  %s %s m tmp %s" % (
                                cpp_of(dict(SHAPES)[shape]), pot.T, cfg, info["mode"], name, KPARAMS, " ".join(sig), info["name"], KARGS, paren(rv.text)))
            data = "{ backend := %d, limbBits := %d, src := %s, ty := %s, fused := %d, storeMode := %d, vectorSize := %s }" % (
                self.modes[cfg], TBITS[pot.T], self.src_tree(o, leafno), self.ty_data(rv.ot), fc, self.modes[info["mode"]], info["vs"])
            self.emit("resolved_tobool_%s_%s_%s" % (shape, cfg, T), "/-- what clang resolved for `bool(%s)` (%s build, %s): `storeMode` / `vectorSize` are those of the `store` / `elt_count` of `operator bool` -/\n"
                      "def resolved_tobool_%s_%s_%s : CSemExpr.Resolved :=\n  %s" % (cpp_of(dict(SHAPES)[shape]), cfg, pot.T, shape, cfg, T, data))
            return name
        ov = self.obj(o, env)
        if d.get("name") != "operator bool" or args or ov.ot.kind != "poly":
            fail(e, "expected bool(a0) on a poly")
        info = self.fn_tobool(d, self.owner(d))
        self.extents.setdefault(T, []).append((ov.ot.deg, ov.ot.nm, info["extent"]))
        name = "tobool_%s_%s" % (cfg, T)
        self.emit(name, "/-- `bool(a0)` for `poly<%s, Degree, NbModuli>` -/\n@[reducible] def %s (data_extent : Nat) (m : CSemExpr.Mem) (a0 : Nat) : Bool :=\n  %s data_extent m a0" % (ov.ot.T, name, info["name"]))
        return name

    extents = {}


def load_functors():
    """C++ qualified name of a functor's operator() -> generated Lean definition (name, parameters, source line, result type)"""
    out = {}
    for fn, ns in (("OpsAst.lean", "Gen"), ("SimdAst.lean", "GenSimd")):
        txt = open(os.path.join(GEN, fn)).read()
        for m in re.finditer(r"/-- `(nfl::ops::[^`]+::operator\(\))`\s+\(([^)]+)\)[^\n]*\n(?:[^\n]*\n)?def (\w+) ([^\n]*?) : ([\w. ]+) :=", txt):
            q, line, name, sig, ret = m.groups()
            params = []
            for g in re.finditer(r"\(([^:()]+):[^)]*\)", sig):
                params += g.group(1).split()
            out[q] = {"name": "%s.%s" % (ns, name), "params": params, "line": line, "ret": "List Nat" if "Reg" in ret else "Nat"}
    return out


def main():
    repo = os.environ.get("VERIF_REPO", "/repo")
    out = OUT
    if "--repo" in sys.argv:
        repo = sys.argv[sys.argv.index("--repo") + 1]
    if "--out" in sys.argv:
        out = sys.argv[sys.argv.index("--out") + 1]
    repo = os.path.abspath(repo)
    os.makedirs(BUILD, exist_ok=True)
    inc = os.path.join(repo, "include")
    defs, tops, summary = {}, [], {}
    nodes, kinds, align = 0, {}, set()
    try:
        functors = load_functors()
        if len(functors) < 15:
            raise Unsupported("only %d functor definitions found in Generated/OpsAst.lean / SimdAst.lean (run gen_ops_ast.py / gen_simd_ast.py first)" % len(functors))
        Tr.extents = {}
        Tr._bool_ast = None
        for cfg in CONFIGS:
            tu = os.path.join(BUILD, "expr_ast_tu_%s.cpp" % cfg[0])
            open(tu, "w").write(make_tu(cfg))
            cmd = [CLANG, "-std=gnu++17", "-fsyntax-only", "-w"] + cfg[1] + ["-I" + inc, "-I" + os.path.join(inc, "nfl"), "-I" + os.path.join(inc, "nfl", "prng"),
                                                                             "-Xclang", "-ast-dump=json", "-Xclang", "-ast-dump-filter=nfl", tu]
            r = subprocess.run(cmd, capture_output=True, text=True)
            if r.returncode != 0:
                errs = [l for l in r.stderr.splitlines() if "error:" in l][:6]
                raise Unsupported("clang cannot compile the translation unit of the %s build (rc=%d): %s" % (cfg[0], r.returncode, " | ".join(errs) or r.stderr[-1500:]))
            if "--keep" in sys.argv:
                open(os.path.join(BUILD, "expr_ast_dump_%s.json" % cfg[0]), "w").write(r.stdout)
            objs = parse_objects(r.stdout)
            byid = annotate(objs)
            tr = Tr(repo, cfg, byid, defs, functors)
            want = sum(len(v) * 2 for v in cfg[2].values()) + sum(len(v) * 2 for v in cfg[3].values()) + 2 * len(cfg[4]) + sum(len(v) * 2 for v in cfg[5].values())
            got = 0
            for o in objs:
                if o.get("kind") == "FunctionDecl" and o.get("name", "").startswith("nflverif_") and not o["name"].startswith("nflverif_gets_"):
                    t = tr.toplevel(o)
                    if t:
                        got += 1
                        if t not in tops:
                            tops.append(t)
            if got != want:
                raise Unsupported("%d test functions translated in the %s build, expected %d" % (got, cfg[0], want))
            nodes += tr.nodes
            for k, v in tr.kinds.items():
                kinds[k] = kinds.get(k, 0) + v
            align |= tr.align_sites
            summary[cfg[0]] = {"functions": got, "std_get_instantiations": len(tr.getidx), "modes": tr.modes}
        # simd::X::load/store<T> and eqmod/neqmod::operator()<A> do not depend on Degree / NbModuli
        single = [n for n, v in defs.items() if v[2] < 2 and not n.startswith("simd_") and not n.startswith("cmp_")]
        if single:
            raise Unsupported("definitions produced by one instantiation only (no second template argument set to compare with): %s" % ", ".join(single[:5]))
    except Unsupported as e:
        msg = "gen_expr_ast: UNSUPPORTED C++ construct, nothing translated: %s" % e
        sys.stderr.write(msg + "\n")
        print(json.dumps({"ok": False, "err": msg}))
        sys.exit(3)
    ext = "\n".join("/-- (Degree, NbModuli, extent of `_data`) of the instantiations `bool(a0)` was translated from -/\ndef tobool_instances_%s : List (Nat × Nat × Nat) := [%s]" % (
        T, ", ".join("(%d, %d, %d)" % e for e in v)) for T, v in sorted(Tr.extents.items()))
    helper = [n for n in defs if not n.startswith("resolved_") and n != "poly_assign"]
    head = [
        "-- GENERATED by tools/gen_expr_ast.py from clang++-14's typed AST of the expression-template evaluation machinery",
        "-- (include/nfl/core.hpp, poly.hpp, ops.hpp, arch/common.hpp, opt/arch/sse.hpp, opt/arch/avx2.hpp), through the instantiations of build/expr_ast_tu_*.cpp.  Do not edit.",
        "-- Every definition is the translation of one C++ function body; each was produced by (at least) two instantiations that gave the same text.",
        "import NflVerif.Model.CSem",
        "import NflVerif.Model.CSemExpr",
        "import NflVerif.Generated.OpsAst",
        "import NflVerif.Generated.SimdAst",
        "import NflVerif.Generated.BoolAst",
        "namespace Nfl.Gen.ExprAst",
        "open Nfl",
        "set_option linter.unusedVariables false",
        "",
    ]
    body = "\n\n".join(v[0] for v in defs.values())
    unfold = ("set_option maxRecDepth 8192 in\n/-- unfolds every translated helper definition (not the loop `poly_assign`) -/\nmacro \"expr_ast_unfold\" : tactic =>\n  `(tactic| simp only [%s])" %
              ", ".join(helper))
    tail = "\n\n" + ext + "\n\n" + unfold + "\n\n/-- the test functions of the translation units -/\ndef toplevel_names : List String := [%s]\n\nend Nfl.Gen.ExprAst\n" % ", ".join('"%s"' % t for t in tops)
    text = "\n".join(head) + "\n" + body + tail
    changed = write_if_changed(out, text)
    print(json.dumps({"ok": True, "definitions": len(defs), "toplevel": tops, "instances_agree": True, "nodes": nodes, "node_kinds": dict(sorted(kinds.items())),
                      "configs": summary, "alignment_sites": sorted(align), "sha": hashlib.sha256(text.encode()).hexdigest()[:16], "changed": changed,
                      "out": os.path.relpath(out, VERIF), "repo": repo}))


if __name__ == "__main__":
    main()
