"""Shared machinery of ./check: regeneration, lake build, axiom audit, harness builds (from /repo's
current working tree), correspondence streams through the Lean driver, decision, evidence."""
import fcntl, glob, hashlib, json, os, re, shutil, subprocess, sys, time

HERE = os.path.dirname(os.path.abspath(__file__))
VERIF = os.path.dirname(HERE)
LEAN = os.path.join(VERIF, "lean")
BUILD = os.path.join(VERIF, "build")
HARNESS = os.path.join(VERIF, "harness")
REPO = os.environ.get("VERIF_REPO", "/repo")
DRIVER = os.path.join(LEAN, ".lake", "build", "bin", "driver")
ALLOWED_AXIOMS = {"propext", "Classical.choice", "Quot.sound"}
FORBIDDEN = re.compile(r"\b(sorry|admit|native_decide|bv_decide|implemented_by)\b|^\s*axiom\s|\bunsafe\s|maxHeartbeats\s+0\b")

BACKENDS = {
    "serial": ["-DNFL_OPTIMIZED"],
    "plain": [],  # the default build of the test-suite: no NFL_OPTIMIZED at all
    "sse": ["-DNFL_OPTIMIZED", "-DNTT_SSE", "-msse4.2"],
    "avx2": ["-DNFL_OPTIMIZED", "-DNTT_AVX2", "-mavx2"],
    # what `cmake -DNFL_OPTIMIZED=ON` builds on this machine (CMakeLists.txt: -march=native, NTT_AVX2 when <immintrin.h> compiles):
    # the AVX2 kernels compiled with every ISA extension of the host enabled (AVX-512VL, BMI2, … change which #if branches
    # and which instruction selections are live)
    "native": ["-DNFL_OPTIMIZED", "-DNTT_AVX2", "-march=native"],
}

_SIMD = None


def simd_backends():
    """("sse", "avx2") plus "native" when -march=native enables AVX2 and more than -mavx2 does on this host"""
    global _SIMD
    if _SIMD is None:
        def macros(flag):
            r = subprocess.run("g++ %s -dM -E - </dev/null" % flag, shell=True, capture_output=True, text=True)
            return {l.split()[1] for l in r.stdout.splitlines() if l.startswith("#define __") and
                    re.match(r"#define __(AVX|SSE|BMI|FMA|ADX|LZCNT|POPCNT|VAES|VPCLMUL|GFNI|SHA)", l)}
        nat, avx2 = macros("-march=native"), macros("-mavx2")
        _SIMD = ("sse", "avx2") + (("native",) if "__AVX2__" in nat and nat - avx2 else ())
    return _SIMD


def log(*a):
    print(*a, file=sys.stderr, flush=True)


def run(cmd, **kw):
    return subprocess.run(cmd, capture_output=True, text=True, **kw)


class Lock:
    def __enter__(self):
        os.makedirs(BUILD, exist_ok=True)
        self.f = open(os.path.join(BUILD, ".lock"), "w")
        fcntl.flock(self.f, fcntl.LOCK_EX)
        return self

    def __exit__(self, *a):
        fcntl.flock(self.f, fcntl.LOCK_UN)
        self.f.close()


def repo_hash():
    """Hash of every source file of /repo that a harness may include or compile."""
    h = hashlib.sha256()
    for root in ("include", "lib"):
        for dp, dn, fn in sorted(os.walk(os.path.join(REPO, root))):
            dn.sort()
            for f in sorted(fn):
                p = os.path.join(dp, f)
                h.update(p.encode())
                with open(p, "rb") as fh:
                    h.update(fh.read())
    return h.hexdigest()[:16]


_repo_hash = None


def get_repo_hash():
    global _repo_hash
    if _repo_hash is None:
        _repo_hash = repo_hash()
    return _repo_hash


# ---------------------------------------------------------------------------------------------
# Lean side
# ---------------------------------------------------------------------------------------------

def regenerate():
    """Run the translators; Generated/*.lean are rewritten only when their content changes."""
    t0 = time.time()
    r = run(["python3", os.path.join(HERE, "gen_params.py"), "--repo", REPO])
    info = {"gen_params_ok": r.returncode == 0, "gen_params_s": round(time.time() - t0, 1)}
    if r.returncode != 0:
        info["gen_params_err"] = (r.stdout + r.stderr)[-2000:]
    else:
        try:
            info["gen_params"] = json.loads(r.stdout.strip().splitlines()[-1])
        except Exception:
            pass
    return info


def lake_build(targets):
    t0 = time.time()
    r = run(["lake", "build"] + targets, cwd=LEAN)
    out = r.stdout + r.stderr
    errs = [l for l in out.splitlines() if l.startswith("error:") or "error:" in l[:200]]
    return {"ok": r.returncode == 0, "wall_s": round(time.time() - t0, 1), "errors": errs[:40], "log_tail": out[-4000:] if r.returncode else "",
            "broken": broken_decls(errs)}


def broken_decls(errs):
    """name the declaration each Lean error falls into: 'NflVerif/Proofs/X.lean:12 (theorem foo_eq)'"""
    out = []
    for e in errs:
        m = re.search(r"([\w./-]+\.lean):(\d+):\d+", e)
        if not m:
            continue
        path, line = m.group(1), int(m.group(2))
        full = path if os.path.isabs(path) else os.path.join(LEAN, path)
        name = "?"
        try:
            src = open(full).read().splitlines()
            for i in range(min(line, len(src)) - 1, -1, -1):
                d = re.match(r"\s*(?:private\s+|protected\s+)?(theorem|lemma|def|example|instance)\s*([^\s:({\[]*)", src[i])
                if d:
                    name = (d.group(1) + " " + d.group(2)).strip()
                    break
        except Exception:
            pass
        item = "%s:%d (%s)" % (os.path.relpath(full, LEAN), line, name)
        if item not in out:
            out.append(item)
    return out[:12]


def registry():
    """one file per property: lean/registry.d/Cxx.json = {"modules": [...], "theorems": [...]}"""
    reg = {}
    for f in sorted(glob.glob(os.path.join(LEAN, "registry.d", "*.json"))):
        reg[os.path.basename(f)[:-5]] = json.load(open(f))
    return reg


def audit(prop, reg):
    """grep for forbidden constructs in the hand-written Lean sources and `#print axioms` every
    registered property theorem."""
    bad = []
    for path in glob.glob(os.path.join(LEAN, "NflVerif", "**", "*.lean"), recursive=True) + \
            glob.glob(os.path.join(LEAN, "Driver", "*.lean")):
        in_block = 0
        for i, line in enumerate(open(path), 1):
            # strip comments (line comments and /- -/ blocks, coarse but conservative)
            s = line
            if in_block:
                if "-/" in s:
                    s = s.split("-/", 1)[1]
                    in_block = 0
                else:
                    continue
            while "/-" in s:
                pre, post = s.split("/-", 1)
                if "-/" in post:
                    s = pre + post.split("-/", 1)[1]
                else:
                    s = pre
                    in_block = 1
                    break
            s = s.split("--", 1)[0]
            if FORBIDDEN.search(s):
                bad.append("%s:%d: %s" % (os.path.relpath(path, LEAN), i, line.strip()[:120]))
    entry = reg[prop]
    thms = entry["theorems"]
    mods = entry["modules"]
    src = "".join("import %s\n" % m for m in mods) + "".join("#print axioms %s\n" % t for t in thms)
    apath = os.path.join(LEAN, "NflVerif", "Audit")
    os.makedirs(apath, exist_ok=True)
    f = os.path.join(BUILD, "audit_%s.lean" % prop)
    open(f, "w").write(src)
    r = run(["lake", "env", "lean", f], cwd=LEAN)
    out = r.stdout + r.stderr
    res = {}
    # output forms: "'X' depends on axioms: [a, b]"   /  "'X' does not depend on any axioms"
    for m in re.finditer(r"'([^']+)' depends on axioms: \[([^\]]*)\]", out.replace("\n", " ")):
        res[m.group(1)] = [a.strip() for a in m.group(2).split(",") if a.strip()]
    for m in re.finditer(r"'([^']+)' does not depend on any axioms", out):
        res[m.group(1)] = []
    discharged, problems = [], []
    for t in thms:
        if t not in res:
            problems.append("%s: not found / not checked" % t)
        elif set(res[t]) - ALLOWED_AXIOMS:
            problems.append("%s: axioms %s" % (t, sorted(set(res[t]) - ALLOWED_AXIOMS)))
        else:
            discharged.append(t)
    if r.returncode != 0 and not problems:
        problems.append("audit file failed: " + out[-500:])
    return {"forbidden": bad, "axioms": res, "discharged": discharged, "problems": problems}


def leanchecker(mods):
    out = []
    for m in mods:
        r = run(["lake", "env", "leanchecker", m], cwd=LEAN)
        out.append({"module": m, "ok": r.returncode == 0, "tail": (r.stdout + r.stderr)[-300:]})
    return out


# ---------------------------------------------------------------------------------------------
# Harness side
# ---------------------------------------------------------------------------------------------

def build_harness(name, backend, srcs=None, extra=None, libs=True, sanitize="address,undefined", opt="-O1",
                  define_check_strictmod=False, with_prng=True, extra_srcs=None, with_params=True):
    """Compile harness/<name>.cpp against /repo's *current* headers and lib sources.
    Binaries are cached under build/ keyed by the hash of /repo's include+lib and of the harness."""
    os.makedirs(BUILD, exist_ok=True)
    srcs = srcs or [os.path.join(HARNESS, name + ".cpp")]
    flags = ["-std=gnu++17", opt, "-g", "-fno-access-control", "-DNFLLIB_VERIF",
             "-DBACKEND_NAME=\"%s\"" % backend] + BACKENDS[backend] + (extra or [])
    if define_check_strictmod:
        flags.append("-DCHECK_STRICTMOD")
    if sanitize:
        flags += ["-fsanitize=" + sanitize, "-fno-sanitize-recover=all", "-fno-omit-frame-pointer"]
    if os.environ.get("VERIF_COVERAGE"):
        # tools/coverage_report.py: which lines of /repo do the correspondence harnesses execute at all
        flags += ["--coverage", "-fprofile-update=atomic"]
    inc = ["-I" + os.path.join(REPO, "include"), "-I" + os.path.join(REPO, "include", "nfl"),
           "-I" + os.path.join(REPO, "include", "nfl", "prng"), "-I" + HARNESS]
    libsrc = [os.path.join(REPO, "lib", "params", "params.cpp")] if with_params else []
    if with_prng:
        libsrc += [os.path.join(REPO, "lib", "prng", "fastrandombytes.cpp"),
                   os.path.join(REPO, "lib", "prng", "randombytes.cpp"),
                   os.path.join(REPO, "lib", "prng", "nfl_crypto_stream_salsa20_amd64_xmm6.s")]
    libsrc += extra_srcs or []
    h = hashlib.sha256()
    h.update(get_repo_hash().encode())
    for s in srcs + [os.path.join(HARNESS, "common.hpp")] + (extra_srcs or []):
        h.update(open(s, "rb").read())
    h.update(" ".join(flags).encode())
    key = h.hexdigest()[:12]
    exe = os.path.join(BUILD, "%s_%s_%s" % (name, backend, key))
    if os.path.exists(exe):
        return exe, None
    for old in glob.glob(os.path.join(BUILD, "%s_%s_*" % (name, backend))):
        try:
            os.remove(old)
        except OSError:
            pass
    cmd = ["g++"] + flags + inc + srcs + libsrc + ["-o", exe, "-lgmpxx", "-lgmp", "-lmpfr", "-lpthread"]
    r = run(cmd)
    if r.returncode != 0:
        return None, (r.stdout + r.stderr)[-3000:]
    return exe, None


def build_harnesses(specs):
    """specs: list of dict(name, backend, **kw). Builds in parallel. Returns {(name,backend): exe} / errors."""
    from concurrent.futures import ThreadPoolExecutor
    res, errs = {}, {}

    def one(s):
        s = dict(s)
        name, backend = s.pop("name"), s.pop("backend")
        exe, err = build_harness(name, backend, **s)
        return (name, backend), exe, err

    with ThreadPoolExecutor(max_workers=8) as ex:
        for key, exe, err in ex.map(one, specs):
            if exe:
                res[key] = exe
            else:
                errs[key] = err
    return res, errs


class StreamResult:
    def __init__(self):
        self.lines = 0
        self.ok = 0
        self.modeldiff = []
        self.specfail = []
        self.bad = []
        self.classes = {}
        self.samples = []
        self.distinct = set()       # legacy (kept for plug-ins that add to it); the driver counts distinct lines itself
        self.distinct_count = 0
        self.specfail_total = 0
        self.modeldiff_total = 0
        self.bad_total = 0
        self.harness_rc = 0
        self.harness_err = ""
        self.driver_rc = 0
        self.streams = []

    def merge_counts(self):
        return {"lines": self.lines, "ok": self.ok, "modeldiff": len(self.modeldiff),
                "specfail": len(self.specfail), "bad": len(self.bad)}


def _parse_driver_output(res, label, out_lines, fulls=None):
    """accumulate the driver's report lines into `res`"""
    fulls = fulls if fulls is not None else {}
    pending = []
    for l in out_lines:
        if l.startswith("FULL "):
            _, n, rest = l.split(" ", 2)
            fulls[int(n)] = rest
    for l in out_lines:
        if l.startswith("SPECFAIL "):
            n = int(l.split()[1])
            res.specfail.append({"stream": label, "line": fulls.get(n, l.split(" ", 2)[2]), "driver": l[:600]})
        elif l.startswith("MODELDIFF "):
            n = int(l.split()[1])
            res.modeldiff.append({"stream": label, "line": fulls.get(n, l.split(" ", 2)[2]), "driver": l[:600]})
        elif l.startswith("BAD "):
            res.bad.append("[%s] %s" % (label, l[:300]))
        elif l.startswith("CLASS "):
            k, n = l[6:].rsplit(" ", 1)
            res.classes[k] = res.classes.get(k, 0) + int(n)
        elif l.startswith("SUMMARY "):
            kv = dict(x.split("=") for x in l.split()[1:])
            res.lines += int(kv["lines"])
            res.ok += int(kv["ok"])
            res.distinct_count += int(kv.get("distinct", 0))
            # failures beyond the driver's report cap are only counted
            res.specfail_total += int(kv["specfail"])
            res.modeldiff_total += int(kv["modeldiff"])
            res.bad_total += int(kv["bad"])


REPLAY_LHS = None   # when set (./check --replay): only lines whose left-hand side is in this set reach the driver


def run_stream(res, label, exe, env=None, args=None, line_filter=None, trivial=None, stdin_data=None, timeout=3000):
    """Run one harness binary and pipe its op lines to the Lean driver (streamed: memory stays bounded whatever the
    stream size).  `line_filter(line)` may return False (drop), True (keep) or a replacement line."""
    import threading
    e = dict(os.environ)
    e.update(env or {})
    e.setdefault("ASAN_OPTIONS", "detect_leaks=1:abort_on_error=0:exitcode=97")
    e.setdefault("UBSAN_OPTIONS", "print_stacktrace=1:halt_on_error=1:exitcode=98")
    t0 = time.time()
    errf = open(os.path.join(BUILD, "stderr_%s_%d.txt" % (re.sub(r"[^A-Za-z0-9_.-]", "_", label), os.getpid())), "w+")
    h = subprocess.Popen([exe] + (args or []), stdout=subprocess.PIPE, stderr=errf, stdin=subprocess.PIPE if stdin_data else subprocess.DEVNULL,
                         env=e, text=True, bufsize=1 << 20)
    d = subprocess.Popen([DRIVER], stdin=subprocess.PIPE, stdout=subprocess.PIPE, stderr=subprocess.PIPE, text=True, bufsize=1 << 20)
    dout = []
    rd = threading.Thread(target=lambda: dout.extend(d.stdout.read().splitlines()))
    rd.start()
    if stdin_data:
        threading.Thread(target=lambda: (h.stdin.write(stdin_data), h.stdin.close())).start()
    n = 0
    sample_every = 1
    try:
        for l in h.stdout:
            if not l or l[0] == "#" or l == "\n":
                continue
            if line_filter:
                k = line_filter(l.rstrip("\n"))
                if k is False or k is None:
                    continue
                if k is not True:
                    l = k + "\n"
            if REPLAY_LHS is not None and l.split(" =>")[0].strip() not in REPLAY_LHS:
                continue
            try:
                d.stdin.write(l)
            except BrokenPipeError:
                break
            n += 1
            if n % sample_every == 0 and len(res.samples) < 12:
                ll = l.rstrip("\n")
                res.samples.append(("[%s] " % label) + (ll if len(ll) < 400 else ll[:400] + " …"))
                sample_every *= 8
            if time.time() - t0 > timeout:
                h.kill()
                res.harness_err += "[%s] harness timeout\n" % label
                break
    finally:
        try:
            d.stdin.close()
        except Exception:
            pass
    hrc = h.wait()
    d.wait()
    rd.join()
    errf.seek(0)
    err = errf.read()
    errf.close()
    try:
        os.remove(errf.name)
    except OSError:
        pass
    if hrc != 0:
        res.harness_rc = hrc
        res.harness_err += "[%s] rc=%d\n%s\n" % (label, hrc, err[-3000:])
    if d.returncode not in (0, 1):
        res.driver_rc = d.returncode
        res.bad.append("[%s] driver crashed rc=%d %s" % (label, d.returncode, d.stderr.read()[-500:]))
    _parse_driver_output(res, label, dout)
    res.streams.append({"label": label, "lines": n, "wall_s": round(time.time() - t0, 2), "harness_rc": hrc})

    class _H:
        returncode = hrc
        stderr = err
        stdout = ""
    return _H


def feed_driver(res, label, lines, trivial=None):
    if not lines:
        return
    d = subprocess.run([DRIVER], input="\n".join(lines) + "\n", capture_output=True, text=True)
    res.driver_rc = res.driver_rc or (0 if d.returncode in (0, 1) else d.returncode)
    if d.returncode not in (0, 1):
        res.bad.append("[%s] driver crashed rc=%d %s" % (label, d.returncode, d.stderr[-500:]))
    _parse_driver_output(res, label, d.stdout.splitlines(), {i + 1: l for i, l in enumerate(lines)} if len(lines) < 100000 else None)
    step = max(1, len(lines) // 3)
    for l in lines[::step][:3]:
        if len(res.samples) < 12:
            res.samples.append(("[%s] " % label) + (l if len(l) < 400 else l[:400] + " …"))


def merge_results(res, parts):
    for r in parts:
        res.lines += r.lines
        res.ok += r.ok
        res.modeldiff += r.modeldiff
        res.specfail += r.specfail
        res.bad += r.bad
        for k, v in r.classes.items():
            res.classes[k] = res.classes.get(k, 0) + v
        res.samples += r.samples
        res.distinct |= r.distinct
        res.distinct_count += r.distinct_count
        res.specfail_total += r.specfail_total
        res.modeldiff_total += r.modeldiff_total
        res.bad_total += r.bad_total
        if r.harness_rc != 0:
            res.harness_rc = r.harness_rc
        res.harness_err += r.harness_err
        res.driver_rc = res.driver_rc or r.driver_rc
        res.streams += r.streams


def run_streams_parallel(res, jobs, workers=6):
    """jobs: list of dict(label=, exe=, env=, args=, line_filter=, trivial=, timeout=); each runs harness → driver in
    its own thread (separate driver process), results merged into `res` in job order."""
    from concurrent.futures import ThreadPoolExecutor

    def one(j):
        r = StreamResult()
        run_stream(r, j["label"], j["exe"], env=j.get("env"), args=j.get("args"), line_filter=j.get("line_filter"),
                   trivial=j.get("trivial"), timeout=j.get("timeout", 3000))
        return r

    with ThreadPoolExecutor(max_workers=workers) as ex:
        parts = list(ex.map(one, jobs))
    merge_results(res, parts)


# ---------------------------------------------------------------------------------------------
# Decision + evidence
# ---------------------------------------------------------------------------------------------

def load_known():
    p = os.path.join(VERIF, "known_findings.json")
    if not os.path.exists(p):
        return {"known": [], "fixed": []}
    return json.load(open(p))


def match_known(prop, failure_text, known):
    for k in known.get("known", []):
        if k.get("property") != prop:
            continue
        rx = k.get("line_regex")
        if rx and re.search(rx, failure_text):
            return k
    return None


def write_replay(prop, payload):
    d = os.path.join(BUILD, "replay")
    os.makedirs(d, exist_ok=True)
    n = 1
    while os.path.exists(os.path.join(d, "%s-%d.json" % (prop, n))):
        n += 1
    path = os.path.join(d, "%s-%d.json" % (prop, n))
    json.dump(payload, open(path, "w"), indent=1)
    return path


def write_evidence(prop, tier, seed, level, coverage, assumptions, wall, violations):
    # evidence/ holds runs against /repo itself only; a run against a scratch tree (VERIF_REPO=…, used to try seeded
    # changes) writes to build/evidence_scratch/ so that it can never be committed as evidence
    scratch = os.path.realpath(REPO) != "/repo"
    d = os.path.join(BUILD, "evidence_scratch") if scratch else os.path.join(VERIF, "evidence")
    os.makedirs(d, exist_ok=True)
    ev = {"property_id": prop, "tier": tier, "seed": seed, "level": level, "coverage": coverage,
          "assumptions": assumptions, "wall_s": round(wall, 1), "violations": violations}
    if scratch:
        ev["repo"] = REPO
    json.dump(ev, open(os.path.join(d, prop + ".json"), "w"), indent=1)


def restore_generated(P):
    """after a run against a scratch tree: re-run the translators on /repo so that no Generated/*.lean of a
    modified tree is left behind in the working copy"""
    global REPO
    if os.path.realpath(REPO) == "/repo":
        return
    saved, REPO = REPO, "/repo"
    try:
        regenerate()
        if P.get("translators"):
            P["translators"]("/repo")
    finally:
        REPO = saved
