"""Shared stream code of C07 and C08: generate the translation units (tools/gen_expr.py), compile them against
/repo's current headers (in parallel, cached by content hash under build/), run them through the Lean driver, and keep
the compile predictor honest with single-expression -fsyntax-only probes."""
import glob, hashlib, os, re, subprocess, sys, time
from concurrent.futures import ThreadPoolExecutor
import checklib as cl
import gen_expr as ge

GEN_DIR = os.path.join(cl.BUILD, "gen_expr")
LIMBS = (16, 32, 64)
BACKENDS = ("plain", "serial", "sse", "avx2")
MAX_CACHE = 160     # binaries kept besides the ones of the current run


def base_flags(backend, sanitize=None, syntax_only=False):
    flags = ["-std=gnu++17", "-O1", "-g", "-fno-access-control", "-DNFLLIB_VERIF", "-DBACKEND_NAME=\"%s\"" % backend] + cl.BACKENDS[backend]
    if sanitize:
        flags += ["-fsanitize=" + sanitize, "-fno-sanitize-recover=all", "-fno-omit-frame-pointer"]
    else:
        flags.remove("-g")          # debug information is only of use in sanitizer reports; it costs 15 % of the compile time
    inc = ["-I" + os.path.join(cl.REPO, "include"), "-I" + os.path.join(cl.REPO, "include", "nfl"),
           "-I" + os.path.join(cl.REPO, "include", "nfl", "prng"), "-I" + cl.HARNESS]
    if syntax_only:
        flags = [f for f in flags if f not in ("-O1", "-g")] + ["-fsyntax-only"]
    return flags + inc


def rt_hash():
    h = hashlib.sha256()
    for f in ("expr_rt.hpp", "common.hpp"):
        h.update(open(os.path.join(cl.HARNESS, f), "rb").read())
    return h.hexdigest()


def prune_cache(keep=()):
    keep = set(keep)
    files = [f for f in sorted(glob.glob(os.path.join(cl.BUILD, "exprbin_*")), key=os.path.getmtime) if f not in keep]
    for f in files[:-MAX_CACHE]:
        try:
            os.remove(f)
        except OSError:
            pass


def compile_tu(name, source, backend, sanitize=None):
    """returns (exe or None, stderr, cached)"""
    os.makedirs(GEN_DIR, exist_ok=True)
    flags = base_flags(backend, sanitize)
    h = hashlib.sha256()
    h.update(source.encode()); h.update(cl.get_repo_hash().encode()); h.update(rt_hash().encode()); h.update(" ".join(flags).encode())
    key = h.hexdigest()[:16]
    exe = os.path.join(cl.BUILD, "exprbin_%s_%s" % (name, key))
    src = os.path.join(GEN_DIR, name + ".cpp")
    open(src, "w").write(source)
    if os.path.exists(exe):
        os.utime(exe)
        return exe, "", True
    cmd = ["g++"] + flags + [src, os.path.join(cl.REPO, "lib", "params", "params.cpp"), "-o", exe, "-lgmpxx", "-lgmp", "-lmpfr", "-lpthread"]
    r = cl.run(cmd)
    if r.returncode != 0:
        return None, r.stdout + r.stderr, False
    return exe, "", False


def blame(stderr, src_name, spans):
    """case indices whose source lines appear in the compiler diagnostics"""
    bad = set()
    for m in re.finditer(re.escape(src_name) + r":(\d+):", stderr):
        ln = int(m.group(1))
        for (a, b, k) in spans:
            if a <= ln <= b:
                bad.add(k)
    return bad


PARTS_PER_TU = {"c07": 6, "c08": 3}      # additional degrees batched per translation unit (one Env instantiation each)


def configs(tier, kind="c08"):
    """base translation units (degree 16, full case list; thorough: degree 32 and 3 moduli too) and, per limb x backend,
    translation units with the additional degrees of gen_expr.degree_plan (reduced case list each)"""
    out = []
    for w in LIMBS:
        for be in BACKENDS:
            out.append(dict(w=w, be=be, deg=16, nmod=2, tu=0))
            if tier == "thorough":
                out.append(dict(w=w, be=be, deg=32, nmod=1, tu=1))
                if be in ("sse", "avx2"):
                    out.append(dict(w=w, be=be, deg=16, nmod=(2 if w == 16 else 3), tu=2))
            plan = ge.degree_plan(w, ge.BE_CODE[be], tier)
            # interleave so that every translation unit gets small and large degrees (similar compile and run times)
            ntu = -(-len(plan) // PARTS_PER_TU[kind])
            for x in range(ntu):
                parts = [dict(deg=d, nmod=m, profile="light") for (d, m) in plan[x::ntu]]
                out.append(dict(w=w, be=be, deg=0, nmod=0, tu=10 + x, parts=parts))
    return out


def cf_name(kind, cf):
    if cf.get("parts"):
        return "%s_w%d_%s_x%d" % (kind, cf["w"], cf["be"], cf["tu"] - 10)
    return "%s_w%d_%s_d%d_m%d_t%d" % (kind, cf["w"], cf["be"], cf["deg"], cf["nmod"], cf["tu"])


def emit(kind, seed, cf, tier, drop=()):
    if kind == "c07":
        src, spans, cases = ge.emit_c07(seed, cf["w"], cf["be"], cf["deg"], cf["nmod"], tier, cf["tu"], parts=cf.get("parts"))
    else:
        src, spans, cases = ge.emit_c08(seed, cf["w"], cf["be"], cf["deg"], cf["nmod"], tier, parts=cf.get("parts"))
    if drop:
        # remove the calls of the dropped cases (their bodies stay out of the way: delete the function bodies too)
        lines = src.split("\n")
        kill = set()
        for (a, b, k) in spans:
            if k in drop:
                kill.update(range(a - 1, b))
        fn = "case_" if kind == "c07" else "shape_"
        lines = [l for i, l in enumerate(lines) if i not in kill and not any(re.match(r"\s*%s%d\(e" % (fn, k), l) for k in drop)]
        src = "\n".join(lines)
    return src, spans, cases


def run_probes(ctx, seed, tier, cov):
    """compile a sample of predicted-accepted and predicted-rejected single-expression TUs"""
    n_acc, n_rej = (0, 1) if tier == "quick" else (3, 4)
    jobs = []
    for w in LIMBS:
        for be in ("serial", "sse", "avx2"):
            for k, (pred, why, text, source) in enumerate(ge.probes(seed, w, be, 16, n_acc, n_rej) + ge.degree_probes(seed, w, be, tier)):
                jobs.append((w, be, k, pred, why, text, source))
    os.makedirs(GEN_DIR, exist_ok=True)

    def one(j):
        w, be, k, pred, why, text, source = j
        src = os.path.join(GEN_DIR, "probe_%d_%s_%d.cpp" % (w, be, k))
        open(src, "w").write(source)
        r = cl.run(["g++"] + base_flags(be, syntax_only=True) + [src])
        return j, r.returncode == 0, (r.stderr or "")[-600:]

    agree = disagree = 0
    with ThreadPoolExecutor(max_workers=min(12, os.cpu_count() or 4)) as ex:
        for j, ok, err in ex.map(one, jobs):
            w, be, k, pred, why, text, source = j
            if ok == pred:
                agree += 1
            else:
                disagree += 1
                ctx["problems"].append({"kind": "predictor", "what": "compile predictor wrong for limb %d backend %s: %s predicted %s (%s), compiler says %s" % (
                    w, be, text.replace("e.", ""), "accepted" if pred else "rejected", why, "accepted" if ok else "rejected"), "detail": err})
    cov["compile_probes"] = {"agree": agree, "disagree": disagree, "accepted_probes_per_config": n_acc, "rejected_probes_per_config": n_rej,
                             "degree_probes": sum(len(ge.degree_probes(seed, w, be, tier)) for w in LIMBS for be in ("serial", "sse", "avx2"))}


def expr_streams(ctx, res, kind, seed=None, tier=None, probes=True):
    seed = ctx["seed"] if seed is None else seed
    tier = ctx["tier"] if tier is None else tier
    cov = {"configs": [], "generator": "tools/gen_expr.py"}
    cfs = configs(tier, kind)
    sanit = lambda cf: ("address,undefined" if (tier == "thorough" and cf["tu"] in (0, 10) and (cf["w"], cf["be"]) in ((16, "sse"), (32, "avx2"), (64, "serial"))) else None)

    def build(cf):
        name = cf_name(kind, cf)
        dropped = set()
        for attempt in range(6):
            src, spans, cases = emit(kind, seed, cf, tier, dropped)
            exe, err, cached = compile_tu(name, src, cf["be"], sanit(cf))
            if exe:
                return cf, name, exe, dropped, len(cases), "", cached
            bad = blame(err, name + ".cpp", spans) - dropped
            if not bad:
                return cf, name, None, dropped, len(cases), err, False
            dropped |= bad
            last_err = err
        return cf, name, None, dropped, len(cases), last_err, False

    t0 = time.time()
    # the translation units with the additional degrees take longest: start them first
    order = sorted(range(len(cfs)), key=lambda i: (0 if cfs[i].get("parts") else 1, i))
    with ThreadPoolExecutor(max_workers=min(16, os.cpu_count() or 4)) as ex:
        done = dict(zip(order, ex.map(build, [cfs[i] for i in order])))
    built = [done[i] for i in range(len(cfs))]
    cov["compile_wall_s"] = round(time.time() - t0, 1)
    prune_cache(keep=[b[2] for b in built if b[2]])
    jobs = []
    for cf, name, exe, dropped, ncases, err, cached in built:
        if dropped:
            ctx["problems"].append({"kind": "predictor", "what": "%s: %d generated case(s) predicted to compile were rejected by the compiler: %s" % (
                name, len(dropped), sorted(dropped)), "detail": err[-1500:] if err else ""})
        if not exe:
            ctx["problems"].append({"kind": "harness-build", "what": "generated TU %s does not compile" % name, "detail": err[-3000:]})
            continue
        env = {"VERIF_SEED": str(seed), "VERIF_TIER": tier}
        if tier == "quick" and kind == "c08":
            env["VERIF_EXPR_POS"] = "12"
        jobs.append(dict(label="%s/%s" % (kind, name), exe=exe, env=env))
        c = {"name": name, "cases": ncases - len(dropped), "cached": cached}
        if cf.get("parts"):
            c["degrees_x_moduli"] = ["%dx%d" % (pt["deg"], pt["nmod"]) for pt in cf["parts"]]
        cov["configs"].append(c)
    t0 = time.time()
    cl.run_streams_parallel(res, jobs, workers=min(8, os.cpu_count() or 4))
    cov["streams_wall_s"] = round(time.time() - t0, 1)
    cov["degrees"] = {"%d/%s" % (w, be): [16] + [d for d, _ in ge.degree_plan(w, ge.BE_CODE[be], tier)] for w in LIMBS for be in BACKENDS}
    expand_sweeps(res)
    if probes:
        run_probes(ctx, seed, tier, cov)
    return cov


def sweep_lines(line):
    """the single-evaluation lines (`ebool` / `ppeq` / `ppne` / `pbool`) a `bsweep` line stands for, with the answers the
    implementation gave (harness/expr_rt.hpp `sweep`)"""
    lhs, rhs = line.split(" =>")
    a = lhs.split()
    w, be, nmod, deg, fam, pat, t, L = map(int, a[1:9])
    tree = a[9:9 + L]
    nh = int(a[9 + L])
    n = nmod * deg
    o = 10 + L
    words, alt = a[o:o + nh * n], a[o + nh * n:o + nh * n + n]
    pos = list(map(int, a[o + nh * n + n + 1:]))
    r = rhs.split()
    mode, bits = r[0], r[1:]
    head = "%d %d %d %d" % (w, be, nmod, deg)
    out = []
    for k, bit in zip(pos, bits):
        row = words[t * n:(t + 1) * n]
        if pat == 0:
            row = row[:k] + [alt[k]] + row[k + 1:]
        else:
            row = alt[:k] + [row[k]] + alt[k + 1:]
        ws = " ".join(words[:t * n] + row + words[(t + 1) * n:])
        if fam == 0:
            out.append("ebool %s 0 %d %s %d %s => %s %s" % (head, L, " ".join(tree), nh, ws, mode, bit))
        elif fam == 1:
            out.append("%s %s %s %s %d %s => %s" % ("ppeq" if tree[0] == "6" else "ppne", head, tree[2], tree[4], nh, ws, bit))
        else:
            out.append("pbool %s %s %d %s => %s" % (head, tree[1], nh, ws, bit))
    return out


def expand_sweeps(res, max_sweeps=2, per_sweep=3):
    """Reporting only.  Single-evaluation lines that fail are put in front of failing batch lines (they are the readable
    failing inputs; the batch lines stay in the list for the replay).  For a stream in which only batch lines fail, the
    evaluations of the first failing batches are fed to the driver one by one (same implementation answers): the failing
    ones come back as ordinary SPECFAIL lines on `ebool` / `ppeq` / `ppne` / `pbool`."""
    is_batch = lambda f: f["line"].startswith("bsweep ")
    direct_streams = set(f["stream"] for f in res.specfail if not is_batch(f))
    singles, seen = [], 0
    for f in list(res.specfail) + list(res.modeldiff):
        if not is_batch(f) or f["stream"] in direct_streams or seen >= max_sweeps:
            continue
        seen += 1
        try:
            lines = sweep_lines(f["line"])
        except Exception:               # a truncated line: the batch line itself stays the failing input
            continue
        r2 = cl.StreamResult()
        cl.feed_driver(r2, f["stream"] + "/expanded", lines)
        singles += [dict(x, note="one evaluation of a failing bsweep line of stream %s" % f["stream"]) for x in (r2.specfail + r2.modeldiff)[:per_sweep]]
    res.specfail[:] = singles + [f for f in res.specfail if not is_batch(f)] + [f for f in res.specfail if is_batch(f)]


def expr_search(ctx, res, problems, kind):
    """something broke without a failing input: explore further seeds at the thorough depth"""
    found = []
    for s in range(2):
        r2 = cl.StreamResult()
        c2 = {"problems": [], "seed": ctx["seed"], "tier": ctx["tier"]}
        expr_streams(c2, r2, kind, seed=ctx["seed"] * 100 + 11 + s, tier="quick", probes=False)
        for sf in r2.specfail:
            found.append({"kind": "spec", **sf})
        for md in r2.modeldiff:
            found.append({"kind": "modeldiff", **md})
        if found:
            break
    return found
