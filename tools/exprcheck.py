"""Shared stream code of C07 and C08: generate the translation units (tools/gen_expr.py), compile them against
/repo's current headers (in parallel, cached by content hash under build/), run them through the Lean driver, and keep
the compile predictor honest with single-expression -fsyntax-only probes."""
import glob, hashlib, os, re, subprocess, sys, time
from concurrent.futures import ThreadPoolExecutor
import checklib as cl
import gen_expr as ge

GEN_DIR = os.path.join(cl.BUILD, "gen_expr")
LIMBS = (16, 32, 64)
BACKENDS = ("plain", "serial", "sse", "avx2")
MAX_CACHE = 160     # binaries kept besides the ones of the current run


def base_flags(backend, sanitize=None, syntax_only=False):
    flags = ["-std=gnu++17", "-O1", "-g", "-fno-access-control", "-DNFLLIB_VERIF", "-DBACKEND_NAME=\"%s\"" % backend] + cl.BACKENDS[backend]
    if sanitize:
        flags += ["-fsanitize=" + sanitize, "-fno-sanitize-recover=all", "-fno-omit-frame-pointer"]
    else:
        flags.remove("-g")          # debug information is only of use in sanitizer reports; it costs 15 % of the compile time
    inc = ["-I" + os.path.join(cl.REPO, "include"), "-I" + os.path.join(cl.REPO, "include", "nfl"),
           "-I" + os.path.join(cl.REPO, "include", "nfl", "prng"), "-I" + cl.HARNESS]
    if syntax_only:
        flags = [f for f in flags if f not in ("-O1", "-g")] + ["-fsyntax-only"]
    return flags + inc


def rt_hash():
    h = hashlib.sha256()
    for f in ("expr_rt.hpp", "common.hpp"):
        h.update(open(os.path.join(cl.HARNESS, f), "rb").read())
    return h.hexdigest()


def prune_cache(keep=()):
    keep = set(keep)
    files = [f for f in sorted(glob.glob(os.path.join(cl.BUILD, "exprbin_*")), key=os.path.getmtime) if f not in keep]
    for f in files[:-MAX_CACHE]:
        try:
            os.remove(f)
        except OSError:
            pass


def compile_tu(name, source, backend, sanitize=None):
    """returns (exe or None, stderr, cached)"""
    os.makedirs(GEN_DIR, exist_ok=True)
    flags = base_flags(backend, sanitize)
    h = hashlib.sha256()
    h.update(source.encode()); h.update(cl.get_repo_hash().encode()); h.update(rt_hash().encode()); h.update(" ".join(flags).encode())
    key = h.hexdigest()[:16]
    exe = os.path.join(cl.BUILD, "exprbin_%s_%s" % (name, key))
    src = os.path.join(GEN_DIR, name + ".cpp")
    open(src, "w").write(source)
    if os.path.exists(exe):
        os.utime(exe)
        return exe, "", True
    cmd = ["g++"] + flags + [src, os.path.join(cl.REPO, "lib", "params", "params.cpp"), "-o", exe, "-lgmpxx", "-lgmp", "-lmpfr", "-lpthread"]
    r = cl.run(cmd)
    if r.returncode != 0:
        return None, r.stdout + r.stderr, False
    return exe, "", False


def blame(stderr, src_name, spans):
    """case indices whose source lines appear in the compiler diagnostics"""
    bad = set()
    for m in re.finditer(re.escape(src_name) + r":(\d+):", stderr):
        ln = int(m.group(1))
        for (a, b, k) in spans:
            if a <= ln <= b:
                bad.add(k)
    return bad


PARTS_PER_TU = {"c07": 6, "c08": 3}      # additional degrees batched per translation unit (one Env instantiation each)


def configs(tier, kind="c08"):
    """base translation units (degree 16, full case list; thorough: degree 32 and 3 moduli too) and, per limb x backend,
    translation units with the additional degrees of gen_expr.degree_plan (reduced case list each)"""
    out = []
    for w in LIMBS:
        for be in BACKENDS:
            out.append(dict(w=w, be=be, deg=16, nmod=2, tu=0))
            if tier == "thorough":
                out.append(dict(w=w, be=be, deg=32, nmod=1, tu=1))
                if be in ("sse", "avx2"):
                    out.append(dict(w=w, be=be, deg=16, nmod=(2 if w == 16 else 3), tu=2))
            plan = ge.degree_plan(w, ge.BE_CODE[be], tier)
            # interleave so that every translation unit gets small and large degrees (similar compile and run times)
            ntu = -(-len(plan) // PARTS_PER_TU[kind])
            for x in range(ntu):
                parts = [dict(deg=d, nmod=m, profile="light") for (d, m) in plan[x::ntu]]
                out.append(dict(w=w, be=be, deg=0, nmod=0, tu=10 + x, parts=parts))
    return out


def cf_name(kind, cf):
    if cf.get("parts"):
        return "%s_w%d_%s_x%d" % (kind, cf["w"], cf["be"], cf["tu"] - 10)
    return "%s_w%d_%s_d%d_m%d_t%d" % (kind, cf["w"], cf["be"], cf["deg"], cf["nmod"], cf["tu"])


def emit(kind, seed, cf, tier, drop=()):
    if kind == "c07":
        src, spans, cases = ge.emit_c07(seed, cf["w"], cf["be"], cf["deg"], cf["nmod"], tier, cf["tu"], parts=cf.get("parts"))
    else:
        src, spans, cases = ge.emit_c08(seed, cf["w"], cf["be"], cf["deg"], cf["nmod"], tier, parts=cf.get("parts"))
    if drop:
        # remove the calls of the dropped cases (their bodies stay out of the way: delete the function bodies too)
        src = drop_cases(src, spans, drop, "case_" if kind == "c07" else "shape_")
    return src, spans, cases


_probe_cache = None
PROBE_CACHE = os.path.join(cl.BUILD, "expr_probe_cache.json")


def _gxx_version():
    r = cl.run(["g++", "--version"])
    return (r.stdout or "").splitlines()[0] if r.returncode == 0 and r.stdout else "?"


_probe_lock = __import__("threading").Lock()


def load_probe_cache():
    global _probe_cache
    import json
    with _probe_lock:
        if _probe_cache is not None:
            return
        gxx = _gxx_version()
        try:
            c = json.load(open(PROBE_CACHE))
        except Exception:
            c = {}
        if c.get("_gxx") != gxx:
            c = {"_gxx": gxx}
        _probe_cache = c


def probe_compile(tag, be, source):
    """does the single-statement source compile (-fsyntax-only) against the current tree?  (ok, tail of the diagnostics, cached).
    Verdicts are cached by content (source, flags, hash of the tree's headers, runtime header, compiler version)."""
    load_probe_cache()
    flags = base_flags(be, syntax_only=True)
    h = hashlib.sha256()
    h.update(source.encode()); h.update(cl.get_repo_hash().encode()); h.update(rt_hash().encode())
    h.update(" ".join(f for f in flags if not f.startswith("-I")).encode())
    key = h.hexdigest()[:24]
    if key in _probe_cache:
        return bool(_probe_cache[key][0]), _probe_cache[key][1], True
    os.makedirs(GEN_DIR, exist_ok=True)
    src = os.path.join(GEN_DIR, "probe_%s.cpp" % tag)
    open(src, "w").write(source)
    r = cl.run(["g++"] + flags + [src])
    ok, err = r.returncode == 0, (r.stderr or "")[-600:]
    if ok or (r.returncode == 1 and "error" in (r.stderr or "")):      # a genuine verdict of the compiler (not a killed / failed run)
        _probe_cache[key] = [1 if ok else 0, err]
    return ok, err, False


def save_probe_cache():
    import json
    if _probe_cache is None:
        return
    keys = [k for k in _probe_cache if k != "_gxx"]
    for k in keys[:-6000]:            # bounded
        del _probe_cache[k]
    try:
        json.dump(_probe_cache, open(PROBE_CACHE, "w"))
    except OSError:
        pass


def auto_prep(t):
    """operand preparation that makes an arbitrary tree admissible (every third operand of a fused product = the precomputed
    quotient of the second factor), or None when the tree cannot be made admissible by setting holder leaves"""
    prep, used = [], []

    def walk(n):
        if n[0] in "PQ":
            return True
        if n[0] == "shoup":
            x, q = n[1], n[2]
            if x[0] != "mul":
                return False
            if q[0] in "PQ":
                if q in used:
                    return False
                used.append(q)
                prep.append((q, x[2]))
            elif not (q[0] == "cshoup" and q[1] == x[2]):
                return False
            return walk(x[1]) and walk(x[2]) and (q[0] in "PQ" or walk(q[1]))
        return all(walk(c) for c in n[1:])

    if not walk(t):
        return None
    for (q, y) in prep:
        # the holder must not be an operand anywhere else (its value is overwritten by the preparation)
        def count(n):
            return (1 if n == q else 0) if n[0] in "PQ" else sum(count(c) for c in n[1:])
        if count(t) != 1:
            return None
    # inner quotients first: a holder's value may depend on fused nodes below it
    return [ge.set_quot_stmt(q, y) for (q, y) in reversed(prep)]


def tree_sig(t):
    return " ".join(map(str, ge.code(t)))


NEW_OK = "predictor out of date (NOT a violation of the property's statement): shape now accepted by the compiler and evaluates correctly"
NEW_OK_NOTE = ("the generator's acceptance rules (tools/gen_expr.py `analyze`, Model/Expr.lean `compiles`) reject these shapes, the compiler of the tree under "
               "check accepts them, and every executed statement (several operand fills, every aliasing pattern of the destination, construction, detach) "
               "equals the exact coefficient-wise meaning.  The claim covers them from now on; the acceptance rules and the case generators have to be "
               "extended to them: a broken tie without a failing input, not a counterexample")
NEW_BAD = "VIOLATION of the statement: shape the acceptance rules reject is now accepted by the compiler and evaluates WRONGLY (failing inputs: SPECFAIL lines of stream "


def execute_new_shapes(ctx, res, kind, seed, tier, new, cov):
    """`new`: {(w, be): [dict(tree, prep, text, why)]} - shapes predicted to be rejected that the compiler accepts.  They are
    inside the claim: execute each with several operand fills and every aliasing pattern (`asgx` lines: stores compared
    with the exact coefficient-wise meaning and with the width-1 assignment loop of the model)."""
    jobs, meta = [], {}
    report = cov.setdefault("newly_accepted", [])

    def runnable(s):
        if kind == "c08":
            return s.get("key") is not None and s["prep"] is not None
        return s["prep"] is not None and ge.has_meaning(s["tree"])

    def build(item):
        (w, be), shapes = item
        name = "%sx_w%d_%s" % (kind, w, be)
        if kind == "c07":
            cases = [c for s in shapes if runnable(s) for c in ge.family_exec_cases(s["tree"], s["prep"])]
            parts = [dict(deg=16, nmod=2, profile="given", cases=cases), dict(deg=48, nmod=1, profile="given", cases=cases[::3])]
            gen = lambda: ge.emit_c07(seed, w, be, 0, 0, tier, 90, parts=parts, op="asgx")
            fn = "case_"
        else:
            cases = [ge.family_cmp_shape(s["key"], s["tree"], s["prep"]) for s in shapes if runnable(s)]
            parts = [dict(deg=16, nmod=2, profile="given", full=True, shapes=cases), dict(deg=48, nmod=1, profile="given", shapes=cases)]
            gen = lambda: ge.emit_c08(seed, w, be, 0, 0, tier, parts=parts, xmode=True)
            fn = "shape_"
        if not cases:
            return (w, be), name, None, set(), cases, ""
        dropped, last_err = set(), ""
        for attempt in range(8):
            src, spans, allc = gen()
            if dropped:
                src = drop_cases(src, spans, dropped, fn)
            exe, err, cached = compile_tu(name, src, be, None)
            if exe:
                return (w, be), name, exe, dropped, allc, ""
            bad = blame(err, name + ".cpp", spans) - dropped
            last_err = err
            if not bad:
                break
            dropped |= bad
        return (w, be), name, None, dropped, cases, last_err

    with ThreadPoolExecutor(max_workers=min(12, os.cpu_count() or 4)) as ex:
        built = list(ex.map(build, sorted(new.items())))

    def run(b):
        (w, be), name, exe, dropped, allc, err = b
        r2 = cl.StreamResult()
        if exe:
            env = {"VERIF_SEED": str(seed), "VERIF_TIER": tier}
            if tier == "quick" and kind == "c08":
                env["VERIF_EXPR_POS"] = "12"
            cl.run_stream(r2, "%s/%s" % (kind, name), exe, env=env)
        return r2

    with ThreadPoolExecutor(max_workers=min(8, os.cpu_count() or 4)) as ex:
        results = list(ex.map(run, built))
    for b, r2 in zip(built, results):
        (w, be), name, exe, dropped, allc, err = b
        shapes = new[(w, be)]
        failing_lines = [f["line"] for f in r2.specfail + r2.modeldiff]
        good, wrong, skipped = [], [], []
        for s in shapes:
            txt = s["text"].replace("e.", "")
            if not runnable(s):
                skipped.append(txt)
                continue
            sig = " %d %s " % (len(ge.code(s["tree"])), tree_sig(s["tree"]))
            (wrong if any(sig in l for l in failing_lines) else good).append(txt)
        where = "limb %d backend %s" % (w, be)
        if not exe and (good or wrong):
            ctx["problems"].append({"kind": "harness-build", "what": "%s: the translation unit executing the newly accepted shapes does not compile: %s" % (
                where, "; ".join(good + wrong)), "detail": err[-2500:]})
            good, wrong = [], []
        if r2.harness_rc != 0 or r2.bad:
            ctx["problems"].append({"kind": "new-shape-run", "what": "%s: executing the newly accepted shapes: harness rc=%s, %d rejected line(s)" % (
                where, r2.harness_rc, len(r2.bad)), "detail": (r2.harness_err[-1500:] + " ".join(r2.bad[:3]))})
        if wrong:
            ctx["problems"].append({"kind": "new-shape-wrong", "what": "%s: %s%s/%s): %s" % (where, NEW_BAD, kind, name, "; ".join(wrong)),
                                    "verdict": "violation: accepted at compile time, wrong value"})
        if good:
            ctx["problems"].append({"kind": "predictor-new-shape-correct", "what": "%s: %s: %s  [configuration: %d statements executed, %d exact%s]" % (
                where, NEW_OK, "; ".join(good), r2.lines, r2.ok, (", %d statement form(s) do not compile and were left out" % len(dropped)) if dropped else ""),
                "note": NEW_OK_NOTE, "verdict": "not a violation of the statement: accepted and correct"})
        if skipped:
            ctx["problems"].append({"kind": "predictor", "what": "%s: predicted-rejected shape(s) now accepted by the compiler, NOT executed (no meaning in the specification "
                                    "for a generic shoup node / no admissible operand preparation): %s" % (where, "; ".join(skipped))})
        report.append({"config": where, "accepted_and_correct": good, "accepted_and_wrong": wrong, "not_executed": skipped,
                       "statements": r2.lines, "exact": r2.ok})
        cl.merge_results(res, [r2])


def drop_cases(src, spans, drop, fn):
    lines = src.split("\n")
    kill = set()
    for (a, b, k) in spans:
        if k in drop:
            kill.update(range(a - 1, b))
    lines = [l for i, l in enumerate(lines) if i not in kill and not any(re.match(r"\s*%s%d\(e" % (fn, k), l) for k in drop)]
    return "\n".join(lines)


def run_probes(ctx, res, kind, seed, tier, cov, everything=False):
    """Keep the compile predictor honest in BOTH directions with single-statement -fsyntax-only sources:
    (a) a sample of random trees predicted accepted / rejected and of the degree rules (as before);
    (b) a representative of every shape family the predictor rejects (gen_expr.family_probes: root kind x operand kinds
        poly / poly_p / sub-expression of each mode in every operand position, per limb x backend; quick: a seed-rotated
        subset that always contains the fused products with a handle factor; thorough: all of them);
    a predicted-accepted shape the compiler rejects is a problem (the generated units would not build either);
    a predicted-rejected shape the compiler ACCEPTS is inside the claim: it is executed (execute_new_shapes)."""
    n_acc, n_rej = (0, 1) if tier == "quick" else (3, 4)
    jobs = []
    nfam = 0
    for w in LIMBS:
        for be in ("serial", "sse", "avx2"):
            plain = [] if everything else ge.probes(seed, w, be, 16, n_acc, n_rej) + ge.degree_probes(seed, w, be, tier)
            # C07: the arithmetic families (assignments); C08: the comparison families (boolean conversions)
            fam = ge.family_probes(seed, w, be, tier, roots=("cmp" if kind == "c08" else "arith"), everything=everything)
            nfam += len(fam)
            for k, pr in enumerate(plain + fam):
                jobs.append((w, be, k) + tuple(pr))

    def one(j):
        w, be, k, pred, why, text, source, info = j
        ok, err, cached = probe_compile("%d_%s_%d" % (w, be, k), be, source)
        return j, ok, err, cached

    agree = disagree = ncached = 0
    new = {}
    t0 = time.time()
    with ThreadPoolExecutor(max_workers=min(16, os.cpu_count() or 4)) as ex:
        for j, ok, err, cached in ex.map(one, jobs):
            w, be, k, pred, why, text, source, info = j
            ncached += 1 if cached else 0
            if ok == pred:
                agree += 1
                continue
            disagree += 1
            if pred:
                ctx["problems"].append({"kind": "predictor", "what": "compile predictor wrong for limb %d backend %s: %s predicted accepted (%s), compiler says rejected" % (
                    w, be, text.replace("e.", ""), why), "detail": err})
            elif info is not None and info["as_bool"] == (kind == "c08"):
                prep = info["prep"] if info["key"] is not None else auto_prep(info["tree"])
                new.setdefault((w, be), []).append(dict(tree=info["tree"], prep=prep, text=text, why=why, key=info["key"]))
            else:
                ctx["problems"].append({"kind": "predictor", "what": "compile predictor wrong for limb %d backend %s: %s predicted rejected (%s), compiler says accepted" % (
                    w, be, text.replace("e.", ""), why), "detail": err})
    save_probe_cache()
    cov["compile_probes"] = {"agree": agree, "disagree": disagree, "accepted_probes_per_config": n_acc, "rejected_probes_per_config": n_rej,
                             "degree_probes": 0 if everything else sum(len(ge.degree_probes(seed, w, be, tier)) for w in LIMBS for be in ("serial", "sse", "avx2")),
                             "family_probes": nfam, "cached_verdicts": ncached, "wall_s": round(time.time() - t0, 1),
                             "predicted_rejected_now_accepted": sum(len(v) for v in new.values())}
    if new:
        # one entry per distinct tree and configuration
        for k in new:
            seen, uniq = set(), []
            for s in new[k]:
                if tree_sig(s["tree"]) not in seen:
                    seen.add(tree_sig(s["tree"]))
                    uniq.append(s)
            new[k] = uniq
        ctx["new_shapes"] = True
        execute_new_shapes(ctx, res, kind, seed, tier, new, cov)


def expr_streams(ctx, res, kind, seed=None, tier=None, probes=True):
    seed = ctx["seed"] if seed is None else seed
    tier = ctx["tier"] if tier is None else tier
    cov = {"configs": [], "generator": "tools/gen_expr.py"}
    cfs = configs(tier, kind)
    sanit = lambda cf: ("address,undefined" if (tier == "thorough" and cf["tu"] in (0, 10) and (cf["w"], cf["be"]) in ((16, "sse"), (32, "avx2"), (64, "serial"))) else None)

    def build(cf):
        name = cf_name(kind, cf)
        dropped = set()
        for attempt in range(6):
            src, spans, cases = emit(kind, seed, cf, tier, dropped)
            exe, err, cached = compile_tu(name, src, cf["be"], sanit(cf))
            if exe:
                return cf, name, exe, dropped, len(cases), "", cached
            bad = blame(err, name + ".cpp", spans) - dropped
            if not bad:
                return cf, name, None, dropped, len(cases), err, False
            dropped |= bad
            last_err = err
        return cf, name, None, dropped, len(cases), last_err, False

    t0 = time.time()
    # the translation units with the additional degrees take longest: start them first
    order = sorted(range(len(cfs)), key=lambda i: (0 if cfs[i].get("parts") else 1, i))
    with ThreadPoolExecutor(max_workers=min(16, os.cpu_count() or 4)) as ex:
        done = dict(zip(order, ex.map(build, [cfs[i] for i in order])))
    built = [done[i] for i in range(len(cfs))]
    cov["compile_wall_s"] = round(time.time() - t0, 1)
    prune_cache(keep=[b[2] for b in built if b[2]])
    jobs = []
    for cf, name, exe, dropped, ncases, err, cached in built:
        if dropped:
            ctx["problems"].append({"kind": "predictor", "what": "%s: %d generated case(s) predicted to compile were rejected by the compiler: %s" % (
                name, len(dropped), sorted(dropped)), "detail": err[-1500:] if err else ""})
        if not exe:
            ctx["problems"].append({"kind": "harness-build", "what": "generated TU %s does not compile" % name, "detail": err[-3000:]})
            continue
        env = {"VERIF_SEED": str(seed), "VERIF_TIER": tier}
        if tier == "quick" and kind == "c08":
            env["VERIF_EXPR_POS"] = "12"
        jobs.append(dict(label="%s/%s" % (kind, name), exe=exe, env=env))
        c = {"name": name, "cases": ncases - len(dropped), "cached": cached}
        if cf.get("parts"):
            c["degrees_x_moduli"] = ["%dx%d" % (pt["deg"], pt["nmod"]) for pt in cf["parts"]]
        cov["configs"].append(c)
    t0 = time.time()
    cl.run_streams_parallel(res, jobs, workers=min(8, os.cpu_count() or 4))
    cov["streams_wall_s"] = round(time.time() - t0, 1)
    cov["degrees"] = {"%d/%s" % (w, be): [16] + [d for d, _ in ge.degree_plan(w, ge.BE_CODE[be], tier)] for w in LIMBS for be in BACKENDS}
    expand_sweeps(res)
    if probes:
        run_probes(ctx, res, kind, seed, tier, cov)
    return cov


def sweep_lines(line):
    """the single-evaluation lines (`ebool` / `ppeq` / `ppne` / `pbool`) a `bsweep` line stands for, with the answers the
    implementation gave (harness/expr_rt.hpp `sweep`)"""
    lhs, rhs = line.split(" =>")
    a = lhs.split()
    w, be, nmod, deg, fam, pat, t, L = map(int, a[1:9])
    tree = a[9:9 + L]
    nh = int(a[9 + L])
    n = nmod * deg
    o = 10 + L
    words, alt = a[o:o + nh * n], a[o + nh * n:o + nh * n + n]
    pos = list(map(int, a[o + nh * n + n + 1:]))
    r = rhs.split()
    mode, bits = r[0], r[1:]
    head = "%d %d %d %d" % (w, be, nmod, deg)
    out = []
    for k, bit in zip(pos, bits):
        row = words[t * n:(t + 1) * n]
        if pat == 0:
            row = row[:k] + [alt[k]] + row[k + 1:]
        else:
            row = alt[:k] + [row[k]] + alt[k + 1:]
        ws = " ".join(words[:t * n] + row + words[(t + 1) * n:])
        if fam == 0:
            out.append("ebool %s 0 %d %s %d %s => %s %s" % (head, L, " ".join(tree), nh, ws, mode, bit))
        elif fam == 1:
            out.append("%s %s %s %s %d %s => %s" % ("ppeq" if tree[0] == "6" else "ppne", head, tree[2], tree[4], nh, ws, bit))
        else:
            out.append("pbool %s %s %d %s => %s" % (head, tree[1], nh, ws, bit))
    return out


def expand_sweeps(res, max_sweeps=2, per_sweep=3):
    """Reporting only.  Single-evaluation lines that fail are put in front of failing batch lines (they are the readable
    failing inputs; the batch lines stay in the list for the replay).  For a stream in which only batch lines fail, the
    evaluations of the first failing batches are fed to the driver one by one (same implementation answers): the failing
    ones come back as ordinary SPECFAIL lines on `ebool` / `ppeq` / `ppne` / `pbool`."""
    is_batch = lambda f: f["line"].startswith("bsweep ")
    direct_streams = set(f["stream"] for f in res.specfail if not is_batch(f))
    singles, seen = [], 0
    for f in list(res.specfail) + list(res.modeldiff):
        if not is_batch(f) or f["stream"] in direct_streams or seen >= max_sweeps:
            continue
        seen += 1
        try:
            lines = sweep_lines(f["line"])
        except Exception:               # a truncated line: the batch line itself stays the failing input
            continue
        r2 = cl.StreamResult()
        cl.feed_driver(r2, f["stream"] + "/expanded", lines)
        singles += [dict(x, note="one evaluation of a failing bsweep line of stream %s" % f["stream"]) for x in (r2.specfail + r2.modeldiff)[:per_sweep]]
    res.specfail[:] = singles + [f for f in res.specfail if not is_batch(f)] + [f for f in res.specfail if is_batch(f)]


def expr_search(ctx, res, problems, kind):
    """something broke without a failing input: explore further seeds at the thorough depth.  When the break is that the
    compiler accepts shapes the acceptance rules reject (and the ones executed so far are exact), first widen exactly
    there: probe EVERY rejected family in every configuration and execute all that compile, with another seed and the
    thorough number of operand fills"""
    found = []
    if ctx.get("new_shapes"):
        r2 = cl.StreamResult()
        c2 = {"problems": [], "seed": ctx["seed"], "tier": ctx["tier"]}
        cov2 = {}
        run_probes(c2, r2, kind, ctx["seed"] * 100 + 11, "thorough", cov2, everything=True)
        ctx.setdefault("search_notes", []).append({"all_rejected_families": cov2.get("compile_probes"), "executed": cov2.get("newly_accepted")})
        for sf in r2.specfail:
            found.append({"kind": "spec", **sf})
        for md in r2.modeldiff:
            found.append({"kind": "modeldiff", **md})
        if found:
            return found
        for p in c2["problems"]:
            if p.get("kind") not in ("predictor-new-shape-correct",) and p not in problems:
                problems.append(dict(p, found_by="search"))
    for s in range(2):
        r2 = cl.StreamResult()
        c2 = {"problems": [], "seed": ctx["seed"], "tier": ctx["tier"]}
        expr_streams(c2, r2, kind, seed=ctx["seed"] * 100 + 11 + s, tier="quick", probes=False)
        for sf in r2.specfail:
            found.append({"kind": "spec", **sf})
        for md in r2.modeldiff:
            found.append({"kind": "modeldiff", **md})
        if found:
            break
    return found
