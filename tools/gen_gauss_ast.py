#!/usr/bin/env python3
"""Translator: clang's typed AST of the SAMPLING PATH of include/nfl/prng/FastGaussianNoise.hpp
-> lean/NflVerif/Generated/GaussAst.lean

  nfl::FastGaussianNoise<in_class,out_class,_lu_depth>::cmp and ::getNoise, instantiated by clang++-14 from the CURRENT text
  for <uint8_t,int32_t,1>, <uint16_t,int64_t,2>, <uint8_t,uint64_t,2>.

Reuses gen_ops_ast.py (AST loading, source positions, write_if_changed); per-node semantics: Model/CSem.lean +
Model/CSemGauss.lean (`CG`).  The existing generators / CSem files are not modified.

Pieces per instantiation X (all in the Option monad: `none` = an access outside an object):
  cmp_X               the whole function (`for (int i = 0; i < (int)_word_precision; i++)` = CG.forEach over List.range)
  getNoise_pre_X      the statements of getNoise before the `while`
  getNoise_cond_X     the `while` condition
  getNoise_iter_X     ONE execution of the `while` body
Conventions (TRUSTED):
  * members of `*this` read by a piece, and the locals/parameters initialised when it starts, are PARAMETERS of the piece;
    a piece returns the tuple of the variables it assigns (+ the log `calls` of external calls);
  * floating point is not given a semantics: a statement assigning only floating-point variables is skipped (those variables
    become unreadable); an integer assigned from a floating-point expression becomes the PARAMETER `<name>_f`;
  * `if (_verbose) <stream output / printf>` is skipped when it assigns nothing and calls only the listed I/O functions;
    `T v = rdtsc()` makes `v` unreadable; `delete[]` is skipped (listed);
  * `fastrandombytes(p, n)` is DATA appended to `calls`; no memory read may follow it inside the same piece;
  * `for (int i = 0; i < B; i++)` with `i`, `B` not assigned in the body: CG.forEach (List.range (CG.tripS 32 B));
    range-based `for` over a std::list member (libstdc++ begin/end/!=/++/* recognised by name): CG.forEach over the list;
  * an `if` whose branches contain `break` / `return` is translated with the rest of the block copied into both branches.
Unknown node kind / cast / opcode / type / callee => non-zero exit naming it and file:line.
The three instantiations are ALSO rendered as skeletons (conversions dropped, widths and template constants replaced by
placeholders) and must agree (`skeletons_agree`).
The last line of stdout is a JSON summary.  The output file is rewritten only when its content changes.
Usage: gen_gauss_ast.py [--repo DIR] [--out FILE] [--keep]
"""
import hashlib, json, os, re, subprocess, sys

HERE = os.path.dirname(os.path.abspath(__file__))
sys.path.insert(0, HERE)
import gen_ops_ast as g
from gen_ops_ast import Unsupported, fail

OUT = os.path.join(g.VERIF, "lean", "NflVerif", "Generated", "GaussAst.lean")
INSTS = [("uint8_t", "int32_t", 1, "u8_i32_1"), ("uint16_t", "int64_t", 2, "u16_i64_2"), ("uint8_t", "uint64_t", 2, "u8_u64_2")]
CNAME = {"uint8_t": "unsigned char", "uint16_t": "unsigned short", "int32_t": "int", "int64_t": "long", "uint64_t": "unsigned long"}
INTS = {"unsigned char": ("U", 8), "unsigned short": ("U", 16), "unsigned int": ("U", 32), "unsigned long": ("U", 64),
        "unsigned long long": ("U", 64), "signed char": ("S", 8), "short": ("S", 16), "int": ("S", 32), "long": ("S", 64),
        "long long": ("S", 64), "bool": ("B", 1), "float": ("F", 32), "double": ("F", 64), "void": ("V", 0),
        "uint8_t": ("U", 8), "uint16_t": ("U", 16), "uint32_t": ("U", 32), "uint64_t": ("U", 64), "size_t": ("U", 64),
        "int8_t": ("S", 8), "int16_t": ("S", 16), "int32_t": ("S", 32), "int64_t": ("S", 64), "unsigned": ("U", 32)}
CELL, LIST = ("CELL",), ("LIST",)
IO_CALLEES = {"operator<<", "printf", "endl", "min", "log2"}
SKEL = False          # skeleton rendering (see module doc)


def kids(n):
    return [c for c in n.get("inner", []) if isinstance(c, dict) and c.get("kind")]


def unparen(n):
    while n.get("kind") == "ParenExpr":
        n = kids(n)[0]
    return n


def parse_type(q, node=None):
    q = re.sub(r"\bconst\b", "", q).strip()
    q = re.sub(r"\s+", " ", q)
    depth = 0
    while q.endswith("*") or q.endswith("&"):
        if q.endswith("*"):
            depth += 1
        q = q[:-1].strip()
    if q in INTS:
        t = INTS[q]
    elif q.endswith("::output_t") or q.startswith("nfl::output<"):
        t = CELL
    elif q.startswith("std::list<"):
        t = LIST
    else:
        return None
    for _ in range(depth):
        t = ("P", t)
    return t


def ty(node):
    t = node.get("type") or {}
    for key in ("desugaredQualType", "qualType"):
        if key in t:
            r = parse_type(t[key])
            if r:
                return r
    fail(node, "unknown C type %r" % (t,))


def w(k):
    return "_" if SKEL else str(k)


def lean_ty(t):
    if t[0] in "US":
        return "Nat"
    if t[0] == "B":
        return "Bool"
    if t == ("P", CELL):
        return "Array CG.CCell"
    if t == ("P", ("P", CELL)):
        return "Array (Option (Array CG.CCell))"
    if t[0] == "P" and t[1][0] in "US":
        return "CG.Ptr"
    raise Unsupported("no Lean type for C type %r" % (t,))


def tyname(t):
    if t[0] == "U":
        return "unsigned %d-bit" % t[1]
    if t[0] == "S":
        return "signed %d-bit" % t[1]
    if t[0] == "P":
        return "pointer to " + tyname(t[1])
    return {"B": "bool", "CELL": "output_t", "LIST": "std::list", "F": "floating", "V": "void"}[t[0]]


class Val:
    def __init__(self, s, t, const=None, atom=False):
        self.s, self.t, self.const, self.atom = s, t, const, atom

    def p(self):
        return self.s if self.atom else "(" + self.s + ")"


class Var:
    def __init__(self, name, t, init, kind):
        self.name, self.t, self.init, self.kind = name, t, init, kind      # kind: member / param / local / loop
        self.dead = None           # reason why it cannot be read (float, rdtsc)
        self.const = False


class Piece:
    """one generated definition"""

    def __init__(self, name, doc):
        self.name, self.doc, self.params, self.lines, self.ret = name, doc, [], [], None

    def use(self, v):
        if v.name not in [p.name for p in self.params]:
            self.params.append(v)


class Inst:
    def __init__(self, tr, cls, targs, suffix):
        self.tr, self.cls, self.suffix = tr, cls, suffix
        self.in_t, self.out_t, self.depth = targs
        self.env = {}
        self.order = []                    # declaration order of variables (names)
        self.members = {}
        self.pieces = []
        self.tmp = 0
        self.pre = []                      # pending monadic lines
        self.cur = None
        self.kinds = {}
        self.nodes = 0
        self.ub = []
        self.skipped = []
        self.float_params = []
        self.after_call = False
        self.methods = {}
        for c in kids(cls):
            if c.get("kind") == "FieldDecl":
                t = parse_type((c.get("type") or {}).get("desugaredQualType", (c.get("type") or {}).get("qualType", "")))
                self.members[c["id"]] = (c["name"], t)
            if c.get("kind") == "CXXMethodDecl" and any(x.get("kind") == "CompoundStmt" for x in kids(c)):
                self.methods[c["name"]] = c
        self.calls = Var("calls", ("CALLS",), True, "log")

    # ------------------------------------------------------------------ helpers
    def count(self, n):
        self.nodes += 1
        self.kinds[n.get("kind")] = self.kinds.get(n.get("kind"), 0) + 1

    def src(self, n):
        return "%s:%s  %s" % (self.tr.short(n.get("_file")), n.get("_line"), self.tr.source_line(n.get("_file"), n.get("_line")))

    def fresh(self):
        self.tmp += 1
        return "t%d" % self.tmp

    def bind(self, text):
        if self.after_call and ("CG.load" in text or "CG.idxS" in text):
            raise Unsupported("memory read after an external call inside one piece: %s" % text)
        t = self.fresh()
        self.pre.append("let %s ← %s" % (t, text))
        return t

    def flush(self, pad):
        out = [pad + l for l in self.pre]
        self.pre = []
        return out

    def declare(self, d, init, kind):
        name = d.get("name")
        if not name or not re.fullmatch(r"[A-Za-z_][A-Za-z0-9_]*", name) or name in g.LEAN_KEYWORDS or re.fullmatch(r"t\d+|s|r|calls", name):
            fail(d, "unusable identifier %r" % name)
        if name in self.order and self.env.get(d["id"]) is None:
            fail(d, "two C++ variables named %r (shadowing is not translated)" % name)
        v = Var(name, ty(d), init, kind)
        self.rank(v)
        self.env[d["id"]] = v
        self.order.append(name)
        return v

    def rank(self, v):
        if v.kind == "member":
            return (0, [m[0] for m in self.members.values()].index(v.name))
        if v.kind == "log":
            return (9, 0)
        if not hasattr(v, "rk"):
            self.rkc = getattr(self, "rkc", 0) + 1
            v.rk = self.rkc
        return (1, v.rk)

    def tup(self, vs):
        if not vs:
            return "()"
        for v in vs:
            self.read(v, None)
        return vs[0].name if len(vs) == 1 else "(" + ", ".join(v.name for v in vs) + ")"

    def read(self, v, n):
        if v.dead:
            fail(n or {}, "read of `%s`, which has no translated value (%s)" % (v.name, v.dead))
        if not v.init:
            fail(n or {}, "read of the uninitialised variable `%s`" % v.name)
        if getattr(v, "entry", False):
            self.cur.use(v)
        return v.name

    def member(self, n):
        """MemberExpr on `this`"""
        base = unparen(kids(n)[0])
        if base.get("kind") == "ImplicitCastExpr" and base.get("castKind") in ("NoOp", "UncheckedDerivedToBase"):
            base = unparen(kids(base)[0])
        if base.get("kind") != "CXXThisExpr":
            return None
        self.count(base)
        mid = n.get("referencedMemberDecl")
        if mid not in self.members:
            fail(n, "member %r of *this is not a data member of the class" % n.get("name"))
        name, t = self.members[mid]
        key = "m:" + name
        if key not in self.env:
            if t is None:
                fail(n, "data member %s of unknown type" % name)
            v = Var(name, t, True, "member")
            v.entry = True
            self.env[key] = v
        return self.env[key]

    # ------------------------------------------------------------------ conversions
    def convert(self, v, to, n):
        fr = v.t
        if fr == to:
            return v
        if SKEL:
            return Val(v.s, to, None, v.atom)
        c = v.const
        if fr[0] == "U" and to[0] == "U":
            return Val("CSem.castU %d %s" % (to[1], v.p()), to, None if c is None else c % 2 ** to[1])
        if fr[0] == "U" and to[0] == "S":
            if to[1] == 32:
                return Val("CSem.castUS %d %s" % (fr[1], v.p()), to, None if c is None else c % 2 ** 32)
            return Val("CSem.castUSw %d %s" % (to[1], v.p()), to, None if c is None else c % 2 ** to[1])
        if fr[0] == "S" and to[0] == "U":
            if fr[1] == 32:
                s = "CSem.castSU %d %s" % (to[1], v.p())
            else:
                s = "CG.castSwU %d %d %s" % (fr[1], to[1], v.p())
            cc = None
            if c is not None:
                sv = c - 2 ** fr[1] if c >= 2 ** (fr[1] - 1) else c
                cc = sv % 2 ** to[1]
            return Val(s, to, cc)
        if fr[0] == "S" and to[0] == "S":
            cc = None
            if c is not None:
                sv = c - 2 ** fr[1] if c >= 2 ** (fr[1] - 1) else c
                cc = sv % 2 ** to[1]
            return Val("CSem.castSS %d %d %s" % (fr[1], to[1], v.p()), to, cc)
        fail(n, "conversion %s -> %s" % (tyname(fr), tyname(to)))

    # ------------------------------------------------------------------ lvalues
    def lvalue(self, n):
        """value stored in the lvalue n (a Val; CELL / LIST typed for table cells and their lists)"""
        n = unparen(n)
        k = n.get("kind")
        self.count(n)
        if k == "DeclRefExpr":
            rd = n.get("referencedDecl", {})
            v = self.env.get(rd.get("id"))
            if v is None:
                fail(n, "reference to %s %r" % (rd.get("kind"), rd.get("name")))
            if v.kind == "range":
                return Val(v.name, LIST, None, True)
            return Val(self.read(v, n), v.t, None, True)
        if k == "BinaryOperator" and n.get("opcode") == "=":       # chained assignment a = b = e
            var = self.assign(n)
            return Val(var.name, var.t, None, True)
        if k == "MemberExpr":
            v = self.member(n)
            if v is not None:
                return Val(self.read(v, n), v.t, None, True)
            base = self.lvalue(kids(n)[0])
            if base.t != CELL or n.get("isArrow"):
                fail(n, "member access on something that is not an output_t object")
            f = n.get("name")
            t = ty(n)
            if f not in ("val", "flag", "l_b_ptr"):
                fail(n, "unknown field %r of output_t" % f)
            if f == "val" and t != self.out_t or f == "flag" and t != ("B", 1) or f == "l_b_ptr" and t != LIST:
                fail(n, "type of field %r" % f)
            return Val("%s.%s" % (base.p(), f), t, None, True)
        if k == "UnaryOperator" and n.get("opcode") == "*":
            p = self.expr(kids(n)[0])
            if p.t[0] != "P" or p.t[1][0] not in "US" or ty(n) != p.t[1]:
                fail(n, "dereference of %s" % tyname(p.t))
            return Val(self.bind("CG.load %s" % p.p()), p.t[1], None, True)
        if k == "ArraySubscriptExpr":
            base, idx = kids(n)
            p = self.expr(base)
            i = self.expr(idx)
            if p.t[0] != "P" or ty(n) != p.t[1]:
                fail(n, "subscript of %s" % tyname(p.t))
            if p.t[1] == CELL:
                if i.t[0] != "U":
                    fail(idx, "table index of type %s" % tyname(i.t))
                return Val(self.bind("CG.cellAt %s %s" % (p.p(), i.p())), CELL, None, True)
            if p.t[1] == ("P", CELL):
                if i.t[0] != "U":
                    fail(idx, "table index of type %s" % tyname(i.t))
                return Val("ROW %s %s" % (p.p(), i.p()), ("P", CELL), None, False)      # only loadable (LValueToRValue)
            if p.t[1][0] in "US":
                if i.t[0] == "S":
                    return Val(self.bind("CG.idxS %s %s %s" % (w(i.t[1]), p.p(), i.p())), p.t[1], None, True)
                fail(idx, "integer subscript of type %s" % tyname(i.t))
            fail(n, "subscript of %s" % tyname(p.t))
        fail(n, "unknown lvalue")

    # ------------------------------------------------------------------ rvalues
    def expr(self, n):
        k = n.get("kind")
        self.count(n)
        if k in ("ParenExpr", "ExprWithCleanups", "ConstantExpr"):
            return self.expr(kids(n)[0])
        if k == "IntegerLiteral":
            t = ty(n)
            c = int(n["value"])
            if c < 0 or t[0] not in "US":
                fail(n, "literal")
            return Val(str(c), t, c, True)
        if k == "SubstNonTypeTemplateParmExpr":
            ks = kids(n)
            if len(ks) != 2 or ks[0].get("kind") != "NonTypeTemplateParmDecl" or ks[1].get("kind") != "IntegerLiteral":
                fail(n, "template parameter substitution shape")
            self.count(ks[0])
            v = self.expr(ks[1])
            if SKEL:
                return Val("«%s»" % ks[0].get("name"), v.t, v.const, True)
            return v
        if k == "UnaryExprOrTypeTraitExpr":
            if n.get("name") != "sizeof" or "argType" not in n:
                fail(n, "type trait %r" % n.get("name"))
            a = parse_type(n["argType"].get("desugaredQualType", n["argType"].get("qualType", "")))
            if not a or a[0] not in "US" or ty(n) != ("U", 64):
                fail(n, "sizeof argument %r" % (n["argType"],))
            return Val("«sizeof»" if SKEL else str(a[1] // 8), ("U", 64), a[1] // 8, True)
        if k in ("ImplicitCastExpr", "CStyleCastExpr", "CXXStaticCastExpr", "CXXFunctionalCastExpr"):
            ck = n.get("castKind")
            if ck == "LValueToRValue":
                v = self.lvalue(kids(n)[0])
                if v.s.startswith("ROW "):
                    return Val(self.bind("CG.rowAt" + v.s[3:]), ("P", CELL), None, True)
                if v.t != ty(n):
                    fail(n, "LValueToRValue changes the type")
                if v.t in (CELL, LIST):
                    fail(n, "copy of a whole %s" % tyname(v.t))
                return v
            if ck == "NoOp":
                v = self.expr(kids(n)[0])
                if v.t != ty(n):
                    fail(n, "NoOp cast changes the type")
                return v
            if ck == "IntegralCast":
                v = self.expr(kids(n)[0])
                to = ty(n)
                if v.t[0] not in "US" or to[0] not in "US":
                    fail(n, "IntegralCast %s -> %s" % (tyname(v.t), tyname(to)))
                return self.convert(v, to, n)
            if ck == "BitCast":
                # (uint8_t*) p for p pointing to wider unsigned cells: the byte view of the same object; only accepted as
                # the buffer argument of an external call (type "PB": nothing else takes it)
                v = self.expr(kids(n)[0])
                if ty(n) != ("P", ("U", 8)) or v.t[0] != "P" or v.t[1][0] != "U":
                    fail(n, "BitCast %s -> %s" % (tyname(v.t), tyname(ty(n))))
                return Val(v.s, ("PB", v.t[1]), None, v.atom)
            fail(n, "cast kind %r" % ck)
        if k == "UnaryOperator":
            op = n.get("opcode")
            if op == "-":
                a = self.expr(kids(n)[0])
                if a.t != ("S", 32) or ty(n) != a.t:
                    fail(n, "unary minus in type %s" % tyname(a.t))
                return Val("CG.negS32 %s" % a.p(), a.t, None if a.const is None else (-a.const) % 2 ** 32)
            if op in ("++", "--"):
                var, new = self.incdec(n)
                if n.get("isPostfix"):
                    old = self.fresh()
                    self.pre.append("let %s := %s" % (old, var.name))
                    self.pre.append("let %s := %s" % (var.name, new))
                    return Val(old, var.t, None, True)
                self.pre.append("let %s := %s" % (var.name, new))
                return Val(var.name, var.t, None, True)
            fail(n, "unary operator %r" % op)
        if k == "BinaryOperator":
            op = n.get("opcode")
            if op == "=":
                var = self.assign(n)
                return Val(var.name, var.t, None, True)
            a = self.expr(kids(n)[0])
            b = self.expr(kids(n)[1])
            return self.binop(n, op, a, b, ty(n))
        if k == "CXXNewExpr":
            if not n.get("isArray") or len(kids(n)) != 1:
                fail(n, "new expression shape")
            t = ty(n)
            if t[0] != "P" or t[1][0] != "U":
                fail(n, "new of %s" % tyname(t))
            sz = self.expr(kids(n)[0])
            if sz.t[0] != "U":
                fail(n, "array size type")
            return Val("CG.newArray %s" % sz.p(), t)
        if k == "CXXMemberCallExpr":
            callee = kids(n)[0]
            if callee.get("kind") != "MemberExpr" or unparen(kids(callee)[0]).get("kind") != "CXXThisExpr":
                fail(n, "member call on something else than *this")
            self.count(callee)
            self.count(unparen(kids(callee)[0]))
            name = callee.get("name")
            target = self.fn_sigs.get(name)
            if target is None:
                fail(n, "call of the member function %r, which is not translated" % name)
            args = [self.expr(a) for a in kids(n)[1:]]
            if [a.t for a in args] != [t for _, t in target["args"]] or ty(n) != target["ret"]:
                fail(n, "argument / result types of the call of %s" % name)
            mem = []
            for mname in target["members"]:
                key = "m:" + mname
                if key not in self.env:
                    mt = [t for nm, t in self.members.values() if nm == mname][0]
                    v = Var(mname, mt, True, "member")
                    v.entry = True
                    self.env[key] = v
                mem.append(self.read(self.env[key], n))
            return Val(self.bind(" ".join([target["lean"]] + mem + [a.p() for a in args])), target["ret"], None, True)
        fail(n, "unknown expression")

    CMP = {">=": "ge", ">": "gt", "<=": "le", "<": "lt", "==": "eq", "!=": "ne"}

    def binop(self, n, op, a, b, t):
        if op in self.CMP:
            if t != ("B", 1) or a.t != b.t or a.t[0] not in "US":
                fail(n, "operand types of comparison %s: %s, %s" % (op, tyname(a.t), tyname(b.t)))
            if a.t[0] == "U":
                return Val("CSem.%sU %s %s" % (self.CMP[op], a.p(), b.p()), t)
            if a.t[1] == 32 and not SKEL:
                return Val("CSem.%sS32 %s %s" % (self.CMP[op], a.p(), b.p()), t)
            return Val("CSem.%sS %s %s %s" % (self.CMP[op], w(a.t[1]), a.p(), b.p()), t)
        if a.t[0] == "P" and op == "+":
            if a.t[1][0] not in "US" or t != a.t:
                fail(n, "pointer arithmetic on %s" % tyname(a.t))
            if b.t[0] == "S":
                return Val(self.bind("CG.ptrAddS %s %s %s" % (w(b.t[1]), a.p(), b.p())), t, None, True)
            if b.t[0] == "U":
                return Val("CG.ptrAddU %s %s" % (a.p(), b.p()), t)
            fail(n, "pointer + %s" % tyname(b.t))
        if a.t != t or b.t != t:
            fail(n, "operand types of %s (usual arithmetic conversions not explicit?)" % op)
        if t[0] == "U" and op in ("+", "-", "*"):
            return Val("CSem.%s %s %s %s" % ({"+": "addU", "-": "subU", "*": "mulU"}[op], w(t[1]), a.p(), b.p()), t)
        if t[0] == "S" and op == "+":
            self.ub.append({"piece": self.cur.name, "line": n.get("_line"), "op": "signed %d-bit +" % t[1],
                            "source": self.tr.source_line(n.get("_file"), n.get("_line"))})
            return Val("CG.addS %s %s %s" % (w(t[1]), a.p(), b.p()), t)
        fail(n, "binary operator %r in type %s" % (op, tyname(t)))

    def target(self, n):
        n = unparen(n)
        if n.get("kind") != "DeclRefExpr" or n.get("referencedDecl", {}).get("id") not in self.env:
            fail(n, "assignment target is not a local variable or parameter")
        self.count(n)
        v = self.env[n["referencedDecl"]["id"]]
        if v.const or v.kind in ("loop", "range"):
            fail(n, "assignment to `%s`, which the translation keeps constant" % v.name)
        return v

    def incdec(self, n):
        var = self.target(kids(n)[0])
        self.read(var, n)
        op = n.get("opcode")
        if var.t[0] == "U" and op == "++":
            return var, "CSem.addU %s %s 1" % (w(var.t[1]), var.name)
        if var.t[0] == "S" and op == "++":
            self.ub.append({"piece": self.cur.name, "line": n.get("_line"), "op": "signed %d-bit ++" % var.t[1],
                            "source": self.tr.source_line(n.get("_file"), n.get("_line"))})
            return var, "CG.addS %s %s 1" % (w(var.t[1]), var.name)
        if var.t[0] == "P" and var.t[1][0] in "US" and op == "++":
            return var, "CG.ptrAddU %s 1" % var.name
        fail(n, "%s on %s" % (op, tyname(var.t)))

    def assign(self, n):
        """BinaryOperator `=`: emits into self.pre, returns the variable"""
        lhs = unparen(kids(n)[0])
        if lhs.get("kind") == "ArraySubscriptExpr":          # p[i] = v  (store)
            self.count(lhs)
            base, idx = kids(lhs)
            b = unparen(base)
            if not (b.get("kind") == "ImplicitCastExpr" and b.get("castKind") == "LValueToRValue"):
                fail(lhs, "store through something that is not a pointer variable")
            self.count(b)
            pv = self.env.get(unparen(kids(b)[0]).get("referencedDecl", {}).get("id"))
            if pv is None or pv.t[0] != "P" or pv.t[1][0] not in "US":
                fail(lhs, "store through something that is not a pointer variable")
            self.count(unparen(kids(b)[0]))
            self.read(pv, lhs)
            i = self.expr(idx)
            v = self.expr(kids(n)[1])
            if i.t[0] != "U" or v.t != pv.t[1] or ty(n) != pv.t[1]:
                fail(n, "types of the store")
            self.pre.append("let %s ← CG.storeU %s %s %s" % (pv.name, pv.name, i.p(), v.p()))
            return pv
        var = self.target(lhs)
        rhs = kids(n)[1]
        if self.has_float(rhs):
            if var.t[0] != "U":
                fail(n, "floating-point value converted to %s" % tyname(var.t))
            pname = var.name + "_f"
            pv = Var(pname, var.t, True, "param")
            pv.entry = True
            self.env["f:" + pname] = pv
            if pname not in self.order:
                self.order.append(pname)
            self.cur.use(pv)
            self.float_params.append({"param": pname, "line": n.get("_line"), "source": self.tr.source_line(n.get("_file"), n.get("_line"))})
            self.pre.append("let %s := %s" % (var.name, pname))
        else:
            v = self.expr(rhs)
            if v.t != var.t or ty(n) != var.t:
                fail(n, "assignment type")
            self.pre.append("let %s := %s" % (var.name, v.s))
        var.init = True
        return var

    def has_float(self, n):
        t = (n.get("type") or {})
        q = t.get("desugaredQualType", t.get("qualType", ""))
        if re.sub(r"\bconst\b", "", q).strip() in ("float", "double", "long double"):
            return True
        return any(self.has_float(c) for c in kids(n))

    # ------------------------------------------------------------------ statement analysis
    def assigned(self, n, acc):
        k = n.get("kind")
        if k == "CompoundAssignOperator" or (k == "BinaryOperator" and n.get("opcode") == "=") or \
                (k == "UnaryOperator" and n.get("opcode") in ("++", "--")):
            t = unparen(kids(n)[0])
            if t.get("kind") == "ArraySubscriptExpr":
                t = unparen(kids(t)[0])
                while t.get("kind") in ("ImplicitCastExpr", "ParenExpr"):
                    t = kids(t)[0]
            rid = t.get("referencedDecl", {}).get("id")
            if rid in self.env and self.env[rid] not in acc:
                acc.append(self.env[rid])
        if k == "CallExpr" and self.callee_name(n) == "fastrandombytes" and self.calls not in acc:
            acc.append(self.calls)
        for c in kids(n):
            self.assigned(c, acc)
        return acc

    def has_exit(self, n, loop_level=True):
        k = n.get("kind")
        if k == "ReturnStmt":
            return True
        if k == "BreakStmt" and loop_level:
            return True
        if k in ("ForStmt", "CXXForRangeStmt", "WhileStmt", "DoStmt"):
            return any(self.has_exit(c, False) for c in kids(n))
        return any(self.has_exit(c, loop_level) for c in kids(n))

    def has_return(self, n):
        return n.get("kind") == "ReturnStmt" or any(self.has_return(c) for c in kids(n))

    def callee_name(self, n):
        c = kids(n)[0]
        while c.get("kind") in ("ImplicitCastExpr", "ParenExpr"):
            c = kids(c)[0]
        return (c.get("referencedDecl") or {}).get("name") or c.get("name")

    def all_callees(self, n, acc):
        if n.get("kind") in ("CallExpr", "CXXOperatorCallExpr", "CXXMemberCallExpr"):
            acc.append(self.callee_name(n))
        for c in kids(n):
            self.all_callees(c, acc)
        return acc

    def lst(self, n):
        if n.get("kind") == "CompoundStmt":
            self.count(n)
            return kids(n)
        return [n]

    def snapshot(self):
        return {k: (v.init, v.dead) for k, v in self.env.items()}

    def restore(self, snap):
        for k, v in self.env.items():
            if k in snap:
                v.init, v.dead = snap[k]

    def outvars(self, cand):
        vs = [v for v in cand if v.init and not v.dead and v.t[0] != "F"]
        return sorted(vs, key=self.rank)

    # ------------------------------------------------------------------ statements
    def seq(self, lst, ind, ctx):
        """lines for the statements `lst`, ending with ctx['fin'](pad) unless an exit statement ends them"""
        pad = "  " * ind
        out = []
        for i, s in enumerate(lst):
            k = s.get("kind")
            self.count(s)
            rest = lst[i + 1:]
            if k == "NullStmt":
                continue
            if k == "CompoundStmt":
                fail(s, "nested block (scoping is not translated)")
            if k == "DeclStmt":
                for d in kids(s):
                    self.count(d)
                    if d.get("kind") != "VarDecl" or d.get("storageClass"):
                        fail(d, "declaration")
                    e = kids(d)
                    if not e:
                        self.declare(d, False, "local")
                        continue
                    if d.get("init") != "c" or len(e) != 1:
                        fail(d, "initialiser shape")
                    if e[0].get("kind") == "CallExpr" and self.callee_name(e[0]) == "rdtsc" and len(kids(e[0])) == 1:
                        v = self.declare(d, True, "local")
                        v.dead = "value of rdtsc()"
                        self.skipped.append({"line": s.get("_line"), "what": "rdtsc() timing value: `%s` unreadable" % v.name})
                        continue
                    val = self.expr(e[0])
                    v = self.declare(d, True, "local")
                    if val.t != v.t:
                        fail(d, "initialiser type")
                    out += self.flush(pad)
                    out.append("%s-- %s" % (pad, self.src(s)))
                    out.append("%slet %s := %s" % (pad, v.name, val.s))
                continue
            if k == "CXXDeleteExpr":
                self.skipped.append({"line": s.get("_line"), "what": "delete[] (release of the buffer): not translated"})
                continue
            if self.is_verbose_io(s):
                continue
            if self.has_float(s) and k in ("IfStmt", "BinaryOperator") and not (k == "BinaryOperator" and ty(s)[0] != "F"):
                acc = self.assigned(s, [])
                if not acc or any(v.t[0] != "F" for v in acc) or self.all_callees(s, []):
                    fail(s, "floating-point statement that assigns something else than floating-point variables")
                for v in acc:
                    v.init, v.dead = True, "floating point"
                self.skipped.append({"line": s.get("_line"), "what": "floating-point computation of %s: no semantics given" % ", ".join(v.name for v in acc)})
                continue
            if k == "BinaryOperator" and s.get("opcode") == "=":
                self.assign(s)
                out.append("%s-- %s" % (pad, self.src(s)))
                out += self.flush(pad)
                continue
            if k == "UnaryOperator" and s.get("opcode") in ("++", "--"):
                var, new = self.incdec(s)
                out.append("%s-- %s" % (pad, self.src(s)))
                out += self.flush(pad)
                out.append("%slet %s := %s" % (pad, var.name, new))
                continue
            if k == "CompoundAssignOperator":
                var = self.target(kids(s)[0])
                self.read(var, s)
                op = s.get("opcode")
                b = self.expr(kids(s)[1])
                if op != "+=":
                    fail(s, "compound assignment %r" % op)
                if var.t[0] == "P":
                    if var.t[1][0] not in "US" or b.t[0] != "U":
                        fail(s, "pointer += %s" % tyname(b.t))
                    new = "CG.ptrAddU %s %s" % (var.name, b.p())
                else:
                    lt = parse_type(s.get("computeLHSType", {}).get("desugaredQualType", s.get("computeLHSType", {}).get("qualType", "")))
                    rt = parse_type(s.get("computeResultType", {}).get("desugaredQualType", s.get("computeResultType", {}).get("qualType", "")))
                    if lt != var.t or rt != var.t or b.t != var.t or var.t[0] != "U":
                        fail(s, "computation types of the compound assignment")
                    new = "CSem.addU %s %s %s" % (w(var.t[1]), var.name, b.p())
                out.append("%s-- %s" % (pad, self.src(s)))
                out += self.flush(pad)
                out.append("%slet %s := %s" % (pad, var.name, new))
                continue
            if k == "CallExpr":
                name = self.callee_name(s)
                if name != "fastrandombytes":
                    fail(s, "call of %r as a statement" % name)
                fd = self.tr.byid.get((unparen(kids(kids(s)[0])[0]).get("referencedDecl") or {}).get("id"), {})
                ft = (unparen(kids(kids(s)[0])[0]).get("type") or {}).get("qualType")
                if ft != "void (unsigned char *, unsigned long long)":
                    fail(s, "fastrandombytes declared with type %r" % ft)
                for c in kids(s)[0:1]:
                    self.count(c)
                    self.count(unparen(kids(c)[0]))
                p = self.expr(kids(s)[1])
                nn = self.expr(kids(s)[2])
                if p.t not in (("P", ("U", 8)), ("PB", self.in_t)) or nn.t != ("U", 64):
                    fail(s, "argument types of fastrandombytes")
                out.append("%s-- %s" % (pad, self.src(s)))
                out += self.flush(pad)
                self.read(self.calls, s)
                out.append("%slet calls := calls ++ [CG.Ext.fastrandombytes %s %s]" % (pad, p.p(), nn.p()))
                self.after_call = True
                continue
            if k == "IfStmt":
                parts = kids(s)
                if s.get("hasInit") or s.get("hasVar") or s.get("isConstexpr") or len(parts) not in (2, 3):
                    fail(s, "if statement shape")
                c = self.expr(parts[0])
                if c.t != ("B", 1):
                    fail(parts[0], "condition type")
                out.append("%s-- %s" % (pad, self.src(s)))
                out += self.flush(pad)
                th = self.lst(parts[1])
                el = self.lst(parts[2]) if len(parts) == 3 else []
                if self.has_exit(s):
                    snap = self.snapshot()
                    ac = self.after_call
                    out.append("%sif %s then" % (pad, c.s))
                    out += self.seq(th + rest, ind + 1, ctx)
                    self.restore(snap)
                    self.after_call = ac
                    out.append("%selse" % pad)
                    out += self.seq(el + rest, ind + 1, ctx)
                    return out
                acc = []
                for b in parts[1:]:
                    self.assigned(b, acc)
                snap = self.snapshot()
                ac = self.after_call
                sub = {"fin": None, "brk": None, "ret": None}
                l1 = self.seq(th, ind + 2, sub)
                s1 = self.snapshot()
                ac1 = self.after_call
                self.restore(snap)
                self.after_call = ac
                l2 = self.seq(el, ind + 2, sub)
                ac2 = self.after_call
                for key, v in self.env.items():
                    if key in s1:
                        i1, d1 = s1[key]
                        v.dead = v.dead or d1
                        v.init = v.init and i1
                ov = self.outvars(acc)
                self.after_call = ac1 or ac2
                # tuple texts are produced with the initialisation state of each branch already merged
                tup = self.tup(ov)
                if not ov:
                    fail(s, "if statement without effect on the translated state")
                out.append("%slet %s ← (if %s then (do" % (pad, tup, c.s))
                out += l1 + ["%s    pure %s)" % (pad, tup)]
                out.append("%s  else (do" % pad)
                out += l2 + ["%s    pure %s))" % (pad, tup)]
                continue
            if k in ("ForStmt", "CXXForRangeStmt"):
                out += self.loop(s, ind, ctx, rest)
                return out
            if k == "ReturnStmt":
                if ctx.get("ret") is None:
                    fail(s, "return statement here")
                e = kids(s)
                if len(e) != 1:
                    fail(s, "return without value")
                v = self.expr(e[0])
                if v.t != self.ret_t:
                    fail(s, "type of the returned expression")
                out.append("%s-- %s" % (pad, self.src(s)))
                out += self.flush(pad)
                out.append(pad + ctx["ret"](v))
                return out
            if k == "BreakStmt":
                if ctx.get("brk") is None:
                    fail(s, "break statement here")
                out.append("%s-- %s" % (pad, self.src(s)))
                out.append(pad + ctx["brk"]())
                return out
            fail(s, "unknown statement")
        if ctx.get("fin"):
            out += ctx["fin"](pad)
        return out

    def is_verbose_io(self, s):
        if s.get("kind") != "IfStmt" or len(kids(s)) != 2:
            return False
        c = kids(s)[0]
        if not (c.get("kind") == "ImplicitCastExpr" and c.get("castKind") == "LValueToRValue"):
            return False
        m = unparen(kids(c)[0])
        if not (m.get("kind") == "MemberExpr" and m.get("name") == "_verbose" and unparen(kids(m)[0]).get("kind") == "CXXThisExpr"):
            return False
        body = kids(s)[1]
        callees = sorted(set(self.all_callees(body, [])))
        if self.assigned(body, []):
            fail(s, "`if (_verbose)` statement that assigns a variable")
        bad = [c for c in callees if c not in IO_CALLEES]
        if bad:
            fail(s, "`if (_verbose)` statement calling %s (callee not in the I/O list)" % ", ".join(map(str, bad)))
        if self.has_return(body) or self.has_exit(body):
            fail(s, "`if (_verbose)` statement with control flow")
        self.skipped.append({"line": s.get("_line"), "what": "if (_verbose) diagnostics, callees %s: not translated" % callees})
        return True

    def loop(self, s, ind, ctx, rest):
        pad = "  " * ind
        out = ["%s-- %s" % (pad, self.src(s))]
        k = s.get("kind")
        if k == "ForStmt":
            parts = s["inner"]
            if len(parts) != 5 or (parts[1] or {}).get("kind"):
                fail(s, "for statement shape")
            init, _, cond, inc, body = parts
            ds = kids(init or {})
            if (init or {}).get("kind") != "DeclStmt" or len(ds) != 1 or ds[0].get("kind") != "VarDecl" or ds[0].get("init") != "c":
                fail(s, "loop initialisation is not `int i = 0`")
            self.count(init)
            self.count(ds[0])
            v0 = self.expr(kids(ds[0])[0])
            lv = self.declare(ds[0], True, "loop")
            if lv.t != ("S", 32) or v0.const != 0:
                fail(s, "loop initialisation is not `int i = 0`")
            if not (cond and cond.get("kind") == "BinaryOperator" and cond.get("opcode") == "<"):
                fail(s, "loop condition is not `i < bound`")
            self.count(cond)
            lhs = self.expr(kids(cond)[0])
            bound = self.expr(kids(cond)[1])
            if lhs.s != lv.name or bound.t != lv.t:
                fail(cond, "loop condition is not `i < bound` in the type of i")
            if not (inc and inc.get("kind") == "UnaryOperator" and inc.get("opcode") == "++"
                    and unparen(kids(inc)[0]).get("referencedDecl", {}).get("id") == ds[0]["id"]):
                fail(s, "loop increment is not `i++`")
            self.count(inc)
            self.count(unparen(kids(inc)[0]))
            acc = self.assigned(body, [])
            bad = [v.name for v in acc if v.name in re.findall(r"[A-Za-z_][A-Za-z_0-9]*", bound.s)]
            if bad or lv in acc:
                fail(s, "loop bound / counter assigned in the body (%s)" % bad)
            out += self.flush(pad)
            lst_text = "(List.range (CG.tripS %s %s))" % (w(32), bound.p())
            elem = lv.name
        else:
            raise Unsupported("internal: range-based for is handled by loop_range")
        return out + self.loop_tail(s, body, lst_text, elem, acc, ind, ctx, rest, drop=ds[0]["id"])

    def loop_range(self, s, ind, ctx, rest):
        pad = "  " * ind
        out = ["%s-- %s" % (pad, self.src(s))]
        parts = s["inner"]
        if len(parts) != 8 or (parts[0] or {}).get("kind"):
            fail(s, "range-based for shape (%d parts)" % len(parts))
        _, rng, beg, end, cond, inc, decl, body = parts
        for p in (rng, beg, end, decl):
            if p.get("kind") != "DeclStmt" or len(kids(p)) != 1 or kids(p)[0].get("kind") != "VarDecl":
                fail(p, "range-based for: implicit declaration")
            self.count(p)
            self.count(kids(p)[0])
        rv, bv, ev, dv = [kids(p)[0] for p in (rng, beg, end, decl)]
        lv = self.lvalue(kids(rv)[0])
        if lv.t != LIST or not re.fullmatch(r"std::list<[^<>]*\*> &", (rv.get("type") or {}).get("qualType", "")):
            fail(rv, "range of the loop is not a std::list of pointers")
        out += self.flush(pad)

        def walk_count(n):
            self.count(n)
            for c in kids(n):
                walk_count(c)

        def method_on(n, name, var):
            # CXXMemberCallExpr / CXXOperatorCallExpr named `name` whose object is `var`
            refs = []

            def walk(x):
                if x.get("kind") == "DeclRefExpr":
                    refs.append(x.get("referencedDecl", {}))
                if x.get("kind") == "MemberExpr":
                    refs.append({"name": x.get("name"), "kind": "member"})
                for c in kids(x):
                    walk(c)
            walk(n)
            names = [r.get("name") for r in refs]
            ids = [r.get("id") for r in refs]
            if name not in names or any(v["id"] not in ids for v in var) or len(refs) != 1 + len(var):
                fail(n, "range-based for: expected %s on %s" % (name, [v.get("name") for v in var]))
            walk_count(n)
        it_t = (bv.get("type") or {}).get("desugaredQualType", "")
        if not it_t.startswith("std::_List_iterator<") or (ev.get("type") or {}).get("desugaredQualType", "") != it_t:
            fail(bv, "iterator type %r is not std::_List_iterator" % it_t)
        method_on(kids(bv)[0], "begin", [rv])
        method_on(kids(ev)[0], "end", [rv])
        method_on(cond, "operator!=", [bv, ev])
        method_on(inc, "operator++", [bv])
        e = kids(dv)[0]
        if not (e.get("kind") == "ImplicitCastExpr" and e.get("castKind") == "LValueToRValue"):
            fail(dv, "loop variable is not a copy of *iterator")
        self.count(e)
        method_on(kids(e)[0], "operator*", [bv])
        var = self.declare(dv, True, "loop")
        if var.t != ("P", self.in_t):
            fail(dv, "loop variable of type %s" % tyname(var.t))
        acc = self.assigned(body, [])
        if var in acc:
            fail(s, "loop variable assigned in the body")
        return out + self.loop_tail(s, body, lv.p(), var.name, acc, ind, ctx, rest, elem_wrap="CG.ptrOf", drop=dv["id"])

    def loop_tail(self, s, body, lst_text, elem, acc, ind, ctx, rest, elem_wrap=None, drop=None):
        pad = "  " * ind
        st = self.outvars(acc)
        if any(v not in st for v in acc if v.t[0] != "F"):
            fail(s, "loop assigning a variable that has no value before the loop")
        tup = self.tup(st)
        hasret = self.has_return(body)
        if hasret and ctx.get("ret") is None:
            fail(s, "return inside a loop here")
        rho = lean_ty(self.ret_t) if hasret else "Empty"
        sub = {"fin": lambda p: [p + "pure (.next %s)" % tup], "brk": lambda: "pure (.brk %s)" % tup,
               "ret": (lambda v: "pure (.ret %s)" % v.p()) if hasret else None}
        snap = self.snapshot()
        bl = self.seq(self.lst(body), ind + 3, sub)
        self.restore(snap)
        if drop is not None:                      # the loop variable goes out of scope
            self.order.remove(self.env[drop].name)
            del self.env[drop]
        out = []
        head = "CG.forEach (ρ := %s) %s (fun %s s => do" % (rho, lst_text, elem)
        inner = []
        if elem_wrap:
            inner.append("%s      let %s := %s %s" % (pad, elem, elem_wrap, elem))
        inner.append("%s      let %s := s" % (pad, tup))
        if hasret:
            out.append("%smatch (← %s" % (pad, head))
            out += inner + bl
            out[-1] += ") %s) with" % tup
            out.append("%s| .ret r => %s" % (pad, ctx["ret"](Val("r", self.ret_t, None, True))))
            out.append("%s| .next s | .brk s =>" % pad)
            out.append("%s  let %s := s" % (pad, tup))
            out += self.seq(rest, ind + 1, ctx)
        else:
            out.append("%slet s := CG.Flow.state (← %s" % (pad, head))
            out += inner + bl
            out[-1] += ") %s)" % tup
            out.append("%slet %s := s" % (pad, tup))
            out += self.seq(rest, ind, ctx)
        return out

    # ------------------------------------------------------------------ pieces
    def start_piece(self, name, doc):
        self.cur = Piece(name + "_" + self.suffix, doc)
        self.tmp = 0
        self.after_call = False
        for v in self.env.values():
            v.entry = v.init and not v.dead
        self.calls.init, self.calls.entry = True, False
        self.pieces.append(self.cur)
        return self.cur

    def render(self, p, ret_lean):
        ps = sorted(p.params, key=self.rank)
        sig = " ".join("(%s : %s)" % (v.name, lean_ty(v.t)) for v in ps)
        ctypes = ", ".join("%s : %s" % (v.name, tyname(v.t)) for v in ps)
        return "\n".join(["/-- %s" % p.doc, "C types: %s. -/" % (ctypes or "-"),
                          "def %s %s : Option %s := do" % (p.name, sig, ret_lean)] + p.lines)

    def tuple_ty(self, vs):
        if not vs:
            return "Unit"
        return "(" + " × ".join("List CG.Ext" if v.kind == "log" else lean_ty(v.t) for v in vs) + ")"

    def translate(self):
        cls = "nfl::FastGaussianNoise<%s, %s, %d>" % (self.tr.inst_names[self.suffix][0], self.tr.inst_names[self.suffix][1], self.depth)
        # ---- cmp
        m = self.methods.get("cmp")
        if m is None:
            raise Unsupported("no instantiated body of %s::cmp" % cls)
        self.fn_sigs = {}
        parms = [c for c in kids(m) if c.get("kind") == "ParmVarDecl"]
        body = [c for c in kids(m) if c.get("kind") == "CompoundStmt"]
        if len(body) != 1 or len(parms) != 2:
            fail(m, "cmp shape")
        self.count(m)
        for p in parms:
            self.count(p)
            self.declare(p, True, "param")
        self.ret_t = parse_type(m["type"]["qualType"].split("(")[0])
        if self.ret_t != ("S", 32):
            fail(m, "return type of cmp")
        pc = self.start_piece("cmp", "`%s::cmp`  (%s:%s)." % (cls, self.tr.short(m.get("_file")), m.get("_line")))
        self.count(body[0])
        ctx = {"fin": None, "brk": None, "ret": lambda v: "pure %s" % v.p()}
        pc.lines = self.seq_top(kids(body[0]), 1, ctx)
        pc.ret = "Nat"
        members = [v.name for v in sorted(pc.params, key=self.rank) if v.kind == "member"]
        self.fn_sigs["cmp"] = {"lean": pc.name, "args": [(self.env[p["id"]].name, self.env[p["id"]].t) for p in parms],
                               "ret": self.ret_t, "members": members}
        # ---- getNoise
        for p in parms:
            self.order.remove(self.env[p["id"]].name)
            del self.env[p["id"]]
        for key in [k for k, v in self.env.items() if v.kind == "loop"]:
            self.order.remove(self.env[key].name)
            del self.env[key]
        m = self.methods.get("getNoise")
        if m is None:
            raise Unsupported("no instantiated body of %s::getNoise" % cls)
        parms = [c for c in kids(m) if c.get("kind") == "ParmVarDecl"]
        body = [c for c in kids(m) if c.get("kind") == "CompoundStmt"]
        if len(body) != 1 or len(parms) != 2 or m["type"]["qualType"].split("(")[0].strip() != "void":
            fail(m, "getNoise shape")
        self.count(m)
        self.count(body[0])
        self.ret_t = ("V", 0)
        for p in parms:
            self.count(p)
            v = self.declare(p, True, "param")
            if v.t[0] != "P":
                v.const = False
        if self.env[parms[0]["id"]].t != ("P", self.out_t):
            fail(parms[0], "type of the output pointer")
        stmts = kids(body[0])
        wi = [i for i, s in enumerate(stmts) if s.get("kind") == "WhileStmt"]
        if len(wi) != 1:
            raise Unsupported("getNoise: expected exactly one top-level while loop, found %d" % len(wi))
        wl = stmts[wi[0]]
        where = "(%s:%s)" % (self.tr.short(m.get("_file")), m.get("_line"))
        # pre
        pc = self.start_piece("getNoise_pre", "`%s::getNoise`, the statements before the `while` %s." % (cls, where))
        ov = []
        acc = []
        for s in stmts[:wi[0]]:
            self.assigned(s, acc)

        def fin_pre(pad):
            for s in stmts[:wi[0]]:
                self.assigned(s, acc)
            vs = self.outvars(acc)
            ov.extend(vs)
            return [pad + "pure " + self.tup(vs)]
        pc.lines = ["  let calls : List CG.Ext := []"] + self.seq_top(stmts[:wi[0]], 1, {"fin": fin_pre, "brk": None, "ret": None})
        pc.ret = self.tuple_ty(ov)
        pc.outs = [v.name for v in ov]
        # cond
        self.count(wl)
        if wl.get("hasVar") or len(kids(wl)) != 2:
            fail(wl, "while shape")
        pc = self.start_piece("getNoise_cond", "`%s::getNoise`, the `while` condition (%s:%s)." % (cls, self.tr.short(wl.get("_file")), wl.get("_line")))
        c = self.expr(kids(wl)[0])
        if c.t != ("B", 1) or self.pre:
            fail(wl, "while condition")
        pc.lines = ["  -- %s" % self.src(wl), "  pure (%s)" % c.s]
        pc.ret = "Bool"
        # iter
        wb = kids(wl)[1]
        if self.has_exit(wb):
            fail(wl, "break / return inside the while body")
        pc = self.start_piece("getNoise_iter", "`%s::getNoise`, ONE execution of the `while` body (%s:%s)." % (cls, self.tr.short(wb.get("_file")), wb.get("_line")))
        acc2 = self.assigned(wb, [])
        ov2 = []

        def fin_iter(pad):
            vs = self.outvars([v for v in acc2 if getattr(v, "entry", False) or v.kind == "log"])
            ov2.extend(vs)
            return [pad + "pure " + self.tup(vs)]
        pc.lines = ["  let calls : List CG.Ext := []"] + self.seq_top(self.lst(wb), 1, {"fin": fin_iter, "brk": None, "ret": None})
        pc.ret = self.tuple_ty(ov2)
        pc.outs = [v.name for v in ov2]
        # after the loop
        snap_after = self.after_call
        self.start_piece("getNoise_post", "")
        self.pieces.pop()
        tail = self.seq_top(stmts[wi[0] + 1:], 1, {"fin": lambda pad: [], "brk": None, "ret": None})
        if [l for l in tail if not l.strip().startswith("--")]:
            raise Unsupported("getNoise: translated statements after the while loop are not expected")
        return self

    def seq_top(self, lst, ind, ctx):
        # dispatch range-for through loop_range (the ForStmt pattern through loop)
        return self.seq(lst, ind, ctx)


# route CXXForRangeStmt to loop_range
_orig_loop = Inst.loop


def _loop(self, s, ind, ctx, rest):
    if s.get("kind") == "CXXForRangeStmt":
        return self.loop_range(s, ind, ctx, rest)
    return _orig_loop(self, s, ind, ctx, rest)


Inst.loop = _loop


class Translator:
    def __init__(self, repo):
        self.repo = repo
        self.files = {}
        self.inst_names = {suf: (a, b) for a, b, _, suf in INSTS}

    def short(self, f):
        f = str(f)
        inc = os.path.join(self.repo, "include") + os.sep
        return f[len(inc):] if f.startswith(inc) else os.path.basename(f)

    def source_line(self, f, l):
        try:
            if f not in self.files:
                self.files[f] = open(f, errors="replace").read().splitlines()
            return self.files[f][int(l) - 1].strip()
        except Exception:
            return "?"

    def find(self):
        found = {}
        for n in self.byid.values():
            if n.get("kind") != "ClassTemplateSpecializationDecl" or n.get("name") != "FastGaussianNoise":
                continue
            ta = [a for a in n.get("inner", []) if a.get("kind") == "TemplateArgument"]
            if len(ta) != 3:
                continue
            key = (ta[0].get("type", {}).get("qualType"), ta[1].get("type", {}).get("qualType"), ta[2].get("value"))
            if any(c.get("kind") == "CXXMethodDecl" and c.get("name") == "getNoise" and
                   any(x.get("kind") == "CompoundStmt" for x in kids(c)) for c in kids(n)):
                found[key] = n
        return found

    def run(self, txt):
        objs = g.parse_objects(txt)
        self.byid = g.annotate(objs)
        found = self.find()
        res = []
        for a, b, d, suf in INSTS:
            key = (CNAME[a], CNAME[b], d)
            if key not in found:
                raise Unsupported("no instantiation FastGaussianNoise<%s, %s, %d> with a getNoise body in the AST" % key)
            inst = Inst(self, found[key], (INTS[a], INTS[b], d), suf)
            inst.translate()
            res.append(inst)
        return res


def make_tu():
    os.makedirs(g.BUILD, exist_ok=True)
    tu = os.path.join(g.BUILD, "gauss_ast_tu.cpp")
    lines = ['#include "FastGaussianNoise.hpp"']
    for a, b, d, _ in INSTS:
        lines.append("template class nfl::FastGaussianNoise<%s, %s, %d>;" % (a, b, d))
    open(tu, "w").write("\n".join(lines) + "\n")
    return tu


def clang_ast(repo, tu):
    inc = os.path.join(repo, "include")
    cmd = [g.CLANG, "-std=gnu++17", "-fsyntax-only", "-DNFLLIB_VERIF", "-I" + inc, "-I" + os.path.join(inc, "nfl"),
           "-I" + os.path.join(inc, "nfl", "prng"), "-Xclang", "-ast-dump=json", "-Xclang", "-ast-dump-filter=FastGaussianNoise", tu]
    r = subprocess.run(cmd, capture_output=True, text=True)
    if r.returncode != 0:
        raise SystemExit("gen_gauss_ast: clang failed (rc=%d):\n%s" % (r.returncode, r.stderr[-3000:]))
    return r.stdout


def skeleton(text, inst):
    """drop everything that legitimately depends on the instantiation: the suffix, source comments stay"""
    return text.replace(inst.suffix, "X")


def main():
    global SKEL
    repo = os.environ.get("VERIF_REPO", "/repo")
    out = OUT
    if "--repo" in sys.argv:
        repo = sys.argv[sys.argv.index("--repo") + 1]
    if "--out" in sys.argv:
        out = sys.argv[sys.argv.index("--out") + 1]
    repo = os.path.abspath(repo)
    txt = clang_ast(repo, make_tu())
    if "--keep" in sys.argv:
        open(os.path.join(g.BUILD, "gauss_ast_dump.json"), "w").write(txt)
    try:
        SKEL = False
        insts = Translator(repo).run(txt)
        SKEL = True
        skels = Translator(repo).run(txt)
        SKEL = False
        sk = []
        for i in skels:
            body = "\n\n".join("\n".join(l for l in i.render(p, p.ret).splitlines() if not l.startswith("C types:") and not l.startswith("/--"))
                               for p in i.pieces)
            sk.append(skeleton(body, i))
        if not all(s == sk[0] for s in sk):
            import difflib
            j = [k for k, s in enumerate(sk) if s != sk[0]][0]
            d = "\n".join(list(difflib.unified_diff(sk[0].splitlines(), sk[j].splitlines(), INSTS[0][3], INSTS[j][3], lineterm="", n=1))[:30])
            raise Unsupported("the instantiations %s and %s do not agree up to their template parameters:\n%s" % (INSTS[0][3], INSTS[j][3], d))
    except Unsupported as e:
        msg = "gen_gauss_ast: UNSUPPORTED C++ construct, nothing translated: %s" % e
        sys.stderr.write(msg + "\n")
        print(json.dumps({"ok": False, "err": msg}))
        sys.exit(3)
    head = [
        "-- GENERATED by tools/gen_gauss_ast.py from clang++-14's typed AST of include/nfl/prng/FastGaussianNoise.hpp",
        "-- (explicit instantiations <uint8_t,int32_t,1>, <uint16_t,int64_t,2>, <uint8_t,uint64_t,2>): `cmp` and the sampling path of `getNoise`.",
        "-- Do not edit.  One `let` per C++ statement / memory access, one CSem / CG helper per typed expression node; `none` = access outside an object.",
        "import NflVerif.Model.CSemGauss",
        "set_option linter.unusedVariables false",
        "namespace Nfl.Gen",
        "open Nfl",
        "",
    ]
    parts = []
    for i in insts:
        parts.append("/-! ### FastGaussianNoise<%s, %s, %d> -/" % (i.tr.inst_names[i.suffix][0], i.tr.inst_names[i.suffix][1], i.depth))
        for p in i.pieces:
            parts.append(i.render(p, p.ret))
        parts.append("/-- results of the pieces, in order -/\ndef getNoise_outs_%s : List (String × List String) := %s" % (
            i.suffix, "[" + ", ".join('("%s", [%s])' % (p.name, ", ".join('"%s"' % o for o in getattr(p, "outs", []))) for p in i.pieces) + "]"))
    text = "\n".join(head) + "\n" + "\n\n".join(parts) + "\n\nend Nfl.Gen\n"
    text = text.replace("CG.", "CGauss.")
    changed = g.write_if_changed(out, text)
    i0 = insts[0]
    kinds = {}
    for i in insts:
        for k, v in i.kinds.items():
            kinds[k] = kinds.get(k, 0) + v
    print(json.dumps({
        "ok": True, "pieces": [p.name for i in insts for p in i.pieces], "nodes": sum(i.nodes for i in insts),
        "node_kinds": dict(sorted(kinds.items())), "skeletons_agree": True,
        "ub_wrap_assumed": i0.ub, "float_parameters": i0.float_params, "not_translated": i0.skipped,
        "sha": hashlib.sha256(text.encode()).hexdigest()[:16], "changed": changed,
        "out": os.path.relpath(out, g.VERIF), "repo": repo}))


if __name__ == "__main__":
    main()
