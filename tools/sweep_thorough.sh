#!/bin/bash
cd "$(dirname "$0")/.."
for c in $(python3 -c "import json; print(' '.join(x['property_id'] for x in json.load(open('MANIFEST.json'))['checks']))"); do
  s=$(date +%s)
  out=$(VERIF_SEED=1 ./check $c --tier thorough 2>&1 | grep "^check\|^VIOLATION\|^KNOWN\|problem" | tr '\n' ' ')
  echo "$c $(( $(date +%s) - s ))s $out"
done
# leave quick-tier evidence behind (the quick command is what is run on every change)
for c in $(python3 -c "import json; print(' '.join(x['property_id'] for x in json.load(open('MANIFEST.json'))['checks']))"); do
  VERIF_SEED=1 ./check $c --tier quick 2>&1 | grep "^check\|^VIOLATION" | tr '\n' ' '; echo
done
