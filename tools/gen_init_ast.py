#!/usr/bin/env python3
"""Translator: clang's typed AST of NFLlib's table initialisation -> lean/NflVerif/Generated/InitAst.lean

Translated from the CURRENT text of $REPO/include/nfl/core.hpp (+ poly.hpp, meta.hpp), for T = uint16_t, uint32_t, uint64_t:
  prep_wtab_uW_state / prep_wtab_uW   nfl::poly<T,Degree,NbModuli>::core::prep_wtab(value_type*, value_type*, value_type, size_t)
  initialize_row_uW                   the body of the `for (currentModulus < nmoduli)` loop of poly<T,Degree,NbModuli>::core::initialize()
  InitRow / InitRow.wf                the slice `[currentModulus]` of the data members of class core, with the extents of the declarations
Reading of the C++ (reuses gen_ops_ast.py's AST loading / integer-expression translation and gen_crt_ast.py's static_log2; CSem.lean + CSemInit.lean):
  * `params<T>::P / Pn / primitive_roots / invkMaxPolyDegree [cm]` are the ROW PARAMETERS `P_cm` …; `degree`, `params<T>::kMaxPolyDegree` stay
    parameters; `static_log2<N>::value` is `static_log2 N` of Generated/CrtAst.lean (the meta.hpp recursion is re-checked on this AST and the
    definition text compared); `get_modulus(cm)` is inlined from its body; two instantiations per T must give the same text (checked);
  * `ops::mulmod<T,simd::serial>{}(a,b,cm)` is the ALREADY GENERATED `mulmod_uW` of Generated/OpsAst.lean: the functor is re-translated from this
    AST with gen_ops_ast's code and its text must be the one in OpsAst.lean (otherwise: failure, stale file);
  * a row `F[cm]` of a member array is a `List Nat`; `F[cm][e] = v` is `CSemInit.store F e v`, a read `CSemInit.load F e`; a `value_type*` is an
    ELEMENT OFFSET (Nat) into one statically known row (`shoupomegas[cm] = omegas[cm] + degree` -> offset `degree` into the row `omegas`;
    pointer `+` is `CSemInit.ptrAdd`); `*q++ = v` is a store at the offset followed by `ptrAdd q 1`.  prep_wtab's two pointer parameters are
    offsets into ONE array `mem`: at every call both arguments must point into the same row (checked; failure otherwise);
  * `for (U i = 0; i < B; i++) body` with `i` an unsigned counter of k bits not assigned by the body and B not depending on anything the body
    assigns is `CSemInit.forCount k B` (fuel = the bound B; the counter wraps at 2^k) over the tuple of the variables the body assigns;
  * `while (K >= c) { …; K /= d; }` (K unsigned ≤ 32 bits, c ≥ 1, d ≥ 2 constants, no other assignment to K) is `CSem.whileFuel … 64`
    (K is 0 after at most 32 halvings, and the condition is false at 0); any other `while` stops the translation.
NOT translated: the `for (currentModulus …)` loop itself (its shape is checked: counter from 0 below nmoduli, every member access indexed by
the counter, so the iterations act on disjoint slices), the constructor core::core() that calls initialize(), the transforms that read the tables.
Anything not listed stops the translation with a non-zero exit naming the node kind / callee and file:line.
The last line of stdout is a JSON summary.  The output file is rewritten only when its content changes.
Usage: gen_init_ast.py [--repo DIR] [--out FILE] [--keep]
"""
import hashlib, json, os, re, subprocess, sys

HERE = os.path.dirname(os.path.abspath(__file__))
sys.path.insert(0, HERE)
import gen_ops_ast as g
import gen_crt_ast as c
from gen_ops_ast import Unsupported, Val, Var, fail, ctype

OUT = os.path.join(g.VERIF, "lean", "NflVerif", "Generated", "InitAst.lean")
OPS_LEAN = os.path.join(g.VERIF, "lean", "NflVerif", "Generated", "OpsAst.lean")
CRT_LEAN = os.path.join(g.VERIF, "lean", "NflVerif", "Generated", "CrtAst.lean")
INSTS = {"u16": [(8, 2), (16, 1)], "u32": [(8, 3), (4, 2)], "u64": [(4, 3), (8, 2)]}   # (Degree, NbModuli); first one is written out
U64, U32 = ("U", 64), ("U", 32)
ROW_ARRAYS = ["P", "Pn", "primitive_roots", "invkMaxPolyDegree"]
SYM_ORDER = ["degree", "kMaxPolyDegree"]
RESERVED = set(["s", "st", "mem", "nmoduli"] + SYM_ORDER + [a + "_cm" for a in ROW_ARRAYS])
WHILE_FUEL = 64


def refs(n, acc=None):
    """ids of all declarations referenced below n"""
    acc = set() if acc is None else acc
    if isinstance(n, dict):
        rd = n.get("referencedDecl")
        if rd and "id" in rd:
            acc.add(rd["id"])
        if "referencedMemberDecl" in n:
            acc.add(n["referencedMemberDecl"])
        for x in n.get("inner", []):
            refs(x, acc)
    return acc


def strip_cleanups(s):
    while s.get("kind") == "ExprWithCleanups":
        s = s["inner"][0]
    return s


class Slot:
    """non-integer state: row (List Nat), ptr (Nat offset into the row `base`), scalar handled as Var"""

    def __init__(self, name, kind, init, extent=None, base=None):
        self.name, self.kind, self.init, self.extent, self.base = name, kind, init, extent, base


class InitFn(g.Fn):
    def __init__(self, tr, fname, suf, w, inst):
        g.Fn.__init__(self, tr, fname, suf, None, {})
        self.w, self.inst = w, inst                 # inst = {"degree", "nmoduli", "kMaxPolyDegree"}
        self.slots = {}                             # decl / field id -> Slot
        self.order = []                             # state objects (Slot / Var) in declaration order
        self.wstack = []
        self.syms = set()
        self.cm_ids = set()
        self.cm_main, self.cm_seen = None, 0
        self.fields = []                            # (name, Slot|Var) for initialize
        self.lean_name = "%s_%s" % (fname, suf)

    # ---------- bookkeeping
    def new_name(self, decl):
        name = decl.get("name")
        if not name or not re.fullmatch(r"[A-Za-z_][A-Za-z0-9_]*", name):
            fail(decl, "unusable identifier %r" % name)
        lname = name + "_" if (name in g.LEAN_KEYWORDS or name in RESERVED) else name
        if lname in self.names and self.names[lname] != decl["id"]:
            fail(decl, "two C++ objects named %r alive in one function (shadowing is not translated)" % name)
        self.names[lname] = decl["id"]
        return lname

    def drop(self, did):
        for k in [k for k, v in self.names.items() if v == did]:
            del self.names[k]
        obj = self.env.pop(did, None) or self.slots.pop(did, None)
        if obj in self.order:
            self.order.remove(obj)

    def wrote(self, obj):
        for s in self.wstack:
            s.add(obj)

    def use_array(self, name, t):
        if name not in self.arrays:
            self.arrays.append(name)
            self.arrays.sort(key=ROW_ARRAYS.index)
        if self.array_t.setdefault(name, t) != t:
            raise Unsupported("array %s used at two element types" % name)

    def note(self, lst, n, what):
        lst.append({"fn": self.lean_name, "file": self.tr.short(n.get("_file")), "line": n.get("_line"), "what": what,
                    "source": self.tr.source_line(n.get("_file"), n.get("_line"))})

    # ---------- the modulus index
    def is_cm(self, n):
        if n.get("kind") == "ImplicitCastExpr" and n.get("castKind") == "LValueToRValue":
            self.count(n)
            n = self.strip_paren(n["inner"][0])
        if n.get("kind") == "DeclRefExpr" and n.get("referencedDecl", {}).get("id") in self.cm_ids:
            self.count(n)
            if n["referencedDecl"]["id"] == self.cm_main:
                self.cm_seen += 1                   # uses of the modulus counter consumed as slice index / modulus argument
            return True
        return False

    # ---------- integer expressions
    def binop(self, n, op, a, b, t):
        if t == U64 and op in ("+", "-", "*"):
            self.note(self.tr.size_t_sites, n, "unsigned long " + op)
        return g.Fn.binop(self, n, op, a, b, t)

    def symbolic(self, rd, at):
        d = self.tr.byid.get(rd.get("id"))
        par = (d or {}).get("_parent") or {}
        name = rd.get("name")
        if par.get("kind") != "ClassTemplateSpecializationDecl":
            return None
        if par.get("name") == "poly" and name == "degree":
            self.syms.add(name)
            return Val(name, ctype(at), atom=True)
        if par.get("name") == "poly" and name == "nmoduli":
            fail(at, "use of nmoduli inside the per-modulus code")
        if par.get("name") == "params" and name == "kMaxPolyDegree":
            self.syms.add(name)
            return Val(name, ctype(at), atom=True)
        if par.get("name") == "static_log2" and name == "value":
            a = c.targs(par)
            if len(a) != 1:
                fail(at, "static_log2 arguments")
            N = int(a[0]) % 2 ** 64
            cands = [k for k in SYM_ORDER if self.inst[k] == N]
            if len(cands) != 1:
                fail(at, "static_log2<%d>: cannot tell which constant the argument is (instantiation %r)" % (N, self.inst))
            self.syms.add(cands[0])
            self.tr.log2_used.add(N)
            return Val("static_log2 %s" % cands[0], ctype(at))
        return None

    def member(self, n):
        """Slot / Var of `this->F`"""
        if n.get("kind") != "MemberExpr":
            fail(n, "array base is not a data member")
        self.count(n)
        obj = n["inner"][0] if n.get("inner") else {}
        if not n.get("isArrow") or obj.get("kind") != "CXXThisExpr":
            fail(n, "member access that is not this->member")
        self.count(obj)
        fid = n.get("referencedMemberDecl")
        o = self.slots.get(fid) or self.env.get(fid)
        if o is None:
            fail(n, "member %r is not a translated data member of class core" % n.get("name"))
        return o

    def decay(self, n):
        if not (n.get("kind") == "ImplicitCastExpr" and n.get("castKind") == "ArrayToPointerDecay"):
            fail(n, "array base")
        self.count(n)
        return self.strip_paren(n["inner"][0])

    def slice_of(self, n):
        """`this->F[cm]`: the object standing for the slice of the member F (n = the ArraySubscriptExpr)"""
        if n.get("kind") != "ArraySubscriptExpr":
            fail(n, "not a slice F[currentModulus] of a data member")
        self.count(n)
        base, idx = n["inner"]
        o = self.member(self.decay(base))
        if not self.is_cm(idx):
            fail(idx, "first index of a data member is not the modulus counter")
        return o

    def index_val(self, idx):
        i = self.expr(idx)
        if i.t[0] != "U":
            fail(idx, "array index of type %s" % g.tyname(i.t))
        return i

    def load(self, n):
        n = self.strip_paren(n)
        k = n.get("kind")
        if k == "DeclRefExpr":
            rd = n.get("referencedDecl", {})
            if rd.get("id") not in self.env and rd.get("kind") == "VarDecl":
                v = self.symbolic(rd, n)
                if v is not None:
                    self.count(n)
                    return v
            return g.Fn.load(self, n)
        if k == "ArraySubscriptExpr":
            base, idx = n["inner"]
            b = base["inner"][0] if base.get("kind") == "ImplicitCastExpr" and base.get("inner") else {}
            b = self.strip_paren(b)
            if b.get("kind") == "DeclRefExpr":                       # params<T>::X[cm]
                self.count(n)
                ref = self.decay(base)
                self.count(ref)
                rd = ref.get("referencedDecl", {})
                decl = self.tr.byid.get(rd.get("id"))
                owner = decl.get("_parent") if decl else None
                name = rd.get("name")
                if name not in ROW_ARRAYS or not owner or owner.get("name") != "params" or owner.get("kind") != "ClassTemplateSpecializationDecl" \
                        or c.targs(owner) != [self.tr.cname[self.suffix]]:
                    fail(ref, "array %r is not one of nfl::params<T>::%s" % (name, " / ".join(ROW_ARRAYS)))
                if not self.is_cm(idx):
                    fail(idx, "index of params<T>::%s is not the modulus counter" % name)
                t = ctype(n)
                if t != ("U", self.w):
                    fail(n, "element type of params<T>::%s" % name)
                self.use_array(name, t)
                return Val(name + "_cm", t, atom=True)
            if b.get("kind") == "MemberExpr":                        # F[cm]  (scalar member)
                o = self.slice_of(n)
                if not isinstance(o, Var):
                    fail(n, "value of a slice that is not a scalar")
                if ctype(n) != o.t:
                    fail(n, "type of the member")
                if not o.init:
                    fail(n, "read of %s[cm] before it is assigned" % o.name)
                return Val(o.name, o.t, atom=True)
            if b.get("kind") == "ArraySubscriptExpr":                # F[cm][e]
                self.count(n)
                o = self.slice_of(self.decay(base))
                if not isinstance(o, Slot) or o.kind != "row":
                    fail(n, "element access into something that is not a row of words")
                i = self.index_val(idx)
                t = ctype(n)
                if t != ("U", self.w):
                    fail(n, "element type")
                return Val("CSemInit.load %s %s" % (o.name, i.p()), t)
        fail(n, "unknown lvalue")

    def expr(self, n):
        if n.get("kind") == "CallExpr":
            return self.call_value(n)
        if n.get("kind") == "CXXOperatorCallExpr":
            kind, name, did = c.callee_decl(n)
            if did not in self.tr.by_method:
                self.count(n)
                m = self.tr.byid.get(did) or {}
                par = (m.get("_parent") or {})
                fail(n, "call of %s %s::%s is not translated (only nfl::ops::mulmod<T, simd::serial>::operator())" % (kind, par.get("name"), name))
        return g.Fn.expr(self, n)

    def call_value(self, n):
        kind, name, did = c.callee_decl(n)
        for x in (n, n["inner"][0], n["inner"][0]["inner"][0]):
            self.count(x)
        args = n["inner"][1:]
        m = self.tr.byid.get(did)
        par = (m or {}).get("_parent") or {}
        if kind == "CXXMethodDecl" and name == "get_modulus" and m and par.get("kind") == "ClassTemplateSpecializationDecl" and par.get("name") == "poly" \
                and c.has_body(m) and c.targs(par) == [self.tr.cname[self.suffix], self.inst["degree"], self.inst["nmoduli"]]:
            prms = [x for x in m.get("inner", []) if x.get("kind") == "ParmVarDecl"]
            st = c.body_of(m).get("inner", [])
            if len(prms) != 1 or len(args) != 1 or len(st) != 1 or st[0].get("kind") != "ReturnStmt":
                fail(n, "get_modulus is not a single return statement of one parameter")
            if not self.is_cm(args[0]):
                fail(args[0], "argument of get_modulus is not the modulus counter")
            for x in (m, prms[0], c.body_of(m), st[0]):
                self.count(x)
            self.cm_ids.add(prms[0]["id"])
            try:
                v = self.expr(st[0]["inner"][0])
            finally:
                self.cm_ids.discard(prms[0]["id"])
            if v.t != ctype(n):
                fail(n, "type of the inlined get_modulus")
            return v
        fail(n, "call of %s %r in a value position is not translated" % (kind, name))

    # ---------- pointers (element offsets into a statically known row)
    def ptr_expr(self, n):
        """(base Slot, offset text) of a prvalue of type value_type*"""
        n = self.strip_paren(n)
        k = n.get("kind")
        self.count(n)
        if k == "ImplicitCastExpr" and n.get("castKind") == "ArrayToPointerDecay":
            o = self.slice_of(self.strip_paren(n["inner"][0]))
            if not isinstance(o, Slot) or o.kind != "row":
                fail(n, "pointer to something that is not a row of words")
            return o, "0"
        if k == "ImplicitCastExpr" and n.get("castKind") == "LValueToRValue":
            lv = self.strip_paren(n["inner"][0])
            if lv.get("kind") == "DeclRefExpr":
                self.count(lv)
                o = self.slots.get(lv.get("referencedDecl", {}).get("id"))
            else:
                o = self.slice_of(lv)
            if not isinstance(o, Slot) or o.kind != "ptr":
                fail(n, "pointer value that is not a translated pointer")
            if not o.init:
                fail(n, "read of the pointer %s before it is assigned" % o.name)
            return o.base, o.name
        if k == "BinaryOperator" and n.get("opcode") == "+":
            b, off = self.ptr_expr(n["inner"][0])
            i = self.index_val(n["inner"][1])
            self.note(self.tr.ptr_sites, n, "pointer + integer (no wrap: leaving the array is undefined in C++)")
            return b, "CSemInit.ptrAdd %s %s" % (off if re.fullmatch(r"\w+", off) else "(" + off + ")", i.p())
        fail(n, "pointer expression")

    def is_ptr_type(self, n):
        q = (n.get("type") or {}).get("qualType", "")
        return q.endswith("*")

    # ---------- statements
    def with_scope(self, lst, ind):
        before = set(self.env) | set(self.slots)
        outer = list(self.order)
        w = set()
        self.wstack.append(w)
        lines = self.stmts(lst, ind)
        self.wstack.pop()
        for did in [d for d in list(self.env) + list(self.slots) if d not in before]:
            self.drop(did)
        return lines, [o for o in outer if o in w]

    def block_list(self, n):
        if n.get("kind") == "CompoundStmt":
            self.count(n)
            return n.get("inner", [])
        return [n]

    tuple_of = staticmethod(c.CrtFn.tuple_of)
    unpack = staticmethod(c.CrtFn.unpack)

    def check_init(self, objs, at, what):
        for o in objs:
            if not o.init:
                fail(at, "%s assigns %s, which holds no value before it" % (what, o.name))

    def assign(self, s, pad, out):
        lhs = self.strip_paren(s["inner"][0])
        rhs = s["inner"][1]
        k = lhs.get("kind")
        out.append("%s-- %s" % (pad, self.src(s)))
        if k == "UnaryOperator" and lhs.get("opcode") == "*":                         # *q++ = v
            self.count(lhs)
            inc = self.strip_paren(lhs["inner"][0])
            if not (inc.get("kind") == "UnaryOperator" and inc.get("opcode") == "++" and inc.get("isPostfix")):
                fail(lhs, "store through a pointer that is not `*q++ = v`")
            self.count(inc)
            ref = self.strip_paren(inc["inner"][0])
            q = self.slots.get(ref.get("referencedDecl", {}).get("id")) if ref.get("kind") == "DeclRefExpr" else None
            if q is None or q.kind != "ptr":
                fail(ref, "incremented object is not a pointer parameter")
            self.count(ref)
            if ref["referencedDecl"]["id"] in refs(rhs):
                fail(s, "the stored value reads the pointer it is stored through")
            if not q.init:
                fail(ref, "pointer without a value")
            v = self.expr(rhs)
            if v.t != ("U", self.w) or ctype(s) != v.t:
                fail(s, "type of the stored word")
            out.append("%slet %s := CSemInit.store %s %s (%s)" % (pad, q.base.name, q.base.name, q.name, v.s))
            out.append("%slet %s := CSemInit.ptrAdd %s 1" % (pad, q.name, q.name))
            self.note(self.tr.ptr_sites, s, "*%s++ = …: store at the offset, then offset + 1" % q.name)
            self.wrote(q.base)
            self.wrote(q)
            return
        if k == "ArraySubscriptExpr":
            base, idx = lhs["inner"]
            b = self.strip_paren(base["inner"][0]) if base.get("kind") == "ImplicitCastExpr" and base.get("inner") else {}
            if b.get("kind") == "ArraySubscriptExpr":                                   # F[cm][e] = v
                self.count(lhs)
                o = self.slice_of(self.decay(base))
                if not isinstance(o, Slot) or o.kind != "row":
                    fail(lhs, "element store into something that is not a row of words")
                i = self.index_val(idx)
                v = self.expr(rhs)
                if v.t != ("U", self.w) or ctype(s) != v.t:
                    fail(s, "type of the stored word")
                out.append("%slet %s := CSemInit.store %s %s (%s)" % (pad, o.name, o.name, i.p(), v.s))
                self.wrote(o)
                return
            o = self.slice_of(lhs)                                                      # F[cm] = …
            if isinstance(o, Slot) and o.kind == "ptr":
                if not self.is_ptr_type(s):
                    fail(s, "pointer assignment type")
                b_, off = self.ptr_expr(rhs)
                if o.base is not None and o.base is not b_:
                    fail(s, "the pointer %s is made to point into two different rows (%s, %s)" % (o.name, o.base.name, b_.name))
                o.base, o.init = b_, True
                out.append("%slet %s := %s" % (pad, o.name, off))
                self.wrote(o)
                return
            if isinstance(o, Var):
                v = self.expr(rhs)
                if v.t != o.t or ctype(s) != o.t:
                    fail(s, "assignment type")
                o.init = True
                out.append("%slet %s := %s" % (pad, o.name, v.s))
                self.wrote(o)
                return
            fail(lhs, "assignment to a whole row")
        var = self.target(lhs)
        v = self.expr(rhs)
        if v.t != var.t or ctype(s) != var.t:
            fail(s, "assignment type")
        var.init = True
        self.wrote(var)
        out.append("%slet %s := %s" % (pad, var.name, v.s))

    def stmts(self, lst, ind):
        out = []
        pad = "  " * ind
        for s in lst:
            while s.get("kind") == "ExprWithCleanups":
                self.count(s)
                s = s["inner"][0]
            k = s.get("kind")
            if k == "NullStmt":
                self.count(s)
                continue
            if k == "DeclStmt":
                self.count(s)
                for d in s["inner"]:
                    self.count(d)
                    if d.get("kind") in ("TypeAliasDecl", "TypedefDecl", "StaticAssertDecl"):
                        continue
                    if d.get("kind") != "VarDecl" or d.get("storageClass"):
                        fail(d, "declaration")
                    e = [x for x in d.get("inner", []) if "kind" in x]
                    if not e and "init" not in d:
                        var = Var(self.new_name(d), ctype(d), False, None, g.is_const(d))
                        self.env[d["id"]] = var
                        self.order.append(var)
                        out.append("%s-- %s   (%s declared, no value yet)" % (pad, self.src(s), var.name))
                        continue
                    if d.get("init") != "c" or len(e) != 1:
                        fail(d, "initialisation style")
                    v = self.expr(e[0])
                    var = Var(self.new_name(d), ctype(d), True, None, g.is_const(d))
                    if v.t != var.t:
                        fail(d, "initialiser type")
                    if var.is_const:
                        var.const = v.const
                    self.env[d["id"]] = var
                    self.order.append(var)
                    out.append("%s-- %s" % (pad, self.src(s)))
                    out.append("%slet %s := %s" % (pad, var.name, v.s))
                continue
            if k == "BinaryOperator" and s.get("opcode") == "=":
                self.count(s)
                self.assign(s, pad, out)
                continue
            if k == "CompoundAssignOperator":
                self.count(s)
                var = self.target(s["inner"][0])
                if not var.init:
                    fail(s, "compound assignment to an uninitialised variable")
                op = s.get("opcode", "")
                if not op.endswith("=") or op[:-1] not in ("+", "-", "*", "/", "%"):
                    fail(s, "compound assignment %r" % op)
                lt = g.ctype_of_str(s.get("computeLHSType", {}).get("qualType", ""))
                rt = g.ctype_of_str(s.get("computeResultType", {}).get("qualType", ""))
                if not lt or not rt or lt != rt:
                    fail(s, "computation types of the compound assignment")
                a = self.convert(Val(var.name, var.t, atom=True), lt, s)
                b = self.expr(s["inner"][1])
                r = self.convert(self.binop(s, op[:-1], a, b, rt), var.t, s)
                self.wrote(var)
                out.append("%s-- %s" % (pad, self.src(s)))
                out.append("%slet %s := %s" % (pad, var.name, r.s))
                continue
            if k == "ForStmt":
                out += self.for_stmt(s, ind)
                continue
            if k == "WhileStmt":
                out += self.while_stmt(s, ind)
                continue
            if k == "CallExpr":
                out += self.call_stmt(s, ind)
                continue
            fail(s, "unknown statement")
        return out

    def assigned_ids(self, n, acc):
        """ids of variables assigned / incremented below n"""
        k = n.get("kind")
        if k == "CompoundAssignOperator" or (k == "BinaryOperator" and n.get("opcode") == "=") or (k == "UnaryOperator" and n.get("opcode") in ("++", "--")):
            t = c.unparen(n["inner"][0])
            rid = t.get("referencedDecl", {}).get("id")
            if rid:
                acc.add(rid)
        for x in n.get("inner", []):
            if isinstance(x, dict):
                self.assigned_ids(x, acc)
        return acc

    def for_stmt(self, s, ind):
        pad = "  " * ind
        self.count(s)
        parts = s["inner"]
        if len(parts) != 5 or (parts[1] or {}).get("kind"):
            fail(s, "for statement shape")
        init, _, cond, inc, body = parts
        ds = (init or {}).get("inner", [])
        if (init or {}).get("kind") != "DeclStmt" or len(ds) != 1 or ds[0].get("kind") != "VarDecl" or ds[0].get("init") != "c":
            fail(s, "loop initialisation is not `unsigned-type v = 0`")
        d = ds[0]
        self.count(init)
        self.count(d)
        e = [x for x in d.get("inner", []) if "kind" in x]
        v0 = self.expr(e[0])
        ct = ctype(d)
        if ct[0] != "U" or v0.const != 0:
            fail(d, "loop initialisation is not `unsigned-type v = 0`")
        var = Var(self.new_name(d), ct, True, None, True)       # is_const: the body may not assign it
        self.env[d["id"]] = var
        if not (cond and cond.get("kind") == "BinaryOperator" and cond.get("opcode") == "<"):
            fail(s, "loop condition is not `v < bound`")
        self.count(cond)
        lhs = self.expr(cond["inner"][0])
        bound = self.expr(cond["inner"][1])
        widened = "CSem.castU %d %s" % (bound.t[1], var.name)
        if bound.t[0] != "U" or lhs.t != bound.t or bound.t[1] < ct[1] or lhs.s not in (var.name, widened):
            fail(cond, "loop condition is not `v < bound` with the counter (value-preservingly widened) on the left")
        asg = self.assigned_ids(body, set())
        if d["id"] in asg:
            fail(s, "the loop body assigns the counter")
        bad = [x for x in refs(cond["inner"][1]) if x in asg]
        if bad:
            fail(cond, "the loop bound depends on a variable the body assigns")
        if not (inc and inc.get("kind") == "UnaryOperator" and inc.get("opcode") == "++"
                and c.unparen(inc["inner"][0]).get("referencedDecl", {}).get("id") == d["id"]):
            fail(s, "loop increment is not `v++`")
        self.count(inc)
        self.count(c.unparen(inc["inner"][0]))
        lines, objs = self.with_scope(self.block_list(body), ind + 3)
        self.drop(d["id"])
        if not objs:
            fail(s, "loop without effect on the translated state")
        self.check_init(objs, s, "the loop body")
        for o in objs:
            self.wrote(o)
        self.note(self.tr.counter_sites, s, "%d-bit counter %s below %s: the C++ loop terminates only if the bound is < 2^%d (forCount: fuel = the bound, counter wraps)"
                  % (ct[1], var.name, bound.s, ct[1]))
        tup = self.tuple_of(objs)
        st = objs[0].name if len(objs) == 1 else "st"
        out = ["%s-- %s" % (pad, self.src(s)),
               "%slet %s := CSemInit.forCount %d %s (fun %s %s =>" % (pad, st, ct[1], bound.p(), st, var.name)]
        out += self.unpack(objs, "st", pad + "      ")
        out += lines
        out.append("%s      %s) %s" % (pad, tup, tup))
        out += self.unpack(objs, "st", pad)
        return out

    def while_stmt(self, s, ind):
        pad = "  " * ind
        self.count(s)
        parts = s["inner"]
        if s.get("hasVar") or len(parts) != 2:
            fail(s, "while statement shape")
        cond, body = parts
        # termination pattern: while (K >= c) { …; K /= d; }
        if not (cond.get("kind") == "BinaryOperator" and cond.get("opcode") == ">="):
            fail(s, "while loop whose condition is not `K >= constant` (no bound on its iterations known to the translator)")
        kref = cond["inner"][0]
        while kref.get("kind") in ("ImplicitCastExpr", "ParenExpr") and kref.get("castKind", "LValueToRValue") == "LValueToRValue":
            kref = kref["inner"][0]
        kid = kref.get("referencedDecl", {}).get("id") if kref.get("kind") == "DeclRefExpr" else None
        K = self.env.get(kid)
        if K is None or K.t[0] != "U" or K.t[1] > 32 or not K.init:
            fail(cond, "while loop whose condition is not `K >= constant` on an unsigned variable of at most 32 bits")
        blist = body.get("inner", []) if body.get("kind") == "CompoundStmt" else [body]
        last = strip_cleanups(blist[-1]) if blist else {}
        asg_rest = set()
        for x in blist[:-1]:
            self.assigned_ids(x, asg_rest)
        if not (last.get("kind") == "CompoundAssignOperator" and last.get("opcode") == "/=" and
                c.unparen(last["inner"][0]).get("referencedDecl", {}).get("id") == kid) or kid in asg_rest:
            fail(s, "while loop that is not `while (K >= c) { …; K /= d; }` with K assigned only by the last statement")
        # condition (translated in the scope of the loop state)
        cv = self.expr(cond)
        cc = self.expr_const(cond["inner"][1])
        dd = self.expr_const(last["inner"][1])
        if cc is None or cc < 1 or dd is None or dd < 2:
            fail(s, "while loop `K >= c … K /= d` needs constants c ≥ 1, d ≥ 2")
        lines, objs = self.with_scope(self.block_list(body), ind + 3)
        if K not in objs:
            fail(s, "loop variable not assigned")
        self.check_init(objs, s, "the loop body")
        for o in objs:
            self.wrote(o)
        self.tr.while_sites.append({"fn": self.lean_name, "file": self.tr.short(s.get("_file")), "line": s.get("_line"), "fuel": WHILE_FUEL,
                                    "why": "%s is a %d-bit value divided by %d in every iteration: 0 after at most %d iterations, and `%s >= %d` is false at 0"
                                           % (K.name, K.t[1], dd, K.t[1], K.name, cc)})
        tup = self.tuple_of(objs)
        st = objs[0].name if len(objs) == 1 else "st"
        out = ["%s-- %s" % (pad, self.src(s)),
               "%s--   fuel %d: %s (%d bits) is divided by %d in every iteration and `%s >= %d` is false at 0" % (pad, WHILE_FUEL, K.name, K.t[1], dd, K.name, cc),
               "%slet %s := CSem.whileFuel (fun %s =>" % (pad, st, st)]
        out += self.unpack(objs, "st", pad + "      ")
        out.append("%s      %s)" % (pad, cv.s))
        out.append("%s    (fun %s =>" % (pad, st))
        out += self.unpack(objs, "st", pad + "      ")
        out += lines
        out.append("%s      %s) %d %s" % (pad, tup, WHILE_FUEL, tup))
        out += self.unpack(objs, "st", pad)
        return out

    def expr_const(self, n):
        saved = self.nodes
        kinds = dict(self.tr.kinds)
        try:
            v = g.Fn.expr(self, n)
        finally:
            self.nodes, self.tr.kinds = saved, kinds
        return v.const

    def call_stmt(self, s, ind):
        pad = "  " * ind
        kind, name, did = c.callee_decl(s)
        for x in (s, s["inner"][0], s["inner"][0]["inner"][0]):
            self.count(x)
        callee = self.tr.prep.get((self.suffix, self.inst["degree"], self.inst["nmoduli"]))
        if kind != "CXXMethodDecl" or callee is None or did != callee.method["id"]:
            m = self.tr.byid.get(did) or {}
            fail(s, "call of %s %r is not translated (only core::prep_wtab of the same instantiation)" % (kind, name))
        args = s["inner"][1:]
        if len(args) != 4 or c.qual(s) != "void":
            fail(s, "prep_wtab call shape")
        b1, o1 = self.ptr_expr(args[0])
        b2, o2 = self.ptr_expr(args[1])
        if b1 is not b2:
            fail(s, "the two pointer arguments of prep_wtab point into different arrays (%s, %s): the translation of prep_wtab reads them as offsets into one array"
                 % (b1.name, b2.name))
        if not b1.init:
            fail(s, "row without a value")
        w = self.expr(args[2])
        if w.t != ("U", self.w):
            fail(args[2], "argument type")
        if not self.is_cm(args[3]):
            fail(args[3], "last argument of prep_wtab is not the modulus counter")
        for sym in callee.syms:
            self.syms.add(sym)
        for arr in callee.arrays:
            self.use_array(arr, callee.array_t[arr])
        head = [callee.lean_name] + [x for x in SYM_ORDER if x in callee.syms] + [a + "_cm" for a in callee.arrays]
        self.wrote(b1)
        return ["%s-- %s" % (pad, self.src(s)),
                "%slet %s := %s %s %s %s %s" % (pad, b1.name, " ".join(head), b1.name, o1 if re.fullmatch(r"\w+", o1) else "(" + o1 + ")",
                                               o2 if re.fullmatch(r"\w+", o2) else "(" + o2 + ")", w.p())]

    # ---------- whole functions
    def translate_prep(self, m):
        self.method = m
        self.count(m)
        prms = [x for x in m.get("inner", []) if x.get("kind") == "ParmVarDecl"]
        other = [x for x in m.get("inner", []) if x.get("kind") not in ("ParmVarDecl", "CompoundStmt")]
        if other or len(prms) != 4 or m.get("storageClass") != "static":
            fail(m, "prep_wtab shape")
        mem = Slot("mem", "row", True)
        self.order.append(mem)
        self.mem = mem
        vt = "nfl::poly<%s, %d, %d>::value_type" % (self.tr.cname[self.suffix], self.inst["degree"], self.inst["nmoduli"])
        self.cparams = []
        for p in prms[:2]:
            self.count(p)
            if c.qual(p) not in (vt + " *", self.tr.cname[self.suffix] + " *"):
                fail(p, "parameter of type %r" % c.qual(p))
            sl = Slot(self.new_name(p), "ptr", True, base=mem)
            self.slots[p["id"]] = sl
            self.order.append(sl)
            self.cparams.append(sl)
        self.count(prms[2])
        wv = Var(self.new_name(prms[2]), ctype(prms[2]), True)
        if wv.t != ("U", self.w):
            fail(prms[2], "parameter type")
        self.env[prms[2]["id"]] = wv
        self.order.append(wv)
        self.cparams.append(wv)
        cm = prms[3]
        self.count(cm)
        if cm.get("name") != "cm" or c.qual(cm) != "unsigned long":
            fail(cm, "last parameter is not `size_t cm`")
        self.cm_ids.add(cm["id"])
        body = c.body_of(m)
        self.count(body)
        w = set()
        self.wstack.append(w)
        lines = self.stmts(body.get("inner", []), 1)
        self.wstack.pop()
        self.ret = [o for o in self.order if o in w or o in self.cparams or o is mem]
        self.body_lines = lines + ["  " + self.tuple_of(self.ret)]
        return self

    def render_prep(self):
        syms = [x for x in SYM_ORDER if x in self.syms]
        ps = "(%s : Nat) (mem : List Nat) (%s : Nat)" % (" ".join(syms + [a + "_cm" for a in self.arrays]), " ".join(o.name for o in self.cparams))
        ret_ty = " × ".join("List Nat" if (isinstance(o, Slot) and o.kind == "row") else "Nat" for o in self.ret)
        doc = ["/-- `nfl::poly<T,Degree,NbModuli>::core::prep_wtab(value_type* wtab, value_type* wtabshoup, value_type w, size_t cm)`  (%s:%s), T = %s."
               % (self.tr.short(self.method.get("_file")), self.method.get("_line"), self.tr.cname[self.suffix]),
               "`mem` = the array both pointers point into, `%s`, `%s` = their element offsets; `get_modulus(cm)` = P[cm] (inlined from poly.hpp)."
               % (self.cparams[0].name, self.cparams[1].name),
               "Result: the final values of (%s). -/" % ", ".join(o.name for o in self.ret)]
        a = "\n".join(doc + ["def %s_state %s : %s :=" % (self.lean_name, ps, ret_ty)] + self.body_lines)
        args = " ".join(syms + [x + "_cm" for x in self.arrays] + ["mem"] + [o.name for o in self.cparams])
        b = "/-- the effect of `prep_wtab` visible to its caller: the array -/\ndef %s %s : List Nat :=\n  (%s_state %s).1" % (self.lean_name, ps, self.lean_name, args)
        return a + "\n\n" + b

    def setup_fields(self, cls, poly):
        vt_pat = re.compile(r"^nfl::poly<[^>]*>::value_type( \*)?((?:\[\d+\])+)$")
        for f in cls.get("inner", []):
            if f.get("kind") != "FieldDecl":
                continue
            name = f["name"]
            if name in RESERVED or name in g.LEAN_KEYWORDS:
                fail(f, "member name %r clashes with a name of the generated code" % name)
            q = f["type"].get("qualType", "")
            mt = vt_pat.match(q)
            et = self.tr.typedefs.get((poly["id"], "value_type"))
            if not mt or et != ("U", self.w):
                fail(f, "data member of type %r" % q)
            dims = [int(x) for x in re.findall(r"\[(\d+)\]", mt.group(2))]
            if dims[0] != self.inst["nmoduli"]:
                fail(f, "first extent %d of %s is not nmoduli" % (dims[0], name))
            if mt.group(1):
                if len(dims) != 1:
                    fail(f, "pointer member shape")
                o = Slot(name, "ptr", False)
                ty, ext = "Nat", None
            elif len(dims) == 1:
                o = Var(name, ("U", self.w), False)
                ty, ext = "Nat", None
            elif len(dims) == 2:
                D = self.inst["degree"]
                ext = {D: "degree", 2 * D: "2 * degree"}.get(dims[1])
                if ext is None:
                    fail(f, "second extent %d of %s is neither degree nor 2*degree" % (dims[1], name))
                o = Slot(name, "row", True, extent=ext)
                ty = "List Nat"
            else:
                fail(f, "data member of type %r" % q)
            (self.env if isinstance(o, Var) else self.slots)[f["id"]] = o
            self.names[name] = f["id"]
            self.order.append(o)
            self.fields.append((name, ty, o, ext))

    def translate_init(self, m, cls, poly):
        self.method = m
        self.count(m)
        if [x for x in m.get("inner", []) if x.get("kind") != "CompoundStmt"] or m.get("storageClass"):
            fail(m, "initialize shape")
        self.setup_fields(cls, poly)
        body = c.body_of(m)
        self.count(body)
        st = body.get("inner", [])
        if len(st) != 1 or st[0].get("kind") != "ForStmt":
            fail(body, "initialize() is not a single `for (currentModulus …)` loop")
        s = st[0]
        self.count(s)
        parts = s["inner"]
        if len(parts) != 5 or (parts[1] or {}).get("kind"):
            fail(s, "for statement shape")
        init, _, cond, inc, lbody = parts
        ds = (init or {}).get("inner", [])
        if (init or {}).get("kind") != "DeclStmt" or len(ds) != 1 or ds[0].get("kind") != "VarDecl" or ds[0].get("init") != "c":
            fail(s, "outer loop initialisation is not `size_t v = 0`")
        d = ds[0]
        e = [x for x in d.get("inner", []) if "kind" in x]
        if ctype(d) != U64 or g.Fn.expr(self, e[0]).const != 0:
            fail(d, "outer loop initialisation is not `size_t v = 0`")
        self.count(init)
        self.count(d)
        ok = cond and cond.get("kind") == "BinaryOperator" and cond.get("opcode") == "<"
        if ok:
            l, r = cond["inner"]
            lref = l["inner"][0] if l.get("kind") == "ImplicitCastExpr" and l.get("castKind") == "LValueToRValue" else {}
            rref = r["inner"][0] if r.get("kind") == "ImplicitCastExpr" and r.get("castKind") == "LValueToRValue" else {}
            rd = self.tr.byid.get(rref.get("referencedDecl", {}).get("id")) or {}
            ok = lref.get("referencedDecl", {}).get("id") == d["id"] and rref.get("referencedDecl", {}).get("name") == "nmoduli" and \
                ((rd.get("_parent") or {}).get("id") == poly["id"])
            for x in (cond, l, lref, r, rref):
                self.count(x)
        if not ok:
            fail(s, "outer loop condition is not `v < nmoduli`")
        if not (inc and inc.get("kind") == "UnaryOperator" and inc.get("opcode") == "++" and c.unparen(inc["inner"][0]).get("referencedDecl", {}).get("id") == d["id"]):
            fail(s, "outer loop increment is not `++v`")
        self.count(inc)
        self.count(c.unparen(inc["inner"][0]))
        if d["id"] in self.assigned_ids(lbody, set()):
            fail(s, "the outer loop body assigns the modulus counter")
        self.cm_ids.add(d["id"])
        self.cm_main = d["id"]
        self.cm_name = d.get("name")
        # every use of the counter must be one the translation has consumed as `[cm]` / `cm` argument: counted below
        uses_before = self.count_cm_uses(lbody, d["id"])
        self.cm_seen = 0
        w = set()
        self.wstack.append(w)
        lines = self.stmts(self.block_list(lbody), 1)
        self.wstack.pop()
        if self.cm_seen != uses_before:
            fail(s, "%d of the %d uses of the modulus counter are not slice indices / modulus arguments" % (uses_before - self.cm_seen, uses_before))
        for name, ty, o, ext in self.fields:
            if not o.init:
                fail(m, "the loop body leaves %s[cm] without a value" % name)
        self.body_lines = lines + ["  { " + ", ".join("%s := %s" % (n, n) for n, _, _, _ in self.fields) + " }"]
        return self

    def count_cm_uses(self, n, did):
        k = 0
        if isinstance(n, dict):
            if n.get("kind") == "DeclRefExpr" and n.get("referencedDecl", {}).get("id") == did:
                k += 1
            for x in n.get("inner", []):
                k += self.count_cm_uses(x, did)
        return k

    def render_init(self):
        syms = [x for x in SYM_ORDER if x in self.syms]
        ps = "(%s : Nat) (s : InitRow)" % " ".join(syms + [a + "_cm" for a in self.arrays])
        doc = ["/-- body of the `for (size_t %s = 0; %s < nmoduli; ++%s)` loop of `nfl::poly<T,Degree,NbModuli>::core::initialize()`  (%s:%s), T = %s:"
               % (self.cm_name, self.cm_name, self.cm_name, self.tr.short(self.method.get("_file")), self.method.get("_line"), self.tr.cname[self.suffix]),
               "`s` = the slice `[%s]` of the data members before the iteration, `X_cm` = `params<T>::X[%s]`.  Result: the slice after it. -/" % (self.cm_name, self.cm_name)]
        unpack = ["  let %s := s.%s" % (n, n) for n, ty, o, _ in self.fields if isinstance(o, Slot) and o.kind == "row"]
        return "\n".join(doc + ["def %s %s : InitRow :=" % (self.lean_name, ps)] + unpack + self.body_lines)

    def fields_text(self):
        lines = ["/-- the slice `[cm]` of the data members of `nfl::poly<T,Degree,NbModuli>::core` (poly.hpp): a row of words = List Nat,",
                 "a `value_type*` member = its element offset into the row it is made to point into by initialize() (%s) -/"
                 % ", ".join("%s -> %s" % (n, o.base.name) for n, _, o, _ in self.fields if isinstance(o, Slot) and o.kind == "ptr" and o.base is not None),
                 "structure InitRow where"]
        for name, ty, o, ext in self.fields:
            lines.append("  %s : %s" % (name, ty))
        lines.append("")
        lines.append("/-- the extents of the declarations (poly.hpp): `value_type F[nmoduli][extent]` -/")
        lines.append("def InitRow.wf (degree : Nat) (s : InitRow) : Prop :=")
        lines.append("  " + " ∧ ".join("s.%s.length = %s" % (n, ext) for n, _, o, ext in self.fields if ext))
        return "\n".join(lines)


# ------------------------------------------------------------------------------------------------ driver
class InitTranslator(g.Translator):
    def load(self, txt):
        self.byid = g.annotate(g.parse_objects(txt))
        self.typedefs = {}
        for n in self.byid.values():
            if n.get("kind") in ("TypeAliasDecl", "TypedefDecl") and n.get("name"):
                t = n.get("type", {})
                cc = g.ctype_of_str(t.get("desugaredQualType", t.get("qualType", "")))
                par = n.get("_parent") or {}
                if cc and par.get("kind") in ("ClassTemplateSpecializationDecl", "CXXRecordDecl"):
                    self.typedefs.setdefault((par.get("id"), n["name"]), cc)
        self.size_t_sites, self.ptr_sites, self.counter_sites, self.while_sites, self.log2_used = [], [], [], [], set()
        self.prep, self.mulmod = {}, {}

    const_eval = c.CrtTranslator.const_eval

    def kmax_of(self, cname):
        for n in self.byid.values():
            if n.get("kind") == "ClassTemplateSpecializationDecl" and n.get("name") == "params" and c.targs(n) == [cname] and "inner" in n:
                for v in n["inner"]:
                    if v.get("kind") == "VarDecl" and v.get("name") == "kMaxPolyDegree":
                        return self.global_const({"id": v["id"], "name": v["name"]}, v)
        raise Unsupported("nfl::params<%s>::kMaxPolyDegree not found" % cname)

    def translate_mulmod(self):
        """re-translate nfl::ops::mulmod<T, serial>::operator() from THIS AST with gen_ops_ast's code; it must be the text of OpsAst.lean"""
        try:
            ops_text = open(OPS_LEAN).read()
        except OSError:
            raise Unsupported("Generated/OpsAst.lean not found: run tools/gen_ops_ast.py first")
        for n in list(self.byid.values()):
            if n.get("kind") != "ClassTemplateSpecializationDecl" or n.get("name") != "mulmod":
                continue
            par = n.get("_parent")
            if par is not None and par.get("kind") not in ("ClassTemplateDecl", "NamespaceDecl"):
                continue
            ta = [a.get("type", {}).get("qualType") for a in n.get("inner", []) if a.get("kind") == "TemplateArgument"]
            if len(ta) != 2 or ta[1] != "nfl::simd::serial":
                continue
            suf = [s for _, cn, s in g.TYPES if cn == ta[0]]
            ms = [x for x in n.get("inner", []) if x.get("kind") == "CXXMethodDecl" and x.get("name") == "operator()" and c.has_body(x)]
            if not suf or len(ms) != 1:
                continue
            if suf[0] in self.mulmod and self.mulmod[suf[0]].method["id"] != ms[0]["id"]:
                raise Unsupported("two instantiations of mulmod<%s, serial>" % ta[0])
            if suf[0] in self.mulmod:
                continue
            fn = g.Fn(self, "mulmod", suf[0], ms[0], n)
            kinds = dict(self.kinds)
            fn.translate()
            self.kinds = kinds                      # the functor's nodes are accounted for by gen_ops_ast
            if fn.render() not in ops_text:
                raise Unsupported("the translation of nfl::ops::mulmod<%s, simd::serial>::operator() from this AST is not the text of `%s` in "
                                  "Generated/OpsAst.lean (stale file: run tools/gen_ops_ast.py first)" % (ta[0], fn.lean_name))
            self.mulmod[suf[0]] = fn
            self.by_method[ms[0]["id"]] = fn
        for _, cn, s in g.TYPES:
            if s not in self.mulmod:
                raise Unsupported("no instantiated nfl::ops::mulmod<%s, simd::serial>::operator() found" % cn)

    def find(self, cname, deg, nm):
        found = []
        for n in self.byid.values():
            if n.get("kind") == "ClassTemplateSpecializationDecl" and n.get("name") == "poly" and c.targs(n) == [cname, deg, nm]:
                for x in n.get("inner", []):
                    if x.get("kind") == "CXXRecordDecl" and x.get("name") == "core" and any(y.get("kind") == "FieldDecl" for y in x.get("inner", [])):
                        found.append((x, n))
        found = list({x["id"]: (x, n) for x, n in found}.values())
        if len(found) != 1:
            raise Unsupported("%d definitions of nfl::poly<%s,%d,%d>::core found" % (len(found), cname, deg, nm))
        cls, poly = found[0]
        ms = {}
        for x in cls.get("inner", []):
            if x.get("kind") == "CXXMethodDecl" and x.get("name") in ("initialize", "prep_wtab") and c.has_body(x):
                ms.setdefault(x["name"], []).append(x)
        for k in ("initialize", "prep_wtab"):
            if len(ms.get(k, [])) != 1:
                raise Unsupported("%d instantiated bodies of nfl::poly<%s,%d,%d>::core::%s found" % (len(ms.get(k, [])), cname, deg, nm, k))
        return cls, poly, {k: v[0] for k, v in ms.items()}


def translate_inst(tr, cname, suf, deg, nm):
    w = int(suf[1:])
    cls, poly, ms = tr.find(cname, deg, nm)
    kmax = tr.kmax_of(cname)
    inst = {"degree": deg, "nmoduli": nm, "kMaxPolyDegree": kmax}
    if len({deg, 2 * deg, nm}) != 3 or kmax in (deg, 2 * deg, nm):
        raise Unsupported("instantiation <%s,%d,%d>: the constants degree, 2*degree, nmoduli, kMaxPolyDegree=%d must be pairwise different to be told apart" % (cname, deg, nm, kmax))
    p = InitFn(tr, "prep_wtab", suf, w, inst)
    p.translate_prep(ms["prep_wtab"])
    tr.prep[(suf, deg, nm)] = p
    f = InitFn(tr, "initialize_row", suf, w, inst)
    f.translate_init(ms["initialize"], cls, poly)
    return p, f


def make_tu():
    os.makedirs(g.BUILD, exist_ok=True)
    tu = os.path.join(g.BUILD, "init_ast_tu.cpp")
    lines = ['#include "nfl.hpp"']
    for t, _, suf in g.TYPES:
        lines.append("template struct nfl::ops::mulmod<%s, nfl::simd::serial>;" % t)
        for d, m in INSTS[suf]:
            lines.append("template void nfl::poly<%s, %d, %d>::core::initialize();" % (t, d, m))
    for N in c.LOG2_PROBES:
        lines.append("static_assert(nfl::static_log2<%dULL>::value < 64, \"\");" % N)
    open(tu, "w").write("\n".join(lines) + "\n")
    return tu


def log2_def_lines(text):
    """the two definitions (without doc comments / examples) of a static_log2 text"""
    return [l for l in text.splitlines() if l.startswith("def log2_impl") or l.startswith("  | ") or l.startswith("def static_log2")]


def main():
    repo = os.environ.get("VERIF_REPO", "/repo")
    out = OUT
    if "--repo" in sys.argv:
        repo = sys.argv[sys.argv.index("--repo") + 1]
    if "--out" in sys.argv:
        out = sys.argv[sys.argv.index("--out") + 1]
    repo = os.path.abspath(repo)
    txt = c.clang_ast(repo, make_tu())
    if "--keep" in sys.argv:
        open(os.path.join(g.BUILD, "init_ast_dump.json"), "w").write(txt)
    tr = InitTranslator(repo)
    try:
        tr.load(txt)
        tr.translate_mulmod()
        texts, first, fields = {}, [], None
        for _, cname, suf in g.TYPES:
            per = []
            for k, (d, m) in enumerate(INSTS[suf]):
                marks = [len(x) for x in (tr.size_t_sites, tr.ptr_sites, tr.counter_sites, tr.while_sites)]
                p, f = translate_inst(tr, cname, suf, d, m)
                per.append(p.render_prep() + "\n\n" + f.render_init())
                ft = f.fields_text()
                if fields is not None and ft != fields:
                    raise Unsupported("the data members of core differ between instantiations / limb types")
                fields = ft
                if k == 0:
                    first += [p, f]
                else:
                    for lst, mk in zip((tr.size_t_sites, tr.ptr_sites, tr.counter_sites, tr.while_sites), marks):
                        del lst[mk:]
                if per[k] != per[0]:
                    raise Unsupported("poly<%s,%d,%d> and poly<%s,%d,%d> do not translate to the same text up to the parameters degree / kMaxPolyDegree "
                                      "(a concrete value of the instantiation would be baked in)" % ((cname,) + INSTS[suf][0] + (cname, d, m)))
            texts[suf] = per[0]
        log2_text, log2_n = c.translate_log2(tr)
        try:
            crt = open(CRT_LEAN).read()
        except OSError:
            raise Unsupported("Generated/CrtAst.lean not found: run tools/gen_crt_ast.py first")
        mine = log2_def_lines(log2_text)
        theirs = log2_def_lines(crt.split("structure GmpState")[0])
        if mine != theirs or len(mine) != 4:
            raise Unsupported("meta.hpp: static_log2 as translated from this AST is not the definition in Generated/CrtAst.lean (stale file: run tools/gen_crt_ast.py first)")
    except Unsupported as e:
        msg = "gen_init_ast: UNSUPPORTED C++ construct, nothing translated: %s" % e
        sys.stderr.write(msg + "\n")
        print(json.dumps({"ok": False, "err": msg}))
        sys.exit(3)
    head = [
        "-- GENERATED by tools/gen_init_ast.py from clang++-14's typed AST of include/nfl/core.hpp (core::initialize(), core::prep_wtab),",
        "-- include/nfl/poly.hpp (class core, get_modulus) and include/nfl/meta.hpp (static_log2, checked against Generated/CrtAst.lean).  Do not edit.",
        "-- Instantiations poly<T,Degree,NbModuli>: " + "; ".join("%s: %s" % (t, ", ".join("<%d,%d>" % dm for dm in INSTS[s])) for t, _, s in g.TYPES) +
        " — for every T both give the text below",
        "-- (degree, kMaxPolyDegree and the table row P_cm, Pn_cm, primitive_roots_cm, invkMaxPolyDegree_cm are parameters).  One `let` per C++ statement;",
        "-- `mulmod_uW` is Generated/OpsAst.lean's translation of ops::mulmod<T,simd::serial>; integer expressions use Model/CSem.lean; rows, pointers",
        "-- (element offsets) and counted loops use Model/CSemInit.lean; `while (K >= 2) { …; K /= 2; }` is CSem.whileFuel with fuel %d." % WHILE_FUEL,
        "import NflVerif.Model.CSem",
        "import NflVerif.Model.CSemInit",
        "import NflVerif.Generated.OpsAst",
        "import NflVerif.Generated.CrtAst",
        "namespace Nfl.Gen",
        "open Nfl",
        "set_option linter.unusedVariables false   -- a C++ variable that is dead after its last assignment",
        "",
    ]
    text = "\n".join(head) + "\n" + fields + "\n\n" + "\n\n".join(texts[s] for _, _, s in g.TYPES) + "\n\nend Nfl.Gen\n"
    changed = g.write_if_changed(out, text)
    uniq = lambda l: [json.loads(x) for x in dict.fromkeys(json.dumps(x) for x in l)]
    print(json.dumps({
        "ok": True, "functions": [f.lean_name for f in first] + ["InitRow", "InitRow.wf"], "nodes": sum(f.nodes for f in first),
        "node_kinds": dict(sorted(tr.kinds.items())), "instantiations_compared": {s: INSTS[s] for _, _, s in g.TYPES},
        "static_log2_specialisations_checked": log2_n, "mulmod_text_checked_against": os.path.relpath(OPS_LEAN, g.VERIF),
        "ub_div_sites": uniq(tr.div_sites), "ub_wrap_assumed": uniq(tr.ub_sites), "size_t_sites": uniq(tr.size_t_sites), "pointer_sites": uniq(tr.ptr_sites),
        "counter_sites": uniq(tr.counter_sites), "while_fuel": uniq(tr.while_sites),
        "not_translated": ["the for (currentModulus < nmoduli) loop of initialize() (shape checked: every member access is the slice [currentModulus])",
                           "core::core() (calls initialize())"],
        "sha": hashlib.sha256(text.encode()).hexdigest()[:16], "changed": changed,
        "out": os.path.relpath(out, g.VERIF), "repo": repo}))


if __name__ == "__main__":
    main()
